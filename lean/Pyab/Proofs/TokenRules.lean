/-
  C07/C08 (lexer half, tokens), part 3: for every shape of token lexeme, the rule of
  `Generated.lexState0` that wins on `lexeme ++ rest`.

  * `word_firstMatch`: identifier-shaped lexemes (keywords and `ID`);
  * `notIn_firstMatch`, `elif_firstMatch`: the two-word tokens, any inner white space;
  * `int_firstMatch`, `float_firstMatch` (Unicode `\d` lexemes), `str_firstMatch`;
  * `fixed_firstMatch`: a rule none of whose predecessors can start with the first character.
-/
import Pyab.Proofs.TokenLex
namespace Pyab.TokenLex
open Pyab Pyab.Re Pyab.Trivia

theorem blocked_of_all {pre : List LexRule} {c : Char}
    (h : pre.all (fun r => !firstOk T r.re c) = true) (bound : Nat) (prev : Option Char)
    (s : List Char) : ∀ r ∈ pre, matchPrefix T bound r.re prev (c :: s) = none := by
  intro r hr
  have := List.all_eq_true.1 h r hr
  exact matchPrefix_none_of_firstOk (by simpa using this)

theorem blocked_of_list {cs : List Char} {pre : List LexRule}
    (h : cs.all (fun c => pre.all (fun r => !firstOk T r.re c)) = true) {c : Char} (hc : c ∈ cs)
    (bound : Nat) (prev : Option Char) (s : List Char) :
    ∀ r ∈ pre, matchPrefix T bound r.re prev (c :: s) = none :=
  blocked_of_all (List.all_eq_true.1 h c hc) bound prev s

theorem m_set_hit (t : CharTables) (bound : Nat) {items : List SetItem} {x : Char}
    (h : ((items.any (·.test t x.toNat)) != false) = true) (p : Option Char) (n : Nat)
    (xs : List Char) (k : K) :
    m t bound (.set items false) p n (x :: xs) k = k (some x) (n + 1) xs := by
  simp only [m]
  rw [if_pos h]

/-! ### 7. identifier-shaped lexemes: keywords and `ID` -/

theorem idChars_punct_blocked_all :
    idChars.all (fun c => punct.all (fun r => !firstOk T r.re c)) = true := by decide +kernel

theorem idClass (bound : Nat) :
    ClassLike isIdChar (fun p' n' s' k' => m T bound (.set idItems false) p' n' s' k') :=
  classLike_set T bound idItems

theorem stops_of_wordSep {rest : List Char} (hs : wordSep rest = true) : Stops isIdChar rest := by
  intro x hx
  cases rest with
  | nil => simp at hx
  | cons y r =>
    simp only [List.head?_cons, Option.some.injEq] at hx
    subst hx
    rw [wordSep_cons] at hs
    cases h : isIdChar y with
    | false => rfl
    | true => rw [idChar_word h] at hs; cases hs

theorem id_match {c : Char} {cs rest : List Char} (hc : isIdStart c = true)
    (hcs : ∀ x ∈ cs, isIdChar x = true) (hs : wordSep rest = true) {bound : Nat}
    (hb : cs.length ≤ bound + 1) (prev : Option Char) :
    matchPrefix T bound idRule.re prev (c :: (cs ++ rest)) = some ((c :: cs).length, rest) := by
  unfold matchPrefix
  rw [show idRule.re = .seq (.set idStartItems false) (.rep 0 none true (.set idItems false))
    from rfl, m_seq_eq, m_set_hit T bound hc, m_rep_eq]
  apply repLoop_greedy_class (idClass bound) cs _ 0 _ _ rest _ _ hcs (stops_of_wordSep hs)
    (by omega) (Nat.zero_le _)
  intro q
  simp [Nat.add_comm]

/-- the rule that wins on an identifier-shaped lexeme -/
def wordRule (lexeme : List Char) : LexRule :=
  if lexeme = wIn then kwRule "KW_IN" wIn
  else if lexeme = wNot then kwRule "KW_NOT" wNot
  else if lexeme = wDef then kwRule "KW_DEF" wDef
  else if lexeme = wSalt then kwRule "KW_SALT" wSalt
  else if lexeme = wSplitters then kwRule "KW_SPLITTERS" wSplitters
  else if lexeme = wIf then kwRule "KW_IF" wIf
  else if lexeme = wElse then kwRule "KW_ELSE" wElse
  else if lexeme = wWeighted then kwRule "KW_WEIGHTED" wWeighted
  else if lexeme = wReturn then kwRule "KW_RETURN" wReturn
  else if lexeme = wAnd then kwRule "KW_AND" wAnd
  else if lexeme = wOr then kwRule "KW_OR" wOr
  else idRule

set_option hygiene false in
local macro "kw_step " nm:term ", " w:term ", " h:ident : tactic => `(tactic| (
  by_cases $h:ident : lexeme = $w
  · subst $h:ident
    rw [firstMatch_cons_some (r := kwRule $nm $w)
      (kw_hit (by decide) (by decide +kernel) hs bound prev)]
    rfl
  rw [firstMatch_cons_none (r := kwRule $nm $w)
    (kw_miss (by decide) (by decide +kernel) hid hs $h bound prev)]))

/-- **word tokens**: an identifier-shaped lexeme followed by a non-word character is matched
    by the keyword rule of that word, or else by `ID` — unless the text continues so that one
    of the two-word rules applies (`not` + blanks + `in`, `else` + blanks + `if`) or the lexeme
    is `elseif`, which `else\s*if\b` matches as `KW_ELIF` -/
theorem word_firstMatch {lexeme rest : List Char} (hl : wordLike lexeme = true)
    (hs : wordSep rest = true)
    (hnot : ¬ (lexeme = wNot ∧ followsB 1 wIn rest = true))
    (helse : ¬ (lexeme = wElse ∧ followsB 0 wIf rest = true))
    (helif : lexeme ≠ wElse ++ wIf) {bound : Nat} (hb : lexeme.length ≤ bound)
    (prev : Option Char) :
    firstMatch T bound Generated.lexState0.rules prev (lexeme ++ rest) =
      some (wordRule lexeme, lexeme.length, rest) := by
  have hid := wordLike_idChars hl
  obtain ⟨c, cs, hlex⟩ : ∃ c cs, lexeme = c :: cs := by
    cases lexeme with
    | nil => simp [wordLike] at hl
    | cons c cs => exact ⟨c, cs, rfl⟩
  have hp : ∀ r ∈ punct, matchPrefix T bound r.re prev (lexeme ++ rest) = none := by
    rw [hlex, List.cons_append]
    exact blocked_of_list idChars_punct_blocked_all
      (isIdChar_mem (hid c (by rw [hlex]; exact List.mem_cons_self))) bound prev _
  rw [rules0_tok, firstMatch_append_none hp]
  kw_step "KW_IN", wIn, h1
  rw [firstMatch_cons_none (r := notInRule)
    (spaced_miss (w1 := wNot) (w2 := wIn) (min := 1) (by decide +kernel) (by decide)
      (by decide +kernel) hid hs hnot (fun h => absurd h.1 (by decide)) bound prev)]
  kw_step "KW_NOT", wNot, h2
  kw_step "KW_DEF", wDef, h3
  kw_step "KW_SALT", wSalt, h4
  kw_step "KW_SPLITTERS", wSplitters, h5
  kw_step "KW_IF", wIf, h6
  rw [firstMatch_cons_none (r := elifRule)
    (spaced_miss (w1 := wElse) (w2 := wIf) (min := 0) (by decide +kernel) (by decide)
      (by decide +kernel) hid hs helse (fun h => helif h.2) bound prev)]
  kw_step "KW_ELSE", wElse, h7
  kw_step "KW_WEIGHTED", wWeighted, h8
  kw_step "KW_RETURN", wReturn, h9
  kw_step "KW_AND", wAnd, h10
  kw_step "KW_OR", wOr, h11
  subst hlex
  simp only [wordLike, Bool.and_eq_true, List.all_eq_true] at hl
  rw [List.cons_append, firstMatch_cons_some (r := idRule)
    (id_match hl.1 hl.2 hs (by simp at hb; omega) prev)]
  simp only [wordRule, if_neg h1, if_neg h2, if_neg h3, if_neg h4, if_neg h5, if_neg h6,
    if_neg h7, if_neg h8, if_neg h9, if_neg h10, if_neg h11]

/-! ### 8. the two-word tokens, any inner white space -/

theorem n_blocked_all : (punct ++ [kwRule "KW_IN" wIn]).all (fun r => !firstOk T r.re 'n') = true := by
  decide +kernel

theorem e_blocked_all :
    (punct ++ [kwRule "KW_IN" wIn, notInRule, kwRule "KW_NOT" wNot, kwRule "KW_DEF" wDef,
      kwRule "KW_SALT" wSalt, kwRule "KW_SPLITTERS" wSplitters, kwRule "KW_IF" wIf]).all
      (fun r => !firstOk T r.re 'e') = true := by
  decide +kernel

/-- `not`, one or more white-space characters, `in`, then no word character: `KW_NOT_IN` -/
theorem notIn_firstMatch {ws rest : List Char} (hws : ∀ x ∈ ws, isSpace x = true)
    (hne : ws ≠ []) (hs : wordSep rest = true) {bound : Nat} (hb : ws.length ≤ bound)
    (prev : Option Char) :
    firstMatch T bound Generated.lexState0.rules prev ((wNot ++ (ws ++ wIn)) ++ rest) =
      some (notInRule, (wNot ++ (ws ++ wIn)).length, rest) := by
  have hmin : 1 ≤ ws.length := by
    cases ws with
    | nil => exact absurd rfl hne
    | cons _ _ => simp
  have hassoc : (wNot ++ (ws ++ wIn)) ++ rest = wNot ++ (ws ++ (wIn ++ rest)) := by simp
  have hrules : Generated.lexState0.rules = (punct ++ [kwRule "KW_IN" wIn]) ++
      (notInRule :: (Generated.lexState0.rules.drop 15)) := rfl
  rw [hassoc, hrules]
  rw [show wNot ++ (ws ++ (wIn ++ rest)) = 'n' :: ('o' :: 't' :: (ws ++ (wIn ++ rest))) from rfl,
    firstMatch_append_none (blocked_of_all n_blocked_all bound prev _),
    show 'n' :: ('o' :: 't' :: (ws ++ (wIn ++ rest))) = wNot ++ (ws ++ (wIn ++ rest)) from rfl]
  exact firstMatch_cons_some (r := notInRule)
    (spaced_hit (w1 := wNot) (w2 := wIn) (by decide) (by decide +kernel) hws hmin hs (by omega) prev)

/-- `else`, any white space (possibly none), `if`, then no word character: `KW_ELIF` -/
theorem elif_firstMatch {ws rest : List Char} (hws : ∀ x ∈ ws, isSpace x = true)
    (hs : wordSep rest = true) {bound : Nat} (hb : ws.length ≤ bound) (prev : Option Char) :
    firstMatch T bound Generated.lexState0.rules prev ((wElse ++ (ws ++ wIf)) ++ rest) =
      some (elifRule, (wElse ++ (ws ++ wIf)).length, rest) := by
  have hassoc : (wElse ++ (ws ++ wIf)) ++ rest = wElse ++ (ws ++ (wIf ++ rest)) := by simp
  have hrules : Generated.lexState0.rules =
      (punct ++ [kwRule "KW_IN" wIn, notInRule, kwRule "KW_NOT" wNot, kwRule "KW_DEF" wDef,
        kwRule "KW_SALT" wSalt, kwRule "KW_SPLITTERS" wSplitters, kwRule "KW_IF" wIf]) ++
      (elifRule :: (Generated.lexState0.rules.drop 21)) := rfl
  rw [hassoc, hrules]
  rw [show wElse ++ (ws ++ (wIf ++ rest)) = 'e' :: ('l' :: 's' :: 'e' :: (ws ++ (wIf ++ rest)))
      from rfl,
    firstMatch_append_none (blocked_of_all e_blocked_all bound prev _),
    show 'e' :: ('l' :: 's' :: 'e' :: (ws ++ (wIf ++ rest))) = wElse ++ (ws ++ (wIf ++ rest))
      from rfl]
  exact firstMatch_cons_some (r := elifRule)
    (spaced_hit (w1 := wElse) (w2 := wIf) (by decide) (by decide +kernel) hws (Nat.zero_le _) hs
      (by omega) prev)

/-! ### 9. numbers -/

/-- the 27 rules before the number rules -/
def preNum : List LexRule := Generated.lexState0.rules.take 27

theorem rules0_num : Generated.lexState0.rules =
    preNum ++ [floatRule, intRule, strRule, bcs, ic, nl, wsr] := rfl

def itemBelow (N : Nat) : SetItem → Bool
  | .chr x => x < N
  | .range _ hi => hi < N
  | .cat _ => false

/-- every input `r` can match starts with a character below `N` -/
def firstBelow (N : Nat) : Re → Bool
  | .lit c => c < N
  | .set items neg => !neg && items.all (itemBelow N)
  | .seq a _ => firstBelow N a
  | .alt a b => firstBelow N a && firstBelow N b
  | .rep min _ _ r => min != 0 && firstBelow N r
  | _ => false

theorem firstBelow_sound (t : CharTables) {N : Nat} : ∀ (r : Re) (c : Char),
    firstBelow N r = true → firstOk t r c = true → c.toNat < N
  | .eps, _, h, _ => by simp [firstBelow] at h
  | .lit x, c, h, h' => by
    simp only [firstBelow, decide_eq_true_eq] at h
    simp only [firstOk, beq_iff_eq] at h'
    omega
  | .notLit _, _, h, _ => by simp [firstBelow] at h
  | .set items neg, c, h, h' => by
    simp only [firstBelow, Bool.and_eq_true, Bool.not_eq_true', List.all_eq_true] at h
    obtain ⟨hneg, hall⟩ := h
    subst hneg
    simp only [firstOk, bne_iff_ne, ne_eq, Bool.not_eq_false, List.any_eq_true] at h'
    obtain ⟨item, hi, htest⟩ := h'
    have := hall item hi
    cases item with
    | chr x =>
      simp only [itemBelow, decide_eq_true_eq] at this
      simp only [SetItem.test, beq_iff_eq] at htest
      omega
    | range lo hi =>
      simp only [itemBelow, decide_eq_true_eq] at this
      simp only [SetItem.test, Bool.and_eq_true, decide_eq_true_eq] at htest
      omega
    | cat _ => simp [itemBelow] at this
  | .any, _, h, _ => by simp [firstBelow] at h
  | .seq a _, c, h, h' => firstBelow_sound t a c (by simpa [firstBelow] using h)
      (by simpa [firstOk] using h')
  | .alt a b, c, h, h' => by
    simp only [firstBelow, Bool.and_eq_true] at h
    simp only [firstOk, Bool.or_eq_true] at h'
    rcases h' with h' | h'
    · exact firstBelow_sound t a c h.1 h'
    · exact firstBelow_sound t b c h.2 h'
  | .rep min _ _ r, c, h, h' => by
    simp only [firstBelow, Bool.and_eq_true, bne_iff_ne, ne_eq] at h
    simp only [firstOk, Bool.or_eq_true, beq_iff_eq] at h'
    rcases h' with h' | h'
    · exact absurd h' h.1
    · exact firstBelow_sound t r c h.2 h'
  | .boundary _, _, h, _ => by simp [firstBelow] at h
  | .look _ _, _, h, _ => by simp [firstBelow] at h
  | .unsupported _, _, h, _ => by simp [firstBelow] at h

theorem preNum_below_all : preNum.all (fun r => firstBelow 128 r.re) = true := by decide +kernel

def asciiDigits : List Char := (List.range' 48 10).map Char.ofNat

theorem asciiDigits_blocked_all :
    asciiDigits.all (fun c => preNum.all (fun r => !firstOk T r.re c)) = true := by decide +kernel

theorem digitRanges_high : ∀ i, i < Generated.digitRanges.size →
    i = 0 ∨ 128 ≤ (Generated.digitRanges[i]!).1 := by decide +kernel

theorem digit_ascii {c : Char} (hc : isDigitC c = true) (hlt : c.toNat < 128) :
    c ∈ asciiDigits := by
  unfold isDigitC inRanges at hc
  obtain ⟨i, hi, h1, h2⟩ := inRanges_go_sound _ _ _ _ _ (Nat.le_refl _) hc
  rcases digitRanges_high i hi with rfl | hge
  · have e : Generated.digitRanges[0]! = (48, 57) := rfl
    rw [e] at h1 h2
    have hcc : c = Char.ofNat c.toNat := (Char.ofNat_toNat c).symm
    rw [hcc]
    apply List.mem_map_of_mem
    rw [List.mem_range'_1]
    simp only at h1 h2
    omega
  · omega

/-- no rule before the number rules can start with a (Unicode) decimal digit -/
theorem digit_blocked {c : Char} (hc : isDigitC c = true) (bound : Nat) (prev : Option Char)
    (s : List Char) : ∀ r ∈ preNum, matchPrefix T bound r.re prev (c :: s) = none := by
  by_cases hlt : c.toNat < 128
  · exact blocked_of_list asciiDigits_blocked_all (digit_ascii hc hlt) bound prev s
  · intro r hr
    apply matchPrefix_none_of_firstOk
    cases hf : firstOk T r.re c with
    | false => rfl
    | true =>
      exact absurd (firstBelow_sound T r.re c (List.all_eq_true.1 preNum_below_all r hr) hf) hlt

def digitP : Char → Bool := fun x => (digitItems.any (·.test T x.toNat)) != false

theorem digitP_eq (c : Char) : digitP c = isDigitC c := by
  simp [digitP, digitItems, SetItem.test, CharTables.isCat, isDigitC, T, Generated.charTables]

theorem digitClass (bound : Nat) :
    ClassLike digitP (fun p' n' s' k' => m T bound (.set digitItems false) p' n' s' k') :=
  classLike_set T bound digitItems

/-- the text continues with a decimal digit -/
def digitHead (s : List Char) : Bool :=
  match s.head? with
  | some d => isDigitC d
  | none => false

theorem stops_digit {s : List Char} (h : digitHead s = false) : Stops digitP s := by
  intro x hx
  rw [digitP_eq]
  simpa [digitHead, hx] using h

/-- after a float: no further digit -/
def digitSep (rest : List Char) : Bool := !digitHead rest

/-- after an integer: no further digit, and not `.` + digit (that would be a float) -/
def intSep : List Char → Bool
  | [] => true
  | c :: r => !isDigitC c && !(c == '.' && digitHead r)

theorem intSep_digitHead {rest : List Char} (h : intSep rest = true) : digitHead rest = false := by
  cases rest with
  | nil => rfl
  | cons c r =>
    simp only [intSep, Bool.and_eq_true, Bool.not_eq_true'] at h
    simpa [digitHead] using h.1

theorem dot_notDigit : isDigitC '.' = false := by decide +kernel

/-- `\d+` takes a maximal run of digits -/
theorem digits_match {ds rest : List Char} (hne : ds ≠ []) (hds : ∀ x ∈ ds, isDigitC x = true)
    (hs : digitHead rest = false) {bound : Nat} (hb : ds.length ≤ bound + 2) (p : Option Char)
    (n : Nat) (k : K) (res : Nat × List Char) (hk : ∀ q, k q (n + ds.length) rest = some res) :
    m T bound digitsRe p n (ds ++ rest) k = some res := by
  unfold digitsRe
  rw [m_rep_eq]
  have h1 : 1 ≤ ds.length := by
    cases ds with
    | nil => exact absurd rfl hne
    | cons _ _ => simp
  exact repLoop_greedy_class (digitClass bound) ds _ 1 p n rest k res
    (fun x hx => by rw [digitP_eq]; exact hds x hx) (stops_digit hs) (by omega) h1 hk

/-- `\d+\.\d+` does not match digits that are not followed by `.` + digit -/
theorem float_miss_int {ds rest : List Char} (hds : ∀ x ∈ ds, isDigitC x = true)
    (hs : intSep rest = true) (bound : Nat) (prev : Option Char) :
    matchPrefix T bound floatRule.re prev (ds ++ rest) = none := by
  unfold matchPrefix
  rw [show floatRule.re = .seq digitsRe (.seq (.lit 46) digitsRe) from rfl, m_seq_eq]
  unfold digitsRe
  rw [m_rep_eq]
  apply repLoop_greedy_class_none (digitClass bound) ds _ 1 _ _ rest _
    (fun x hx => by rw [digitP_eq]; exact hds x hx) (stops_digit (intSep_digitHead hs))
  intro a b q hab _
  rw [m_seq_eq]
  cases b with
  | nil =>
    rw [List.nil_append]
    cases rest with
    | nil => exact m_lit_nil _ _ _ _ _ _
    | cons c r =>
      by_cases hc : c.toNat = 46
      · rw [m_lit_hit' T bound hc, m_rep_eq]
        have hdot : c = '.' := by rw [← Char.ofNat_toNat c, hc]
        subst hdot
        simp only [intSep, Bool.and_eq_true, Bool.not_eq_true', beq_self_eq_true,
          Bool.true_and] at hs
        exact repLoop_min_stop (digitClass bound) (stops_digit hs.2) _ _ _ _ _ _ _
      · exact m_lit_miss T bound hc _ _ _ _
  | cons x b' =>
    have hx : isDigitC x = true := hds x (by rw [hab]; simp)
    have hne : x.toNat ≠ 46 := by
      intro h46
      have hdot : x = '.' := by rw [← Char.ofNat_toNat x, h46]
      rw [hdot, dot_notDigit] at hx
      cases hx
    rw [List.cons_append]
    exact m_lit_miss T bound hne _ _ _ _

/-- **integers**: a non-empty run of decimal digits, not followed by a digit or by `.` + digit -/
theorem int_firstMatch {ds rest : List Char} (hne : ds ≠ []) (hds : ∀ x ∈ ds, isDigitC x = true)
    (hs : intSep rest = true) {bound : Nat} (hb : ds.length ≤ bound) (prev : Option Char) :
    firstMatch T bound Generated.lexState0.rules prev (ds ++ rest) =
      some (intRule, ds.length, rest) := by
  obtain ⟨c, cs, hlex⟩ : ∃ c cs, ds = c :: cs := by
    cases ds with
    | nil => exact absurd rfl hne
    | cons c cs => exact ⟨c, cs, rfl⟩
  have hp : ∀ r ∈ preNum, matchPrefix T bound r.re prev (ds ++ rest) = none := by
    rw [hlex, List.cons_append]
    exact digit_blocked (hds c (by rw [hlex]; exact List.mem_cons_self)) bound prev _
  rw [rules0_num, firstMatch_append_none hp,
    firstMatch_cons_none (r := floatRule) (float_miss_int hds hs bound prev)]
  apply firstMatch_cons_some (r := intRule)
  unfold matchPrefix
  exact digits_match hne hds (intSep_digitHead hs) (by omega) prev 0 _ _
    (fun _ => by rw [Nat.zero_add])

/-- **floats**: digits, `.`, digits, not followed by a digit -/
theorem float_firstMatch {ip fp rest : List Char} (hip : ip ≠ [])
    (hipd : ∀ x ∈ ip, isDigitC x = true) (hfp : fp ≠ []) (hfpd : ∀ x ∈ fp, isDigitC x = true)
    (hs : digitSep rest = true) {bound : Nat} (hb : (ip ++ '.' :: fp).length ≤ bound)
    (prev : Option Char) :
    firstMatch T bound Generated.lexState0.rules prev ((ip ++ '.' :: fp) ++ rest) =
      some (floatRule, (ip ++ '.' :: fp).length, rest) := by
  obtain ⟨c, cs, hlex⟩ : ∃ c cs, ip = c :: cs := by
    cases ip with
    | nil => exact absurd rfl hip
    | cons c cs => exact ⟨c, cs, rfl⟩
  have hassoc : (ip ++ '.' :: fp) ++ rest = ip ++ ('.' :: (fp ++ rest)) := by simp
  have hp : ∀ r ∈ preNum, matchPrefix T bound r.re prev (ip ++ ('.' :: (fp ++ rest))) = none := by
    rw [hlex, List.cons_append]
    exact digit_blocked (hipd c (by rw [hlex]; exact List.mem_cons_self)) bound prev _
  have hlen : (ip ++ '.' :: fp).length = ip.length + 1 + fp.length := by
    simp only [List.length_append, List.length_cons]
    omega
  rw [hlen] at hb
  rw [hassoc, rules0_num, firstMatch_append_none hp]
  apply firstMatch_cons_some (r := floatRule)
  unfold matchPrefix
  rw [show floatRule.re = .seq digitsRe (.seq (.lit 46) digitsRe) from rfl, m_seq_eq]
  have hdh : digitHead ('.' :: (fp ++ rest)) = false := by
    simp [digitHead, dot_notDigit]
  apply digits_match hip hipd hdh (by omega)
  intro q
  rw [m_seq_eq, m_lit_hit' T bound (c := '.') (by decide)]
  apply digits_match hfp hfpd (by simpa [digitSep] using hs) (by omega)
  intro _
  rw [hlen]
  simp only [Nat.zero_add]

/-! ### 10. strings -/

/-- the 29 rules before `STRING_LITERAL` -/
def preStr : List LexRule := Generated.lexState0.rules.take 29

theorem rules0_str : Generated.lexState0.rules = preStr ++ [strRule, bcs, ic, nl, wsr] := rfl

theorem dquote_blocked_all : preStr.all (fun r => !firstOk T r.re '"') = true := by decide +kernel
theorem squote_blocked_all : preStr.all (fun r => !firstOk T r.re '\'') = true := by decide +kernel

/-- `q.*?q` on `q body q rest`, the body without `q` and without a line break: the match ends at
    the first closing quote -/
theorem quoted_hit {q : Char} {code : Nat} (hq : q.toNat = code) {body rest : List Char}
    (hbq : ∀ x ∈ body, x ≠ q) (hbn : ∀ x ∈ body, x ≠ '\n') {bound : Nat}
    (hb : body.length ≤ bound) (p : Option Char) (n : Nat) :
    m T bound (quotedRe code) p n (q :: (body ++ q :: rest)) (fun _ n rest => some (n, rest)) =
      some (n + 1 + body.length + 1, rest) := by
  unfold quotedRe
  rw [m_seq_eq, m_lit_hit' T bound hq, m_seq_eq, m_rep_eq]
  refine repLoop_lazy_hit (dotLike_any T bound) body _ _ _ _ _ _ hbn (by omega) ?_ ?_
  · intro a b r hab hbne
    cases b with
    | nil => exact absurd rfl hbne
    | cons x b' =>
      have hx : x ≠ q := hbq x (by rw [hab]; simp)
      rw [List.cons_append]
      apply m_lit_miss
      intro h
      exact hx (Char.toNat_inj.1 (h.trans hq.symm))
  · intro r
    rw [m_lit_hit' T bound hq]

/-- **strings**: an opening quote, a body without that quote and without line breaks, the
    closing quote — whatever follows -/
theorem str_firstMatch {q : Char} (hq : q = '"' ∨ q = '\'') {body rest : List Char}
    (hbq : ∀ x ∈ body, x ≠ q) (hbn : ∀ x ∈ body, x ≠ '\n') {bound : Nat}
    (hb : body.length ≤ bound) (prev : Option Char) :
    firstMatch T bound Generated.lexState0.rules prev (q :: (body ++ q :: rest)) =
      some (strRule, body.length + 2, rest) := by
  rw [rules0_str]
  rcases hq with rfl | rfl
  · rw [firstMatch_append_none (blocked_of_all dquote_blocked_all bound prev _)]
    apply firstMatch_cons_some (r := strRule)
    unfold matchPrefix
    rw [show strRule.re = .alt (quotedRe 34) (quotedRe 39) from rfl, m_alt_eq,
      quoted_hit (q := '"') (by decide) hbq hbn hb]
    simp [Option.orElse]
    omega
  · rw [firstMatch_append_none (blocked_of_all squote_blocked_all bound prev _)]
    apply firstMatch_cons_some (r := strRule)
    unfold matchPrefix
    rw [show strRule.re = .alt (quotedRe 34) (quotedRe 39) from rfl, m_alt_eq]
    have hmiss : m T bound (quotedRe 34) prev 0 ('\'' :: (body ++ '\'' :: rest))
        (fun _ n rest => some (n, rest)) = none := by
      unfold quotedRe
      rw [m_seq_eq]
      exact m_lit_miss T bound (by decide) _ _ _ _
    rw [hmiss, quoted_hit (q := '\'') (by decide) hbq hbn hb]
    simp [Option.orElse]
    omega

/-! ### 11. punctuation and operators -/

theorem split_at {α} : ∀ {l : List α} {i : Nat} {r : α}, l[i]? = some r →
    l = l.take i ++ r :: l.drop (i + 1)
  | [], _, _, h => by simp at h
  | x :: l, 0, r, h => by
    simp only [List.getElem?_cons_zero, Option.some.injEq] at h
    subst h
    rfl
  | x :: l, i + 1, r, h => by
    simp only [List.getElem?_cons_succ] at h
    have := split_at h
    simp only [List.take_succ_cons, List.drop_succ_cons, List.cons_append]
    rw [← this]

/-- rule number `i` wins when it matches and none of its predecessors matches -/
theorem fixed_firstMatch (i : Nat) {r : LexRule} {s rest : List Char} {n bound : Nat}
    {prev : Option Char} (hr : Generated.lexState0.rules[i]? = some r)
    (hpre : ∀ r' ∈ Generated.lexState0.rules.take i, matchPrefix T bound r'.re prev s = none)
    (hm : matchPrefix T bound r.re prev s = some (n, rest)) :
    firstMatch T bound Generated.lexState0.rules prev s = some (r, n, rest) := by
  rw [split_at hr, firstMatch_append_none hpre]
  exact firstMatch_cons_some hm

end Pyab.TokenLex
