/-
  C07/C08 (lexer half, tokens), part 3: for every shape of token lexeme, the rule of
  `Generated.lexState0` that wins on `lexeme ++ rest`.

  Every lemma identifies its rule BY NAME (`ruleNamed name R0 = some r`, plus the expected shape
  of `r.re`) and takes as hypothesis a decidable check over the rules that precede it in the
  actual table (`(rulesBefore name R0).all ok = true`).  Both are discharged in
  `Proofs/TokenStep.lean` by `decide +kernel` on the generated table; nothing here depends on
  the position of a rule.

  * `kw_firstMatch`, `id_firstMatch`: identifier-shaped lexemes (keywords and `ID`); the rules
    before them are classified by `wordPreOk` (cannot start with an identifier character / a
    keyword rule of another word / a two-word rule that cannot apply);
  * `spaced_firstMatch`: the two-word tokens, any inner white space;
  * `int_firstMatch`, `float_firstMatch` (Unicode `\d` lexemes), `str_firstMatch`;
  * `fixed1`, `fixed2`, `op1_firstMatch`: punctuation and operators.
-/
import Pyab.Proofs.TokenLex
namespace Pyab.TokenLex
open Pyab Pyab.Re Pyab.Trivia

theorem blocked_of_all {pre : List LexRule} {c : Char}
    (h : pre.all (fun r => !firstOk T r.re c) = true) (bound : Nat) (prev : Option Char)
    (s : List Char) : ∀ r ∈ pre, matchPrefix T bound r.re prev (c :: s) = none := by
  intro r hr
  have := List.all_eq_true.1 h r hr
  exact matchPrefix_none_of_firstOk (by simpa using this)

theorem blocked_of_list {cs : List Char} {pre : List LexRule}
    (h : cs.all (fun c => pre.all (fun r => !firstOk T r.re c)) = true) {c : Char} (hc : c ∈ cs)
    (bound : Nat) (prev : Option Char) (s : List Char) :
    ∀ r ∈ pre, matchPrefix T bound r.re prev (c :: s) = none :=
  blocked_of_all (List.all_eq_true.1 h c hc) bound prev s

theorem m_set_hit (t : CharTables) (bound : Nat) {items : List SetItem} {x : Char}
    (h : ((items.any (·.test t x.toNat)) != false) = true) (p : Option Char) (n : Nat)
    (xs : List Char) (k : K) :
    m t bound (.set items false) p n (x :: xs) k = k (some x) (n + 1) xs := by
  simp only [m]
  rw [if_pos h]

/-! ### 7. identifier-shaped lexemes: keywords and `ID` -/

theorem idClass (bound : Nat) :
    ClassLike isIdChar (fun p' n' s' k' => m T bound (.set idItems false) p' n' s' k') :=
  classLike_set T bound idItems

theorem stops_of_wordSep {rest : List Char} (hs : wordSep rest = true) : Stops isIdChar rest := by
  intro x hx
  cases rest with
  | nil => simp at hx
  | cons y r =>
    simp only [List.head?_cons, Option.some.injEq] at hx
    subst hx
    rw [wordSep_cons] at hs
    cases h : isIdChar y with
    | false => rfl
    | true => rw [idChar_word h] at hs; cases hs

theorem id_match {c : Char} {cs rest : List Char} (hc : isIdStart c = true)
    (hcs : ∀ x ∈ cs, isIdChar x = true) (hs : wordSep rest = true) {bound : Nat}
    (hb : cs.length ≤ bound + 1) (prev : Option Char) :
    matchPrefix T bound idRule.re prev (c :: (cs ++ rest)) = some ((c :: cs).length, rest) := by
  unfold matchPrefix
  rw [show idRule.re = .seq (.set idStartItems false) (.rep 0 none true (.set idItems false))
    from rfl, m_seq_eq, m_set_hit T bound hc, m_rep_eq]
  apply repLoop_greedy_class (idClass bound) cs _ 0 _ _ rest _ _ hcs (stops_of_wordSep hs)
    (by omega) (Nat.zero_le _)
  intro q
  simp [Nat.add_comm]

/-! #### classifying a rule that is tried before a word rule

  A rule `r` tried before the rule of an identifier-shaped lexeme is harmless when
  * no character of `[a-zA-Z_]` can start a match of `r` (`idBlocked`), or
  * `r` is a keyword rule `w\b` for a word `w` the lexeme is known to differ from, or
  * `r` is a two-word rule `w1\s{min,}w2\b` that cannot apply: the lexeme differs from `w1` or
    the text after the lexeme is known not to continue with `w2` (`excl`), and the lexeme is not
    `w1w2` run together (only possible when `min = 0`).
  The shape of `r` is recognised by re-building the candidate (`kwRe`, `spacedRe`) from the
  letters read off `r` and comparing with `r` itself, so no parser needs to be trusted. -/

def idStartCodes : List Nat := List.range' 65 26 ++ [95] ++ List.range' 97 26
/-- `[a-zA-Z_]` as a list -/
def idStartChars : List Char := idStartCodes.map Char.ofNat

theorem isIdStart_mem {c : Char} (h : isIdStart c = true) : c ∈ idStartChars := by
  have hc : c = Char.ofNat c.toNat := (Char.ofNat_toNat c).symm
  rw [hc]
  apply List.mem_map_of_mem
  simp [isIdStart, idStartItems, SetItem.test] at h
  simp only [idStartCodes, List.mem_append, List.mem_range'_1, List.mem_singleton]
  omega

/-- no character an identifier-shaped lexeme can start with (`[a-zA-Z_]`) can start a match
    of `r` -/
def idBlocked (r : Re) : Bool := idStartChars.all (fun c => !firstOk T r c)

/-- the leading literal characters of a regex and what follows them -/
def unLits : Re → List Nat × Re
  | .seq (.lit c) r => ((c :: (unLits r).1), (unLits r).2)
  | r => ([], r)

/-- the word of `r`, should `r` be a keyword rule -/
def kwCand (r : Re) : List Char := (unLits r).1.map Char.ofNat

/-- `r` is the keyword rule of the (identifier-shaped, non-empty) word `w` -/
def isKw (r : Re) (w : List Char) : Bool := r == kwRe w && !w.isEmpty && w.all isIdChar

/-- first word, minimal number of blanks and second word, should `r` be a two-word rule -/
def spacedCand (r : Re) : List Char × Nat × List Char :=
  match (unLits r).2 with
  | .seq (.rep min _ _ _) t => (kwCand r, min, kwCand t)
  | _ => (kwCand r, 0, [])

/-- `r` is the two-word rule `w1\s{min,}w2\b` -/
def isSpaced (r : Re) (w1 : List Char) (min : Nat) (w2 : List Char) : Bool :=
  r == spacedRe w1 min w2 && w1.all isIdChar && !w2.isEmpty && w2.all isIdChar

/-- **the check for a rule tried before a word rule**; `notW w`: the lexeme is known to differ
    from `w`; `excl = some (min, w2)`: the text after the lexeme is known not to continue with
    `min` or more blanks and `w2` -/
def wordPreOk (notW : List Char → Bool) (excl : Option (Nat × List Char)) (r : Re) : Bool :=
  idBlocked r ||
  (isKw r (kwCand r) && notW (kwCand r)) ||
  (isSpaced r (spacedCand r).1 (spacedCand r).2.1 (spacedCand r).2.2 &&
    (notW (spacedCand r).1 || excl == some ((spacedCand r).2.1, (spacedCand r).2.2)) &&
    ((spacedCand r).2.1 != 0 || notW ((spacedCand r).1 ++ (spacedCand r).2.2)))

theorem idBlocked_miss {r : Re} (h : idBlocked r = true) {c : Char} (hc : isIdStart c = true)
    (bound : Nat) (prev : Option Char) (s : List Char) :
    matchPrefix T bound r prev (c :: s) = none := by
  have := List.all_eq_true.1 h c (isIdStart_mem hc)
  exact matchPrefix_none_of_firstOk (by simpa using this)

/-- a rule that passes `wordPreOk` does not match the lexeme -/
theorem wordPre_miss {notW : List Char → Bool} {excl : Option (Nat × List Char)} {r : Re}
    (h : wordPreOk notW excl r = true) {lexeme rest : List Char}
    (hl : wordLike lexeme = true) (hs : wordSep rest = true)
    (hnot : ∀ w, notW w = true → lexeme ≠ w)
    (hex : ∀ min w2, excl = some (min, w2) → followsB min w2 rest = false)
    (bound : Nat) (prev : Option Char) :
    matchPrefix T bound r prev (lexeme ++ rest) = none := by
  have hid := wordLike_idChars hl
  simp only [wordPreOk, Bool.or_eq_true, Bool.and_eq_true] at h
  rcases h with (h | ⟨hk, hn⟩) | ⟨⟨hsp, h1⟩, h2⟩
  · cases lexeme with
    | nil => simp [wordLike] at hl
    | cons c cs =>
      rw [List.cons_append]
      simp only [wordLike, Bool.and_eq_true] at hl
      exact idBlocked_miss h hl.1 bound prev _
  · simp only [isKw, Bool.and_eq_true, beq_iff_eq, Bool.not_eq_true', List.isEmpty_eq_false_iff,
      List.all_eq_true] at hk
    obtain ⟨⟨hre, hne⟩, hall⟩ := hk
    rw [hre]
    exact kw_miss hne hall hid hs (hnot _ hn) bound prev
  · simp only [isSpaced, Bool.and_eq_true, beq_iff_eq, Bool.not_eq_true',
      List.isEmpty_eq_false_iff, List.all_eq_true] at hsp
    obtain ⟨⟨⟨hre, hw1c⟩, hw2⟩, hw2c⟩ := hsp
    rw [hre]
    refine spaced_miss hw1c hw2 hw2c hid hs ?_ ?_ bound prev
    · rintro ⟨hl1, hf⟩
      rcases h1 with h1 | h1
      · exact hnot _ h1 hl1
      · rw [hex _ _ (beq_iff_eq.1 h1)] at hf
        cases hf
    · rintro ⟨hm, hl2⟩
      rcases h2 with h2 | h2
      · simp [hm] at h2
      · exact hnot _ h2 hl2

/-- **keyword tokens**: the word `w` followed by a non-word character is matched by the rule
    `name` = `w\b`, provided every rule tried before it passes `wordPreOk` -/
theorem kw_firstMatch {name : String} {w : List Char} {r : LexRule}
    (hr : ruleNamed name R0 = some r) (hre : r.re = kwRe w) (hw : wordLike w = true)
    {excl : Option (Nat × List Char)}
    (hpre : (rulesBefore name R0).all (fun r' => wordPreOk (fun w' => w' != w) excl r'.re) = true)
    {rest : List Char} (hs : wordSep rest = true)
    (hex : ∀ min w2, excl = some (min, w2) → followsB min w2 rest = false)
    (bound : Nat) (prev : Option Char) :
    firstMatch T bound R0 prev (w ++ rest) = some (r, w.length, rest) := by
  have hid := wordLike_idChars hw
  have hne : w ≠ [] := by
    intro h
    rw [h] at hw
    simp [wordLike] at hw
  apply firstMatch_named hr
  · intro r' hr'
    exact wordPre_miss (rulesBefore_all hpre r' hr') hw hs
      (fun w' hw' heq => by simp [heq] at hw') hex bound prev
  · rw [hre]
    exact kw_hit hne hid hs bound prev

/-- **identifiers**: an identifier-shaped lexeme that is none of the words `notW` (the keywords
    and `elseif`), followed by a non-word character, is matched by the rule `name` =
    `[a-zA-Z_][a-zA-Z0-9_]*`, provided every rule tried before it passes `wordPreOk` -/
theorem id_firstMatch {name : String} {r : LexRule} (hr : ruleNamed name R0 = some r)
    (hre : r.re = idRule.re) {notW : List Char → Bool}
    (hpre : (rulesBefore name R0).all (fun r' => wordPreOk notW none r'.re) = true)
    {lexeme rest : List Char} (hl : wordLike lexeme = true) (hs : wordSep rest = true)
    (hnot : ∀ w, notW w = true → lexeme ≠ w) {bound : Nat} (hb : lexeme.length ≤ bound)
    (prev : Option Char) :
    firstMatch T bound R0 prev (lexeme ++ rest) = some (r, lexeme.length, rest) := by
  apply firstMatch_named hr
  · intro r' hr'
    exact wordPre_miss (rulesBefore_all hpre r' hr') hl hs hnot
      (fun _ _ h => by cases h) bound prev
  · rw [hre]
    cases lexeme with
    | nil => simp [wordLike] at hl
    | cons c cs =>
      simp only [wordLike, Bool.and_eq_true, List.all_eq_true] at hl
      rw [List.cons_append]
      exact id_match hl.1 hl.2 hs (by simp at hb; omega) prev

/-! ### 8. the two-word tokens, any inner white space -/

/-- `w1`, white space (`min` or more), `w2`, then no word character: the two-word rule `name`,
    provided no rule tried before it can start with the first letter of `w1` (real order
    dependence: the keyword rule of `w1` must come later) -/
theorem spaced_firstMatch {name : String} {r : LexRule} {c : Char} {w1' w2 : List Char}
    {min : Nat} (hr : ruleNamed name R0 = some r) (hre : r.re = spacedRe (c :: w1') min w2)
    (hpre : (rulesBefore name R0).all (fun r' => !firstOk T r'.re c) = true)
    (hw2 : w2 ≠ []) (hw2c : ∀ x ∈ w2, isIdChar x = true)
    {ws rest : List Char} (hws : ∀ x ∈ ws, isSpace x = true) (hmin : min ≤ ws.length)
    (hs : wordSep rest = true) {bound : Nat} (hb : ws.length ≤ bound) (prev : Option Char) :
    firstMatch T bound R0 prev (((c :: w1') ++ (ws ++ w2)) ++ rest) =
      some (r, ((c :: w1') ++ (ws ++ w2)).length, rest) := by
  have hassoc : ((c :: w1') ++ (ws ++ w2)) ++ rest = (c :: w1') ++ (ws ++ (w2 ++ rest)) := by simp
  rw [hassoc]
  apply firstMatch_named hr
  · rw [List.cons_append]
    exact blocked_of_all hpre bound prev _
  · rw [hre]
    exact spaced_hit (w1 := c :: w1') (w2 := w2) hw2 hw2c hws hmin hs (by omega) prev

/-! ### 9. numbers -/

def itemBelow (N : Nat) : SetItem → Bool
  | .chr x => x < N
  | .range _ hi => hi < N
  | .cat _ => false

/-- every input `r` can match starts with a character below `N` -/
def firstBelow (N : Nat) : Re → Bool
  | .lit c => c < N
  | .set items neg => !neg && items.all (itemBelow N)
  | .seq a _ => firstBelow N a
  | .alt a b => firstBelow N a && firstBelow N b
  | .rep min _ _ r => min != 0 && firstBelow N r
  | _ => false

theorem firstBelow_sound (t : CharTables) {N : Nat} : ∀ (r : Re) (c : Char),
    firstBelow N r = true → firstOk t r c = true → c.toNat < N
  | .eps, _, h, _ => by simp [firstBelow] at h
  | .lit x, c, h, h' => by
    simp only [firstBelow, decide_eq_true_eq] at h
    simp only [firstOk, beq_iff_eq] at h'
    omega
  | .notLit _, _, h, _ => by simp [firstBelow] at h
  | .set items neg, c, h, h' => by
    simp only [firstBelow, Bool.and_eq_true, Bool.not_eq_true', List.all_eq_true] at h
    obtain ⟨hneg, hall⟩ := h
    subst hneg
    simp only [firstOk, bne_iff_ne, ne_eq, Bool.not_eq_false, List.any_eq_true] at h'
    obtain ⟨item, hi, htest⟩ := h'
    have := hall item hi
    cases item with
    | chr x =>
      simp only [itemBelow, decide_eq_true_eq] at this
      simp only [SetItem.test, beq_iff_eq] at htest
      omega
    | range lo hi =>
      simp only [itemBelow, decide_eq_true_eq] at this
      simp only [SetItem.test, Bool.and_eq_true, decide_eq_true_eq] at htest
      omega
    | cat _ => simp [itemBelow] at this
  | .any, _, h, _ => by simp [firstBelow] at h
  | .seq a _, c, h, h' => firstBelow_sound t a c (by simpa [firstBelow] using h)
      (by simpa [firstOk] using h')
  | .alt a b, c, h, h' => by
    simp only [firstBelow, Bool.and_eq_true] at h
    simp only [firstOk, Bool.or_eq_true] at h'
    rcases h' with h' | h'
    · exact firstBelow_sound t a c h.1 h'
    · exact firstBelow_sound t b c h.2 h'
  | .rep min _ _ r, c, h, h' => by
    simp only [firstBelow, Bool.and_eq_true, bne_iff_ne, ne_eq] at h
    simp only [firstOk, Bool.or_eq_true, beq_iff_eq] at h'
    rcases h' with h' | h'
    · exact absurd h' h.1
    · exact firstBelow_sound t r c h.2 h'
  | .boundary _, _, h, _ => by simp [firstBelow] at h
  | .look _ _, _, h, _ => by simp [firstBelow] at h
  | .unsupported _, _, h, _ => by simp [firstBelow] at h

def asciiDigits : List Char := (List.range' 48 10).map Char.ofNat

theorem digitRanges_high : ∀ i, i < Generated.digitRanges.size →
    i = 0 ∨ 128 ≤ (Generated.digitRanges[i]!).1 := by decide +kernel

theorem digit_ascii {c : Char} (hc : isDigitC c = true) (hlt : c.toNat < 128) :
    c ∈ asciiDigits := by
  unfold isDigitC inRanges at hc
  obtain ⟨i, hi, h1, h2⟩ := inRanges_go_sound _ _ _ _ _ (Nat.le_refl _) hc
  rcases digitRanges_high i hi with rfl | hge
  · have e : Generated.digitRanges[0]! = (48, 57) := rfl
    rw [e] at h1 h2
    have hcc : c = Char.ofNat c.toNat := (Char.ofNat_toNat c).symm
    rw [hcc]
    apply List.mem_map_of_mem
    rw [List.mem_range'_1]
    simp only at h1 h2
    omega
  · omega

/-- **the check for a rule tried before a number rule**: it cannot start with an ASCII digit,
    and everything it can start with is ASCII (so it cannot start with a non-ASCII `\d` either) -/
def digitBlocked (r : Re) : Bool := asciiDigits.all (fun c => !firstOk T r c) && firstBelow 128 r

/-- a rule that passes `digitBlocked` cannot start with a (Unicode) decimal digit -/
theorem digitBlocked_miss {r : Re} (h : digitBlocked r = true) {c : Char}
    (hc : isDigitC c = true) (bound : Nat) (prev : Option Char) (s : List Char) :
    matchPrefix T bound r prev (c :: s) = none := by
  simp only [digitBlocked, Bool.and_eq_true] at h
  apply matchPrefix_none_of_firstOk
  by_cases hlt : c.toNat < 128
  · have := List.all_eq_true.1 h.1 c (digit_ascii hc hlt)
    simpa using this
  · cases hf : firstOk T r c with
    | false => rfl
    | true => exact absurd (firstBelow_sound T r c h.2 hf) hlt

def digitP : Char → Bool := fun x => (digitItems.any (·.test T x.toNat)) != false

theorem digitP_eq (c : Char) : digitP c = isDigitC c := by
  simp [digitP, digitItems, SetItem.test, CharTables.isCat, isDigitC, T, Generated.charTables]

theorem digitClass (bound : Nat) :
    ClassLike digitP (fun p' n' s' k' => m T bound (.set digitItems false) p' n' s' k') :=
  classLike_set T bound digitItems

/-- the text continues with a decimal digit -/
def digitHead (s : List Char) : Bool :=
  match s.head? with
  | some d => isDigitC d
  | none => false

theorem stops_digit {s : List Char} (h : digitHead s = false) : Stops digitP s := by
  intro x hx
  rw [digitP_eq]
  simpa [digitHead, hx] using h

/-- after a float: no further digit -/
def digitSep (rest : List Char) : Bool := !digitHead rest

/-- after an integer: no further digit, and not `.` + digit (that would be a float) -/
def intSep : List Char → Bool
  | [] => true
  | c :: r => !isDigitC c && !(c == '.' && digitHead r)

theorem intSep_digitHead {rest : List Char} (h : intSep rest = true) : digitHead rest = false := by
  cases rest with
  | nil => rfl
  | cons c r =>
    simp only [intSep, Bool.and_eq_true, Bool.not_eq_true'] at h
    simpa [digitHead] using h.1

theorem dot_notDigit : isDigitC '.' = false := by decide +kernel

/-- `\d+` takes a maximal run of digits -/
theorem digits_match {ds rest : List Char} (hne : ds ≠ []) (hds : ∀ x ∈ ds, isDigitC x = true)
    (hs : digitHead rest = false) {bound : Nat} (hb : ds.length ≤ bound + 2) (p : Option Char)
    (n : Nat) (k : K) (res : Nat × List Char) (hk : ∀ q, k q (n + ds.length) rest = some res) :
    m T bound digitsRe p n (ds ++ rest) k = some res := by
  unfold digitsRe
  rw [m_rep_eq]
  have h1 : 1 ≤ ds.length := by
    cases ds with
    | nil => exact absurd rfl hne
    | cons _ _ => simp
  exact repLoop_greedy_class (digitClass bound) ds _ 1 p n rest k res
    (fun x hx => by rw [digitP_eq]; exact hds x hx) (stops_digit hs) (by omega) h1 hk

/-- `\d+\.\d+` does not match digits that are not followed by `.` + digit -/
theorem float_miss_int {ds rest : List Char} (hds : ∀ x ∈ ds, isDigitC x = true)
    (hs : intSep rest = true) (bound : Nat) (prev : Option Char) :
    matchPrefix T bound floatRule.re prev (ds ++ rest) = none := by
  unfold matchPrefix
  rw [show floatRule.re = .seq digitsRe (.seq (.lit 46) digitsRe) from rfl, m_seq_eq]
  unfold digitsRe
  rw [m_rep_eq]
  apply repLoop_greedy_class_none (digitClass bound) ds _ 1 _ _ rest _
    (fun x hx => by rw [digitP_eq]; exact hds x hx) (stops_digit (intSep_digitHead hs))
  intro a b q hab _
  rw [m_seq_eq]
  cases b with
  | nil =>
    rw [List.nil_append]
    cases rest with
    | nil => exact m_lit_nil _ _ _ _ _ _
    | cons c r =>
      by_cases hc : c.toNat = 46
      · rw [m_lit_hit' T bound hc, m_rep_eq]
        have hdot : c = '.' := by rw [← Char.ofNat_toNat c, hc]
        subst hdot
        simp only [intSep, Bool.and_eq_true, Bool.not_eq_true', beq_self_eq_true,
          Bool.true_and] at hs
        exact repLoop_min_stop (digitClass bound) (stops_digit hs.2) _ _ _ _ _ _ _
      · exact m_lit_miss T bound hc _ _ _ _
  | cons x b' =>
    have hx : isDigitC x = true := hds x (by rw [hab]; simp)
    have hne : x.toNat ≠ 46 := by
      intro h46
      have hdot : x = '.' := by rw [← Char.ofNat_toNat x, h46]
      rw [hdot, dot_notDigit] at hx
      cases hx
    rw [List.cons_append]
    exact m_lit_miss T bound hne _ _ _ _

/-- **integers**: a non-empty run of decimal digits, not followed by a digit or by `.` + digit,
    is matched by the rule `name` = `\d+`, provided every rule tried before it is the float rule
    `\d+\.\d+` or cannot start with a digit -/
theorem int_firstMatch {name : String} {r : LexRule} (hr : ruleNamed name R0 = some r)
    (hre : r.re = digitsRe)
    (hpre : (rulesBefore name R0).all
      (fun r' => r'.re == floatRule.re || digitBlocked r'.re) = true)
    {ds rest : List Char} (hne : ds ≠ []) (hds : ∀ x ∈ ds, isDigitC x = true)
    (hs : intSep rest = true) {bound : Nat} (hb : ds.length ≤ bound) (prev : Option Char) :
    firstMatch T bound R0 prev (ds ++ rest) = some (r, ds.length, rest) := by
  obtain ⟨c, cs, hlex⟩ : ∃ c cs, ds = c :: cs := by
    cases ds with
    | nil => exact absurd rfl hne
    | cons c cs => exact ⟨c, cs, rfl⟩
  apply firstMatch_named hr
  · intro r' hr'
    rcases Bool.or_eq_true _ _ ▸ rulesBefore_all hpre r' hr' with h | h
    · rw [beq_iff_eq.1 h]
      exact float_miss_int hds hs bound prev
    · rw [hlex, List.cons_append]
      exact digitBlocked_miss h (hds c (by rw [hlex]; exact List.mem_cons_self)) bound prev _
  · rw [hre]
    unfold matchPrefix
    exact digits_match hne hds (intSep_digitHead hs) (by omega) prev 0 _ _
      (fun _ => by rw [Nat.zero_add])

/-- **floats**: digits, `.`, digits, not followed by a digit, are matched by the rule `name` =
    `\d+\.\d+`, provided no rule tried before it can start with a digit (real order dependence:
    the integer rule `\d+` must come later) -/
theorem float_firstMatch {name : String} {r : LexRule} (hr : ruleNamed name R0 = some r)
    (hre : r.re = floatRule.re)
    (hpre : (rulesBefore name R0).all (fun r' => digitBlocked r'.re) = true)
    {ip fp rest : List Char} (hip : ip ≠ [])
    (hipd : ∀ x ∈ ip, isDigitC x = true) (hfp : fp ≠ []) (hfpd : ∀ x ∈ fp, isDigitC x = true)
    (hs : digitSep rest = true) {bound : Nat} (hb : (ip ++ '.' :: fp).length ≤ bound)
    (prev : Option Char) :
    firstMatch T bound R0 prev ((ip ++ '.' :: fp) ++ rest) =
      some (r, (ip ++ '.' :: fp).length, rest) := by
  obtain ⟨c, cs, hlex⟩ : ∃ c cs, ip = c :: cs := by
    cases ip with
    | nil => exact absurd rfl hip
    | cons c cs => exact ⟨c, cs, rfl⟩
  have hassoc : (ip ++ '.' :: fp) ++ rest = ip ++ ('.' :: (fp ++ rest)) := by simp
  have hlen : (ip ++ '.' :: fp).length = ip.length + 1 + fp.length := by
    simp only [List.length_append, List.length_cons]
    omega
  rw [hlen] at hb
  rw [hassoc]
  apply firstMatch_named hr
  · intro r' hr'
    rw [hlex, List.cons_append]
    exact digitBlocked_miss (rulesBefore_all hpre r' hr')
      (hipd c (by rw [hlex]; exact List.mem_cons_self)) bound prev _
  rw [hre]
  unfold matchPrefix
  rw [show floatRule.re = .seq digitsRe (.seq (.lit 46) digitsRe) from rfl, m_seq_eq]
  have hdh : digitHead ('.' :: (fp ++ rest)) = false := by
    simp [digitHead, dot_notDigit]
  apply digits_match hip hipd hdh (by omega)
  intro q
  rw [m_seq_eq, m_lit_hit' T bound (c := '.') (by decide)]
  apply digits_match hfp hfpd (by simpa [digitSep] using hs) (by omega)
  intro _
  rw [hlen]
  simp only [Nat.zero_add]

/-! ### 10. strings -/

/-- `q.*?q` on `q body q rest`, the body without `q` and without a line break: the match ends at
    the first closing quote -/
theorem quoted_hit {q : Char} {code : Nat} (hq : q.toNat = code) {body rest : List Char}
    (hbq : ∀ x ∈ body, x ≠ q) (hbn : ∀ x ∈ body, x ≠ '\n') {bound : Nat}
    (hb : body.length ≤ bound) (p : Option Char) (n : Nat) :
    m T bound (quotedRe code) p n (q :: (body ++ q :: rest)) (fun _ n rest => some (n, rest)) =
      some (n + 1 + body.length + 1, rest) := by
  unfold quotedRe
  rw [m_seq_eq, m_lit_hit' T bound hq, m_seq_eq, m_rep_eq]
  refine repLoop_lazy_hit (dotLike_any T bound) body _ _ _ _ _ _ hbn (by omega) ?_ ?_
  · intro a b r hab hbne
    cases b with
    | nil => exact absurd rfl hbne
    | cons x b' =>
      have hx : x ≠ q := hbq x (by rw [hab]; simp)
      rw [List.cons_append]
      apply m_lit_miss
      intro h
      exact hx (Char.toNat_inj.1 (h.trans hq.symm))
  · intro r
    rw [m_lit_hit' T bound hq]

/-- **strings**: an opening quote, a body without that quote and without line breaks, the
    closing quote — whatever follows — are matched by the rule `name` = `".*?"|'.*?'`, provided
    no rule tried before it can start with a quote -/
theorem str_firstMatch {name : String} {r : LexRule} (hr : ruleNamed name R0 = some r)
    (hre : r.re = strRule.re)
    (hpre : (rulesBefore name R0).all
      (fun r' => !firstOk T r'.re '"' && !firstOk T r'.re '\'') = true)
    {q : Char} (hq : q = '"' ∨ q = '\'') {body rest : List Char}
    (hbq : ∀ x ∈ body, x ≠ q) (hbn : ∀ x ∈ body, x ≠ '\n') {bound : Nat}
    (hb : body.length ≤ bound) (prev : Option Char) :
    firstMatch T bound R0 prev (q :: (body ++ q :: rest)) = some (r, body.length + 2, rest) := by
  have hpre' : ∀ r' ∈ rulesBefore name R0,
      firstOk T r'.re '"' = false ∧ firstOk T r'.re '\'' = false := by
    intro r' hr'
    have := rulesBefore_all hpre r' hr'
    simpa using this
  rcases hq with rfl | rfl
  · apply firstMatch_named hr
      (fun r' hr' => matchPrefix_none_of_firstOk (hpre' r' hr').1)
    rw [hre]
    unfold matchPrefix
    rw [show strRule.re = .alt (quotedRe 34) (quotedRe 39) from rfl, m_alt_eq,
      quoted_hit (q := '"') (by decide) hbq hbn hb]
    simp [Option.orElse]
    omega
  · apply firstMatch_named hr
      (fun r' hr' => matchPrefix_none_of_firstOk (hpre' r' hr').2)
    rw [hre]
    unfold matchPrefix
    rw [show strRule.re = .alt (quotedRe 34) (quotedRe 39) from rfl, m_alt_eq]
    have hmiss : m T bound (quotedRe 34) prev 0 ('\'' :: (body ++ '\'' :: rest))
        (fun _ n rest => some (n, rest)) = none := by
      unfold quotedRe
      rw [m_seq_eq]
      exact m_lit_miss T bound (by decide) _ _ _ _
    rw [hmiss, quoted_hit (q := '\'') (by decide) hbq hbn hb]
    simp [Option.orElse]
    omega

/-! ### 11. punctuation and operators -/

/-- a one-character rule wins at its character when no rule tried before it can start with it -/
theorem fixed1 {name : String} {r : LexRule} {c : Char} (hr : ruleNamed name R0 = some r)
    (hre : r.re = .lit c.toNat)
    (hpre : (rulesBefore name R0).all (fun r' => !firstOk T r'.re c) = true)
    (rest : List Char) (bound : Nat) (prev : Option Char) :
    firstMatch T bound R0 prev ([c] ++ rest) = some (r, [c].length, rest) := by
  apply firstMatch_named hr (blocked_of_all hpre bound prev rest)
  unfold matchPrefix
  rw [hre, m_lit_hit]
  rfl

/-- a two-character rule wins at its characters when no rule tried before it can start with the
    first one (real order dependence: `>` / `<` must come after `>=` / `<=`) -/
theorem fixed2 {name : String} {r : LexRule} {c d : Char} (hr : ruleNamed name R0 = some r)
    (hre : r.re = .seq (.lit c.toNat) (.lit d.toNat))
    (hpre : (rulesBefore name R0).all (fun r' => !firstOk T r'.re c) = true)
    (rest : List Char) (bound : Nat) (prev : Option Char) :
    firstMatch T bound R0 prev ([c, d] ++ rest) = some (r, [c, d].length, rest) := by
  apply firstMatch_named hr (blocked_of_all hpre bound prev (d :: rest))
  unfold matchPrefix
  rw [hre, m_seq_eq, m_lit_hit, m_lit_hit]
  rfl

/-- `c=` does not match `c` followed by something else than `=` -/
theorem op2_miss {c : Char} {rest : List Char} (h : (rest.head? != some '=') = true)
    (bound : Nat) (prev : Option Char) :
    matchPrefix T bound (.seq (.lit c.toNat) (.lit 61)) prev (c :: rest) = none := by
  unfold matchPrefix
  rw [m_seq_eq, m_lit_hit]
  cases rest with
  | nil => exact m_lit_nil _ _ _ _ _ _
  | cons x r =>
    apply m_lit_miss
    intro hx
    have : x = '=' := by rw [← Char.ofNat_toNat x, hx]
    subst this
    simp at h

/-- `>` / `<` not followed by `=`: the one-character rule wins when every rule tried before it
    cannot start with that character or is the two-character rule `c=` -/
theorem op1_firstMatch {name : String} {r : LexRule} {c : Char}
    (hr : ruleNamed name R0 = some r) (hre : r.re = .lit c.toNat)
    (hpre : (rulesBefore name R0).all
      (fun r' => !firstOk T r'.re c || r'.re == .seq (.lit c.toNat) (.lit 61)) = true)
    {rest : List Char} (h : (rest.head? != some '=') = true) (bound : Nat) (prev : Option Char) :
    firstMatch T bound R0 prev ([c] ++ rest) = some (r, 1, rest) := by
  apply firstMatch_named hr
  · intro r' hr'
    rcases Bool.or_eq_true _ _ ▸ rulesBefore_all hpre r' hr' with h' | h'
    · exact matchPrefix_none_of_firstOk (by simpa using h')
    · rw [beq_iff_eq.1 h']
      exact op2_miss h bound prev
  · unfold matchPrefix
    rw [hre]
    exact m_lit_hit T bound c _ _ _ _

end Pyab.TokenLex
