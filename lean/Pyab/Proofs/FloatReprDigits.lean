/-
  The digit search of `Dbl.repr` (`Dbl.shortestDigits`) succeeds on every genuine double: the
  classic fact that 17 significant digits identify a binary64 value.

  * `decExp_spec` — `decExp n d` is the decimal exponent of `n/d`;
  * `sigCandidates_spec` — the two `p`-digit candidates bracket `n/d`;
  * `near17` — within half a unit of the 17th digit of a genuine double `x` every rational rounds to `x`
    (`10^16 > 2^53`), so the nearer of the two 17-digit candidates reads back (`cand17_good`);
  * `goO` — the search with "out of fuel" made explicit; `go_eq_goO`;
  * `shortestDigits_good` — **(A)**: for a genuine positive double the search returns digits that read
    back, found as a `p`-digit candidate with `1 ≤ p ≤ 17`.
-/
import Pyab.Proofs.FloatReprRound

namespace Pyab
namespace Dbl
open Pyab.Proofs (pow2_eq round_zero)

/-! ### number of decimal digits -/

theorem numDigits_eq (n : Nat) : numDigits n = n.repr.length := rfl

theorem numDigits_pos (n : Nat) : 0 < numDigits n := Nat.length_repr_pos

theorem numDigits_lt (n : Nat) : n < 10 ^ numDigits n :=
  (Nat.length_repr_le_iff (numDigits_pos n)).1 (le_refl _)

theorem numDigits_le (n : Nat) (hn : n ≠ 0) : 10 ^ (numDigits n - 1) ≤ n := by
  by_cases h1 : numDigits n = 1
  · rw [h1]; simp; omega
  · have hpos := numDigits_pos n
    by_contra hc
    have := (Nat.length_repr_le_iff (n := n) (k := numDigits n - 1) (by omega)).2 (by omega)
    rw [← numDigits_eq] at this
    omega

/-! ### the decimal exponent -/

/-- the test `n/d ≥ 10^k` of `decExp` -/
def decGe (n d : Nat) (k : Int) : Bool :=
  if k ≥ 0 then n ≥ d * 10 ^ k.toNat else n * 10 ^ (-k).toNat ≥ d

theorem decExp_eq (n d : Nat) :
    decExp n d =
      if decGe n d ((numDigits n : Int) - (numDigits d : Int) + 1) then
        (numDigits n : Int) - (numDigits d : Int) + 1
      else if decGe n d ((numDigits n : Int) - (numDigits d : Int)) then
        (numDigits n : Int) - (numDigits d : Int)
      else (numDigits n : Int) - (numDigits d : Int) - 1 := rfl

theorem decGe_iff (n d : Nat) (hd : d ≠ 0) (k : Int) :
    decGe n d k = true ↔ (10 : ℚ) ^ k ≤ (n : ℚ) / d := by
  have hdq : (0 : ℚ) < (d : ℚ) := by exact_mod_cast Nat.pos_of_ne_zero hd
  unfold decGe
  by_cases hk : k ≥ 0
  · rw [if_pos hk, le_div_iff₀ hdq, decide_eq_true_iff, ← ten_zpow_toNat k hk]
    constructor
    · intro h
      have : ((d * 10 ^ k.toNat : Nat) : ℚ) ≤ (n : ℚ) := by exact_mod_cast h
      push_cast at this; linarith
    · intro h
      have : ((d * 10 ^ k.toNat : Nat) : ℚ) ≤ (n : ℚ) := by push_cast; linarith
      exact_mod_cast this
  · rw [if_neg hk, le_div_iff₀ hdq, decide_eq_true_iff]
    have hinv := ten_zpow_neg_toNat k (by omega)
    have hpos := ten_zpow_pos k
    have hT : (0 : ℚ) < (10 : ℚ) ^ (-k).toNat := by positivity
    have hmul : (10 : ℚ) ^ k * (10 : ℚ) ^ (-k).toNat = 1 := by
      rw [hinv]; exact mul_inv_cancel₀ (ne_of_gt hpos)
    constructor
    · intro h
      have h' : ((d : Nat) : ℚ) ≤ ((n * 10 ^ (-k).toNat : Nat) : ℚ) := by exact_mod_cast h
      push_cast at h'
      have := mul_le_mul_of_nonneg_left h' hpos.le
      calc (10 : ℚ) ^ k * d ≤ (10 : ℚ) ^ k * ((n : ℚ) * 10 ^ (-k).toNat) := this
        _ = (n : ℚ) * ((10 : ℚ) ^ k * 10 ^ (-k).toNat) := by ring
        _ = n := by rw [hmul, mul_one]
    · intro h
      have := mul_le_mul_of_nonneg_right h hT.le
      have h' : ((d : Nat) : ℚ) ≤ ((n * 10 ^ (-k).toNat : Nat) : ℚ) := by
        push_cast
        calc (d : ℚ) = ((10 : ℚ) ^ k * 10 ^ (-k).toNat) * d := by rw [hmul, one_mul]
          _ = (10 : ℚ) ^ k * d * 10 ^ (-k).toNat := by ring
          _ ≤ (n : ℚ) * 10 ^ (-k).toNat := this
      exact_mod_cast h'

theorem ten_zpow_le {a b : Int} (h : a ≤ b) : (10 : ℚ) ^ a ≤ 10 ^ b :=
  zpow_le_zpow_right₀ (by norm_num) h

theorem ten_zpow_lt_iff {a b : Int} : (10 : ℚ) ^ a < 10 ^ b ↔ a < b :=
  zpow_lt_zpow_iff_right₀ (by norm_num)

/-- the decimal exponent is determined by the value -/
theorem ten_exp_unique {v : ℚ} {a b : Int} (ha : (10 : ℚ) ^ a ≤ v) (ha' : v < 10 ^ (a + 1))
    (hb : (10 : ℚ) ^ b ≤ v) (hb' : v < 10 ^ (b + 1)) : a = b := by
  have h1 : (10 : ℚ) ^ a < 10 ^ (b + 1) := lt_of_le_of_lt ha hb'
  have h2 : (10 : ℚ) ^ b < 10 ^ (a + 1) := lt_of_le_of_lt hb ha'
  rw [ten_zpow_lt_iff] at h1 h2
  omega

/-- `decExp n d` is the `k` with `10^k ≤ n/d < 10^(k+1)` -/
theorem decExp_spec (n d : Nat) (hn : n ≠ 0) (hd : d ≠ 0) :
    (10 : ℚ) ^ decExp n d ≤ (n : ℚ) / d ∧ (n : ℚ) / d < (10 : ℚ) ^ (decExp n d + 1) := by
  have hdq : (0 : ℚ) < (d : ℚ) := by exact_mod_cast Nat.pos_of_ne_zero hd
  have hnq : (0 : ℚ) < (n : ℚ) := by exact_mod_cast Nat.pos_of_ne_zero hn
  rw [decExp_eq]
  -- digit-count bounds, over ℚ
  have na := numDigits_pos n
  have nb := numDigits_pos d
  have h1 : (10 : ℚ) ^ ((numDigits n : Int) - 1) ≤ (n : ℚ) := by
    have := numDigits_le n hn
    have h' : ((10 ^ (numDigits n - 1) : Nat) : ℚ) ≤ (n : ℚ) := by exact_mod_cast this
    push_cast at h'
    rw [← zpow_natCast] at h'
    rwa [show ((numDigits n - 1 : Nat) : Int) = (numDigits n : Int) - 1 by omega] at h'
  have h2 : (n : ℚ) < (10 : ℚ) ^ (numDigits n : Int) := by
    have := numDigits_lt n
    have h' : (n : ℚ) < ((10 ^ numDigits n : Nat) : ℚ) := by exact_mod_cast this
    push_cast at h'
    rwa [← zpow_natCast] at h'
  have h3 : (10 : ℚ) ^ ((numDigits d : Int) - 1) ≤ (d : ℚ) := by
    have := numDigits_le d hd
    have h' : ((10 ^ (numDigits d - 1) : Nat) : ℚ) ≤ (d : ℚ) := by exact_mod_cast this
    push_cast at h'
    rw [← zpow_natCast] at h'
    rwa [show ((numDigits d - 1 : Nat) : Int) = (numDigits d : Int) - 1 by omega] at h'
  have h4 : (d : ℚ) < (10 : ℚ) ^ (numDigits d : Int) := by
    have := numDigits_lt d
    have h' : (d : ℚ) < ((10 ^ numDigits d : Nat) : ℚ) := by exact_mod_cast this
    push_cast at h'
    rwa [← zpow_natCast] at h'
  generalize (numDigits n : Int) = a at *
  generalize (numDigits d : Int) = b at *
  -- n/d < 10^(a-b+1) and 10^(a-b-1) < n/d
  have hup : (n : ℚ) / d < (10 : ℚ) ^ (a - b + 1) := by
    rw [div_lt_iff₀ hdq]
    calc (n : ℚ) < 10 ^ a := h2
      _ = 10 ^ (a - b + 1) * 10 ^ (b - 1) := by rw [← ten_zpow_add]; congr 1; ring
      _ ≤ 10 ^ (a - b + 1) * d := mul_le_mul_of_nonneg_left h3 (ten_zpow_pos _).le
  have hlo : (10 : ℚ) ^ (a - b - 1) ≤ (n : ℚ) / d := by
    rw [le_div_iff₀ hdq]
    calc (10 : ℚ) ^ (a - b - 1) * d ≤ 10 ^ (a - b - 1) * 10 ^ b :=
          mul_le_mul_of_nonneg_left h4.le (ten_zpow_pos _).le
      _ = 10 ^ (a - 1) := by rw [← ten_zpow_add]; congr 1; ring
      _ ≤ n := h1
  by_cases c1 : decGe n d (a - b + 1) = true
  · rw [if_pos c1]
    refine ⟨(decGe_iff n d hd _).1 c1, lt_of_lt_of_le hup (ten_zpow_le (by omega))⟩
  · rw [if_neg c1]
    by_cases c2 : decGe n d (a - b) = true
    · rw [if_pos c2]
      exact ⟨(decGe_iff n d hd _).1 c2, hup⟩
    · rw [if_neg c2]
      refine ⟨hlo, ?_⟩
      rw [show a - b - 1 + 1 = a - b by ring]
      exact not_le.1 fun h => c2 ((decGe_iff n d hd _).2 h)

/-! ### the candidates -/

/-- the floor of `(n/d) / 10^s` as `sigCandidates` computes it -/
def candLo (n d : Nat) (s : Int) : Nat :=
  if s ≥ 0 then n / (d * 10 ^ s.toNat) else (n * 10 ^ (-s).toNat) / d

theorem sigCandidates_eq (n d p : Nat) :
    sigCandidates n d p =
      [(candLo n d (decExp n d - (p : Int) + 1), decExp n d - (p : Int) + 1),
       (candLo n d (decExp n d - (p : Int) + 1) + 1, decExp n d - (p : Int) + 1)] := by
  unfold sigCandidates candLo
  simp only []
  split <;> rfl

theorem nat_div_bounds (a b : Nat) (hb : b ≠ 0) :
    ((a / b : Nat) : ℚ) ≤ (a : ℚ) / b ∧ (a : ℚ) / b < ((a / b : Nat) : ℚ) + 1 := by
  have hbq : (0 : ℚ) < (b : ℚ) := by exact_mod_cast Nat.pos_of_ne_zero hb
  have hdm := Nat.div_add_mod a b
  have hmod := Nat.mod_lt a (Nat.pos_of_ne_zero hb)
  have hq : (a : ℚ) = (b : ℚ) * ((a / b : Nat) : ℚ) + ((a % b : Nat) : ℚ) := by exact_mod_cast hdm.symm
  have h0 : (0 : ℚ) ≤ ((a % b : Nat) : ℚ) := Nat.cast_nonneg _
  have h1 : ((a % b : Nat) : ℚ) < (b : ℚ) := by exact_mod_cast hmod
  constructor
  · rw [le_div_iff₀ hbq]; nlinarith
  · rw [div_lt_iff₀ hbq]; nlinarith

/-- `candLo n d s` is the floor of `(n/d) / 10^s` -/
theorem candLo_spec (n d : Nat) (hd : d ≠ 0) (s : Int) :
    decVal (candLo n d s) s ≤ (n : ℚ) / d ∧ (n : ℚ) / d < decVal (candLo n d s + 1) s := by
  have hdq : (0 : ℚ) < (d : ℚ) := by exact_mod_cast Nat.pos_of_ne_zero hd
  have hT := ten_zpow_pos s
  unfold candLo decVal
  by_cases hs : s ≥ 0
  · rw [if_pos hs]
    have h10 : d * 10 ^ s.toNat ≠ 0 := Nat.mul_ne_zero hd (by positivity)
    obtain ⟨b1, b2⟩ := nat_div_bounds n (d * 10 ^ s.toNat) h10
    have e : (n : ℚ) / ((d * 10 ^ s.toNat : Nat) : ℚ) = (n : ℚ) / d / 10 ^ s := by
      push_cast; rw [ten_zpow_toNat s hs, div_div]
    rw [e] at b1 b2
    constructor
    · rwa [le_div_iff₀ hT] at b1
    · rw [div_lt_iff₀ hT] at b2; push_cast; exact b2
  · rw [if_neg hs]
    obtain ⟨b1, b2⟩ := nat_div_bounds (n * 10 ^ (-s).toNat) d hd
    have e : ((n * 10 ^ (-s).toNat : Nat) : ℚ) / (d : ℚ) = (n : ℚ) / d / 10 ^ s := by
      push_cast; rw [ten_zpow_neg_toNat s (by omega)]; field_simp
    rw [e] at b1 b2
    constructor
    · rwa [le_div_iff₀ hT] at b1
    · rw [div_lt_iff₀ hT] at b2; push_cast; exact b2

/-- with `p ≥ 1` digits the lower candidate has at least `p` digits' worth: `10^(p-1) ≤ lo` -/
theorem candLo_ge (n d : Nat) (hn : n ≠ 0) (hd : d ≠ 0) (p : Nat) (hp : 1 ≤ p) :
    10 ^ (p - 1) ≤ candLo n d (decExp n d - (p : Int) + 1) := by
  obtain ⟨hk, -⟩ := decExp_spec n d hn hd
  obtain ⟨-, hhi⟩ := candLo_spec n d hd (decExp n d - (p : Int) + 1)
  generalize candLo n d (decExp n d - (p : Int) + 1) = lo at *
  unfold decVal at hhi
  -- 10^k < (lo+1)·10^s with k - s = p - 1
  have hT := ten_zpow_pos (decExp n d - (p : Int) + 1)
  have h1 : (10 : ℚ) ^ decExp n d < ((lo + 1 : Nat) : ℚ) * 10 ^ (decExp n d - (p : Int) + 1) :=
    lt_of_le_of_lt hk hhi
  have e : (10 : ℚ) ^ decExp n d = 10 ^ ((p - 1 : Nat) : Int) * 10 ^ (decExp n d - (p : Int) + 1) := by
    rw [← ten_zpow_add]; congr 1; omega
  rw [e] at h1
  have h2 : (10 : ℚ) ^ ((p - 1 : Nat) : Int) < ((lo + 1 : Nat) : ℚ) := lt_of_mul_lt_mul_right h1 hT.le
  rw [zpow_natCast] at h2
  have h3 : 10 ^ (p - 1) < lo + 1 := by exact_mod_cast h2
  omega

/-! ### value equality as the model tests it -/

theorem beq_fin_iff (m1 e1 m2 e2 : Int) :
    ((fin m1 e1 == fin m2 e2) = true) ↔ val (fin m1 e1) = val (fin m2 e2) := by
  obtain ⟨h1, h2⟩ := align_val m1 e1 m2 e2
  show (beq (fin m1 e1) (fin m2 e2) = true) ↔ _
  unfold beq
  rw [val_fin, val_fin, cmp_fin_fin, ← h1, ← h2, beq_iff_eq, Option.some_inj, Int.compare_eq_eq]
  constructor
  · intro h; rw [h]
  · intro h
    have := mul_right_cancel₀ (ne_of_gt (two_zpow_pos _)) h
    exact_mod_cast this

theorem stripTwos_val : ∀ (fuel n k : Nat),
    (stripTwos fuel n k).1 * 2 ^ (stripTwos fuel n k).2 = n * 2 ^ k ∧ k ≤ (stripTwos fuel n k).2
  | 0, n, k => ⟨rfl, le_refl _⟩
  | fuel + 1, n, k => by
    unfold stripTwos
    split
    · rename_i h
      simp only [Bool.and_eq_true, bne_iff_ne, ne_eq, beq_iff_eq] at h
      obtain ⟨ih1, ih2⟩ := stripTwos_val fuel (n / 2) (k + 1)
      refine ⟨?_, by omega⟩
      rw [ih1, Nat.pow_succ]
      have : n = 2 * (n / 2) := by omega
      calc n / 2 * (2 ^ k * 2) = (2 * (n / 2)) * 2 ^ k := by ring
        _ = n * 2 ^ k := by rw [← this]
    · exact ⟨rfl, le_refl _⟩

theorem stripTwos_odd : ∀ (fuel n k : Nat), n ≠ 0 → n < 2 ^ fuel → (stripTwos fuel n k).1 % 2 = 1
  | 0, n, k, hn, h => by simp at h; omega
  | fuel + 1, n, k, hn, h => by
    unfold stripTwos
    split
    · rename_i hc
      simp only [Bool.and_eq_true, bne_iff_ne, ne_eq, beq_iff_eq] at hc
      apply stripTwos_odd fuel (n / 2) (k + 1)
      · omega
      · rw [Nat.pow_succ] at h; omega
    · rename_i hc
      simp only [Bool.and_eq_true, bne_iff_ne, ne_eq, beq_iff_eq, not_and] at hc
      have := hc hn
      show n % 2 = 1
      omega

/-- the normal form of a positive finite value: an odd mantissa, the same value -/
theorem norm_pos (n : Nat) (hn : n ≠ 0) (e : Int) :
    ∃ (o k : Nat), norm (fin (n : Int) e) = fin (o : Int) (e + k) ∧ o * 2 ^ k = n ∧ o % 2 = 1 := by
  have h0 : ((n : Int) == 0) = false := by rw [beq_eq_false_iff_ne]; omega
  have hneg : ¬ ((n : Int) < 0) := by omega
  obtain ⟨hv, -⟩ := stripTwos_val (n.log2 + 1) n 0
  have hodd := stripTwos_odd (n.log2 + 1) n 0 hn Nat.lt_log2_self
  refine ⟨(stripTwos (n.log2 + 1) n 0).1, (stripTwos (n.log2 + 1) n 0).2, ?_, by simpa using hv, hodd⟩
  unfold norm
  simp only [h0, Bool.false_eq_true, if_false, Int.natAbs_natCast, hneg, Int.ofNat_eq_natCast]

theorem val_norm_pos (n : Nat) (hn : n ≠ 0) (e : Int) :
    ∃ mo eo, norm (fin (n : Int) e) = fin mo eo ∧ val (fin mo eo) = val (fin (n : Int) e) := by
  obtain ⟨o, k, h1, h2, -⟩ := norm_pos n hn e
  refine ⟨o, e + k, h1, ?_⟩
  rw [val_fin, val_fin, ← h2, two_zpow_add]
  push_cast
  rw [zpow_natCast]; ring

/-! ### seventeen digits -/

/-- within half a unit of the 17th significant digit of the genuine double `x = Q·2^k`
    every rational rounds to `x`: `10^16 > 2^53` -/
theorem near17 {x y : ℚ} {k Q : Int} (hx : x = (Q : ℚ) * 2 ^ k) (hk : -1074 ≤ k)
    (hQ0 : 0 < Q) (hQ : Q < 2 ^ 53) (hlow : k = -1074 ∨ 2 ^ 52 ≤ Q) (s : Int)
    (hs : (10 : ℚ) ^ (s + 16) ≤ x) (h1 : y ≤ x + 10 ^ s / 2) (h2 : x - 10 ^ s / 2 ≤ y) :
    RSpec y x := by
  obtain ⟨e1, -, -⟩ := zpow_split k
  obtain ⟨e2, -, -⟩ := zpow_split (k - 1)
  rw [show k - 1 - 1 = k - 2 by ring] at e2
  have hP := two_zpow_pos (k - 2)
  have hT := ten_zpow_pos s
  have hs' : (10 : ℚ) ^ s * 10 ^ 16 ≤ (Q : ℚ) * (4 * 2 ^ (k - 2)) := by
    have : (10 : ℚ) ^ (s + 16) = 10 ^ s * 10 ^ 16 := by rw [ten_zpow_add]; norm_num
    rw [← this, show (4 : ℚ) * 2 ^ (k - 2) = 2 ^ k by rw [e1, e2]; ring, ← hx]
    exact hs
  have hQ1 : (Q : ℚ) + 1 ≤ 2 ^ 53 := by exact_mod_cast (show Q + 1 ≤ 2 ^ 53 by omega)
  generalize (10 : ℚ) ^ s = T at *
  generalize hPe : (2 : ℚ) ^ (k - 2) = P at *
  have h16 : (2 : ℚ) ^ 53 < 10 ^ 16 := by norm_num
  have hTP : T < 4 * P := by
    by_contra hc
    have hc' : 4 * P ≤ T := not_lt.1 hc
    have a1 : T * 2 ^ 53 < T * 10 ^ 16 := mul_lt_mul_of_pos_left h16 hT
    have a2 : (Q : ℚ) * (4 * P) ≤ (2 ^ 53 - 1) * (4 * P) :=
      mul_le_mul_of_nonneg_right (by linarith) (by linarith)
    have a3 : (4 * P) * 2 ^ 53 ≤ T * 2 ^ 53 := mul_le_mul_of_nonneg_right hc' (by norm_num)
    nlinarith
  apply RSpec_near hx hk hQ0 hQ hlow
  · rw [e2]; linarith
  · rw [e2]; linarith
  · intro hQ52 _
    have hTP2 : T < 2 * P := by
      by_contra hc
      have hc' : 2 * P ≤ T := not_lt.1 hc
      have a1 : T * 2 ^ 53 < T * 10 ^ 16 := mul_lt_mul_of_pos_left h16 hT
      have a3 : (2 * P) * 2 ^ 53 ≤ T * 2 ^ 53 := mul_le_mul_of_nonneg_right hc' (by norm_num)
      rw [hQ52] at hs'
      push_cast at hs'
      nlinarith
    rw [hPe]; linarith

/-! ### the search -/

/-- the filter of the search: non-zero digits that read back as the target -/
def keepB (target : Dbl) : Nat × Int → Bool :=
  fun x => x.1 != 0 && decToDbl x.1 x.2 == target

theorem keepB_iff (target : Dbl) (D : Nat) (s : Int) :
    keepB target (D, s) = true ↔ D ≠ 0 ∧ (decToDbl D s == target) = true := by
  simp [keepB]

/-- the choice among the surviving candidates: the closer one, ties to the even digit -/
def pick (n d : Nat) : List (Nat × Int) → Option (Nat × Int)
  | [] => none
  | [c] => some c
  | c1 :: c2 :: _ =>
      some (if (distNum n d c1.1 c1.2).1 * (distNum n d c2.1 c2.2).2 <
                (distNum n d c2.1 c2.2).1 * (distNum n d c1.1 c1.2).2 then c1
            else if (distNum n d c2.1 c2.2).1 * (distNum n d c1.1 c1.2).2 <
                (distNum n d c1.1 c1.2).1 * (distNum n d c2.1 c2.2).2 then c2
            else if c1.1 % 2 == 0 then c1 else c2)

/-- first result, else the next round -/
def goStep (r next : Option (Nat × Int)) : Option (Nat × Int) :=
  match r with
  | none => next
  | some c => some c

/-- the search of `shortestDigits` with "out of fuel" made explicit -/
def goO (n d : Nat) (target : Dbl) : Nat → Nat → Option (Nat × Int)
  | 0, _ => none
  | fuel + 1, p =>
    goStep (pick n d ((sigCandidates n d p).filter (keepB target))) (goO n d target fuel (p + 1))

theorem goO_zero (n d : Nat) (target : Dbl) (p : Nat) : goO n d target 0 p = none := rfl

theorem goO_succ (n d : Nat) (target : Dbl) (fuel p : Nat) :
    goO n d target (fuel + 1) p =
      goStep (pick n d ((sigCandidates n d p).filter (keepB target)))
        (goO n d target fuel (p + 1)) := rfl

theorem pick_none {n d : Nat} {l : List (Nat × Int)} (h : pick n d l = none) : l = [] := by
  match l with
  | [] => rfl
  | [c] => simp [pick] at h
  | c1 :: c2 :: r => simp [pick] at h

theorem pick_mem {n d : Nat} {l : List (Nat × Int)} {c : Nat × Int} (h : pick n d l = some c) :
    c ∈ l := by
  match l with
  | [] => simp [pick] at h
  | [c'] => simp only [pick, Option.some.injEq] at h; subst h; simp
  | c1 :: c2 :: r =>
    simp only [pick, Option.some.injEq] at h
    subst h
    split
    · simp
    · split
      · simp
      · split <;> simp

theorem go_eq_goO (m : Nat) (e : Int) (n d : Nat) (target : Dbl) : ∀ (fuel p : Nat),
    shortestDigits.go m e n d target fuel p = (goO n d target fuel p).getD (m, e)
  | 0, p => by unfold shortestDigits.go; rfl
  | fuel + 1, p => by
    unfold shortestDigits.go
    simp only []
    rw [goO_succ]
    unfold keepB
    generalize (sigCandidates n d p).filter _ = cands
    match cands with
    | [] => simp only [pick, goStep]; exact go_eq_goO m e n d target fuel (p + 1)
    | [c] => simp only [pick, goStep, Option.getD_some]
    | c1 :: c2 :: r => simp only [pick, goStep, Option.getD_some]

theorem goO_sound {n d : Nat} {target : Dbl} : ∀ {fuel p : Nat} {c : Nat × Int},
    goO n d target fuel p = some c →
      ∃ p', p ≤ p' ∧ p' < p + fuel ∧ c ∈ (sigCandidates n d p').filter (keepB target)
  | 0, p, c, h => by simp [goO_zero] at h
  | fuel + 1, p, c, h => by
    rw [goO_succ] at h
    cases hc : pick n d ((sigCandidates n d p).filter (keepB target)) with
    | none =>
      rw [hc] at h
      obtain ⟨p', h1, h2, h3⟩ := goO_sound (show goO n d target fuel (p + 1) = some c from h)
      exact ⟨p', by omega, by omega, h3⟩
    | some c' =>
      rw [hc] at h
      have : c' = c := by simpa [goStep] using h
      subst this
      exact ⟨p, le_refl _, by omega, pick_mem hc⟩

theorem goO_complete {n d : Nat} {target : Dbl} : ∀ {fuel p : Nat} (p' : Nat), p ≤ p' → p' < p + fuel →
    (sigCandidates n d p').filter (keepB target) ≠ [] → ∃ c, goO n d target fuel p = some c
  | 0, p, p', h1, h2, _ => by omega
  | fuel + 1, p, p', h1, h2, h3 => by
    rw [goO_succ]
    cases hc : pick n d ((sigCandidates n d p).filter (keepB target)) with
    | none =>
      have hnil := pick_none hc
      have hne : p ≠ p' := fun h => h3 (h ▸ hnil)
      exact goO_complete p' (by omega) (by omega) h3
    | some c' => exact ⟨c', rfl⟩

/-- more fuel does not change a result -/
theorem goO_mono {n d : Nat} {target : Dbl} : ∀ {fuel p : Nat} {c : Nat × Int},
    goO n d target fuel p = some c → goO n d target (fuel + 1) p = some c
  | 0, p, c, h => by simp [goO_zero] at h
  | fuel + 1, p, c, h => by
    rw [goO_succ] at h ⊢
    cases hc : pick n d ((sigCandidates n d p).filter (keepB target)) with
    | none =>
      rw [hc] at h
      exact goO_mono (show goO n d target fuel (p + 1) = some c from h)
    | some c' => rw [hc] at h; exact h

/-! ### (A): the search succeeds on every genuine double -/

theorem toFrac_val (m : Nat) (hm : m ≠ 0) (e : Int) :
    (toFrac m e).1 ≠ 0 ∧ (toFrac m e).2 ≠ 0 ∧
      ((toFrac m e).1 : ℚ) / ((toFrac m e).2 : ℚ) = (m : ℚ) * 2 ^ e := by
  unfold toFrac
  by_cases he : e ≥ 0
  · rw [if_pos he]
    refine ⟨Nat.mul_ne_zero hm (by rw [pow2_eq]; positivity), Nat.one_ne_zero, ?_⟩
    simp only [pow2_eq]; push_cast
    rw [two_zpow_toNat e he]; simp
  · rw [if_neg he]
    refine ⟨hm, by rw [pow2_eq]; positivity, ?_⟩
    simp only [pow2_eq]; push_cast
    rw [two_zpow_toNat (-e) (by omega), zpow_neg, div_eq_mul_inv, inv_inv]

/-- a candidate whose exact value rounds to the genuine double `fin m e` passes the filter -/
theorem keepB_of_RSpec (m : Nat) (hm : m ≠ 0) (e : Int) (hlt : (m : ℚ) * 2 ^ e < 2 ^ (1024 : Int))
    (D : Nat) (s : Int) (hD : D ≠ 0) (h : RSpec (decVal D s) ((m : ℚ) * 2 ^ e)) :
    keepB (norm (fin (m : Int) e)) (D, s) = true := by
  rw [keepB_iff]
  refine ⟨hD, ?_⟩
  obtain ⟨m', e', h1, -, h3⟩ := decToDbl_of_RSpec D s hD _ h hlt
  obtain ⟨mo, eo, h4, h5⟩ := val_norm_pos m hm e
  rw [h1, h4, beq_fin_iff, h3, h5, val_fin]; push_cast; rfl

/-- what passing the filter means: the digits are read as a finite double of the value of `fin m e` -/
theorem val_of_keepB (m : Nat) (hm : m ≠ 0) (e : Int) (D : Nat) (s : Int)
    (h : keepB (norm (fin (m : Int) e)) (D, s) = true) :
    D ≠ 0 ∧ ∃ m' e', decToDbl D s = fin m' e' ∧ 0 ≤ m' ∧ val (fin m' e') = (m : ℚ) * 2 ^ e := by
  rw [keepB_iff] at h
  obtain ⟨hD, hb⟩ := h
  refine ⟨hD, ?_⟩
  obtain ⟨mo, eo, h4, h5⟩ := val_norm_pos m hm e
  rw [h4] at hb
  obtain ⟨r, -, hcase⟩ := decToDbl_spec D s hD
  rcases hcase with ⟨_, m', e', h1, h2, _⟩ | ⟨_, hinf⟩
  · refine ⟨m', e', h1, h2, ?_⟩
    rw [h1, beq_fin_iff] at hb
    rw [hb, h5, val_fin]; push_cast; rfl
  · rw [hinf] at hb
    exact absurd hb (by simp [BEq.beq, Dbl.beq, cmp]; decide)

/-- one of the two 17-digit candidates of a genuine double reads back -/
theorem cand17_good (m : Nat) (hm : m ≠ 0) (e : Int) (h : IsRep (fin (m : Int) e)) :
    (sigCandidates (toFrac m e).1 (toFrac m e).2 17).filter (keepB (norm (fin (m : Int) e))) ≠ [] := by
  obtain ⟨hn, hd, hv⟩ := toFrac_val m hm e
  generalize (toFrac m e).1 = n at *
  generalize (toFrac m e).2 = d at *
  obtain ⟨k, Q, hx, hk, hQ0, hQ, hlow, -, -⟩ := isRep_witness m e (by omega) h
  have hlt : (m : ℚ) * 2 ^ e < 2 ^ (1024 : Int) := by
    obtain ⟨m0, e0, heq, -, -, hlt⟩ := h
    rw [val_fin] at hlt; exact_mod_cast hlt
  rw [Int.cast_natCast] at hx
  obtain ⟨hk10, -⟩ := decExp_spec n d hn hd
  have hlo16 := candLo_ge n d hn hd 17 (by omega)
  obtain ⟨b1, b2⟩ := candLo_spec n d hd (decExp n d - ((17 : Nat) : Int) + 1)
  rw [sigCandidates_eq]
  generalize hs : decExp n d - ((17 : Nat) : Int) + 1 = s at *
  generalize candLo n d s = lo at *
  rw [hv] at b1 b2 hk10
  have hstep : decVal (lo + 1) s = decVal lo s + 10 ^ s := by
    unfold decVal; push_cast; ring
  have hs16 : (10 : ℚ) ^ (s + 16) ≤ (m : ℚ) * 2 ^ e := by
    rw [show s + 16 = decExp n d by omega]; exact hk10
  have hT := ten_zpow_pos s
  intro hnil
  rw [List.filter_eq_nil_iff] at hnil
  by_cases hc : (m : ℚ) * 2 ^ e - decVal lo s ≤ 10 ^ s / 2
  · have hr : RSpec (decVal lo s) ((m : ℚ) * 2 ^ e) :=
      near17 hx hk hQ0 hQ hlow s hs16 (by linarith) (by linarith)
    exact hnil (lo, s) (by simp) (keepB_of_RSpec m hm e hlt lo s (by simp at hlo16; omega) hr)
  · have hr : RSpec (decVal (lo + 1) s) ((m : ℚ) * 2 ^ e) :=
      near17 hx hk hQ0 hQ hlow s hs16 (by rw [hstep]; linarith) (by rw [hstep]; linarith)
    exact hnil (lo + 1, s) (by simp) (keepB_of_RSpec m hm e hlt (lo + 1) s (by omega) hr)

theorem shortestDigits_eq (m : Nat) (e : Int) :
    shortestDigits m e =
      (goO (toFrac m e).1 (toFrac m e).2 (norm (fin (m : Int) e)) 18 1).getD (m, e) := by
  rw [← go_eq_goO]; rfl

/-- **(A)** the digit search of `repr` succeeds on every genuine positive double: it returns one
    of the two `p`-digit candidates around the exact value, for some `1 ≤ p ≤ 17`, and those
    digits are non-zero and read back (`decToDbl`) as a finite double of the same value -/
theorem shortestDigits_good (m : Nat) (hm : m ≠ 0) (e : Int) (h : IsRep (fin (m : Int) e)) :
    ∃ p, 1 ≤ p ∧ p ≤ 17 ∧
      goO (toFrac m e).1 (toFrac m e).2 (norm (fin (m : Int) e)) 18 1 = some (shortestDigits m e) ∧
      shortestDigits m e ∈ sigCandidates (toFrac m e).1 (toFrac m e).2 p ∧
      keepB (norm (fin (m : Int) e)) (shortestDigits m e) = true := by
  -- the first success is at some p ≤ 17
  obtain ⟨c, hc⟩ := goO_complete (fuel := 17) (p := 1) 17 (by omega) (by omega) (cand17_good m hm e h)
  have hc18 := goO_mono hc
  have heq : shortestDigits m e = c := by rw [shortestDigits_eq, hc18]; rfl
  rw [heq]
  obtain ⟨p', h1, h2, h3⟩ := goO_sound hc
  rw [List.mem_filter] at h3
  exact ⟨p', h1, by omega, hc18, h3.1, h3.2⟩

end Dbl
end Pyab
