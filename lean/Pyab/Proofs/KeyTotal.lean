/-
  `str()` of field values and the key built from them: when it succeeds, which errors it
  can raise.
-/
import Pyab.Proofs.ChoiceTotal
namespace Pyab.Proofs.Run
open Pyab
set_option linter.unusedSimpArgs false

/-! ### `repr` / `str` raise only the int-digit-limit error -/

mutual
theorem pyReprWith_err (r : String → String) : ∀ (v : PyVal) (err : Err),
    PyVal.pyReprWith r v = .error err → err = .valueError "digits"
  | .none, err, h => by simp [PyVal.pyReprWith, pure, Except.pure] at h
  | .bool b, err, h => by simp [PyVal.pyReprWith, pure, Except.pure] at h
  | .int i, err, h => by
      simp only [PyVal.pyReprWith] at h
      split at h
      · simp [throw, throwThe, MonadExceptOf.throw] at h; exact h.symm
      · simp [pure, Except.pure] at h
  | .float d nz, err, h => by simp [PyVal.pyReprWith, pure, Except.pure] at h
  | .str s, err, h => by simp [PyVal.pyReprWith, pure, Except.pure] at h
  | .tuple l, err, h => by
      simp only [PyVal.pyReprWith, bind_err_iff] at h
      rcases h with h | ⟨parts, _, h⟩
      · exact pyReprListWith_err r l err h
      · split at h <;> simp [pure, Except.pure] at h
theorem pyReprListWith_err (r : String → String) : ∀ (l : List PyVal) (err : Err),
    PyVal.pyReprListWith r l = .error err → err = .valueError "digits"
  | [], err, h => by simp [PyVal.pyReprListWith, pure, Except.pure] at h
  | x :: xs, err, h => by
      simp only [PyVal.pyReprListWith, bind_err_iff] at h
      rcases h with h | ⟨_, _, h | ⟨_, _, h⟩⟩
      · exact pyReprWith_err r x err h
      · exact pyReprListWith_err r xs err h
      · simp [pure, Except.pure] at h
end

theorem pyStrWith_err (r : String → String) (v : PyVal) (err : Err)
    (h : PyVal.pyStrWith r v = .error err) : err = .valueError "digits" := by
  cases v with
  | str s => simp [PyVal.pyStrWith, pure, Except.pure] at h
  | none => exact pyReprWith_err _ _ _ h
  | bool b => exact pyReprWith_err _ _ _ h
  | int i => exact pyReprWith_err _ _ _ h
  | float d nz => exact pyReprWith_err _ _ _ h
  | tuple l => exact pyReprWith_err _ _ _ h

theorem pyStr_err (pr : Nat → Bool) (v : PyVal) (err : Err) (h : PyVal.pyStr pr v = .error err) :
    err = .valueError "digits" :=
  pyStrWith_err _ v err h

/-- values whose `str()` cannot fail: everything except an int beyond the digit limit (and
    tuples, which may contain one) -/
def keyable : PyVal → Bool
  | .none => true
  | .bool _ => true
  | .float _ _ => true
  | .str _ => true
  | .int i => decide (PyVal.natDigits i.natAbs ≤ PyVal.maxStrDigits)
  | .tuple _ => false

theorem pyStr_ok_of_keyable (pr : Nat → Bool) (v : PyVal) (h : keyable v = true) : ∃ s, PyVal.pyStr pr v = .ok s := by
  cases v with
  | none => exact ⟨_, rfl⟩
  | bool b => exact ⟨_, rfl⟩
  | float d nz => exact ⟨_, rfl⟩
  | str s => exact ⟨_, rfl⟩
  | int i =>
      simp only [keyable, decide_eq_true_eq] at h
      have : ¬ PyVal.natDigits i.natAbs > PyVal.maxStrDigits := by omega
      refine ⟨toString i, ?_⟩
      simp [PyVal.pyStr, PyVal.pyStrWith, PyVal.pyReprWith, this, pure, Except.pure]
  | tuple l => simp [keyable] at h

theorem pyStr_int_too_long (pr : Nat → Bool) (i : Int) (h : PyVal.natDigits i.natAbs > PyVal.maxStrDigits) :
    PyVal.pyStr pr (.int i) = .error (.valueError "digits") := by
  simp [PyVal.pyStr, PyVal.pyStrWith, PyVal.pyReprWith, h, throw, throwThe, MonadExceptOf.throw]

/-! ### `mapM` over `Except` -/

theorem mapM_ok_of_forall {α β : Type} (f : α → Except Err β) :
    ∀ l : List α, (∀ a ∈ l, ∃ b, f a = .ok b) → ∃ bs, l.mapM f = .ok bs
  | [], _ => ⟨[], by simp [pure, Except.pure]⟩
  | a :: as, h => by
      obtain ⟨b, hb⟩ := h a (by simp)
      obtain ⟨bs, hbs⟩ := mapM_ok_of_forall f as (fun x hx => h x (List.mem_cons_of_mem _ hx))
      exact ⟨b :: bs, by simp [List.mapM_cons, hb, hbs, bind, Except.bind, pure, Except.pure]⟩

theorem mapM_err_mem {α β : Type} (f : α → Except Err β) :
    ∀ (l : List α) (err : Err), l.mapM f = .error err → ∃ a ∈ l, f a = .error err
  | [], err, h => by simp [pure, Except.pure] at h
  | a :: as, err, h => by
      simp only [List.mapM_cons, bind_err_iff] at h
      rcases h with h | ⟨_, _, h | ⟨_, _, h⟩⟩
      · exact ⟨a, by simp, h⟩
      · obtain ⟨x, hx, hfx⟩ := mapM_err_mem f as err h
        exact ⟨x, List.mem_cons_of_mem _ hx, hfx⟩
      · simp [pure, Except.pure] at h

theorem mapM_err_split {α β : Type} (f : α → Except Err β) (err : Err) :
    ∀ (pre : List α) (a : α) (post : List α), (∀ x ∈ pre, ∃ b, f x = .ok b) → f a = .error err →
      (pre ++ a :: post).mapM f = .error err
  | [], a, post, _, ha => by simp [List.mapM_cons, ha, bind, Except.bind]
  | x :: pre, a, post, hpre, ha => by
      obtain ⟨b, hb⟩ := hpre x (by simp)
      have ih := mapM_err_split f err pre a post (fun y hy => hpre y (List.mem_cons_of_mem _ hy)) ha
      simp [List.mapM_cons, hb, ih, bind, Except.bind]

/-! ### the key -/

/-- one component of the key -/
def keyPart (pr : Nat → Bool) (env : Env) (n : String) : Except Err String :=
  match env.get n with
  | some v => PyVal.pyStr pr v
  | none => throw .nameError

theorem keyOf_eq (pr : Nat → Bool) (salt : String) (names : List String) (env : Env) :
    keyOf pr salt names env = (do let vals ← names.mapM (keyPart pr env); pure (salt ++ String.join vals)) := rfl

theorem keyOf_ok (pr : Nat → Bool) (salt : String) (names : List String) (env : Env)
    (h : ∀ n ∈ names, ∃ v, env.get n = some v ∧ keyable v = true) :
    ∃ key, keyOf pr salt names env = .ok key := by
  rw [keyOf_eq]
  obtain ⟨vals, hv⟩ := mapM_ok_of_forall (keyPart pr env) names (by
    intro n hn
    obtain ⟨v, hv, hk⟩ := h n hn
    obtain ⟨s, hs⟩ := pyStr_ok_of_keyable pr v hk
    exact ⟨s, by simp [keyPart, hv, hs]⟩)
  exact ⟨salt ++ String.join vals, by simp [hv, bind, Except.bind, pure, Except.pure]⟩

theorem keyOf_digits (pr : Nat → Bool) (salt : String) (pre post : List String) (n : String) (i : Int) (env : Env)
    (hpre : ∀ m ∈ pre, ∃ v, env.get m = some v ∧ keyable v = true)
    (hn : env.get n = some (.int i)) (hi : PyVal.natDigits i.natAbs > PyVal.maxStrDigits) :
    keyOf pr salt (pre ++ n :: post) env = .error (.valueError "digits") := by
  rw [keyOf_eq]
  have := mapM_err_split (keyPart pr env) (.valueError "digits") pre n post (by
    intro m hm
    obtain ⟨v, hv, hk⟩ := hpre m hm
    obtain ⟨s, hs⟩ := pyStr_ok_of_keyable pr v hk
    exact ⟨s, by simp [keyPart, hv, hs]⟩) (by simp [keyPart, hn, pyStr_int_too_long pr i hi])
  simp [this, bind, Except.bind]

/-- the key construction raises only: NameError for a name that is not bound, or the
    digit-limit error of `str(int)` -/
theorem keyOf_err (pr : Nat → Bool) (salt : String) (names : List String) (env : Env) (err : Err)
    (h : keyOf pr salt names env = .error err) :
    (err = .nameError ∧ ∃ n ∈ names, env.get n = none) ∨ err = .valueError "digits" := by
  rw [keyOf_eq] at h
  simp only [bind_err_iff] at h
  rcases h with h | ⟨_, _, h⟩
  · obtain ⟨n, hn, hf⟩ := mapM_err_mem _ _ _ h
    unfold keyPart at hf
    cases hg : env.get n with
    | none =>
        simp [hg, throw, throwThe, MonadExceptOf.throw] at hf
        exact Or.inl ⟨hf.symm, n, hn, hg⟩
    | some v =>
        simp only [hg] at hf
        exact Or.inr (pyStr_err pr v err hf)
  · simp [pure, Except.pure] at h

end Pyab.Proofs.Run
