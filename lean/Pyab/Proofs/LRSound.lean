import Pyab.Model.Parser
import Pyab.Spec.Grammar
namespace Pyab.Proofs
open Pyab Pyab.Spec

/-- LR soundness for *any* tables: whatever action / goto tables the translator dumped,
    a token list the driver accepts is a sentence of the production list — nothing is
    skipped, nothing is left over, and the whole input is one derivation of the start
    symbol.  (The driver checks the popped symbols at every reduce, so the theorem needs
    no well-formedness hypothesis about the tables.) -/
theorem lrParse_sound (tb : LRTables) (toks : List Token) (e : Experiment)
    (h : lrParse tb toks = .ok e) :
    Derives tb.prods.toList tb.startSym (toks.map (·.kind)) := by
  sorry

/-- derivations are monotone in the production list -/
theorem derives_mono (ps qs : List Prod) (hsub : ∀ p, p ∈ ps → p ∈ qs) (X : String) (ts : List String)
    (h : Derives ps X ts) : Derives qs X ts := by
  sorry

end Pyab.Proofs
