import Pyab.Model.Parser
import Pyab.Spec.Grammar
namespace Pyab.Proofs
open Pyab Pyab.Spec

/-! ### Sequence derivations: append / split / singleton -/

theorem derivesSeq_append {prods : List Prod} :
    ∀ (Xs Ys : List String) (ts us : List String),
      DerivesSeq prods Xs ts → DerivesSeq prods Ys us → DerivesSeq prods (Xs ++ Ys) (ts ++ us)
  | [], Ys, ts, us, h1, h2 => by
    cases h1
    simpa using h2
  | X :: Xs, Ys, ts, us, h1, h2 => by
    cases h1 with
    | cons _ _ t1 t2 hX hXs =>
      have := derivesSeq_append Xs Ys t2 us hXs h2
      have h3 := DerivesSeq.cons X (Xs ++ Ys) t1 (t2 ++ us) hX this
      simpa [List.append_assoc] using h3

theorem derivesSeq_split {prods : List Prod} :
    ∀ (Xs Ys : List String) (ts : List String),
      DerivesSeq prods (Xs ++ Ys) ts →
      ∃ t1 t2, ts = t1 ++ t2 ∧ DerivesSeq prods Xs t1 ∧ DerivesSeq prods Ys t2
  | [], Ys, ts, h => ⟨[], ts, by simp, .nil, by simpa using h⟩
  | X :: Xs, Ys, ts, h => by
    rw [List.cons_append] at h
    cases h with
    | cons _ _ t1 t2 hX hrest =>
      obtain ⟨u1, u2, hu, h1, h2⟩ := derivesSeq_split Xs Ys t2 hrest
      exact ⟨t1 ++ u1, u2, by simp [hu, List.append_assoc], .cons X Xs t1 u1 hX h1, h2⟩

theorem derivesSeq_single {prods : List Prod} {X : String} {ts : List String}
    (h : Derives prods X ts) : DerivesSeq prods [X] ts := by
  have := DerivesSeq.cons X [] ts [] h .nil
  simpa using this

theorem derives_of_derivesSeq_single {prods : List Prod} {X : String} {ts : List String}
    (h : DerivesSeq prods [X] ts) : Derives prods X ts := by
  cases h with
  | cons _ _ t1 t2 hX hnil =>
    cases hnil
    simpa using hX

/-! ### The driver invariant -/

/-- the stack symbols, bottom to top -/
def stackSyms (stack : List Entry) : List String := stack.reverse.map (·.sym)

theorem popN_spec {n : Nat} {stack args stack' : List Entry}
    (h : popN n stack = some (args, stack')) :
    stackSyms stack = stackSyms stack' ++ args.map (·.sym) := by
  unfold popN at h
  split at h
  · simp only [Option.some.injEq] at h
    obtain ⟨rfl, rfl⟩ := h
    unfold stackSyms
    rw [← List.map_append, ← List.reverse_append, List.take_append_drop]
  · cases h

theorem lrLoop_sound (tb : LRTables) :
    ∀ (fuel : Nat) (stack : List Entry) (consumed : List String) (input : List Token) (e : Experiment),
      DerivesSeq tb.prods.toList (stackSyms stack) consumed →
      lrLoop tb fuel stack input = .ok e →
      Derives tb.prods.toList tb.startSym (consumed ++ input.map (·.kind))
  | 0, _, _, _, _, _, h => by
    simp [lrLoop, throw, throwThe, MonadExceptOf.throw] at h
  | fuel + 1, stack, consumed, input, e, hinv, h => by
    unfold lrLoop at h
    simp only at h
    split at h
    · cases h
    · rename_i t _
      split at h
      · -- shift
        split at h
        · rename_i tok rest _
          have hinv' : DerivesSeq tb.prods.toList
              (stackSyms (⟨t.toNat, tok.kind, .tok tok⟩ :: stack)) (consumed ++ [tok.kind]) := by
            have := derivesSeq_append _ _ _ _ hinv
              (derivesSeq_single (Derives.leaf (prods := tb.prods.toList) tok.kind))
            simpa [stackSyms] using this
          have := lrLoop_sound tb fuel _ _ rest e hinv' h
          simpa [List.append_assoc] using this
        · cases h
      · split at h
        · -- reduce
          split at h
          · cases h
          · rename_i p hp
            split at h
            · cases h
            · rename_i args stack' hpop
              split at h
              · cases h
              · rename_i hrhs
                have hrhs' : args.map (·.sym) = p.rhs := by
                  simpa using hrhs
                split at h
                · cases h
                · rename_i v _
                  split at h
                  · cases h
                  · rename_i g _
                    have hsy := popN_spec hpop
                    rw [hsy, hrhs'] at hinv
                    obtain ⟨t1, t2, rfl, h1, h2⟩ := derivesSeq_split _ _ _ hinv
                    have hmem : p ∈ tb.prods.toList := by
                      have := List.mem_of_getElem? (l := tb.prods.toList)
                        (by simpa using hp : tb.prods.toList[(-t).toNat]? = some p)
                      exact this
                    have hnode : Derives tb.prods.toList p.lhs t2 := .node p t2 hmem h2
                    have hinv' : DerivesSeq tb.prods.toList
                        (stackSyms (⟨g, p.lhs, v⟩ :: stack')) (t1 ++ t2) := by
                      have := derivesSeq_append _ _ _ _ h1 (derivesSeq_single hnode)
                      simpa [stackSyms] using this
                    exact lrLoop_sound tb fuel _ _ input e hinv' h
        · -- accept
          split at h
          · rename_i st sym e' _
            split at h
            · rename_i hsym
              have hsym' : sym = tb.startSym := by simpa using hsym
              subst hsym'
              have : DerivesSeq tb.prods.toList [tb.startSym] consumed := by
                simpa [stackSyms] using hinv
              simpa using derives_of_derivesSeq_single this
            · cases h
          · cases h

/-- LR soundness for *any* tables: whatever action / goto tables the translator dumped,
    a token list the driver accepts is a sentence of the production list — nothing is
    skipped, nothing is left over, and the whole input is one derivation of the start
    symbol.  (The driver checks the popped symbols at every reduce, so the theorem needs
    no well-formedness hypothesis about the tables.) -/
theorem lrParse_sound (tb : LRTables) (toks : List Token) (e : Experiment)
    (h : lrParse tb toks = .ok e) :
    Derives tb.prods.toList tb.startSym (toks.map (·.kind)) := by
  have := lrLoop_sound tb _ [] [] toks e (by simpa [stackSyms] using DerivesSeq.nil) h
  simpa using this

mutual
/-- derivations are monotone in the production list -/
theorem derives_mono (ps qs : List Prod) (hsub : ∀ p, p ∈ ps → p ∈ qs) (X : String) (ts : List String)
    (h : Derives ps X ts) : Derives qs X ts :=
  match h with
  | .leaf t => .leaf t
  | .node p ts hp hs => .node p ts (hsub p hp) (derivesSeq_mono ps qs hsub _ _ hs)
theorem derivesSeq_mono (ps qs : List Prod) (hsub : ∀ p, p ∈ ps → p ∈ qs) (Xs : List String) (ts : List String)
    (h : DerivesSeq ps Xs ts) : DerivesSeq qs Xs ts :=
  match h with
  | .nil => .nil
  | .cons X Xs t1 t2 hX hXs => .cons X Xs t1 t2 (derives_mono ps qs hsub _ _ hX) (derivesSeq_mono ps qs hsub _ _ hXs)
end

end Pyab.Proofs
