import Pyab.Model.Choice
import Pyab.Spec.Interval
namespace Pyab.Proofs
open Pyab Pyab.Spec

theorem bisect_partition (cum : List Num) (x : Dbl) (n : Nat) (hn : cum.length = n) (hpos : 0 < n)
    (hmono : ∀ i j, i ≤ j → j < n → Num.dblLt x cum[i]! = true → Num.dblLt x cum[j]! = true) :
    let i := Choice.bisect cum x 0 (n - 1)
    i ≤ n - 1 ∧ (∀ j, j < i → Num.dblLt x cum[j]! = false) ∧ (i < n - 1 → Num.dblLt x cum[i]! = true) := by
  sorry

theorem isSpecIdx_unique (w : List Nat) (h i j : Nat)
    (hi : IsSpecIdx w h i) (hj : IsSpecIdx w h j) : i = j := by
  sorry

theorem isSpecIdx_zero (w : List Nat) (h i : Nat) (hz : w[i]? = some 0) : ¬ IsSpecIdx w h i := by
  sorry

theorem isSpecIdx_selectable (w : List Nat) (i : Nat) (hi : i < w.length) (hpos : 0 < total w)
    (hspan : total w ≤ w[i]! * 2 ^ 32) : ∃ h, h < 2 ^ 32 ∧ IsSpecIdx w h i := by
  sorry

theorem isSpecIdx_iff_range (w : List Nat) (h i : Nat) (hpos : 0 < total w) :
    IsSpecIdx w h i ↔
      (i < w.length ∧ (prefixSum w i * 2 ^ 32 + total w - 1) / total w ≤ h
        ∧ h < (prefixSum w (i + 1) * 2 ^ 32 + total w - 1) / total w) := by
  sorry

theorem choiceIdx_floatWeights_spec (w : List Nat) (h : Nat) (hh : h < 2 ^ 32)
    (hpos : 0 < total w) (hT : total w < 2 ^ 21) :
    ∃ i, Choice.choiceIdx (some h) w.length (some (w.map fun x => Num.f (Dbl.ofNat x))) none = .ok (.idx i)
      ∧ IsSpecIdx w h i := by
  sorry

end Pyab.Proofs
