import Pyab.Model.Choice
import Pyab.Spec.Interval
namespace Pyab.Proofs
open Pyab Pyab.Spec

/-! ### prefix sums -/

theorem prefixSum_succ (w : List Nat) (i : Nat) :
    prefixSum w (i + 1) = prefixSum w i + w[i]?.getD 0 := by
  unfold prefixSum
  rw [List.take_add_one, List.sum_append]
  cases w[i]? <;> simp

theorem prefixSum_zero (w : List Nat) : prefixSum w 0 = 0 := by
  simp [prefixSum]

theorem prefixSum_mono (w : List Nat) {i j : Nat} (hij : i ≤ j) :
    prefixSum w i ≤ prefixSum w j := by
  induction j with
  | zero =>
    have : i = 0 := by omega
    subst this; exact Nat.le_refl _
  | succ k ih =>
    by_cases h : i = k + 1
    · subst h; exact Nat.le_refl _
    · have := ih (by omega)
      rw [prefixSum_succ]; omega

theorem prefixSum_of_length_le (w : List Nat) {i : Nat} (h : w.length ≤ i) :
    prefixSum w i = total w := by
  unfold prefixSum total
  rw [List.take_of_length_le h]

theorem prefixSum_le_total (w : List Nat) (i : Nat) : prefixSum w i ≤ total w := by
  have h1 := prefixSum_mono w (Nat.le_max_left i w.length)
  rw [prefixSum_of_length_le w (Nat.le_max_right i w.length)] at h1
  exact h1

/-! ### bisect -/

theorem bisectLoop_spec (a : Array Num) (x : Dbl) (n : Nat)
    (hmono : ∀ i j, i ≤ j → j < n → Num.dblLt x a[i]! = true → Num.dblLt x a[j]! = true) :
    ∀ fuel lo hi, lo ≤ hi → hi - lo < fuel → hi ≤ n →
      (∀ j, j < lo → Num.dblLt x a[j]! = false) →
      lo ≤ Choice.bisectLoop a x fuel lo hi ∧ Choice.bisectLoop a x fuel lo hi ≤ hi ∧
      (∀ j, j < Choice.bisectLoop a x fuel lo hi → Num.dblLt x a[j]! = false) ∧
      (Choice.bisectLoop a x fuel lo hi < hi → Num.dblLt x a[Choice.bisectLoop a x fuel lo hi]! = true) := by
  intro fuel
  induction fuel with
  | zero => intro lo hi _ h; omega
  | succ fuel ih =>
    intro lo hi hle hfuel hn hlo
    unfold Choice.bisectLoop
    by_cases hlt : lo < hi
    · simp only [hlt, if_true]
      have hmid1 : lo ≤ (lo + hi) / 2 := by omega
      have hmid2 : (lo + hi) / 2 < hi := by omega
      by_cases hP : Num.dblLt x a[(lo + hi) / 2]! = true
      · simp only [hP, if_true]
        obtain ⟨h1, h2, h3, h4⟩ := ih lo ((lo + hi) / 2) hmid1 (by omega) (by omega) hlo
        refine ⟨h1, by omega, h3, ?_⟩
        intro _
        by_cases heq : Choice.bisectLoop a x fuel lo ((lo + hi) / 2) = (lo + hi) / 2
        · rw [heq]; exact hP
        · exact h4 (by omega)
      · have hP' : Num.dblLt x a[(lo + hi) / 2]! = false := by simpa using hP
        simp only [hP', Bool.false_eq_true, if_false]
        have hlo' : ∀ j, j < (lo + hi) / 2 + 1 → Num.dblLt x a[j]! = false := by
          intro j hj
          cases hj' : Num.dblLt x a[j]! with
          | false => rfl
          | true => exact absurd (hmono j ((lo + hi) / 2) (by omega) (by omega) hj') hP
        obtain ⟨h1, h2, h3, h4⟩ := ih ((lo + hi) / 2 + 1) hi (by omega) (by omega) hn hlo'
        exact ⟨by omega, h2, h3, h4⟩
    · simp only [hlt, if_false]
      have : lo = hi := by omega
      subst this
      exact ⟨Nat.le_refl _, Nat.le_refl _, hlo, by intro h; simp at h⟩

theorem bisect_partition (cum : List Num) (x : Dbl) (n : Nat) (hn : cum.length = n) (hpos : 0 < n)
    (hmono : ∀ i j, i ≤ j → j < n → Num.dblLt x cum[i]! = true → Num.dblLt x cum[j]! = true) :
    let i := Choice.bisect cum x 0 (n - 1)
    i ≤ n - 1 ∧ (∀ j, j < i → Num.dblLt x cum[j]! = false) ∧ (i < n - 1 → Num.dblLt x cum[i]! = true) := by
  intro i
  have _ := hn
  have hmono' : ∀ i j, i ≤ j → j < n → Num.dblLt x cum.toArray[i]! = true →
      Num.dblLt x cum.toArray[j]! = true := by
    intro i j hij hj
    simp only [List.getElem!_toArray]
    exact hmono i j hij hj
  have := bisectLoop_spec cum.toArray x n hmono' (n - 1 - 0 + 1) 0 (n - 1) (Nat.zero_le _)
    (by omega) (by omega) (fun j hj => absurd hj (Nat.not_lt_zero _))
  simp only [List.getElem!_toArray] at this
  obtain ⟨_, h2, h3, h4⟩ := this
  exact ⟨h2, h3, h4⟩

/-! ### the interval rule: arithmetic -/

theorem isSpecIdx_unique (w : List Nat) (h i j : Nat)
    (hi : IsSpecIdx w h i) (hj : IsSpecIdx w h j) : i = j := by
  obtain ⟨_, hi1, hi2⟩ := hi
  obtain ⟨_, hj1, hj2⟩ := hj
  rcases Nat.lt_trichotomy i j with hlt | heq | hgt
  · have := prefixSum_mono w (show i + 1 ≤ j by omega)
    omega
  · exact heq
  · have := prefixSum_mono w (show j + 1 ≤ i by omega)
    omega

theorem isSpecIdx_zero (w : List Nat) (h i : Nat) (hz : w[i]? = some 0) : ¬ IsSpecIdx w h i := by
  rintro ⟨_, h1, h2⟩
  rw [prefixSum_succ, hz] at h2
  simp only [Option.getD_some, Nat.add_zero] at h2
  omega

theorem isSpecIdx_iff_range (w : List Nat) (h i : Nat) (hpos : 0 < total w) :
    IsSpecIdx w h i ↔
      (i < w.length ∧ (prefixSum w i * 2 ^ 32 + total w - 1) / total w ≤ h
        ∧ h < (prefixSum w (i + 1) * 2 ^ 32 + total w - 1) / total w) := by
  unfold IsSpecIdx
  have e1 : (prefixSum w i * 2 ^ 32 + total w - 1) / total w ≤ h ↔
      prefixSum w i * 2 ^ 32 ≤ h * total w := by
    rw [Nat.div_le_iff_le_mul_add_pred hpos, Nat.mul_comm (total w) h]
    omega
  have e2 : h < (prefixSum w (i + 1) * 2 ^ 32 + total w - 1) / total w ↔
      h * total w < prefixSum w (i + 1) * 2 ^ 32 := by
    rw [Nat.lt_iff_add_one_le, Nat.le_div_iff_mul_le hpos, Nat.add_mul]
    omega
  rw [e1, e2]

theorem isSpecIdx_selectable (w : List Nat) (i : Nat) (hi : i < w.length) (hpos : 0 < total w)
    (hspan : total w ≤ w[i]! * 2 ^ 32) : ∃ h, h < 2 ^ 32 ∧ IsSpecIdx w h i := by
  have hsucc := prefixSum_succ w i
  have hget : w[i]?.getD 0 = w[i]! := by
    simp [hi]
  rw [hget] at hsucc
  have hle := prefixSum_le_total w (i + 1)
  refine ⟨(prefixSum w i * 2 ^ 32 + total w - 1) / total w, ?_, ?_⟩
  · rw [Nat.div_lt_iff_lt_mul hpos]
    omega
  · rw [isSpecIdx_iff_range w _ i hpos]
    refine ⟨hi, Nat.le_refl _, ?_⟩
    have hstep : (prefixSum w i * 2 ^ 32 + total w - 1) / total w + 1
        = (prefixSum w i * 2 ^ 32 + total w - 1 + total w) / total w :=
      (Nat.add_div_right _ hpos).symm
    rw [Nat.lt_iff_add_one_le, hstep]
    apply Nat.div_le_div_right
    omega

/-! ### exact binary64 arithmetic on small naturals -/

theorem round_exact (m e : Int) (hm : m ≠ 0) (hb : m.natAbs < 2 ^ 53)
    (he : -1074 ≤ e) (he2 : e ≤ 900) : Dbl.round m e = Dbl.fin m e := by
  have hn0 : m.natAbs ≠ 0 := by omega
  have hlog : m.natAbs.log2 < 53 := (Nat.log2_lt hn0).2 hb
  unfold Dbl.round
  simp only [beq_iff_eq, hm, if_false]
  have hshift : max ((m.natAbs.log2 : Int) + 1 - 53) (-1074 - e) ≤ 0 := by omega
  simp only [hshift, if_true]
  have : ¬ ((m.natAbs.log2 : Int) + 1 + e > 1024) := by omega
  simp only [this, if_false]

theorem round_zero (e : Int) : Dbl.round 0 e = Dbl.fin 0 0 := by
  simp [Dbl.round]

theorem round_nat0 (k : Nat) (hk : k < 2 ^ 53) : Dbl.round (k : Int) 0 = Dbl.fin k 0 := by
  by_cases h0 : k = 0
  · subst h0; exact round_zero 0
  · exact round_exact _ _ (by omega) (by simpa using hk) (by omega) (by omega)

theorem ofNat_exact (k : Nat) (hk : k < 2 ^ 53) : Dbl.ofNat k = Dbl.fin k 0 :=
  round_nat0 k hk

theorem add_exact (a b : Nat) (h : a + b < 2 ^ 53) :
    Dbl.add (Dbl.fin a 0) (Dbl.fin b 0) = Dbl.fin ((a + b : Nat) : Int) 0 := by
  simp only [Dbl.add, Dbl.align, Dbl.pow2]
  simp
  rw [← Int.natCast_add]
  exact round_nat0 _ h

/-- a natural number as a Python float weight -/
def fl (k : Nat) : Num := Num.f (Dbl.fin k 0)

theorem numAdd_fl (a b : Nat) (h : a + b < 2 ^ 53) : Num.add (fl a) (fl b) = .ok (fl (a + b)) := by
  simp only [fl, Num.add, Num.toDbl]
  show Except.ok (Num.f (Dbl.add (Dbl.fin a 0) (Dbl.fin b 0))) = _
  rw [add_exact a b h]

theorem numAdd_fl_zero (a : Nat) (h : a < 2 ^ 53) : Num.add (fl a) (.f Dbl.zero) = .ok (fl a) :=
  numAdd_fl a 0 h

/-- running sums starting from `acc` -/
def psums (acc : Nat) : List Nat → List Nat
  | [] => [acc]
  | w :: ws => acc :: psums (acc + w) ws

theorem psums_length (acc : Nat) (ws : List Nat) : (psums acc ws).length = ws.length + 1 := by
  induction ws generalizing acc with
  | nil => rfl
  | cons w ws ih => simp [psums, ih]

theorem psums_getElem? (acc : Nat) (ws : List Nat) (j : Nat) (hj : j ≤ ws.length) :
    (psums acc ws)[j]? = some (acc + (ws.take j).sum) := by
  induction ws generalizing acc j with
  | nil =>
    have : j = 0 := by simpa using hj
    subst this; simp [psums]
  | cons w ws ih =>
    cases j with
    | zero => simp [psums]
    | succ j =>
      simp only [psums, List.getElem?_cons_succ, List.take_succ_cons, List.sum_cons]
      rw [ih (acc + w) j (by simpa using hj)]
      simp [Nat.add_assoc]

theorem go_fl (acc : Nat) (ws : List Nat) (h : acc + ws.sum < 2 ^ 53) :
    Choice.accumulate.go (fl acc) (ws.map fl) = .ok ((psums acc ws).map fl) := by
  induction ws generalizing acc with
  | nil => rfl
  | cons w ws ih =>
    simp only [List.sum_cons] at h
    simp only [List.map_cons, Choice.accumulate.go, psums]
    rw [numAdd_fl acc w (by omega)]
    simp only [bind, Except.bind]
    rw [ih (acc + w) (by omega)]
    rfl

theorem accumulate_fl (w0 : Nat) (ws : List Nat) (h : w0 + ws.sum < 2 ^ 53) :
    Choice.accumulate ((w0 :: ws).map fl) = .ok ((psums w0 ws).map fl) := by
  simp only [List.map_cons, Choice.accumulate]
  exact go_fl w0 ws h

theorem pow2_eq (k : Nat) : Dbl.pow2 k = 2 ^ k := by
  simp only [Dbl.pow2, Nat.one_shiftLeft]

theorem cmp_fin (k S : Nat)  :
    Dbl.cmp (Dbl.fin k (-32)) (Dbl.fin S 0) = some (compare (k : Int) ((S : Int) * ((2 ^ 32 : Nat) : Int))) := by
  have h1 : (-32 : Int) ≤ 0 := by decide
  have h2 : ((0:Int) - -32).toNat = 32 := by decide
  simp only [Dbl.cmp, Dbl.align, pow2_eq, h1, if_true, h2, Int.ofNat_eq_natCast]

theorem cmp_fin0 (S : Nat)  :
    Dbl.cmp (Dbl.fin (0 : Nat) 0) (Dbl.fin S 0) = some (compare (0 : Int) (S : Int)) := by
  have h1 : (0 : Int) ≤ 0 := by decide
  have h2 : ((0:Int) - 0).toNat = 0 := by decide
  simp only [Dbl.cmp, Dbl.align, pow2_eq, h1, if_true, h2, Int.ofNat_eq_natCast, Nat.pow_zero,
    Int.natCast_one, Int.mul_one, Int.natCast_zero]

theorem lt_char (k S : Nat) (e : Int) (he : e = -32 ∨ (e = 0 ∧ k = 0)) :
    Dbl.lt (Dbl.fin k e) (Dbl.fin S 0) = true ↔ k < S * 2 ^ 32 := by
  rcases he with he | ⟨he, hk⟩
  · subst he
    unfold Dbl.lt
    rw [cmp_fin, ← Int.natCast_mul, beq_iff_eq, Option.some_inj, Int.compare_eq_lt]
    exact Int.ofNat_lt
  · subst he; subst hk
    unfold Dbl.lt
    rw [cmp_fin0, beq_iff_eq, Option.some_inj, Int.compare_eq_lt]
    have : (0 : Int) < (S : Int) ↔ 0 < S := by omega
    rw [this]
    omega

theorem xval (h T : Nat) (hh : h < 2 ^ 32) (hT : T < 2 ^ 21) :
    ∃ e, Dbl.mul (Choice.proba h) (Dbl.fin T 0) = Dbl.fin ((h * T : Nat) : Int) e
      ∧ (e = -32 ∨ (e = 0 ∧ h * T = 0)) := by
  unfold Choice.proba Dbl.ofNatDivPow2
  by_cases h0 : h * T = 0
  · refine ⟨0, ?_, Or.inr ⟨rfl, h0⟩⟩
    rw [h0]
    by_cases hz : h = 0
    · subst hz
      simp only [Int.ofNat_eq_natCast, Int.natCast_zero, round_zero, Dbl.mul, Int.zero_mul]
    · rw [round_exact _ _ (by simp; omega) (by simp; omega) (by simp) (by simp)]
      have : T = 0 := by
        rcases Nat.mul_eq_zero.1 h0 with h | h
        · exact absurd h hz
        · exact h
      subst this
      simp only [Dbl.mul, Int.natCast_zero, Int.mul_zero, round_zero]
  · have hz : h ≠ 0 := fun h' => h0 (by rw [h', Nat.zero_mul])
    refine ⟨-32, ?_, Or.inl rfl⟩
    rw [round_exact _ _ (by simp; omega) (by simp; omega) (by simp) (by simp)]
    have hlt : h * T < 2 ^ 32 * 2 ^ 21 := Nat.mul_lt_mul'' hh hT
    simp only [Dbl.mul, Int.ofNat_eq_natCast, ← Int.natCast_mul]
    rw [round_exact _ _ (by omega) (by simp; omega) (by simp) (by simp)]
    simp

theorem mem_le_sum (l : List Nat) (x : Nat) (hx : x ∈ l) : x ≤ l.sum := by
  induction l with
  | nil => cases hx
  | cons a l ih =>
    rw [List.sum_cons]
    rcases List.mem_cons.1 hx with h | h
    · omega
    · have := ih h; omega

theorem le_zero_false (T : Nat) (hT : 0 < T) : Dbl.le (Dbl.fin T 0) Dbl.zero = false := by
  have h1 : (0 : Int) ≤ 0 := by decide
  have h2 : ((0 : Int) - 0).toNat = 0 := by decide
  have h3 : compare (T : Int) 0 = .gt := by rw [Int.compare_eq_gt]; omega
  simp only [Dbl.le, Dbl.zero, Dbl.cmp, Dbl.align, pow2_eq, h1, if_true, h2, Nat.pow_zero,
    Int.ofNat_eq_natCast, Int.natCast_one, Int.mul_one, h3]

theorem cum_getElem! (w0 : Nat) (ws : List Nat) (j : Nat) (hj : j ≤ ws.length) :
    ((psums w0 ws).map fl)[j]! = fl (prefixSum (w0 :: ws) (j + 1)) := by
  rw [List.getElem!_eq_getElem?_getD, List.getElem?_map, psums_getElem? w0 ws j hj]
  simp [prefixSum]

theorem cum_getLast? (w0 : Nat) (ws : List Nat) :
    ((psums w0 ws).map fl).getLast? = some (fl (total (w0 :: ws))) := by
  rw [List.getLast?_eq_getElem?, List.length_map, psums_length, Nat.add_sub_cancel,
    List.getElem?_map, psums_getElem? w0 ws ws.length (Nat.le_refl _)]
  simp [total]

theorem choiceIdx_floatWeights_spec (w : List Nat) (h : Nat) (hh : h < 2 ^ 32)
    (hpos : 0 < total w) (hT : total w < 2 ^ 21) :
    ∃ i, Choice.choiceIdx (some h) w.length (some (w.map fun x => Num.f (Dbl.ofNat x))) none = .ok (.idx i)
      ∧ IsSpecIdx w h i := by
  have hmap : (w.map fun x => Num.f (Dbl.ofNat x)) = w.map fl := by
    apply List.map_congr_left
    intro x hx
    have : x ≤ total w := mem_le_sum w x hx
    rw [ofNat_exact x (by omega)]; rfl
  rw [hmap]
  cases w with
  | nil => simp [total] at hpos
  | cons w0 ws =>
    have htot : total (w0 :: ws) = w0 + ws.sum := by simp [total]
    have hsum : w0 + ws.sum < 2 ^ 53 := by omega
    have hacc := accumulate_fl w0 ws hsum
    obtain ⟨e, hx, he⟩ := xval h (total (w0 :: ws)) hh hT
    have hlen : ((psums w0 ws).map fl).length = (w0 :: ws).length := by
      rw [List.length_map, psums_length, List.length_cons]
    have hlast := cum_getLast? w0 ws
    have hadd := numAdd_fl_zero (total (w0 :: ws)) (by omega)
    have hle := le_zero_false (total (w0 :: ws)) hpos
    have hget := cum_getElem! w0 ws
    -- comparison against each cumulative weight
    have hlt : ∀ j, j ≤ ws.length →
        (Num.dblLt (Dbl.fin ((h * total (w0 :: ws) : Nat) : Int) e) ((psums w0 ws).map fl)[j]! = true ↔
          h * total (w0 :: ws) < prefixSum (w0 :: ws) (j + 1) * 2 ^ 32) := by
      intro j hj
      rw [hget j hj]
      exact lt_char _ _ e he
    generalize hcum : (psums w0 ws).map fl = cum at hacc hlen hlast hget hlt
    have hpart := bisect_partition cum (Dbl.fin ((h * total (w0 :: ws) : Nat) : Int) e)
      (w0 :: ws).length hlen (by simp) (by
        intro i j hij hj
        have hj' : j ≤ ws.length := by simp at hj; omega
        rw [hlt i (by omega), hlt j hj']
        intro hlt1
        have := prefixSum_mono (w0 :: ws) (show i + 1 ≤ j + 1 by omega)
        exact Nat.lt_of_lt_of_le hlt1 (Nat.mul_le_mul_right _ this))
    refine ⟨Choice.bisect cum (Dbl.fin ((h * total (w0 :: ws) : Nat) : Int) e) 0 ((w0 :: ws).length - 1), ?_, ?_⟩
    · unfold Choice.choiceIdx
      simp only [hacc]
      simp only [bind, Except.bind, hlen, bne_self_eq_false, Bool.false_eq_true, if_false, hlast]
      simp only [hadd]
      simp only [fl, hle, Bool.false_eq_true, if_false, Dbl.isFinite, Bool.not_true, hx]
      rfl
    · obtain ⟨hp1, hp2, hp3⟩ := hpart
      generalize Choice.bisect cum (Dbl.fin ((h * total (w0 :: ws) : Nat) : Int) e) 0
        ((w0 :: ws).length - 1) = r at hp1 hp2 hp3
      have hlen' : (w0 :: ws).length = ws.length + 1 := List.length_cons
      rw [hlen'] at hp1 hp3
      simp only [Nat.add_sub_cancel] at hp1 hp3
      refine ⟨by omega, ?_, ?_⟩
      · cases r with
        | zero => rw [prefixSum_zero]; omega
        | succ r' =>
          have hf := hp2 r' (by omega)
          have := (hlt r' (by omega)).2
          rw [hf] at this
          simp only [Bool.false_eq_true, imp_false] at this
          omega
      · by_cases hr : r < ws.length
        · exact (hlt r (by omega)).1 (hp3 hr)
        · have hr' : r = ws.length := by omega
          rw [prefixSum_of_length_le (w0 :: ws) (by rw [hlen']; omega)]
          have := Nat.mul_lt_mul_of_pos_right hh hpos
          rw [Nat.mul_comm (2 ^ 32)] at this
          exact this

end Pyab.Proofs
