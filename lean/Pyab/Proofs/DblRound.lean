/-
  `Dbl.round` is round-to-nearest-even on the binary64 grid, hence monotone and idempotent.

  `RSpec v r` characterises `r` as the rounding of the exact value `v` (ulp exponent `k` from the
  binade of `v`, gradual underflow at `k = -1074`, nearest multiple `Q·2^k`, ties to even `Q`),
  independently of how `v` is written as `m·2^e`.  The abstract part proves, in ℚ,
      `RSpec_mono`   v1 ≤ v2 → r1 ≤ r2      (same binade: nearest+ties-to-even is monotone;
                                            different binades: a power of two separates them)
      `RSpec_unique`, `RSpec_idem`, `RSpec_nonneg`.
  The concrete part (`round_nat`, `rhe_spec`, `round_spec_nat`) shows that `Dbl.round` on a
  non-negative mantissa returns the `RSpec` value when that is `< 2^1024` and `+inf` otherwise.
  Consequences: `round_mono`, `round_nonneg`, `round_idem`, `add_spec`, `add_step`, `mul_spec`.

  Restricted to NON-NEGATIVE inputs throughout (all the choice arithmetic needs).
  Not done (not needed downstream):
    -- round_neg : round (-m) e = neg (round m e), and monotonicity for negative values by symmetry
    -- monotonicity with `+inf` as top element stated as a single order on all of `Dbl`
       (here: "the larger rounds to a finite value → so does the smaller, and le holds")
-/
import Pyab.Proofs.DblOrder

namespace Pyab
namespace Dbl

/-- `r` is the round-to-nearest-even image of the exact value `v` on the binary64 grid with
    unbounded exponent range upward (gradual underflow at `2^-1074`): `r = Q·2^k` where `k` is
    the ulp exponent of `v` and `Q` the nearest integer to `v / 2^k`, ties to even. -/
def RSpec (v r : ℚ) : Prop :=
  ∃ (k Q : Int), r = (Q : ℚ) * 2 ^ k ∧ -1074 ≤ k ∧ v < 2 ^ (k + 53) ∧
    (k = -1074 ∨ (2 : ℚ) ^ (k + 52) ≤ v) ∧
    (2 * (Q : ℚ) - 1) * 2 ^ (k - 1) ≤ v ∧ v ≤ (2 * (Q : ℚ) + 1) * 2 ^ (k - 1) ∧
    (v = (2 * (Q : ℚ) + 1) * 2 ^ (k - 1) → Q % 2 = 0) ∧
    (v = (2 * (Q : ℚ) - 1) * 2 ^ (k - 1) → Q % 2 = 0)

theorem zpow_split (k : Int) :
    (2 : ℚ) ^ k = 2 * 2 ^ (k - 1) ∧ (2 : ℚ) ^ (k + 52) = 2 ^ 53 * 2 ^ (k - 1) ∧
      (2 : ℚ) ^ (k + 53) = 2 ^ 54 * 2 ^ (k - 1) := by
  refine ⟨?_, ?_, ?_⟩
  · rw [show k = 1 + (k - 1) by ring, two_zpow_add]; norm_num
  · rw [show k + 52 = 53 + (k - 1) by ring, two_zpow_add]; norm_num
  · rw [show k + 53 = 54 + (k - 1) by ring, two_zpow_add]; norm_num

theorem Q_le_of {v P : ℚ} {Q : Int} (hP : 0 < P) (h1 : v < 2 ^ 54 * P)
    (h2 : (2 * (Q : ℚ) - 1) * P ≤ v) : Q ≤ 2 ^ 53 := by
  have h3 : (2 * (Q : ℚ) - 1) * P < 2 ^ 54 * P := lt_of_le_of_lt h2 h1
  have h4 : (2 * (Q : ℚ) - 1) < 2 ^ 54 := lt_of_mul_lt_mul_right h3 hP.le
  have h5 : (2 * Q - 1 : Int) < 2 ^ 54 := by exact_mod_cast h4
  omega

theorem Q_ge_of {v P : ℚ} {Q : Int} (hP : 0 < P) (h1 : 2 ^ 53 * P ≤ v)
    (h2 : v ≤ (2 * (Q : ℚ) + 1) * P) : 2 ^ 52 ≤ Q := by
  have h3 : 2 ^ 53 * P ≤ (2 * (Q : ℚ) + 1) * P := le_trans h1 h2
  have h4 : (2 : ℚ) ^ 53 ≤ 2 * (Q : ℚ) + 1 := le_of_mul_le_mul_right h3 hP
  have h5 : (2 : Int) ^ 53 ≤ 2 * Q + 1 := by exact_mod_cast h4
  omega

theorem RSpec_mono {v1 v2 r1 r2 : ℚ} (hv : v1 ≤ v2) (h1 : RSpec v1 r1) (h2 : RSpec v2 r2) :
    r1 ≤ r2 := by
  obtain ⟨k1, Q1, hr1, hk1, hu1, hl1, ha1, hb1, ht1, hs1⟩ := h1
  obtain ⟨k2, Q2, hr2, hk2, hu2, hl2, ha2, hb2, ht2, hs2⟩ := h2
  subst hr1; subst hr2
  obtain ⟨e1, f1, g1⟩ := zpow_split k1
  obtain ⟨e2, f2, g2⟩ := zpow_split k2
  have hP1 := two_zpow_pos (k1 - 1)
  have hP2 := two_zpow_pos (k2 - 1)
  rcases lt_trichotomy k1 k2 with hlt | heq | hgt
  · -- different binades: a power of two separates the two results
    have hl2' : (2 : ℚ) ^ (k2 + 52) ≤ v2 := by
      rcases hl2 with h | h
      · omega
      · exact h
    rw [g1] at hu1; rw [f2] at hl2'
    have hQ1 : Q1 ≤ 2 ^ 53 := Q_le_of hP1 hu1 ha1
    have hQ2 : 2 ^ 52 ≤ Q2 := Q_ge_of hP2 hl2' hb2
    have hQ1' : (Q1 : ℚ) ≤ 2 ^ 53 := by exact_mod_cast hQ1
    have hQ2' : (2 : ℚ) ^ 52 ≤ (Q2 : ℚ) := by exact_mod_cast hQ2
    have hpow : (2 : ℚ) ^ (k1 + 53) ≤ 2 ^ (k2 + 52) := two_zpow_le (by omega)
    rw [g1, f2] at hpow
    have hA := mul_le_mul_of_nonneg_right hQ1' hP1.le
    have hB := mul_le_mul_of_nonneg_right hQ2' hP2.le
    rw [e1, e2]
    nlinarith
  · subst heq
    have hQ : Q1 ≤ Q2 := by
      by_contra hcon
      have hge : Q2 + 1 ≤ Q1 := by omega
      have hge' : (Q2 : ℚ) + 1 ≤ (Q1 : ℚ) := by exact_mod_cast hge
      have hm := mul_le_mul_of_nonneg_right hge' hP1.le
      have hv1 : v1 = (2 * (Q1 : ℚ) - 1) * 2 ^ (k1 - 1) := by nlinarith
      have hv2 : v2 = (2 * (Q2 : ℚ) + 1) * 2 ^ (k1 - 1) := by nlinarith
      have hQQ : ((Q1 : ℚ) - (Q2 + 1)) * 2 ^ (k1 - 1) = 0 := by nlinarith
      have hQQ' : (Q1 : ℚ) - (Q2 + 1) = 0 := by
        rcases mul_eq_zero.1 hQQ with h | h
        · exact h
        · exact absurd h (ne_of_gt hP1)
      have hQe : Q1 = Q2 + 1 := by
        have : (Q1 : ℚ) = ((Q2 + 1 : Int) : ℚ) := by push_cast; linarith
        exact_mod_cast this
      have := hs1 hv1
      have := ht2 hv2
      omega
    have hQ' : (Q1 : ℚ) ≤ (Q2 : ℚ) := by exact_mod_cast hQ
    exact mul_le_mul_of_nonneg_right hQ' (two_zpow_pos k1).le
  · exfalso
    have hl1' : (2 : ℚ) ^ (k1 + 52) ≤ v1 := by
      rcases hl1 with h | h
      · omega
      · exact h
    have : (2 : ℚ) ^ (k1 + 52) < 2 ^ (k2 + 53) := lt_of_le_of_lt (le_trans hl1' hv) hu2
    rw [two_zpow_lt_iff] at this
    omega

theorem RSpec_unique {v r1 r2 : ℚ} (h1 : RSpec v r1) (h2 : RSpec v r2) : r1 = r2 :=
  le_antisymm (RSpec_mono (le_refl v) h1 h2) (RSpec_mono (le_refl v) h2 h1)

theorem RSpec_nonneg {v r : ℚ} (hv : 0 ≤ v) (h : RSpec v r) : 0 ≤ r := by
  obtain ⟨k, Q, hr, hk, hu, hl, ha, hb, ht, hs⟩ := h
  subst hr
  have hP := two_zpow_pos (k - 1)
  have hQ : 0 ≤ Q := by
    by_contra hcon
    have hle : Q ≤ -1 := by omega
    have hle' : (Q : ℚ) ≤ -1 := by exact_mod_cast hle
    have := mul_le_mul_of_nonneg_right hle' hP.le
    nlinarith
  have hQ' : (0 : ℚ) ≤ (Q : ℚ) := by exact_mod_cast hQ
  exact mul_nonneg hQ' (two_zpow_pos k).le

/-- a rounded value is a fixed point of rounding -/
theorem RSpec_idem {v r : ℚ} (h : RSpec v r) : RSpec r r := by
  obtain ⟨k, Q, hr, hk, hu, hl, ha, hb, ht, hs⟩ := h
  subst hr
  obtain ⟨e1, f1, g1⟩ := zpow_split k
  have hP := two_zpow_pos (k - 1)
  rw [g1] at hu
  have hQ1 : Q ≤ 2 ^ 53 := Q_le_of hP hu ha
  have hQ2 : k = -1074 ∨ 2 ^ 52 ≤ Q := by
    rcases hl with h | h
    · exact Or.inl h
    · rw [f1] at h; exact Or.inr (Q_ge_of hP h hb)
  by_cases htop : Q = 2 ^ 53
  · -- the value is a power of two at the top of its binade: one exponent up
    subst htop
    obtain ⟨e2, f2, g2⟩ := zpow_split (k + 1)
    have hkk : k + 1 - 1 = 1 + (k - 1) := by ring
    have hP2 : (2 : ℚ) ^ (k + 1 - 1) = 2 * 2 ^ (k - 1) := by
      rw [hkk, two_zpow_add]; norm_num
    refine ⟨k + 1, 2 ^ 52, ?_, by omega, ?_, Or.inr ?_, ?_, ?_, ?_, ?_⟩
    · rw [e2, hP2, e1]; push_cast; ring
    · rw [g2, hP2, e1]; push_cast; nlinarith
    · rw [f2, hP2, e1]; push_cast; nlinarith
    · rw [hP2, e1]; push_cast; nlinarith
    · rw [hP2, e1]; push_cast; nlinarith
    · intro _; norm_num
    · intro _; norm_num
  · have hlt : Q < 2 ^ 53 := by omega
    have hlt' : (Q : ℚ) < 2 ^ 53 := by exact_mod_cast hlt
    have hm := mul_lt_mul_of_pos_right hlt' hP
    refine ⟨k, Q, rfl, hk, ?_, ?_, ?_, ?_, ?_, ?_⟩
    · rw [g1, e1]; nlinarith
    · rcases hQ2 with h | h
      · exact Or.inl h
      · right
        have h' : (2 : ℚ) ^ 52 ≤ (Q : ℚ) := by exact_mod_cast h
        have := mul_le_mul_of_nonneg_right h' hP.le
        rw [f1, e1]; nlinarith
    · rw [e1]; nlinarith
    · rw [e1]; nlinarith
    · intro h; exfalso; rw [e1] at h; nlinarith
    · intro h; exfalso; rw [e1] at h; nlinarith

end Dbl
end Pyab

namespace Pyab
namespace Dbl
open Pyab.Proofs (pow2_eq)

/-- the round-half-even quotient `n / 2^s` exactly as `Dbl.round` computes it -/
def rhe (n s : Nat) : Nat :=
  if n - ((n >>> s) <<< s) > pow2 (s - 1) ||
      (n - ((n >>> s) <<< s) == pow2 (s - 1) && (n >>> s) % 2 == 1) then n >>> s + 1 else n >>> s

/-- the shift `Dbl.round` applies: positive when bits must be dropped -/
def shiftOf (n : Nat) (e : Int) : Int := max ((n.log2 : Int) + 1 - 53) (-1074 - e)

theorem round_nat (n : Nat) (hn : n ≠ 0) (e : Int) :
    round (n : Int) e =
      if shiftOf n e ≤ 0 then
        (if (n.log2 : Int) + 1 + e > 1024 then pinf else fin n e)
      else if rhe n (shiftOf n e).toNat = 0 then fin 0 0
      else if ((rhe n (shiftOf n e).toNat).log2 + 1 : Int) + (e + shiftOf n e) > 1024 then pinf
      else fin (rhe n (shiftOf n e).toNat) (e + shiftOf n e) := by
  have h0 : ((n : Int) == 0) = false := by
    rw [beq_eq_false_iff_ne]; omega
  have hneg : ¬ ((n : Int) < 0) := by omega
  unfold round
  simp only [h0, Bool.false_eq_true, if_false, Int.natAbs_natCast, hneg, beq_iff_eq,
    Int.ofNat_eq_natCast]
  rfl

end Dbl
end Pyab

namespace Pyab
namespace Dbl
open Pyab.Proofs (pow2_eq round_zero)

theorem rhe_spec (n s : Nat) (hs : 0 < s) :
    ∃ q rem H : Nat, H = 2 ^ (s - 1) ∧ n = 2 * q * H + rem ∧ rem < 2 * H ∧
      ((rhe n s = q ∧ (rem < H ∨ (rem = H ∧ q % 2 = 0))) ∨
       (rhe n s = q + 1 ∧ (H < rem ∨ (rem = H ∧ q % 2 = 1)))) := by
  have h2 : 2 ^ s = 2 * 2 ^ (s - 1) := by
    rw [show s = (s - 1) + 1 by omega, Nat.pow_succ]; simp; omega
  have hdm := Nat.div_add_mod n (2 ^ s)
  have hmod := Nat.mod_lt n (Nat.two_pow_pos s)
  have hsub : n - (n / 2 ^ s) * 2 ^ s = n % 2 ^ s := by
    rw [Nat.mul_comm]; omega
  have hrhe : rhe n s = if n % 2 ^ s > 2 ^ (s - 1) ||
      (n % 2 ^ s == 2 ^ (s - 1) && (n / 2 ^ s) % 2 == 1) then n / 2 ^ s + 1 else n / 2 ^ s := by
    unfold rhe
    simp only [Nat.shiftRight_eq_div_pow, Nat.shiftLeft_eq, pow2_eq, hsub]
  rw [hrhe]
  generalize n / 2 ^ s = q at *
  generalize n % 2 ^ s = rem at *
  generalize 2 ^ (s - 1) = H at *
  generalize 2 ^ s = T at *
  subst h2
  refine ⟨q, rem, H, rfl, ?_, hmod, ?_⟩
  · rw [← hdm]; ring
  · by_cases h1 : rem > H
    · right
      simp [h1]
    · by_cases h3 : rem = H
      · by_cases h4 : q % 2 = 1
        · right
          simp [h3, h4]
        · left
          simp [h3, h4]; omega
      · left
        simp [h1, h3]; omega

theorem rhe_specQ (n s : Nat) (hs : 0 < s) :
    (2 * ((rhe n s : Int) : ℚ) - 1) * (2 : ℚ) ^ (s - 1) ≤ (n : ℚ) ∧
    (n : ℚ) ≤ (2 * ((rhe n s : Int) : ℚ) + 1) * (2 : ℚ) ^ (s - 1) ∧
    ((n : ℚ) = (2 * ((rhe n s : Int) : ℚ) + 1) * (2 : ℚ) ^ (s - 1) → (rhe n s : Int) % 2 = 0) ∧
    ((n : ℚ) = (2 * ((rhe n s : Int) : ℚ) - 1) * (2 : ℚ) ^ (s - 1) → (rhe n s : Int) % 2 = 0) := by
  obtain ⟨q, rem, H, hH, hn, hrem, hcase⟩ := rhe_spec n s hs
  have hHq : ((2 : ℚ) ^ (s - 1)) = (H : ℚ) := by rw [hH]; push_cast; rfl
  rw [hHq]
  have hnq : (n : ℚ) = 2 * (q : ℚ) * (H : ℚ) + (rem : ℚ) := by rw [hn]; push_cast; rfl
  have hHpos : (0 : ℚ) < (H : ℚ) := by rw [← hHq]; positivity
  have hrem0 : (0 : ℚ) ≤ (rem : ℚ) := Nat.cast_nonneg _
  have hrem' : (rem : ℚ) < 2 * (H : ℚ) := by exact_mod_cast hrem
  rcases hcase with ⟨hQ, hc⟩ | ⟨hQ, hc⟩
  · rw [hQ]
    have hle : (rem : ℚ) ≤ (H : ℚ) := by
      rcases hc with h | ⟨h, _⟩
      · exact_mod_cast (le_of_lt h)
      · rw [h]
    push_cast
    refine ⟨by nlinarith, by nlinarith, ?_, ?_⟩
    · intro h
      have hr : (rem : ℚ) = (H : ℚ) := by nlinarith
      have hr' : rem = H := by exact_mod_cast hr
      rcases hc with h' | ⟨_, h'⟩
      · omega
      · omega
    · intro h
      exfalso; nlinarith
  · rw [hQ]
    have hle : (H : ℚ) ≤ (rem : ℚ) := by
      rcases hc with h | ⟨h, _⟩
      · exact_mod_cast (le_of_lt h)
      · rw [h]
    push_cast
    refine ⟨by nlinarith, by nlinarith, ?_, ?_⟩
    · intro h
      exfalso; nlinarith
    · intro h
      have hr : (rem : ℚ) = (H : ℚ) := by nlinarith
      have hr' : rem = H := by exact_mod_cast hr
      rcases hc with h' | ⟨_, h'⟩
      · omega
      · omega

end Dbl
end Pyab

namespace Pyab
namespace Dbl
open Pyab.Proofs (pow2_eq round_zero)

theorem nat_log2_bounds (n : Nat) (hn : n ≠ 0) :
    (2 : ℚ) ^ (n.log2 : Int) ≤ (n : ℚ) ∧ (n : ℚ) < (2 : ℚ) ^ ((n.log2 : Int) + 1) := by
  have h1 := Nat.log2_self_le hn
  have h2 := @Nat.lt_log2_self n
  constructor
  · rw [zpow_natCast]; exact_mod_cast h1
  · rw [show ((n.log2 : Int) + 1) = ((n.log2 + 1 : Nat) : Int) by push_cast; rfl, zpow_natCast]
    exact_mod_cast h2

/-- value bounds of `N·2^k` from the bit length of `N` -/
theorem overflow_dichotomy (N : Nat) (hN : N ≠ 0) (k : Int) :
    ((N.log2 : Int) + 1 + k > 1024 → (2 : ℚ) ^ (1024 : Int) ≤ (N : ℚ) * 2 ^ k) ∧
    (¬ ((N.log2 : Int) + 1 + k > 1024) → (N : ℚ) * 2 ^ k < (2 : ℚ) ^ (1024 : Int)) := by
  obtain ⟨h1, h2⟩ := nat_log2_bounds N hN
  have hk := two_zpow_pos k
  constructor
  · intro h
    calc (2 : ℚ) ^ (1024 : Int) ≤ 2 ^ ((N.log2 : Int) + k) := two_zpow_le (by omega)
      _ = 2 ^ (N.log2 : Int) * 2 ^ k := two_zpow_add _ _
      _ ≤ (N : ℚ) * 2 ^ k := mul_le_mul_of_nonneg_right h1 hk.le
  · intro h
    calc (N : ℚ) * 2 ^ k < 2 ^ ((N.log2 : Int) + 1) * 2 ^ k := mul_lt_mul_of_pos_right h2 hk
      _ = 2 ^ ((N.log2 : Int) + 1 + k) := (two_zpow_add _ _).symm
      _ ≤ 2 ^ (1024 : Int) := two_zpow_le (by omega)

theorem RSpec_zero : RSpec 0 0 := by
  refine ⟨-1074, 0, by simp, by omega, two_zpow_pos _, Or.inl rfl, ?_, ?_, ?_, ?_⟩
  · have h := two_zpow_pos (-1074 - 1)
    generalize (2 : ℚ) ^ ((-1074 : Int) - 1) = P at h ⊢
    push_cast; linarith
  · have h := two_zpow_pos (-1074 - 1)
    generalize (2 : ℚ) ^ ((-1074 : Int) - 1) = P at h ⊢
    push_cast; linarith
  · intro _; rfl
  · intro _; rfl

/-- what `Dbl.round` returns on a non-negative dyadic: the `RSpec` value, or `+inf` when that
    value reaches `2^1024` -/
theorem round_spec_nat (n : Nat) (e : Int) :
    ∃ r : ℚ, RSpec ((n : ℚ) * 2 ^ e) r ∧
      ((r < 2 ^ (1024 : Int) ∧ ∃ m' e', round (n : Int) e = fin m' e' ∧ 0 ≤ m' ∧
          (m' : ℚ) * 2 ^ e' = r) ∨
       ((2 : ℚ) ^ (1024 : Int) ≤ r ∧ round (n : Int) e = pinf)) := by
  by_cases hn : n = 0
  · subst hn
    refine ⟨0, by simpa using RSpec_zero, Or.inl ⟨two_zpow_pos _, 0, 0, ?_, le_refl _, by simp⟩⟩
    exact round_zero e
  obtain ⟨hb1, hb2⟩ := nat_log2_bounds n hn
  have hE := two_zpow_pos e
  -- the ulp exponent and what it implies
  have hk : -1074 ≤ e + shiftOf n e := by unfold shiftOf; omega
  have hu : (n : ℚ) * 2 ^ e < 2 ^ (e + shiftOf n e + 53) := by
    calc (n : ℚ) * 2 ^ e < 2 ^ ((n.log2 : Int) + 1) * 2 ^ e := mul_lt_mul_of_pos_right hb2 hE
      _ = 2 ^ ((n.log2 : Int) + 1 + e) := (two_zpow_add _ _).symm
      _ ≤ 2 ^ (e + shiftOf n e + 53) := two_zpow_le (by unfold shiftOf; omega)
  have hl : e + shiftOf n e = -1074 ∨ (2 : ℚ) ^ (e + shiftOf n e + 52) ≤ (n : ℚ) * 2 ^ e := by
    by_cases hk' : e + shiftOf n e = -1074
    · exact Or.inl hk'
    · right
      have : e + shiftOf n e + 52 = (n.log2 : Int) + e := by unfold shiftOf at *; omega
      rw [this, two_zpow_add]
      exact mul_le_mul_of_nonneg_right hb1 hE.le
  rw [round_nat n hn e]
  by_cases hsh : shiftOf n e ≤ 0
  · -- nothing is dropped: the value is its own rounding
    rw [if_pos hsh]
    have hval := scale_val (n : Int) e (e + shiftOf n e) (by omega)
    rw [Int.cast_natCast] at hval
    have hP := two_zpow_pos (e + shiftOf n e - 1)
    obtain ⟨e1, -, -⟩ := zpow_split (e + shiftOf n e)
    refine ⟨(n : ℚ) * 2 ^ e, ⟨e + shiftOf n e, (n : Int) * 2 ^ (e - (e + shiftOf n e)).toNat,
      ?_, hk, hu, hl, ?_, ?_, ?_, ?_⟩, ?_⟩
    · rw [hval]
    · rw [← hval, e1]
      generalize (((n : Int) * 2 ^ (e - (e + shiftOf n e)).toNat : Int) : ℚ) = Q
      nlinarith
    · rw [← hval, e1]
      generalize (((n : Int) * 2 ^ (e - (e + shiftOf n e)).toNat : Int) : ℚ) = Q
      nlinarith
    · intro h; exfalso
      rw [← hval, e1] at h
      generalize (((n : Int) * 2 ^ (e - (e + shiftOf n e)).toNat : Int) : ℚ) = Q at h
      nlinarith
    · intro h; exfalso
      rw [← hval, e1] at h
      generalize (((n : Int) * 2 ^ (e - (e + shiftOf n e)).toNat : Int) : ℚ) = Q at h
      nlinarith
    · obtain ⟨ho1, ho2⟩ := overflow_dichotomy n hn e
      by_cases hov : (n.log2 : Int) + 1 + e > 1024
      · rw [if_pos hov]
        exact Or.inr ⟨ho1 hov, rfl⟩
      · rw [if_neg hov]
        exact Or.inl ⟨ho2 hov, n, e, rfl, by omega, by push_cast; rfl⟩
  · -- `s` low bits are dropped, round half even
    rw [if_neg hsh]
    have hs : 0 < (shiftOf n e).toNat := by omega
    have hsz : (((shiftOf n e).toNat : Nat) : Int) = shiftOf n e := Int.toNat_of_nonneg (by omega)
    obtain ⟨ha, hb, ht, hs'⟩ := rhe_specQ n (shiftOf n e).toNat hs
    generalize hQ : rhe n (shiftOf n e).toNat = Qn at *
    have hP : (2 : ℚ) ^ (e + shiftOf n e - 1) = 2 ^ ((shiftOf n e).toNat - 1) * 2 ^ e := by
      rw [← zpow_natCast, ← two_zpow_add]
      congr 1
      omega
    have hmulE : ∀ c : ℚ, c * (2 ^ ((shiftOf n e).toNat - 1) * 2 ^ e)
        = (c * 2 ^ ((shiftOf n e).toNat - 1)) * 2 ^ e := fun c => by ring
    refine ⟨((Qn : Int) : ℚ) * 2 ^ (e + shiftOf n e), ⟨e + shiftOf n e, (Qn : Int), rfl, hk, hu, hl,
      ?_, ?_, ?_, ?_⟩, ?_⟩
    · rw [hP, hmulE]; exact mul_le_mul_of_nonneg_right ha hE.le
    · rw [hP, hmulE]; exact mul_le_mul_of_nonneg_right hb hE.le
    · intro h; rw [hP, hmulE] at h
      exact ht (mul_right_cancel₀ (ne_of_gt hE) h)
    · intro h; rw [hP, hmulE] at h
      exact hs' (mul_right_cancel₀ (ne_of_gt hE) h)
    · by_cases hz : Qn = 0
      · rw [if_pos hz]
        subst hz
        refine Or.inl ⟨?_, 0, 0, rfl, le_refl _, by simp⟩
        simp only [Int.natCast_zero, Int.cast_zero, zero_mul]
        exact two_zpow_pos _
      · rw [if_neg hz]
        obtain ⟨ho1, ho2⟩ := overflow_dichotomy Qn hz (e + shiftOf n e)
        by_cases hov : (Qn.log2 : Int) + 1 + (e + shiftOf n e) > 1024
        · rw [if_pos hov]
          exact Or.inr ⟨by rw [Int.cast_natCast]; exact ho1 hov, rfl⟩
        · rw [if_neg hov]
          exact Or.inl ⟨by rw [Int.cast_natCast]; exact ho2 hov, Qn, _, rfl, by omega, rfl⟩

end Dbl
end Pyab

namespace Pyab
namespace Dbl
open Pyab.Proofs (pow2_eq round_zero round_exact)

/-- `round_spec_nat` for an integer mantissa `m ≥ 0` -/
theorem round_spec (m e : Int) (hm : 0 ≤ m) :
    ∃ r : ℚ, RSpec ((m : ℚ) * 2 ^ e) r ∧
      ((r < 2 ^ (1024 : Int) ∧ ∃ m' e', round m e = fin m' e' ∧ 0 ≤ m' ∧ (m' : ℚ) * 2 ^ e' = r) ∨
       ((2 : ℚ) ^ (1024 : Int) ≤ r ∧ round m e = pinf)) := by
  obtain ⟨n, rfl⟩ := Int.eq_ofNat_of_zero_le hm
  have := round_spec_nat n e
  rw [Int.cast_natCast]
  exact this

/-- a finite non-negative value that rounding leaves unchanged: a genuine binary64 value ≥ 0 -/
def IsRep (d : Dbl) : Prop :=
  ∃ m e, d = fin m e ∧ 0 ≤ m ∧ RSpec (val d) (val d) ∧ val d < 2 ^ (1024 : Int)

/-- a finite result of `round` on a non-negative dyadic -/
def NonnegDouble (d : Dbl) : Prop := ∃ m e, 0 ≤ m ∧ d = round m e ∧ d.isFinite = true

theorem IsRep.nonneg {d : Dbl} (h : IsRep d) : 0 ≤ val d := by
  obtain ⟨m, e, rfl, hm, -, -⟩ := h
  rw [val_fin]
  exact mul_nonneg (by exact_mod_cast hm) (two_zpow_pos e).le

/-- finite results of `round` on non-negative input: non-negative mantissa, `RSpec`, in range -/
theorem round_fin (m e m' e' : Int) (hm : 0 ≤ m) (h : round m e = fin m' e') :
    0 ≤ m' ∧ RSpec ((m : ℚ) * 2 ^ e) ((m' : ℚ) * 2 ^ e') ∧ (m' : ℚ) * 2 ^ e' < 2 ^ (1024 : Int) := by
  obtain ⟨r, hr, hcase⟩ := round_spec m e hm
  rcases hcase with ⟨hlt, m'', e'', heq, hm'', hv⟩ | ⟨_, hinf⟩
  · rw [h] at heq
    injection heq with h1 h2
    subst h1; subst h2
    rw [hv]
    exact ⟨hm'', hr, hlt⟩
  · rw [h] at hinf; cases hinf

theorem round_isRep (m e m' e' : Int) (hm : 0 ≤ m) (h : round m e = fin m' e') :
    IsRep (fin m' e') := by
  obtain ⟨h1, h2, h3⟩ := round_fin m e m' e' hm h
  exact ⟨m', e', rfl, h1, RSpec_idem h2, h3⟩

theorem NonnegDouble.isRep {d : Dbl} (h : NonnegDouble d) : IsRep d := by
  obtain ⟨m, e, hm, hd, hfin⟩ := h
  cases hd' : round m e with
  | fin m' e' => rw [hd, hd']; exact round_isRep m e m' e' hm hd'
  | pinf => rw [hd, hd'] at hfin; cases hfin
  | ninf => rw [hd, hd'] at hfin; cases hfin
  | nan => rw [hd, hd'] at hfin; cases hfin

/-- **`round` is monotone** on non-negative dyadics (non-overflow case): if `m1·2^e1 ≤ m2·2^e2`
    and the larger one rounds to a finite value, so does the smaller, and the results are ordered
    by the model's own comparison. -/
theorem round_mono_val (m1 e1 m2 e2 m2' e2' : Int) (h1 : 0 ≤ m1)
    (hle : (m1 : ℚ) * 2 ^ e1 ≤ (m2 : ℚ) * 2 ^ e2) (h2 : round m2 e2 = fin m2' e2') :
    ∃ m1' e1', round m1 e1 = fin m1' e1' ∧ 0 ≤ m1' ∧
      val (fin m1' e1') ≤ val (fin m2' e2') := by
  have h2nn : 0 ≤ m2 := by
    have hE1 := two_zpow_pos e1
    have hE2 := two_zpow_pos e2
    have h1' : (0 : ℚ) ≤ (m1 : ℚ) := by exact_mod_cast h1
    have : (0 : ℚ) ≤ (m2 : ℚ) * 2 ^ e2 := le_trans (mul_nonneg h1' hE1.le) hle
    have : (0 : ℚ) ≤ (m2 : ℚ) := nonneg_of_mul_nonneg_left this hE2
    exact_mod_cast this
  obtain ⟨-, hs2, hlt2⟩ := round_fin m2 e2 m2' e2' h2nn h2
  obtain ⟨r, hr, hcase⟩ := round_spec m1 e1 h1
  have hrr := RSpec_mono hle hr hs2
  rcases hcase with ⟨_, m1', e1', heq, hm1', hv⟩ | ⟨hge, _⟩
  · exact ⟨m1', e1', heq, hm1', by rw [val_fin, val_fin, hv]; exact hrr⟩
  · exfalso; linarith

theorem round_mono (m1 e1 m2 e2 : Int) (h1 : 0 ≤ m1) (hle : leq (fin m1 e1) (fin m2 e2))
    (hfin : (round m2 e2).isFinite = true) :
    (round m1 e1).isFinite = true ∧ le (round m1 e1) (round m2 e2) = true := by
  rw [leq_iff_val, val_fin, val_fin] at hle
  cases h2 : round m2 e2 with
  | fin m2' e2' =>
    obtain ⟨m1', e1', heq, _, hv⟩ := round_mono_val m1 e1 m2 e2 m2' e2' h1 hle h2
    rw [heq]
    exact ⟨rfl, (le_iff_val _ _ _ _).2 hv⟩
  | pinf => rw [h2] at hfin; cases hfin
  | ninf => rw [h2] at hfin; cases hfin
  | nan => rw [h2] at hfin; cases hfin

/-- rounding a non-negative dyadic never gives a negative value, `-inf` or `nan` -/
theorem round_nonneg (m e : Int) (hm : 0 ≤ m) :
    round m e = pinf ∨ ∃ m' e', round m e = fin m' e' ∧ 0 ≤ m' := by
  obtain ⟨r, _, hcase⟩ := round_spec m e hm
  rcases hcase with ⟨_, m', e', heq, hm', _⟩ | ⟨_, hinf⟩
  · exact Or.inr ⟨m', e', heq, hm'⟩
  · exact Or.inl hinf

/-- rounding is the identity, as a value, on values it produced -/
theorem round_idem (d : Dbl) (hd : IsRep d) (m e : Int) (hm : 0 ≤ m)
    (hv : (m : ℚ) * 2 ^ e = val d) :
    ∃ m' e', round m e = fin m' e' ∧ 0 ≤ m' ∧ val (fin m' e') = val d := by
  obtain ⟨md, ed, rfl, hmd, hs, hlt⟩ := hd
  obtain ⟨r, hr, hcase⟩ := round_spec m e hm
  rw [hv] at hr
  have := RSpec_unique hr hs
  rcases hcase with ⟨_, m', e', heq, hm', hv'⟩ | ⟨hge, _⟩
  · exact ⟨m', e', heq, hm', by rw [val_fin, hv', this]⟩
  · exfalso; linarith

end Dbl
end Pyab

namespace Pyab
namespace Dbl
open Pyab.Proofs (pow2_eq round_zero round_exact)

theorem add_fin_fin (m1 e1 m2 e2 : Int) :
    add (fin m1 e1) (fin m2 e2) =
      round ((align m1 e1 m2 e2).1 + (align m1 e1 m2 e2).2.1) (align m1 e1 m2 e2).2.2 := rfl

/-- the sum of two non-negative finite doubles is the rounding of the exact sum -/
theorem add_spec (m1 e1 m2 e2 : Int) (h1 : 0 ≤ m1) (h2 : 0 ≤ m2) :
    ∃ r : ℚ, RSpec (val (fin m1 e1) + val (fin m2 e2)) r ∧
      ((r < 2 ^ (1024 : Int) ∧ ∃ m' e', add (fin m1 e1) (fin m2 e2) = fin m' e' ∧ 0 ≤ m' ∧
          val (fin m' e') = r) ∨
       ((2 : ℚ) ^ (1024 : Int) ≤ r ∧ add (fin m1 e1) (fin m2 e2) = pinf)) := by
  obtain ⟨ha, hb⟩ := align_val m1 e1 m2 e2
  rw [add_fin_fin, val_fin, val_fin, ← ha, ← hb, ← add_mul]
  have hE := two_zpow_pos (align m1 e1 m2 e2).2.2
  have hnn : 0 ≤ (align m1 e1 m2 e2).1 + (align m1 e1 m2 e2).2.1 := by
    have h1' : (0 : ℚ) ≤ (m1 : ℚ) * 2 ^ e1 := mul_nonneg (by exact_mod_cast h1) (two_zpow_pos _).le
    have h2' : (0 : ℚ) ≤ (m2 : ℚ) * 2 ^ e2 := mul_nonneg (by exact_mod_cast h2) (two_zpow_pos _).le
    rw [← ha] at h1'; rw [← hb] at h2'
    have h3 := nonneg_of_mul_nonneg_left (add_nonneg h1' h2' |>.trans_eq (add_mul _ _ _).symm) hE
    exact_mod_cast h3
  have := round_spec _ (align m1 e1 m2 e2).2.2 hnn
  rw [Int.cast_add] at this
  exact this

/-- adding a non-negative finite value to a genuine double does not decrease it, and the finite
    result is again a genuine double -/
theorem add_step (a : Dbl) (ha : IsRep a) (mw ew : Int) (hw : 0 ≤ mw) (m' e' : Int)
    (hadd : add a (fin mw ew) = fin m' e') :
    IsRep (fin m' e') ∧ val a ≤ val (fin m' e') := by
  obtain ⟨ma, ea, rfl, hma, hs, hlt⟩ := ha
  obtain ⟨r, hr, hcase⟩ := add_spec ma ea mw ew hma hw
  have hwv : 0 ≤ val (fin mw ew) := by
    rw [val_fin]; exact mul_nonneg (by exact_mod_cast hw) (two_zpow_pos _).le
  rcases hcase with ⟨hlt', m'', e'', heq, hm'', hv⟩ | ⟨_, hinf⟩
  · rw [hadd] at heq
    injection heq with h1 h2
    subst h1; subst h2
    refine ⟨⟨m', e', rfl, hm'', ?_, by rw [hv]; exact hlt'⟩, ?_⟩
    · rw [hv]; exact RSpec_idem hr
    · rw [hv]; exact RSpec_mono (by linarith) hs hr
  · rw [hadd] at hinf; cases hinf

/-- `c + 0.0` has the value of `c` -/
theorem add_zero_val (a : Dbl) (ha : IsRep a) (t : Dbl) (ht : add a zero = t) :
    IsRep t ∧ val t = val a := by
  obtain ⟨ma, ea, rfl, hma, hs, hlt⟩ := ha
  obtain ⟨r, hr, hcase⟩ := add_spec ma ea 0 0 hma (le_refl _)
  have hz : val (fin 0 0) = 0 := by rw [val_fin]; simp
  rw [hz, add_zero] at hr
  have hrv := RSpec_unique hr hs
  rcases hcase with ⟨hlt', m'', e'', heq, hm'', hv⟩ | ⟨hge, _⟩
  · have : t = fin m'' e'' := by rw [← ht]; exact heq
    subst this
    refine ⟨⟨m'', e'', rfl, hm'', ?_, by rw [hv]; exact hlt'⟩, by rw [hv, hrv]⟩
    rw [hv]; exact RSpec_idem hr
  · exfalso; rw [hrv] at hge; linarith

theorem add_isFinite_left (a b : Dbl) (h : (add a b).isFinite = true) : a.isFinite = true := by
  cases a <;> cases b <;> first | rfl | (simp [add, isFinite] at h)

theorem mul_fin_fin (m1 e1 m2 e2 : Int) :
    mul (fin m1 e1) (fin m2 e2) = round (m1 * m2) (e1 + e2) := rfl

theorem mul_spec (m1 e1 m2 e2 : Int) (h1 : 0 ≤ m1) (h2 : 0 ≤ m2) :
    ∃ r : ℚ, RSpec (val (fin m1 e1) * val (fin m2 e2)) r ∧
      ((r < 2 ^ (1024 : Int) ∧ ∃ m' e', mul (fin m1 e1) (fin m2 e2) = fin m' e' ∧ 0 ≤ m' ∧
          val (fin m' e') = r) ∨
       ((2 : ℚ) ^ (1024 : Int) ≤ r ∧ mul (fin m1 e1) (fin m2 e2) = pinf)) := by
  have hv : val (fin m1 e1) * val (fin m2 e2) = ((m1 * m2 : Int) : ℚ) * 2 ^ (e1 + e2) := by
    rw [val_fin, val_fin, two_zpow_add]; push_cast; ring
  rw [hv, mul_fin_fin]
  exact round_spec _ _ (Int.mul_nonneg h1 h2)

end Dbl
end Pyab
