/-
  C06 (lexer half): the sly tokenizer loop never drops or invents input.

  * `Re.m_prefix` / `Re.matchPrefix_prefix`: whatever the backtracking matcher reports as
    "consumed `n`, remaining `rest`" is a genuine split of the input, `s = s.take n ++ rest`.
  * `lexLoop_pieces`: the pieces of a successful run concatenate to the input.
  * `lexLoop_no_skip`: if every lexer state's error callback raises, no piece is `skipped`.
  * `lexLoop_tokens_from_pieces`: the emitted tokens are exactly the token pieces, in order.

  Everything is generic in `spec : LexSpec`.
-/
import Pyab.Model.Lexer
namespace Pyab
open Pyab

/-! ### 1. the regex matcher only ever hands a suffix of its input to the continuation -/

namespace Re

/-- a CPS matcher step is *prefix-honest*: any answer it produces came from calling the
    continuation on a suffix of the input with the consumed count advanced accordingly -/
def StepOK (f : Option Char → Nat → List Char → K → Option (Nat × List Char)) : Prop :=
  ∀ p n s k res, f p n s k = some res →
    ∃ p' n' s' consumed, k p' n' s' = some res ∧ s = consumed ++ s' ∧ n' = n + consumed.length

theorem orElse_some {α} {a : Option α} {b : Unit → Option α} {x : α}
    (h : a.orElse b = some x) : a = some x ∨ b () = some x := by
  cases a with
  | none => right; simpa [Option.orElse] using h
  | some v => left; simpa [Option.orElse] using h

theorem repLoop_ok {one} (greedy : Bool) (h : StepOK one) :
    ∀ fuel min max, StepOK (fun p n s k => repLoop one greedy fuel min max p n s k)
  | 0, _, _ => by intro p n s k res hh; simp [repLoop] at hh
  | fuel + 1, min, max => by
    intro p n s k res hh
    simp only [repLoop] at hh
    -- the "one more iteration" branch, shared by greedy and lazy
    have more : ∀ mx, one p n s (fun p' n' s' =>
          if n' > n then repLoop one greedy fuel 0 mx p' n' s' k else none) = some res →
        ∃ p' n' s' consumed, k p' n' s' = some res ∧ s = consumed ++ s' ∧ n' = n + consumed.length := by
      intro mx hm
      obtain ⟨p1, n1, s1, c1, hk, hs, hn⟩ := h _ _ _ _ _ hm
      split at hk
      · obtain ⟨p2, n2, s2, c2, hk2, hs2, hn2⟩ := repLoop_ok greedy h fuel _ _ _ _ _ _ _ hk
        refine ⟨p2, n2, s2, c1 ++ c2, hk2, ?_, ?_⟩
        · rw [hs, hs2, List.append_assoc]
        · rw [hn2, hn, List.length_append]; omega
      · cases hk
    split at hh
    · obtain ⟨p1, n1, s1, c1, hk, hs, hn⟩ := h _ _ _ _ _ hh
      obtain ⟨p2, n2, s2, c2, hk2, hs2, hn2⟩ := repLoop_ok greedy h fuel _ _ _ _ _ _ _ hk
      refine ⟨p2, n2, s2, c1 ++ c2, hk2, ?_, ?_⟩
      · rw [hs, hs2, List.append_assoc]
      · rw [hn2, hn, List.length_append]; omega
    · split at hh
      · exact ⟨p, n, s, [], hh, rfl, rfl⟩
      · split at hh
        · rcases orElse_some hh with h1 | h1
          · exact more _ h1
          · exact ⟨p, n, s, [], h1, rfl, rfl⟩
        · rcases orElse_some hh with h1 | h1
          · exact ⟨p, n, s, [], h1, rfl, rfl⟩
          · exact more _ h1

/-- single-character cases -/
local macro "one_char" : tactic => `(tactic| (
  intro p n s k res hh
  cases s with
  | nil => simp [m] at hh
  | cons x xs =>
    simp only [m] at hh
    split at hh
    · exact ⟨some x, n + 1, xs, [x], hh, rfl, rfl⟩
    · cases hh))

/-- **regex prefix lemma** -/
theorem m_ok (t : CharTables) (bound : Nat) : ∀ r : Re, StepOK (m t bound r)
  | .eps => by intro p n s k res hh; exact ⟨p, n, s, [], by simpa [m] using hh, rfl, rfl⟩
  | .lit c => by one_char
  | .notLit c => by one_char
  | .set items neg => by one_char
  | .any => by one_char
  | .seq a b => by
    intro p n s k res hh
    simp only [m] at hh
    obtain ⟨p1, n1, s1, c1, hk, hs, hn⟩ := m_ok t bound a _ _ _ _ _ hh
    obtain ⟨p2, n2, s2, c2, hk2, hs2, hn2⟩ := m_ok t bound b _ _ _ _ _ hk
    refine ⟨p2, n2, s2, c1 ++ c2, hk2, ?_, ?_⟩
    · rw [hs, hs2, List.append_assoc]
    · rw [hn2, hn, List.length_append]; omega
  | .alt a b => by
    intro p n s k res hh
    simp only [m] at hh
    rcases orElse_some hh with h1 | h1
    · exact m_ok t bound a _ _ _ _ _ h1
    · exact m_ok t bound b _ _ _ _ _ h1
  | .rep min max greedy r => by
    intro p n s k res hh
    simp only [m] at hh
    exact repLoop_ok greedy (m_ok t bound r) _ _ _ p n s k res hh
  | .boundary neg => by
    intro p n s k res hh
    simp only [m] at hh
    split at hh
    · exact ⟨p, n, s, [], hh, rfl, rfl⟩
    · cases hh
  | .look neg r => by
    intro p n s k res hh
    simp only [m] at hh
    split at hh
    · exact ⟨p, n, s, [], hh, rfl, rfl⟩
    · cases hh
  | .unsupported _ => by intro p n s k res hh; simp [m] at hh

/-- the prefix lemma in unfolded form -/
theorem m_prefix (t : CharTables) (bound : Nat) (r : Re) (prev : Option Char) (n : Nat)
    (s : List Char) (k : K) (res : Nat × List Char) (h : m t bound r prev n s k = some res) :
    ∃ p' n' s' consumed, k p' n' s' = some res ∧ s = consumed ++ s' ∧ n' = n + consumed.length :=
  m_ok t bound r prev n s k res h

/-- `matchPrefix` reports a genuine split of the input -/
theorem matchPrefix_split {t bound r prev s n rest}
    (h : matchPrefix t bound r prev s = some (n, rest)) :
    ∃ lexeme, s = lexeme ++ rest ∧ lexeme.length = n := by
  obtain ⟨p', n', s', c, hk, hs, hn⟩ := m_ok t bound r prev 0 s _ _ h
  simp only [Option.some.injEq, Prod.mk.injEq] at hk
  obtain ⟨rfl, rfl⟩ := hk
  exact ⟨c, hs, by omega⟩

theorem matchPrefix_prefix {t bound r prev s n rest}
    (h : matchPrefix t bound r prev s = some (n, rest)) :
    s = s.take n ++ rest ∧ n = s.length - rest.length ∧ n ≤ s.length := by
  obtain ⟨lx, hs, hl⟩ := matchPrefix_split h
  subst hl
  subst hs
  simp

end Re

/-! ### 2. the lexer loop -/

/-- the characters a piece accounts for -/
def Piece.chars : Piece → List Char
  | .token _ lexeme => lexeme
  | .trivia lexeme => lexeme
  | .skipped c => [c]

def Piece.isSkipped : Piece → Bool
  | .skipped _ => true
  | _ => false

/-- the token kind of a token piece -/
def Piece.tokKind? : Piece → Option String
  | .token k _ => some k
  | _ => none

theorem firstMatch_split {t bound rules prev s r n rest}
    (h : firstMatch t bound rules prev s = some (r, n, rest)) :
    s = s.take n ++ rest ∧ r ∈ rules := by
  induction rules with
  | nil => simp [firstMatch] at h
  | cons r0 rs ih =>
    simp only [firstMatch] at h
    split at h
    · next n0 rest0 hm =>
      simp only [Option.some.injEq, Prod.mk.injEq] at h
      obtain ⟨rfl, rfl, rfl⟩ := h
      exact ⟨(Re.matchPrefix_prefix hm).1, List.mem_cons_self⟩
    · have := ih h
      exact ⟨this.1, List.mem_cons_of_mem _ this.2⟩

theorem except_bind_ok {ε α β} {x : Except ε α} {f : α → Except ε β} {b : β}
    (h : (x >>= f) = .ok b) : ∃ a, x = .ok a ∧ f a = .ok b := by
  cases x with
  | error e => cases h
  | ok a => exact ⟨a, rfl, h⟩

/-- **inversion** of one successful iteration of the tokenizer loop -/
theorem lexLoop_ok_inv {spec : LexSpec} {bound fuel st stack prev s out}
    (h : lexLoop spec bound (fuel + 1) st stack prev s = .ok out) :
    (s = [] ∧ out = ⟨[], []⟩) ∨
    ∃ c cs state, s = c :: cs ∧ spec.states[st]? = some state ∧
      ((∃ r n rest st' stack' out',
          firstMatch spec.tables bound state.rules prev s = some (r, n, rest) ∧ n ≠ 0 ∧
          lexLoop spec bound fuel st' stack' (s.take n).getLast? rest = .ok out' ∧
          ((∃ conv, r.action = .emit conv ∧
              out = ⟨⟨r.name, convert spec.tables conv (s.take n)⟩ :: out'.toks,
                     .token r.name (s.take n) :: out'.pieces⟩) ∨
           out = ⟨out'.toks, .trivia (s.take n) :: out'.pieces⟩)) ∨
       (firstMatch spec.tables bound state.rules prev s = none ∧ state.errorRaises = false ∧
          ∃ out', lexLoop spec bound fuel st stack (some c) cs = .ok out' ∧
            out = ⟨out'.toks, .skipped c :: out'.pieces⟩)) := by
  unfold lexLoop at h
  split at h
  · left
    split at h
    · cases h
    · cases h; exact ⟨rfl, rfl⟩
  · next c cs =>
    right
    split at h
    · cases h
    · next state hst =>
      refine ⟨c, cs, state, rfl, hst, ?_⟩
      split at h
      · next r n rest hfm =>
        left
        split at h
        · cases h
        · next hn =>
          have hn0 : n ≠ 0 := by simpa using hn
          split at h
          · next conv hact =>
            obtain ⟨out', h1, h2⟩ := except_bind_ok h
            cases h2
            exact ⟨r, n, rest, _, _, out', hfm, hn0, h1, Or.inl ⟨conv, hact, rfl⟩⟩
          · obtain ⟨out', h1, h2⟩ := except_bind_ok h
            cases h2
            exact ⟨r, n, rest, _, _, out', hfm, hn0, h1, Or.inr rfl⟩
          · obtain ⟨out', h1, h2⟩ := except_bind_ok h
            cases h2
            exact ⟨r, n, rest, _, _, out', hfm, hn0, h1, Or.inr rfl⟩
          · split at h
            · cases h
            · obtain ⟨out', h1, h2⟩ := except_bind_ok h
              cases h2
              exact ⟨r, n, rest, _, _, out', hfm, hn0, h1, Or.inr rfl⟩
          · cases h
      · next hfm =>
        right
        split at h
        · cases h
        · next hr =>
          obtain ⟨out', h1, h2⟩ := except_bind_ok h
          cases h2
          exact ⟨hfm, by simpa using hr, out', h1, rfl⟩

/-- every character of the input belongs to exactly one piece, in order -/
theorem lexLoop_pieces (spec : LexSpec) (bound : Nat) :
    ∀ fuel st stack prev s out, lexLoop spec bound fuel st stack prev s = .ok out →
      out.pieces.flatMap Piece.chars = s
  | 0, _, _, _, _, _, h => by simp [lexLoop, throw, throwThe, MonadExceptOf.throw] at h
  | fuel + 1, st, stack, prev, s, out, h => by
    rcases lexLoop_ok_inv h with ⟨rfl, rfl⟩ | ⟨c, cs, state, hs, _, hm | hn⟩
    · rfl
    · obtain ⟨r, n, rest, st', stack', out', hfm, _, hrec, hout⟩ := hm
      have ih := lexLoop_pieces spec bound fuel _ _ _ _ _ hrec
      have hsplit := (firstMatch_split hfm).1
      rcases hout with ⟨conv, _, rfl⟩ | rfl
      · simp only [List.flatMap_cons, Piece.chars, ih]; exact hsplit.symm
      · simp only [List.flatMap_cons, Piece.chars, ih]; exact hsplit.symm
    · obtain ⟨_, _, out', hrec, rfl⟩ := hn
      have ih := lexLoop_pieces spec bound fuel _ _ _ _ _ hrec
      simp only [List.flatMap_cons, Piece.chars, ih, hs, List.singleton_append]

theorem lexFull_pieces (spec : LexSpec) (text : String) (out : LexOut)
    (h : lexFull spec text = .ok out) : out.pieces.flatMap Piece.chars = text.toList :=
  lexLoop_pieces spec _ _ _ _ _ _ _ h

/-! ### 3. raising error callbacks: nothing is skipped -/

/-- every lexer state's error callback raises -/
def LexSpec.AllRaise (spec : LexSpec) : Prop :=
  ∀ st, st ∈ spec.states.toList → st.errorRaises = true

theorem LexSpec.AllRaise.lookup {spec : LexSpec} (hr : spec.AllRaise) {i : Nat} {state : LexState}
    (h : spec.states[i]? = some state) : state.errorRaises = true := by
  apply hr
  rw [Array.mem_toList_iff]
  exact Array.mem_of_getElem? h

theorem lexLoop_no_skip (spec : LexSpec) (hraise : spec.AllRaise) (bound : Nat) :
    ∀ fuel st stack prev s out, lexLoop spec bound fuel st stack prev s = .ok out →
      ∀ p ∈ out.pieces, Piece.isSkipped p = false
  | 0, _, _, _, _, _, h => by simp [lexLoop, throw, throwThe, MonadExceptOf.throw] at h
  | fuel + 1, st, stack, prev, s, out, h => by
    rcases lexLoop_ok_inv h with ⟨rfl, rfl⟩ | ⟨c, cs, state, hs, hst, hm | hn⟩
    · intro p hp; cases hp
    · obtain ⟨r, n, rest, st', stack', out', hfm, _, hrec, hout⟩ := hm
      have ih := lexLoop_no_skip spec hraise bound fuel _ _ _ _ _ hrec
      rcases hout with ⟨conv, _, rfl⟩ | rfl
      · intro p hp
        rcases List.mem_cons.1 hp with rfl | hp
        · rfl
        · exact ih p hp
      · intro p hp
        rcases List.mem_cons.1 hp with rfl | hp
        · rfl
        · exact ih p hp
    · obtain ⟨_, hfalse, _⟩ := hn
      rw [hraise.lookup hst] at hfalse
      cases hfalse

theorem lexLoop_no_skip' (spec : LexSpec) (hraise : spec.AllRaise) (bound fuel st stack prev s out)
    (h : lexLoop spec bound fuel st stack prev s = .ok out) :
    ∀ p ∈ out.pieces, ∀ c, p ≠ .skipped c := by
  intro p hp c hc
  have := lexLoop_no_skip spec hraise bound fuel st stack prev s out h p hp
  subst hc
  cases this

theorem lexFull_no_skip (spec : LexSpec) (hraise : spec.AllRaise) (text : String) (out : LexOut)
    (h : lexFull spec text = .ok out) : ∀ p ∈ out.pieces, Piece.isSkipped p = false :=
  lexLoop_no_skip spec hraise _ _ _ _ _ _ _ h

/-- conversely: with a raising callback an unmatched character is a `LexError`, at any point
    of the run -/
theorem lexLoop_unmatched_raises (spec : LexSpec) (bound fuel st : Nat) (stack : List Nat)
    (prev : Option Char) (c : Char) (cs : List Char) (state : LexState)
    (hst : spec.states[st]? = some state) (hr : state.errorRaises = true)
    (hfm : firstMatch spec.tables bound state.rules prev (c :: cs) = none) :
    lexLoop spec bound (fuel + 1) st stack prev (c :: cs) = .error .lexError := by
  simp only [lexLoop, hst, hfm, hr, if_true]
  rfl

theorem lexLoop_illegal_char_raises (spec : LexSpec) (bound fuel : Nat) (c : Char) (cs : List Char)
    (state : LexState) (hst : spec.states[0]? = some state) (hr : state.errorRaises = true)
    (hfm : firstMatch spec.tables bound state.rules none (c :: cs) = none) :
    lexLoop spec bound (fuel + 1) 0 [] none (c :: cs) = .error .lexError :=
  lexLoop_unmatched_raises spec bound fuel 0 [] none c cs state hst hr hfm

/-! ### 4. tokens are exactly the token pieces -/

theorem lexLoop_tokens_from_pieces (spec : LexSpec) (bound : Nat) :
    ∀ fuel st stack prev s out, lexLoop spec bound fuel st stack prev s = .ok out →
      out.toks.map (·.kind) =
        out.pieces.filterMap (fun p => match p with | .token k _ => some k | _ => none)
  | 0, _, _, _, _, _, h => by simp [lexLoop, throw, throwThe, MonadExceptOf.throw] at h
  | fuel + 1, st, stack, prev, s, out, h => by
    rcases lexLoop_ok_inv h with ⟨rfl, rfl⟩ | ⟨c, cs, state, hs, _, hm | hn⟩
    · rfl
    · obtain ⟨r, n, rest, st', stack', out', hfm, _, hrec, hout⟩ := hm
      have ih := lexLoop_tokens_from_pieces spec bound fuel _ _ _ _ _ hrec
      rcases hout with ⟨conv, _, rfl⟩ | rfl
      · simp only [List.map_cons, List.filterMap_cons, ih]
      · simp only [List.filterMap_cons, ih]
    · obtain ⟨_, _, out', hrec, rfl⟩ := hn
      have ih := lexLoop_tokens_from_pieces spec bound fuel _ _ _ _ _ hrec
      simp only [List.filterMap_cons, ih]

theorem lexFull_tokens_from_pieces (spec : LexSpec) (text : String) (out : LexOut)
    (h : lexFull spec text = .ok out) :
    out.toks.map (·.kind) =
      out.pieces.filterMap (fun p => match p with | .token k _ => some k | _ => none) :=
  lexLoop_tokens_from_pieces spec _ _ _ _ _ _ _ h

/-! ### 5. headline -/

/-- **C06, lexer half**: if every lexer state's error callback raises, a text that lexes at all
    is accounted for character by character by token / trivia lexemes — nothing is skipped -/
theorem lex_accepts_only_whole_text (spec : LexSpec)
    (hraise : ∀ st, st ∈ spec.states.toList → st.errorRaises = true)
    (text : String) (out : LexOut) (h : lexFull spec text = .ok out) :
    out.pieces.flatMap Piece.chars = text.toList ∧ (∀ p ∈ out.pieces, Piece.isSkipped p = false) :=
  ⟨lexFull_pieces spec text out h, lexFull_no_skip spec hraise text out h⟩

end Pyab
