/-
  C07/C08 (lexer half, tokens), part 1: generic facts about the backtracking matcher `Re.m`
  needed to show that a token's lexeme is matched by exactly its own rule.

  * `litsThen` / `m_litsThen_hit` / `m_litsThen_some`: a fixed word followed by a regex;
  * `m_boundary_false`: `\b`;
  * `ClassLike`, `repLoop_greedy_class`, `repLoop_greedy_class_none`, `repLoop_greedy_stop`:
    exact behaviour of a greedy repetition of a one-character class on a maximal run of that
    class (it takes the whole run when the continuation accepts there; it fails when the
    continuation fails at every admissible split point).
-/
import Pyab.Proofs.TriviaRegex
namespace Pyab
namespace Re

/-! ### 1. a fixed word, then a regex -/

/-- `c₁ c₂ … cₙ r` as the translator nests it: `.seq (.lit c₁) (.seq (.lit c₂) … r)` -/
def litsThen : List Nat → Re → Re
  | [], r => r
  | c :: cs, r => .seq (.lit c) (litsThen cs r)

/-- the previous character after reading `w` (starting from previous character `p`) -/
def lastOr : Option Char → List Char → Option Char
  | p, [] => p
  | _, x :: xs => lastOr (some x) xs

theorem lastOr_mem {P : Char → Prop} : ∀ (w : List Char) (p : Option Char), w ≠ [] →
    (∀ x ∈ w, P x) → ∃ c, lastOr p w = some c ∧ P c
  | [], _, h, _ => absurd rfl h
  | [x], _, _, hP => ⟨x, rfl, hP x List.mem_cons_self⟩
  | x :: y :: w, _, _, hP => by
    simp only [lastOr]
    exact lastOr_mem (y :: w) (some x) (by simp) (fun z hz => hP z (List.mem_cons_of_mem _ hz))

theorem m_litsThen_hit (t : CharTables) (bound : Nat) (r : Re) :
    ∀ (w : List Char) (p : Option Char) (n : Nat) (s : List Char) (k : K),
      m t bound (litsThen (w.map Char.toNat) r) p n (w ++ s) k =
        m t bound r (lastOr p w) (n + w.length) s k
  | [], _, _, _, _ => rfl
  | x :: w, p, n, s, k => by
    simp only [List.map_cons, litsThen, m, List.cons_append, beq_self_eq_true, if_true, lastOr]
    rw [m_litsThen_hit t bound r w (some x) (n + 1) s k, List.length_cons]
    congr 1
    omega

theorem m_litsThen_some (t : CharTables) (bound : Nat) (r : Re) :
    ∀ (w : List Char) (p : Option Char) (n : Nat) (s : List Char) (k : K) (res : Nat × List Char),
      m t bound (litsThen (w.map Char.toNat) r) p n s k = some res →
      ∃ s', s = w ++ s' ∧ m t bound r (lastOr p w) (n + w.length) s' k = some res
  | [], _, _, s, _, _, h => ⟨s, rfl, h⟩
  | x :: w, p, n, s, k, res, h => by
    simp only [List.map_cons, litsThen, m] at h
    cases s with
    | nil => simp at h
    | cons y ys =>
      simp only at h
      split at h
      · next hy =>
        have hyx : y = x := Char.toNat_inj.1 (by simpa using hy)
        subst hyx
        obtain ⟨s', hs, hm⟩ := m_litsThen_some t bound r w (some y) (n + 1) ys k res h
        refine ⟨s', by rw [hs]; rfl, ?_⟩
        rw [List.length_cons, show n + (w.length + 1) = n + 1 + w.length by omega]
        exact hm
      · cases h

theorem m_boundary_false (t : CharTables) (bound : Nat) (p : Option Char) (n : Nat)
    (s : List Char) (k : K) :
    m t bound (.boundary false) p n s k =
      if (isWordChar t p != isWordChar t s.head?) = true then k p n s else none := by
  simp only [m]
  cases (isWordChar t p != isWordChar t s.head?) <;> rfl

/-! ### 2. greedy repetition of a one-character class -/

/-- a one-step matcher that consumes exactly one character of the class `P` -/
structure ClassLike (P : Char → Bool)
    (one : Option Char → Nat → List Char → K → Option (Nat × List Char)) : Prop where
  ok : ∀ p n x xs (k : K), P x = true → one p n (x :: xs) k = k (some x) (n + 1) xs
  no : ∀ p n x xs (k : K), P x = false → one p n (x :: xs) k = none
  nil : ∀ p n (k : K), one p n [] k = none

theorem classLike_set (t : CharTables) (bound : Nat) (items : List SetItem) :
    ClassLike (fun x => (items.any (·.test t x.toNat)) != false)
      (fun p' n' s' k' => m t bound (.set items false) p' n' s' k') where
  ok := by intro p n x xs k hx; simp only [m]; rw [if_pos hx]
  no := by intro p n x xs k hx; simp only [m]; rw [if_neg (by simp [hx])]
  nil := by intro p n k; simp only [m]

/-- the input continues with something outside the class (or ends) -/
def Stops (P : Char → Bool) (tail : List Char) : Prop := ∀ x, tail.head? = some x → P x = false

theorem ClassLike.stop {P one} (h : ClassLike P one) {tail : List Char} (ht : Stops P tail)
    (p n) (k : K) : one p n tail k = none := by
  cases tail with
  | nil => exact h.nil p n k
  | cons x tl => exact h.no p n x tl k (ht x rfl)

/-- greedy `[P]{min,}` swallows a maximal run of `P` when the continuation accepts there -/
theorem repLoop_greedy_class {P one} (h : ClassLike P one) :
    ∀ (run : List Char) (fuel min : Nat) (p : Option Char) (n : Nat) (tail : List Char) (k : K)
      (res : Nat × List Char),
      (∀ x ∈ run, P x = true) → Stops P tail → run.length + 1 ≤ fuel → min ≤ run.length →
      (∀ q, k q (n + run.length) tail = some res) →
      repLoop one true fuel min none p n (run ++ tail) k = some res
  | [], fuel, min, p, n, tail, k, res, _, ht, hf, hmin, hk => by
    obtain ⟨f, rfl⟩ : ∃ f, fuel = f + 1 := ⟨fuel - 1, by omega⟩
    have hm0 : min = 0 := by simpa using hmin
    subst hm0
    simp only [repLoop, List.nil_append, gt_iff_lt, Nat.lt_irrefl, if_false]
    rw [h.stop ht]
    simpa [Option.orElse] using hk p
  | x :: xs, fuel, min, p, n, tail, k, res, hl, ht, hf, hmin, hk => by
    obtain ⟨f, rfl⟩ : ∃ f, fuel = f + 1 := ⟨fuel - 1, by simp at hf; omega⟩
    have hx : P x = true := hl x List.mem_cons_self
    have hl' : ∀ y ∈ xs, P y = true := fun y hy => hl y (List.mem_cons_of_mem _ hy)
    have hf' : xs.length + 1 ≤ f := by simp at hf; omega
    have hk' : ∀ q, k q (n + 1 + xs.length) tail = some res := by
      intro q
      have := hk q
      rw [List.length_cons] at this
      rw [Nat.add_assoc, Nat.add_comm 1]
      exact this
    simp only [repLoop, List.cons_append, gt_iff_lt]
    split
    · rw [h.ok _ _ _ _ _ hx]
      exact repLoop_greedy_class h xs f (min - 1) (some x) (n + 1) tail k res hl' ht hf'
        (by simp at hmin; omega) hk'
    · rw [h.ok _ _ _ _ _ hx]
      have hgt : n < n + 1 := Nat.lt_succ_self n
      simp only [hgt, if_true]
      have := repLoop_greedy_class h xs f 0 (some x) (n + 1) tail k res hl' ht hf' (Nat.zero_le _) hk'
      simp only [Option.map_none] at this ⊢
      rw [this]
      simp [Option.orElse]

/-- greedy `[P]{min,}` on a maximal run of `P`: if the continuation fails at every split point
    that leaves at least `min` characters to the repetition, the whole thing fails -/
theorem repLoop_greedy_class_none {P one} (h : ClassLike P one) :
    ∀ (run : List Char) (fuel min : Nat) (p : Option Char) (n : Nat) (tail : List Char) (k : K),
      (∀ x ∈ run, P x = true) → Stops P tail →
      (∀ a b q, run = a ++ b → min ≤ a.length → k q (n + a.length) (b ++ tail) = none) →
      repLoop one true fuel min none p n (run ++ tail) k = none
  | _, 0, _, _, _, _, _, _, _, _ => by simp [repLoop]
  | [], f + 1, min, p, n, tail, k, _, ht, hfail => by
    simp only [repLoop, List.nil_append, gt_iff_lt]
    split
    · exact h.stop ht _ _ _
    · next hmin =>
      have := hfail [] [] p rfl (by simp at hmin ⊢; omega)
      simp only [List.length_nil, Nat.add_zero, List.nil_append] at this
      rw [this, h.stop ht]
      simp [Option.orElse]
  | x :: xs, f + 1, min, p, n, tail, k, hl, ht, hfail => by
    have hx : P x = true := hl x List.mem_cons_self
    have hl' : ∀ y ∈ xs, P y = true := fun y hy => hl y (List.mem_cons_of_mem _ hy)
    have hfail' : ∀ a b q, xs = a ++ b → min - 1 ≤ a.length →
        k q (n + 1 + a.length) (b ++ tail) = none := by
      intro a b q hab hmin
      have := hfail (x :: a) b q (by rw [hab]; rfl) (by simp; omega)
      rw [List.length_cons] at this
      rw [Nat.add_assoc, Nat.add_comm 1]
      exact this
    simp only [repLoop, List.cons_append, gt_iff_lt]
    split
    · rw [h.ok _ _ _ _ _ hx]
      exact repLoop_greedy_class_none h xs f (min - 1) (some x) (n + 1) tail k hl' ht hfail'
    · next hmin =>
      have hm0 : min = 0 := by omega
      subst hm0
      have h0 : k p n (x :: xs ++ tail) = none := by
        have := hfail [] (x :: xs) p rfl (Nat.zero_le _)
        simpa using this
      simp only [List.cons_append] at h0
      rw [h0, h.ok _ _ _ _ _ hx]
      have hgt : n < n + 1 := Nat.lt_succ_self n
      have := repLoop_greedy_class_none h xs f 0 (some x) (n + 1) tail k hl' ht hfail'
      simp only [Option.map_none] at this ⊢
      simp [Option.orElse, hgt, this]

end Re
end Pyab
