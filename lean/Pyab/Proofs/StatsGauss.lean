/-
  C18 (last clause) — the module's z-score is never smaller than the true normal quantile:
  for `z ≥ 0`, `Φ(z) ≥ 1 / (1 + exp (-z / √(π/8)))`, `Φ` the standard normal CDF of Mathlib.

  Proof.  `D(t) = Φ(t) − logistic(t/s)`, `s = √(π/8)`, has `D(0) = 0`, `D(∞) = 0` and
  `D'(t) = φ(t) − logistic'(t/s)/s ≥ 0 ⇔ log cosh u − (π/8) u² ≥ 0` with `u = t/(2s)`.
  A function on `[0,∞)` that starts at `≥ 0` and whose derivative is `≥ 0` exactly on an initial
  segment is itself `≥ 0` on an initial segment (`nonneg_initial_of_deriv`); applied three times
  (`1/cosh² − 2c`, `tanh − 2cu`, `log cosh − cu²`) this gives the sign pattern of `D'`, and
  `nonneg_of_deriv_of_tendsto` concludes `D ≥ 0`.
-/
import Pyab.Proofs.StatsReal
import Mathlib.Probability.Distributions.Gaussian.Real
import Mathlib.Probability.CDF
import Mathlib.MeasureTheory.Integral.IntervalIntegral.FundThmCalculus
import Mathlib.Analysis.SpecialFunctions.Trigonometric.DerivHyp
import Mathlib.Analysis.Calculus.Deriv.MeanValue
import Mathlib.Analysis.SpecialFunctions.Log.Deriv
namespace Pyab.Proofs.StatsGauss
open Filter Topology MeasureTheory ProbabilityTheory Set

theorem nonneg_initial_of_deriv {f f' : ℝ → ℝ} (hd : ∀ x, HasDerivAt f (f' x) x) (h0 : 0 ≤ f 0)
    (hseg : ∀ a b, 0 ≤ a → a ≤ b → 0 ≤ f' b → 0 ≤ f' a) :
    ∀ a b, 0 ≤ a → a ≤ b → 0 ≤ f b → 0 ≤ f a := by
  intro a b ha hab hb
  have hcont : Continuous f := continuous_iff_continuousAt.2 fun x => (hd x).continuousAt
  have hdiff : Differentiable ℝ f := fun x => (hd x).differentiableAt
  by_cases hfa : 0 ≤ f' a
  · have hmono : MonotoneOn f (Set.Icc 0 a) := by
      apply monotoneOn_of_deriv_nonneg (convex_Icc 0 a) hcont.continuousOn hdiff.differentiableOn
      intro x hx
      rw [interior_Icc] at hx
      rw [(hd x).deriv]
      exact hseg x a hx.1.le hx.2.le hfa
    have := hmono (Set.left_mem_Icc.2 ha) (Set.right_mem_Icc.2 ha) ha
    linarith
  · have hanti : AntitoneOn f (Set.Icc a b) := by
      apply antitoneOn_of_deriv_nonpos (convex_Icc a b) hcont.continuousOn hdiff.differentiableOn
      intro x hx
      rw [interior_Icc] at hx
      rw [(hd x).deriv]
      by_contra hpos
      replace hpos := not_le.mp hpos
      exact hfa (hseg a x ha hx.1.le hpos.le)
    have := hanti (Set.left_mem_Icc.2 hab) (Set.right_mem_Icc.2 hab) hab
    linarith

theorem nonneg_of_deriv_of_tendsto {f f' : ℝ → ℝ} (hd : ∀ x, HasDerivAt f (f' x) x) (h0 : 0 ≤ f 0)
    (hseg : ∀ a b, 0 ≤ a → a ≤ b → 0 ≤ f' b → 0 ≤ f' a) {L : ℝ} (hL : 0 ≤ L)
    (hlim : Tendsto f atTop (𝓝 L)) : ∀ a, 0 ≤ a → 0 ≤ f a := by
  intro a ha
  have hcont : Continuous f := continuous_iff_continuousAt.2 fun x => (hd x).continuousAt
  have hdiff : Differentiable ℝ f := fun x => (hd x).differentiableAt
  by_cases hfa : 0 ≤ f' a
  · have hmono : MonotoneOn f (Set.Icc 0 a) := by
      apply monotoneOn_of_deriv_nonneg (convex_Icc 0 a) hcont.continuousOn hdiff.differentiableOn
      intro x hx
      rw [interior_Icc] at hx
      rw [(hd x).deriv]
      exact hseg x a hx.1.le hx.2.le hfa
    have := hmono (Set.left_mem_Icc.2 ha) (Set.right_mem_Icc.2 ha) ha
    linarith
  · have hanti : AntitoneOn f (Set.Ici a) := by
      apply antitoneOn_of_deriv_nonpos (convex_Ici a) hcont.continuousOn hdiff.differentiableOn
      intro x hx
      rw [interior_Ici] at hx
      rw [(hd x).deriv]
      by_contra hpos
      replace hpos := not_le.mp hpos
      exact hfa (hseg a x ha (le_of_lt hx) hpos.le)
    have : L ≤ f a := by
      apply le_of_tendsto hlim
      filter_upwards [eventually_ge_atTop a] with b hb
      exact hanti Set.self_mem_Ici hb hb
    linarith

/-- `ρ(u) = log cosh u − c u²` -/
noncomputable def rho (c u : ℝ) : ℝ := Real.log (Real.cosh u) - c * u ^ 2
noncomputable def rho' (c u : ℝ) : ℝ := Real.sinh u / Real.cosh u - 2 * c * u
noncomputable def rho'' (c u : ℝ) : ℝ := 1 / Real.cosh u ^ 2 - 2 * c

theorem hasDerivAt_rho (c u : ℝ) : HasDerivAt (rho c) (rho' c u) u := by
  have h1 := (Real.hasDerivAt_cosh u).log (Real.cosh_pos u).ne'
  have h2 := ((hasDerivAt_id u).pow 2).const_mul c
  have h3 := (h1.sub h2).congr_deriv (g' := rho' c u) (by simp [rho']; ring)
  exact h3

theorem hasDerivAt_rho' (c u : ℝ) : HasDerivAt (rho' c) (rho'' c u) u := by
  have hc := (Real.cosh_pos u).ne'
  have h1 := (Real.hasDerivAt_sinh u).div (Real.hasDerivAt_cosh u) hc
  have h2 := (hasDerivAt_id u).const_mul (2 * c)
  have h3 := (h1.sub h2).congr_deriv (g' := rho'' c u) (by
    unfold rho''
    have := Real.cosh_sq u
    field_simp
    nlinarith)
  exact h3

theorem rho''_seg (c : ℝ) : ∀ a b, 0 ≤ a → a ≤ b → 0 ≤ rho'' c b → 0 ≤ rho'' c a := by
  intro a b ha hab hb
  unfold rho'' at *
  have h1 : Real.cosh a ≤ Real.cosh b := by
    rw [Real.cosh_le_cosh, abs_of_nonneg ha, abs_of_nonneg (ha.trans hab)]; exact hab
  have hpa := Real.cosh_pos a
  have : 1 / Real.cosh b ^ 2 ≤ 1 / Real.cosh a ^ 2 := by
    gcongr
  linarith

theorem rho'_seg (c : ℝ) : ∀ a b, 0 ≤ a → a ≤ b → 0 ≤ rho' c b → 0 ≤ rho' c a :=
  nonneg_initial_of_deriv (hasDerivAt_rho' c) (by simp [rho']) (rho''_seg c)

theorem rho_seg (c : ℝ) : ∀ a b, 0 ≤ a → a ≤ b → 0 ≤ rho c b → 0 ≤ rho c a :=
  nonneg_initial_of_deriv (hasDerivAt_rho c) (by simp [rho]) (rho'_seg c)

/-- standard normal CDF -/
noncomputable def Phi (t : ℝ) : ℝ := cdf (gaussianReal 0 1) t
/-- standard normal density -/
noncomputable def phi (t : ℝ) : ℝ := gaussianPDFReal 0 1 t

theorem phi_eq (t : ℝ) : phi t = (Real.sqrt (2 * Real.pi))⁻¹ * Real.exp (-t ^ 2 / 2) := by
  simp [phi, gaussianPDFReal]

theorem continuous_phi : Continuous phi := by
  have : phi = fun t => (Real.sqrt (2 * Real.pi))⁻¹ * Real.exp (-t ^ 2 / 2) := funext phi_eq
  rw [this]; fun_prop

theorem Phi_eq_integral (t : ℝ) : Phi t = ∫ x in Iic t, phi x := by
  unfold Phi phi
  rw [cdf_eq_real, Measure.real, gaussianReal_apply_eq_integral _ one_ne_zero,
    ENNReal.toReal_ofReal]
  exact setIntegral_nonneg measurableSet_Iic fun x _ => gaussianPDFReal_nonneg _ _ _

theorem Phi_sub (a b : ℝ) : Phi b - Phi a = ∫ x in a..b, phi x := by
  rw [Phi_eq_integral, Phi_eq_integral]
  exact intervalIntegral.integral_Iic_sub_Iic (integrable_gaussianPDFReal 0 1).integrableOn
    (integrable_gaussianPDFReal 0 1).integrableOn

theorem hasDerivAt_Phi (t : ℝ) : HasDerivAt Phi (phi t) t := by
  have h := (continuous_phi.integral_hasStrictDerivAt 0 t).hasDerivAt
  have h2 := h.add_const (Phi 0)
  have : (fun u => (∫ x in (0:ℝ)..u, phi x) + Phi 0) = Phi := by
    funext u; rw [← Phi_sub]; ring
  rwa [this] at h2

theorem Phi_zero : Phi 0 = 1 / 2 := by
  have hμ : (gaussianReal 0 1).map (fun x => -x) = gaussianReal 0 1 := by
    rw [gaussianReal_map_neg]; simp
  have := nullSingletonClass_gaussianReal (μ := 0) (v := 1) one_ne_zero
  have h1 : gaussianReal 0 1 (Iic 0) = gaussianReal 0 1 (Ici 0) := by
    conv_lhs => rw [← hμ]
    rw [Measure.map_apply measurable_neg measurableSet_Iic]
    congr 1
    ext x; simp
  have h2 : gaussianReal 0 1 (Iic 0) + gaussianReal 0 1 (Ioi 0) = 1 := by
    rw [← measure_union (by simp [disjoint_left]) measurableSet_Ioi, Iic_union_Ioi, measure_univ]
  have h3 : gaussianReal 0 1 (Ici (0:ℝ)) = gaussianReal 0 1 (Ioi 0) :=
    (measure_congr Ioi_ae_eq_Ici).symm
  have h4 : gaussianReal 0 1 (Iic (0:ℝ)) = 1 / 2 := by
    rw [← h3, ← h1] at h2
    have hne : gaussianReal 0 1 (Iic (0:ℝ)) ≠ ⊤ := measure_ne_top _ _
    rw [← two_mul] at h2
    rw [ENNReal.eq_div_iff (by norm_num) (by norm_num)]
    exact h2
  unfold Phi
  rw [cdf_eq_real, Measure.real, h4]
  simp

/-- the logistic curve with the module's scale `s = √(π/8)` -/
noncomputable def sc : ℝ := Real.sqrt (Real.pi / 8)
noncomputable def Lg (t : ℝ) : ℝ := (1 + Real.exp (-(t / sc)))⁻¹
noncomputable def Lg' (t : ℝ) : ℝ := (1 / sc) * Real.exp (-(t / sc)) / (1 + Real.exp (-(t / sc))) ^ 2

theorem sc_pos : 0 < sc := by unfold sc; positivity
theorem sc_sq : sc ^ 2 = Real.pi / 8 := by unfold sc; rw [Real.sq_sqrt]; positivity

theorem hasDerivAt_Lg (t : ℝ) : HasDerivAt Lg (Lg' t) t := by
  have hpos : (1 + Real.exp (-(t / sc))) ≠ 0 := by positivity
  have h1 : HasDerivAt (fun t : ℝ => -(t / sc)) (-(1 / sc)) t := ((hasDerivAt_id t).div_const sc).neg
  have h2 := (h1.exp.const_add 1).inv hpos
  exact h2.congr_deriv (by unfold Lg'; ring)

theorem Lg_zero : Lg 0 = 1 / 2 := by unfold Lg; norm_num

theorem tendsto_Lg : Tendsto Lg atTop (𝓝 1) := by
  have h1 : Tendsto (fun t : ℝ => t / sc) atTop atTop := tendsto_id.atTop_div_const sc_pos
  have h2 : Tendsto (fun t : ℝ => Real.exp (-(t / sc))) atTop (𝓝 0) :=
    Real.tendsto_exp_neg_atTop_nhds_zero.comp h1
  have h3 : Tendsto (fun t : ℝ => (1 + Real.exp (-(t / sc)))⁻¹) atTop (𝓝 ((1 + 0)⁻¹)) :=
    (h2.const_add 1).inv₀ (by norm_num)
  have h4 : (fun t : ℝ => (1 + Real.exp (-(t / sc)))⁻¹) = Lg := rfl
  rw [h4] at h3
  simpa using h3

/-- sign of `D'`: `φ(t) − Lg'(t) ≥ 0 ⇔ ρ_{π/8}(t/(2s)) ≥ 0` -/
theorem dsign (t : ℝ) : 0 ≤ phi t - Lg' t ↔ 0 ≤ rho (Real.pi / 8) (t / (2 * sc)) := by
  have hs := sc_pos
  have hs2 := sc_sq
  have hsqrt : Real.sqrt (2 * Real.pi) = 4 * sc := by
    rw [show 2 * Real.pi = (4 * sc) ^ 2 by rw [mul_pow, hs2]; ring]
    exact Real.sqrt_sq (by positivity)
  set u := t / (2 * sc) with hu
  have hcu : Real.pi / 8 * u ^ 2 = t ^ 2 / 4 := by
    rw [hu, div_pow, mul_pow, hs2]; field_simp; ring
  set E := Real.exp u with hE
  have hEpos : 0 < E := Real.exp_pos u
  have hexp : Real.exp (-(t / sc)) = E⁻¹ ^ 2 := by
    rw [hE, ← Real.exp_neg, ← Real.exp_nat_mul]; congr 1; rw [hu]; field_simp; ring
  have hcosh : Real.cosh u = (E + E⁻¹) / 2 := by rw [Real.cosh_eq, Real.exp_neg]
  have hLg' : Lg' t = (1 / (4 * sc)) * (1 / Real.cosh u ^ 2) := by
    unfold Lg'; rw [hexp, hcosh]; field_simp; ring
  have hphi : phi t = (1 / (4 * sc)) * (1 / Real.exp (t ^ 2 / 4) ^ 2) := by
    rw [phi_eq, hsqrt, ← Real.exp_nat_mul, one_div, one_div, ← Real.exp_neg]; congr 2; ring
  have hA : 0 < Real.exp (t ^ 2 / 4) := Real.exp_pos _
  have hC : 0 < Real.cosh u := Real.cosh_pos u
  rw [hphi, hLg', ← mul_sub, rho, hcu, sub_nonneg (a := Real.log (Real.cosh u)),
    Real.le_log_iff_exp_le hC]
  constructor
  · intro h
    have h1 : 0 ≤ 1 / Real.exp (t ^ 2 / 4) ^ 2 - 1 / Real.cosh u ^ 2 := by
      by_contra hneg
      have : (1 / (4 * sc)) * (1 / Real.exp (t ^ 2 / 4) ^ 2 - 1 / Real.cosh u ^ 2) < 0 :=
        mul_neg_of_pos_of_neg (by positivity) (not_le.mp hneg)
      linarith
    rw [sub_nonneg, div_le_div_iff₀ (by positivity) (by positivity)] at h1
    nlinarith
  · intro h
    apply mul_nonneg (by positivity)
    rw [sub_nonneg, div_le_div_iff₀ (by positivity) (by positivity)]
    nlinarith

theorem logistic_le_Phi (z : ℝ) (hz : 0 ≤ z) : (1 + Real.exp (-(z / sc)))⁻¹ ≤ Phi z := by
  have hd : ∀ x, HasDerivAt (fun t => Phi t - Lg t) (phi x - Lg' x) x :=
    fun x => (hasDerivAt_Phi x).sub (hasDerivAt_Lg x)
  have hseg : ∀ a b, 0 ≤ a → a ≤ b → 0 ≤ phi b - Lg' b → 0 ≤ phi a - Lg' a := by
    intro a b ha hab hb
    rw [dsign] at hb ⊢
    have hs := sc_pos
    exact rho_seg _ _ _ (by positivity) (by gcongr) hb
  have hlim : Tendsto (fun t => Phi t - Lg t) atTop (𝓝 (1 - 1)) :=
    (tendsto_cdf_atTop _).sub tendsto_Lg
  have := nonneg_of_deriv_of_tendsto hd (by simp [Phi_zero, Lg_zero]) hseg (by norm_num) hlim z hz
  simp only [Lg] at this
  linarith

theorem strictMono_Phi : StrictMono Phi := by
  apply strictMono_of_deriv_pos
  intro x
  rw [(hasDerivAt_Phi x).deriv]
  exact gaussianPDFReal_pos 0 1 x one_ne_zero

theorem continuous_Phi : Continuous Phi :=
  continuous_iff_continuousAt.2 fun x => (hasDerivAt_Phi x).continuousAt

/-- every level in `(0,1)` is attained: the true quantile exists -/
theorem exists_quantile (y : ℝ) (h0 : 0 < y) (h1 : y < 1) : ∃ q, Phi q = y := by
  have hb : ∃ a, Phi a ≤ y :=
    (((tendsto_cdf_atBot (gaussianReal 0 1)).eventually (eventually_le_nhds h0)).exists)
  have ht : ∃ b, y ≤ Phi b :=
    (((tendsto_cdf_atTop (gaussianReal 0 1)).eventually (eventually_ge_nhds h1)).exists)
  obtain ⟨a, ha⟩ := hb
  obtain ⟨b, hb⟩ := ht
  exact mem_range_of_exists_le_of_exists_ge continuous_Phi ⟨a, ha⟩ ⟨b, hb⟩

/-- the module's z-score evaluated through the logistic curve gives back `1 − α` -/
theorem logistic_probitR (a : ℝ) (h0 : 0 < a) (h1 : a ≤ 1 / 2) :
    (1 + Real.exp (-(Pyab.Spec.probitR a / sc)))⁻¹ = 1 - a := by
  have ha1 : 0 < 1 - a := by linarith
  have hq : 0 < a / (1 - a) := div_pos h0 ha1
  have hle : a / (1 - a) ≤ 1 := by rw [div_le_one ha1]; linarith
  have hlog : Real.log (a / (1 - a)) ≤ 0 := Real.log_nonpos hq.le hle
  have hs := sc_pos
  rw [Pyab.Proofs.StatsReal.probitR_eq, abs_of_nonpos hlog]
  have : Real.sqrt (Real.pi / 8) * -Real.log (a / (1 - a)) / sc = -Real.log (a / (1 - a)) := by
    unfold sc at hs ⊢; field_simp
  rw [this, neg_neg, Real.exp_log hq]
  field_simp
  ring

end Pyab.Proofs.StatsGauss
