/-
  Rounding of decimals (`Dbl.roundRat`, `Dbl.decToDbl`) against the round-to-nearest-even
  specification `RSpec` of `Proofs/DblRound.lean`, and the "near" lemma: a rational that is
  strictly within half an ulp of a genuine binary64 value (a quarter of an ulp below a power
  of two) rounds to that value.

  * `RSpecW v k Q` — the body of `RSpec` with its witnesses exposed (`RSpec v r ↔ ∃ k Q, r = Q·2^k ∧
    RSpecW v k Q`), `RSpecW_unique`: the witnesses are determined by `v`;
  * `RSpecW_sticky` — `Dbl.roundRat` does not round `n/d` but the dyadic `(2q + sticky)·2^(-k-1)`
    (`q` the quotient with at least 56 bits, `sticky` "the division was inexact"); every bound the
    specification compares with lies on the grid `2^-k`, so the two have the same rounding;
  * `roundRat_spec`, `decToDbl_spec` — `roundRat false n d` is the `RSpec` value of `n/d` (or `+inf`),
    `decToDbl D s` is the `RSpec` value of `D·10^s`;
  * `RSpec_near`, `isRep_witness`, `decToDbl_near`.
-/
import Pyab.Proofs.DblRound
import Mathlib.Tactic.NormNum
import Mathlib.Tactic.FieldSimp

namespace Pyab
namespace Dbl
open Pyab.Proofs (pow2_eq round_zero)

/-- the body of `RSpec` with the ulp exponent `k` and the integer `Q` exposed -/
def RSpecW (v : ℚ) (k Q : Int) : Prop :=
  -1074 ≤ k ∧ v < 2 ^ (k + 53) ∧
    (k = -1074 ∨ (2 : ℚ) ^ (k + 52) ≤ v) ∧
    (2 * (Q : ℚ) - 1) * 2 ^ (k - 1) ≤ v ∧ v ≤ (2 * (Q : ℚ) + 1) * 2 ^ (k - 1) ∧
    (v = (2 * (Q : ℚ) + 1) * 2 ^ (k - 1) → Q % 2 = 0) ∧
    (v = (2 * (Q : ℚ) - 1) * 2 ^ (k - 1) → Q % 2 = 0)

theorem RSpec_iff_W (v r : ℚ) : RSpec v r ↔ ∃ k Q : Int, r = (Q : ℚ) * 2 ^ k ∧ RSpecW v k Q :=
  Iff.rfl

/-- the witnesses of the rounding are determined by the rounded value -/
theorem RSpecW_unique {v : ℚ} {k1 Q1 k2 Q2 : Int} (h1 : RSpecW v k1 Q1) (h2 : RSpecW v k2 Q2) :
    k1 = k2 ∧ Q1 = Q2 := by
  have hk : k1 = k2 := by
    obtain ⟨a1, b1, c1, -⟩ := h1
    obtain ⟨a2, b2, c2, -⟩ := h2
    by_contra hne
    rcases lt_or_gt_of_ne hne with hlt | hgt
    · rcases c2 with h | h
      · omega
      · have : (2 : ℚ) ^ (k2 + 52) < 2 ^ (k1 + 53) := lt_of_le_of_lt h b1
        rw [two_zpow_lt_iff] at this; omega
    · rcases c1 with h | h
      · omega
      · have : (2 : ℚ) ^ (k1 + 52) < 2 ^ (k2 + 53) := lt_of_le_of_lt h b2
        rw [two_zpow_lt_iff] at this; omega
  subst hk
  refine ⟨rfl, ?_⟩
  have hr := RSpec_unique (v := v) ⟨k1, Q1, rfl, h1⟩ ⟨k1, Q2, rfl, h2⟩
  have hP := two_zpow_pos k1
  have : (Q1 : ℚ) = (Q2 : ℚ) := mul_right_cancel₀ (ne_of_gt hP) hr
  exact_mod_cast this

/-! ### the sticky bit -/

/-- `B` is a multiple of the grid step `G` -/
def OnGrid (G B : ℚ) : Prop := ∃ j : Int, B = (j : ℚ) * G

theorem onGrid_pow (k : Nat) (t : Int) (h : 0 ≤ t + k) (c : Int) :
    OnGrid ((2 : ℚ) ^ (-(k : Int))) ((c : ℚ) * 2 ^ t) := by
  refine ⟨c * 2 ^ (t + k).toNat, ?_⟩
  push_cast
  rw [two_zpow_toNat _ h, mul_assoc, ← two_zpow_add]
  congr 2; omega

/-- `V ∈ [q, q+1)` and its sticky approximant (`q` when `V = q`, `q + 1/2` otherwise) compare
    the same way with every integer -/
theorem sticky_cmp_int (V A : ℚ) (q j : Int) (st : ℚ)
    (hst : (st = 0 ∧ V = q) ∨ (st = 1 ∧ (q : ℚ) < V)) (hV : V < q + 1) (hA : A = q + st / 2) :
    (A < j ↔ V < j) ∧ (A ≤ j ↔ V ≤ j) := by
  rcases hst with ⟨h0, hq⟩ | ⟨h1, hq⟩
  · have : A = V := by rw [hA, h0, hq]; ring
    rw [this]; exact ⟨Iff.rfl, Iff.rfl⟩
  · subst h1
    by_cases hj : q < j
    · have hj' : (q : ℚ) + 1 ≤ (j : ℚ) := by exact_mod_cast hj
      exact ⟨⟨fun _ => by linarith, fun _ => by linarith⟩, ⟨fun _ => by linarith, fun _ => by linarith⟩⟩
    · have hj' : (j : ℚ) ≤ (q : ℚ) := by exact_mod_cast (not_lt.1 hj)
      exact ⟨⟨fun h => by linarith, fun h => by linarith⟩, ⟨fun h => by linarith, fun h => by linarith⟩⟩

theorem sticky_cmp {G v a : ℚ} (hG : 0 < G) (q : Int) (st : ℚ)
    (hst : (st = 0 ∧ v = q * G) ∨ (st = 1 ∧ (q : ℚ) * G < v)) (hV : v < (q + 1) * G)
    (hA : a = (q + st / 2) * G) {B : ℚ} (hB : OnGrid G B) :
    (a < B ↔ v < B) ∧ (a ≤ B ↔ v ≤ B) := by
  obtain ⟨j, rfl⟩ := hB
  have hGne : G ≠ 0 := ne_of_gt hG
  have key := sticky_cmp_int (v / G) (a / G) q j st
    (by
      rcases hst with ⟨h0, h⟩ | ⟨h1, h⟩
      · left; refine ⟨h0, ?_⟩; rw [h]; field_simp
      · right; refine ⟨h1, ?_⟩; rw [lt_div_iff₀ hG]; exact h)
    (by rw [div_lt_iff₀ hG]; exact hV)
    (by rw [hA]; field_simp)
  rw [div_lt_iff₀ hG, div_lt_iff₀ hG, div_le_iff₀ hG, div_le_iff₀ hG] at key
  exact key

/-- rounding the sticky approximant is rounding the value -/
theorem RSpecW_sticky {G v a : ℚ} (hG : 0 < G) (q : Int) (st : ℚ)
    (hst : (st = 0 ∧ v = q * G) ∨ (st = 1 ∧ (q : ℚ) * G < v)) (hV : v < (q + 1) * G)
    (hA : a = (q + st / 2) * G) {K Q : Int}
    (hg : ∀ (t : Int) (c : Int), K - 1 ≤ t → OnGrid G ((c : ℚ) * 2 ^ t))
    (h : RSpecW a K Q) : RSpecW v K Q := by
  obtain ⟨h1, h2, h3, h4, h5, h6, h7⟩ := h
  have tr := fun {B : ℚ} (hB : OnGrid G B) => sticky_cmp hG q st hst hV hA hB
  have g1 : OnGrid G ((2 : ℚ) ^ (K + 53)) := by
    have := hg (K + 53) 1 (by omega); simpa using this
  have g2 : OnGrid G ((2 : ℚ) ^ (K + 52)) := by
    have := hg (K + 52) 1 (by omega); simpa using this
  have g3 : OnGrid G ((2 * (Q : ℚ) - 1) * 2 ^ (K - 1)) := by
    have := hg (K - 1) (2 * Q - 1) (le_refl _); push_cast at this; exact this
  have g4 : OnGrid G ((2 * (Q : ℚ) + 1) * 2 ^ (K - 1)) := by
    have := hg (K - 1) (2 * Q + 1) (le_refl _); push_cast at this; exact this
  refine ⟨h1, (tr g1).1.1 h2, ?_, ?_, (tr g4).2.1 h5, ?_, ?_⟩
  · rcases h3 with h | h
    · exact Or.inl h
    · right
      exact not_lt.1 (fun hc => absurd ((tr g2).1.2 hc) (not_lt.2 h))
  · exact not_lt.1 (fun hc => absurd ((tr g3).1.2 hc) (not_lt.2 h4))
  · intro hv
    apply h6
    exact le_antisymm ((tr g4).2.2 (le_of_eq hv)) (not_lt.1 fun hc => absurd ((tr g4).1.1 hc) (by rw [hv]; exact lt_irrefl _))
  · intro hv
    apply h7
    exact le_antisymm ((tr g3).2.2 (le_of_eq hv)) (not_lt.1 fun hc => absurd ((tr g3).1.1 hc) (by rw [hv]; exact lt_irrefl _))

/-! ### `roundRat` -/

/-- the quotient bits `roundRat` asks for -/
def rrK (n d : Nat) : Nat := (56 + d.log2 + 1) - n.log2

theorem roundRat_pos_eq (n d : Nat) (hn : n ≠ 0) (hd : d ≠ 0) :
    roundRat false n d =
      round ((2 * ((n <<< rrK n d) / d) + (if (n <<< rrK n d) % d == 0 then 0 else 1) : Nat) : Int)
        (-((rrK n d : Nat) : Int) - 1) := by
  unfold roundRat
  have hc : (n == 0 || d == 0) = false := by simp [hn, hd]
  rw [hc]
  simp only [Bool.false_eq_true, if_false]
  rfl

theorem rrK_quot_ge (n d : Nat) (hn : n ≠ 0) (hd : d ≠ 0) : 2 ^ 56 ≤ (n * 2 ^ rrK n d) / d := by
  have h1 := Nat.log2_self_le hn
  have h2 := @Nat.lt_log2_self d
  rw [Nat.le_div_iff_mul_le (by omega)]
  unfold rrK
  by_cases hc : n.log2 ≤ 56 + d.log2 + 1
  · have e : n.log2 + (56 + d.log2 + 1 - n.log2) = 56 + (d.log2 + 1) := by omega
    calc 2 ^ 56 * d ≤ 2 ^ 56 * 2 ^ (d.log2 + 1) := Nat.mul_le_mul_left _ (le_of_lt h2)
      _ = 2 ^ n.log2 * 2 ^ (56 + d.log2 + 1 - n.log2) := by rw [← Nat.pow_add, ← Nat.pow_add, e]
      _ ≤ n * 2 ^ (56 + d.log2 + 1 - n.log2) := Nat.mul_le_mul_right _ h1
  · have e : 56 + d.log2 + 1 - n.log2 = 0 := by omega
    rw [e, Nat.pow_zero, Nat.mul_one]
    calc 2 ^ 56 * d ≤ 2 ^ 56 * 2 ^ (d.log2 + 1) := Nat.mul_le_mul_left _ (le_of_lt h2)
      _ = 2 ^ (56 + (d.log2 + 1)) := by rw [← Nat.pow_add]
      _ ≤ 2 ^ n.log2 := Nat.pow_le_pow_right (by omega) (by omega)
      _ ≤ n := h1

/-- **`roundRat` is correctly rounded**: on `n/d > 0` it returns the `RSpec` value of `n/d`
    when that is below `2^1024`, `+inf` otherwise -/
theorem roundRat_specW (n d : Nat) (hn : n ≠ 0) (hd : d ≠ 0) :
    ∃ (r : ℚ) (K Q : Int), r = (Q : ℚ) * 2 ^ K ∧ RSpecW ((n : ℚ) / d) K Q ∧
      ((r < 2 ^ (1024 : Int) ∧ ∃ m' e', roundRat false n d = fin m' e' ∧ 0 ≤ m' ∧
          (m' : ℚ) * 2 ^ e' = r) ∨
       ((2 : ℚ) ^ (1024 : Int) ≤ r ∧ roundRat false n d = pinf)) := by
  rw [roundRat_pos_eq n d hn hd]
  have hq56 := rrK_quot_ge n d hn hd
  generalize rrK n d = k at *
  rw [Nat.shiftLeft_eq]
  set num := n * 2 ^ k with hnum
  set q := num / d with hq
  set stN : Nat := (if num % d == 0 then 0 else 1) with hstN
  obtain ⟨r, hr, hcase⟩ := round_spec_nat (2 * q + stN) (-(k : Int) - 1)
  obtain ⟨K, Q, hrQ, hW⟩ := hr
  refine ⟨r, K, Q, hrQ, ?_, hcase⟩
  -- the grid and the sticky approximant
  have hG : (0 : ℚ) < 2 ^ (-(k : Int)) := two_zpow_pos _
  have hdq : (0 : ℚ) < (d : ℚ) := by exact_mod_cast Nat.pos_of_ne_zero hd
  have hGk : (2 : ℚ) ^ (-(k : Int)) * 2 ^ k = 1 := by
    rw [← zpow_natCast, ← two_zpow_add]; simp
  have hv : (n : ℚ) / d = ((num : ℚ) / d) * 2 ^ (-(k : Int)) := by
    rw [hnum]; push_cast
    rw [div_mul_eq_mul_div, mul_assoc, mul_comm ((2 : ℚ) ^ k), hGk, mul_one]
  have hdm := Nat.div_add_mod num d
  have hmod := Nat.mod_lt num (Nat.pos_of_ne_zero hd)
  have hnumq : (num : ℚ) = (d : ℚ) * (q : ℚ) + ((num % d : Nat) : ℚ) := by
    rw [hq]; exact_mod_cast hdm.symm
  have hhalf : (2 : ℚ) ^ (-(k : Int) - 1) = 2 ^ (-(k : Int)) / 2 := by
    rw [show (-(k : Int) - 1) = -(k : Int) + (-1) by ring, two_zpow_add,
      show (2 : ℚ) ^ (-1 : Int) = 1 / 2 by norm_num]; ring
  have hst : (((stN : ℚ) = 0 ∧ (n : ℚ) / d = ((q : Int) : ℚ) * 2 ^ (-(k : Int))) ∨
      ((stN : ℚ) = 1 ∧ ((q : Int) : ℚ) * 2 ^ (-(k : Int)) < (n : ℚ) / d)) := by
    by_cases hz : num % d = 0
    · left
      have : stN = 0 := by rw [hstN]; simp [hz]
      refine ⟨by rw [this]; simp, ?_⟩
      rw [hv, hnumq, hz]; push_cast
      rw [add_zero, mul_div_cancel_left₀ _ (ne_of_gt hdq)]
    · right
      have : stN = 1 := by rw [hstN]; simp [hz]
      refine ⟨by rw [this]; simp, ?_⟩
      rw [hv]
      apply mul_lt_mul_of_pos_right _ hG
      rw [lt_div_iff₀ hdq, hnumq]; push_cast
      have : (0 : ℚ) < ((num % d : Nat) : ℚ) := by exact_mod_cast Nat.pos_of_ne_zero hz
      linarith
  have hV : (n : ℚ) / d < (((q : Int) : ℚ) + 1) * 2 ^ (-(k : Int)) := by
    rw [hv]
    apply mul_lt_mul_of_pos_right _ hG
    rw [div_lt_iff₀ hdq, hnumq]; push_cast
    have : ((num % d : Nat) : ℚ) < (d : ℚ) := by exact_mod_cast hmod
    linarith
  have hA : (((2 * q + stN : Nat) : ℚ)) * 2 ^ (-(k : Int) - 1) =
      (((q : Int) : ℚ) + (stN : ℚ) / 2) * 2 ^ (-(k : Int)) := by
    rw [hhalf]; push_cast; ring
  rw [hA] at hW
  -- every bound is on the grid: the approximant has more than 56 bits above the grid step
  have hKk : 0 ≤ K - 1 + k := by
    obtain ⟨-, hu, -⟩ := hW
    have h56 : ((2 : ℚ) ^ (56 : Nat)) ≤ ((q : Int) : ℚ) := by exact_mod_cast hq56
    have hst0 : (0 : ℚ) ≤ (stN : ℚ) / 2 := by positivity
    have : (2 : ℚ) ^ ((56 : Int) + -(k : Int)) < 2 ^ (K + 53) := by
      rw [two_zpow_add]
      calc (2 : ℚ) ^ (56 : Int) * 2 ^ (-(k : Int)) ≤ (((q : Int) : ℚ) + (stN : ℚ) / 2) * 2 ^ (-(k : Int)) := by
            apply mul_le_mul_of_nonneg_right _ hG.le
            have : (2 : ℚ) ^ (56 : Int) = 2 ^ (56 : Nat) := by norm_cast
            rw [this]; linarith
        _ < 2 ^ (K + 53) := hu
    rw [two_zpow_lt_iff] at this
    omega
  exact RSpecW_sticky hG (q : Int) (stN : ℚ) hst hV rfl
    (fun t c ht => onGrid_pow k t (by omega) c) hW

theorem roundRat_spec (n d : Nat) (hn : n ≠ 0) (hd : d ≠ 0) :
    ∃ r : ℚ, RSpec ((n : ℚ) / d) r ∧
      ((r < 2 ^ (1024 : Int) ∧ ∃ m' e', roundRat false n d = fin m' e' ∧ 0 ≤ m' ∧
          (m' : ℚ) * 2 ^ e' = r) ∨
       ((2 : ℚ) ^ (1024 : Int) ≤ r ∧ roundRat false n d = pinf)) := by
  obtain ⟨r, K, Q, hr, hW, hc⟩ := roundRat_specW n d hn hd
  exact ⟨r, ⟨K, Q, hr, hW⟩, hc⟩

/-! ### `decToDbl` -/

/-- the exact value of the decimal `D·10^s` -/
def decVal (D : Nat) (s : Int) : ℚ := (D : ℚ) * (10 : ℚ) ^ s

theorem ten_zpow_pos (s : Int) : (0 : ℚ) < (10 : ℚ) ^ s := zpow_pos (by norm_num) s

theorem ten_zpow_add (a b : Int) : (10 : ℚ) ^ (a + b) = 10 ^ a * 10 ^ b :=
  zpow_add₀ (by norm_num) a b

theorem ten_zpow_toNat (s : Int) (hs : 0 ≤ s) : ((10 : ℚ) ^ s.toNat) = (10 : ℚ) ^ s := by
  rw [← zpow_natCast, Int.toNat_of_nonneg hs]

theorem ten_zpow_neg_toNat (s : Int) (hs : s ≤ 0) : ((10 : ℚ) ^ (-s).toNat) = ((10 : ℚ) ^ s)⁻¹ := by
  rw [← zpow_natCast, Int.toNat_of_nonneg (by omega), zpow_neg]

theorem decVal_pos (D : Nat) (s : Int) (hD : D ≠ 0) : 0 < decVal D s :=
  mul_pos (by exact_mod_cast Nat.pos_of_ne_zero hD) (ten_zpow_pos s)

/-- **`decToDbl` is correctly rounded**: the double Python builds from the decimal `D·10^s` -/
theorem decToDbl_spec (D : Nat) (s : Int) (hD : D ≠ 0) :
    ∃ r : ℚ, RSpec (decVal D s) r ∧
      ((r < 2 ^ (1024 : Int) ∧ ∃ m' e', decToDbl D s = fin m' e' ∧ 0 ≤ m' ∧
          (m' : ℚ) * 2 ^ e' = r) ∨
       ((2 : ℚ) ^ (1024 : Int) ≤ r ∧ decToDbl D s = pinf)) := by
  unfold decToDbl decVal
  by_cases hs : s ≥ 0
  · rw [if_pos hs]
    have h10 : (10 : Nat) ^ s.toNat ≠ 0 := by positivity
    have := roundRat_spec (D * 10 ^ s.toNat) 1 (Nat.mul_ne_zero hD h10) (by decide)
    have e : (((D * 10 ^ s.toNat : Nat) : ℚ) / ((1 : Nat) : ℚ)) = (D : ℚ) * 10 ^ s := by
      push_cast; rw [ten_zpow_toNat s hs]; simp
    rw [e] at this
    exact this
  · rw [if_neg hs]
    have h10 : (10 : Nat) ^ (-s).toNat ≠ 0 := by positivity
    have := roundRat_spec D (10 ^ (-s).toNat) hD h10
    have e : ((D : ℚ) / ((10 ^ (-s).toNat : Nat) : ℚ)) = (D : ℚ) * 10 ^ s := by
      push_cast; rw [ten_zpow_neg_toNat s (by omega), div_eq_mul_inv, inv_inv]
    rw [e] at this
    exact this

/-- a decimal whose `RSpec` value is the genuine double `x < 2^1024` is read as a finite
    `Dbl` of value `x` -/
theorem decToDbl_of_RSpec (D : Nat) (s : Int) (hD : D ≠ 0) (x : ℚ) (hx : RSpec (decVal D s) x)
    (hlt : x < 2 ^ (1024 : Int)) :
    ∃ m' e', decToDbl D s = fin m' e' ∧ 0 ≤ m' ∧ val (fin m' e') = x := by
  obtain ⟨r, hr, hcase⟩ := decToDbl_spec D s hD
  have := RSpec_unique hr hx
  subst this
  rcases hcase with ⟨_, m', e', h1, h2, h3⟩ | ⟨hge, _⟩
  · exact ⟨m', e', h1, h2, h3⟩
  · exfalso; linarith

/-! ### near a genuine double -/

/-- the witnesses of a genuine positive double: `x = Q·2^k`, `0 < Q < 2^53`, and `2^52 ≤ Q`
    above the subnormal range -/
theorem isRep_witness (m e : Int) (hm : 0 < m) (h : IsRep (fin m e)) :
    ∃ k Q : Int, (m : ℚ) * 2 ^ e = (Q : ℚ) * 2 ^ k ∧ -1074 ≤ k ∧ 0 < Q ∧ Q < 2 ^ 53 ∧
      (k = -1074 ∨ 2 ^ 52 ≤ Q) ∧ k + 53 ≤ 1024 + 0 ∧ RSpecW ((m : ℚ) * 2 ^ e) k Q := by
  obtain ⟨m0, e0, heq, -, hs, hlt⟩ := h
  injection heq with h1 h2
  subst h1; subst h2
  rw [val_fin] at hs hlt
  have hxpos : (0 : ℚ) < (m : ℚ) * 2 ^ e := mul_pos (by exact_mod_cast hm) (two_zpow_pos e)
  obtain ⟨k, Q, hr, hW⟩ := hs
  have hW' := hW
  obtain ⟨hk, hu, hl, ha, hb, -, -⟩ := hW
  obtain ⟨e1, f1, g1⟩ := zpow_split k
  have hP := two_zpow_pos (k - 1)
  have hK := two_zpow_pos k
  refine ⟨k, Q, hr, hk, ?_, ?_, ?_, ?_, hW'⟩
  · have : (0 : ℚ) < (Q : ℚ) := by
      rw [hr] at hxpos
      exact (mul_pos_iff_of_pos_right hK).1 hxpos
    exact_mod_cast this
  · have : (Q : ℚ) * 2 ^ k < 2 ^ 53 * 2 ^ k := by
      rw [← hr]
      calc (m : ℚ) * 2 ^ e < 2 ^ (k + 53) := hu
        _ = 2 ^ 53 * 2 ^ k := by rw [add_comm, two_zpow_add]; norm_num
    have : (Q : ℚ) < 2 ^ 53 := lt_of_mul_lt_mul_right this hK.le
    exact_mod_cast this
  · rcases hl with h | h
    · exact Or.inl h
    · right
      have : (2 : ℚ) ^ 52 * 2 ^ k ≤ (Q : ℚ) * 2 ^ k := by
        rw [← hr]
        calc (2 : ℚ) ^ 52 * 2 ^ k = 2 ^ (k + 52) := by rw [add_comm, two_zpow_add]; norm_num
          _ ≤ (m : ℚ) * 2 ^ e := h
      have : (2 : ℚ) ^ 52 ≤ (Q : ℚ) := le_of_mul_le_mul_right this hK
      exact_mod_cast this
  · -- x < 2^1024 and x ≥ 2^(k+52) or k = -1074
    rcases hl with h | h
    · omega
    · have : (2 : ℚ) ^ (k + 52) < 2 ^ (1024 : Int) := lt_of_le_of_lt h hlt
      rw [two_zpow_lt_iff] at this
      omega

/-- **near lemma**: strictly within half an ulp of the genuine double `x = Q·2^k` — and within
    a quarter of an ulp below it when `x` is a power of two above the subnormal range, where
    the doubles below are twice as dense — every rational rounds to `x` -/
theorem RSpec_near {x y : ℚ} {k Q : Int} (hx : x = (Q : ℚ) * 2 ^ k) (hk : -1074 ≤ k)
    (hQ0 : 0 < Q) (hQ : Q < 2 ^ 53) (hlow : k = -1074 ∨ 2 ^ 52 ≤ Q)
    (h1 : y < x + 2 ^ (k - 1)) (h2 : x - 2 ^ (k - 1) < y)
    (h3 : Q = 2 ^ 52 → k ≠ -1074 → x - 2 ^ (k - 2) < y) : RSpec y x := by
  obtain ⟨e1, f1, g1⟩ := zpow_split k
  have hP := two_zpow_pos (k - 1)
  have hQq : (Q : ℚ) < 2 ^ 53 := by exact_mod_cast hQ
  have hQ1 : (Q : ℚ) + 1 ≤ 2 ^ 53 := by exact_mod_cast (show Q + 1 ≤ 2 ^ 53 by omega)
  have hxP : x = 2 * (Q : ℚ) * 2 ^ (k - 1) := by rw [hx, e1]; ring
  by_cases hbin : k = -1074 ∨ (2 : ℚ) ^ (k + 52) ≤ y
  · -- same binade (or subnormal range)
    refine ⟨k, Q, hx, hk, ?_, hbin, ?_, ?_, ?_, ?_⟩
    · rw [g1]; nlinarith
    · rw [hxP] at h2; linarith
    · rw [hxP] at h1; linarith
    · intro h; exfalso; rw [hxP] at h1; linarith
    · intro h; exfalso; rw [hxP] at h2; linarith
  · -- below a power of two
    have hk' : k ≠ -1074 := fun h => hbin (Or.inl h)
    have hy : y < 2 ^ (k + 52) := not_le.1 fun h => hbin (Or.inr h)
    have hQ52 : Q = 2 ^ 52 := by
      rcases hlow with h | h
      · exact absurd h hk'
      · by_contra hne
        have : (2 : ℚ) ^ 52 + 1 ≤ (Q : ℚ) := by exact_mod_cast (show (2 : Int) ^ 52 + 1 ≤ Q by omega)
        rw [f1] at hy; rw [hxP] at h2
        nlinarith
    have h3' := h3 hQ52 hk'
    obtain ⟨e2, f2, g2⟩ := zpow_split (k - 1)
    have hP2 := two_zpow_pos (k - 1 - 1)
    have hkk : k - 1 - 1 = k - 2 := by ring
    rw [hkk] at e2 f2 g2 hP2
    have hxP2 : x = 2 ^ 54 * 2 ^ (k - 2) := by
      rw [hxP, hQ52, e2]; push_cast; ring
    have hk52 : (2 : ℚ) ^ (k + 52) = 2 ^ 54 * 2 ^ (k - 2) := by
      rw [f1, e2]; ring
    refine ⟨k - 1, 2 ^ 53, ?_, by omega, ?_, Or.inr ?_, ?_, ?_, ?_, ?_⟩
    · rw [hxP2, e2]; push_cast; ring
    · rw [show k - 1 + 53 = k + 52 by ring]; exact hy
    · rw [f2]; rw [hxP2] at h3'; nlinarith
    · rw [hkk]; rw [hxP2] at h3'; push_cast; nlinarith
    · rw [hkk]; rw [hk52] at hy; push_cast; nlinarith
    · intro h; exfalso; rw [hkk] at h; rw [hk52] at hy; push_cast at h; nlinarith
    · intro h; exfalso; rw [hkk] at h; rw [hxP2] at h3'; push_cast at h; nlinarith

end Dbl
end Pyab
