/-
  Structure of the emitted lines independent of execution: the indentation depth at which
  a conditional is emitted only shifts the depth column (so both layouts of the generated
  module have the same lines, compile together and fail together), and the emitted body is
  always well indented.
-/
import Pyab.Proofs.Routing
namespace Pyab.Proofs
open Pyab Pyab.Spec

/-! ### depth independence -/

/-- indent every line `k` levels deeper -/
def shiftLines (k : Nat) (L : List ILine) : List ILine := L.map (fun x => (x.1 + k, x.2))

theorem shiftLines_append (k : Nat) (A B : List ILine) :
    shiftLines k (A ++ B) = shiftLines k A ++ shiftLines k B := by
  simp [shiftLines]

theorem shiftLines_cons (k : Nat) (x : ILine) (L : List ILine) :
    shiftLines k (x :: L) = (x.1 + k, x.2) :: shiftLines k L := by
  simp [shiftLines]

theorem shiftLines_shiftLines (a b : Nat) (L : List ILine) :
    shiftLines a (shiftLines b L) = shiftLines (b + a) L := by
  simp [shiftLines, List.map_map, Function.comp_def, Nat.add_assoc]

theorem shiftLines_snd (k : Nat) (L : List ILine) :
    (shiftLines k L).map Prod.snd = L.map Prod.snd := by
  simp [shiftLines, List.map_map, Function.comp_def]

mutual
theorem linesCond_shift (cfg : GenCfg) :
    ∀ (c : Cond) (d : Nat), linesCond cfg d c = (linesCond cfg 0 c).map (shiftLines d)
  | .ret gs, d => by
      simp only [linesCond]
      cases lowerReturn cfg gs <;>
        simp [bind, Except.bind, Except.map, pure, Except.pure, shiftLines]
  | .ifte p t rest, d => by
      have h1 := linesCond_shift cfg t (d + 1)
      have h2 := linesCond_shift cfg t 1
      have h3 := linesSub_shift cfg rest d
      simp only [linesCond, Nat.zero_add]
      rw [h1, h2, h3]
      cases lowerPred cfg p <;> cases linesCond cfg 0 t <;> cases linesSub cfg 0 rest <;>
        simp [bind, Except.bind, Except.map, pure, Except.pure, shiftLines_append, shiftLines_cons,
          shiftLines_shiftLines, Nat.add_comm 1 d]
theorem linesSub_shift (cfg : GenCfg) :
    ∀ (s : Sub) (d : Nat), linesSub cfg d s = (linesSub cfg 0 s).map (shiftLines d)
  | .none, d => by
      simp [linesSub, Except.map, pure, Except.pure, shiftLines]
  | .else_ t, d => by
      have h1 := linesCond_shift cfg t (d + 1)
      have h2 := linesCond_shift cfg t 1
      simp only [linesSub, Nat.zero_add]
      rw [h1, h2]
      cases linesCond cfg 0 t <;>
        simp [bind, Except.bind, Except.map, pure, Except.pure, shiftLines_cons,
          shiftLines_shiftLines, Nat.add_comm 1 d]
  | .elif p t rest, d => by
      have h1 := linesCond_shift cfg t (d + 1)
      have h2 := linesCond_shift cfg t 1
      have h3 := linesSub_shift cfg rest d
      simp only [linesSub, Nat.zero_add]
      rw [h1, h2, h3]
      cases lowerPred cfg p <;> cases linesCond cfg 0 t <;> cases linesSub cfg 0 rest <;>
        simp [bind, Except.bind, Except.map, pure, Except.pure, shiftLines_append, shiftLines_cons,
          shiftLines_shiftLines, Nat.add_comm 1 d]
end

/-- the emitted lines, forgetting indentation, do not depend on the depth -/
theorem linesCond_contents_depth_indep (cfg : GenCfg) (c : Cond) (d d' : Nat) :
    (linesCond cfg d c).map (·.map Prod.snd) = (linesCond cfg d' c).map (·.map Prod.snd) := by
  rw [linesCond_shift cfg c d, linesCond_shift cfg c d']
  cases linesCond cfg 0 c <;> simp [Except.map, shiftLines_snd]

theorem bodyLines_shift (cfg : GenCfg) (c : Cond) (d : Nat) :
    bodyLines cfg d c = (bodyLines cfg 0 c).map (shiftLines d) := by
  simp only [bodyLines]
  rw [linesCond_shift cfg c d]
  cases linesCond cfg 0 c <;>
    simp [bind, Except.bind, Except.map, pure, Except.pure, shiftLines]

/-- whether the body can be emitted does not depend on the depth -/
theorem bodyLines_ok_iff_depth (cfg : GenCfg) (c : Cond) (d d' : Nat) :
    (∃ L, bodyLines cfg d c = .ok L) ↔ (∃ L', bodyLines cfg d' c = .ok L') := by
  rw [bodyLines_shift cfg c d, bodyLines_shift cfg c d']
  cases bodyLines cfg 0 c <;> simp [Except.map]

/-- the error raised while emitting the body does not depend on the depth -/
theorem bodyLines_error_depth_indep (cfg : GenCfg) (c : Cond) (d d' : Nat) (err : Err) :
    bodyLines cfg d c = .error err ↔ bodyLines cfg d' c = .error err := by
  rw [bodyLines_shift cfg c d, bodyLines_shift cfg c d']
  cases bodyLines cfg 0 c <;> simp [Except.map]

/-! ### well-indentedness -/

theorem lowerReturn_not_header (cfg : GenCfg) (gs : List Group) (l : Line)
    (h : lowerReturn cfg gs = .ok l) : isHeader l = false := by
  simp only [lowerReturn, bind_ok_iff] at h
  obtain ⟨⟨pop, ws⟩, _, hl⟩ := h
  cases hl
  rfl

mutual
theorem linesCond_wellIndented (cfg : GenCfg) :
    ∀ (c : Cond) (d : Nat) (L : List ILine), linesCond cfg d c = .ok L →
      (∃ l L', L = (d, l) :: L') ∧
      ∀ (d' : Nat) (l' : Line) (r : List ILine), d' ≤ d →
        wellIndented ((d', l') :: r) = true → wellIndented (L ++ (d', l') :: r) = true
  | .ret gs, d, L, h => by
      simp only [linesCond, bind_ok_iff] at h
      obtain ⟨l, hl, h⟩ := h
      cases h
      refine ⟨⟨l, [], rfl⟩, ?_⟩
      intro d' l' r hd hw
      have hnh := lowerReturn_not_header cfg gs l hl
      simp [wellIndented, hnh, hd, hw]
  | .ifte p t rest, d, L, h => by
      simp only [linesCond, bind_ok_iff] at h
      obtain ⟨e, _, tb, htb, fb, hfb, h⟩ := h
      cases h
      refine ⟨⟨.ifL e, tb ++ fb, rfl⟩, ?_⟩
      intro d' l' r hd hw
      obtain ⟨⟨l0, tb', rfl⟩, ihT⟩ := linesCond_wellIndented cfg t (d + 1) tb htb
      obtain ⟨hhead, ihS⟩ := linesSub_wellIndented cfg rest d fb hfb
      have hS := ihS d' l' r hd hw
      have hT : wellIndented (((d + 1, l0) :: tb') ++ (fb ++ (d', l') :: r)) = true := by
        rcases hhead with rfl | ⟨l1, fb', rfl⟩
        · exact ihT d' l' r (by omega) (by simpa using hS)
        · exact ihT d l1 (fb' ++ (d', l') :: r) (by omega) (by simpa using hS)
      simp only [List.cons_append, List.append_assoc] at hT ⊢
      simp [wellIndented, isHeader, hT]
theorem linesSub_wellIndented (cfg : GenCfg) :
    ∀ (s : Sub) (d : Nat) (L : List ILine), linesSub cfg d s = .ok L →
      (L = [] ∨ ∃ l L', L = (d, l) :: L') ∧
      ∀ (d' : Nat) (l' : Line) (r : List ILine), d' ≤ d →
        wellIndented ((d', l') :: r) = true → wellIndented (L ++ (d', l') :: r) = true
  | .none, d, L, h => by
      simp only [linesSub] at h
      cases h
      refine ⟨Or.inl rfl, ?_⟩
      intro d' l' r _ hw
      simpa using hw
  | .else_ t, d, L, h => by
      simp only [linesSub, bind_ok_iff] at h
      obtain ⟨tb, htb, h⟩ := h
      cases h
      refine ⟨Or.inr ⟨.elseL, tb, rfl⟩, ?_⟩
      intro d' l' r hd hw
      obtain ⟨⟨l0, tb', rfl⟩, ihT⟩ := linesCond_wellIndented cfg t (d + 1) tb htb
      have hT := ihT d' l' r (by omega) hw
      simp only [List.cons_append] at hT ⊢
      simp [wellIndented, isHeader, hT]
  | .elif p t rest, d, L, h => by
      simp only [linesSub, bind_ok_iff] at h
      obtain ⟨e, _, tb, htb, fb, hfb, h⟩ := h
      cases h
      refine ⟨Or.inr ⟨.elifL e, tb ++ fb, rfl⟩, ?_⟩
      intro d' l' r hd hw
      obtain ⟨⟨l0, tb', rfl⟩, ihT⟩ := linesCond_wellIndented cfg t (d + 1) tb htb
      obtain ⟨hhead, ihS⟩ := linesSub_wellIndented cfg rest d fb hfb
      have hS := ihS d' l' r hd hw
      have hT : wellIndented (((d + 1, l0) :: tb') ++ (fb ++ (d', l') :: r)) = true := by
        rcases hhead with rfl | ⟨l1, fb', rfl⟩
        · exact ihT d' l' r (by omega) (by simpa using hS)
        · exact ihT d l1 (fb' ++ (d', l') :: r) (by omega) (by simpa using hS)
      simp only [List.cons_append, List.append_assoc] at hT ⊢
      simp [wellIndented, isHeader, hT]
end

/-- the emitted body, at any depth, satisfies the indentation rules `compile()` enforces -/
theorem bodyLines_wellIndented (cfg : GenCfg) (c : Cond) (d : Nat) (L : List ILine)
    (h : bodyLines cfg d c = .ok L) : wellIndented L = true := by
  simp only [bodyLines, bind_ok_iff] at h
  obtain ⟨Lc, hLc, h⟩ := h
  cases h
  exact (linesCond_wellIndented cfg c d Lc hLc).2 d .raiseU [] (Nat.le_refl d)
    (by simp [wellIndented, isHeader])

end Pyab.Proofs
