/-
  `Dbl.norm` and the digit search of `Dbl.repr` depend on the VALUE of a finite double only,
  not on the pair `m·2^e` that holds it.

  * `norm_congr` — two pairs of the same positive value have the same normal form (odd mantissa);
    `norm_neg_nat` — the normal form of the negation;
  * `goO_congr` — the search is the same for two fractions `n₁/d₁ = n₂/d₂` (each of its steps —
    `decExp`, the floor in `sigCandidates`, the distance comparison — is invariant under
    `(n, d) ↦ (n·c, d·c)`);
  * `shortestDigits_congr` — the digits of two representations of one genuine double are the same.
-/
import Pyab.Proofs.FloatReprDigits

namespace Pyab
namespace Dbl
open Pyab.Proofs (pow2_eq round_zero)

/-! ### the normal form is canonical -/

theorem odd_pow_unique_le (o o' : Nat) (E E' : Int) (ho : o % 2 = 1) (hle : E ≤ E')
    (h : (o : ℚ) * 2 ^ E = (o' : ℚ) * 2 ^ E') : o = o' ∧ E = E' := by
  have hq : (o : ℚ) = ((o' * 2 ^ (E' - E).toNat : Nat) : ℚ) := by
    push_cast
    rw [two_zpow_toNat _ (by omega)]
    have hE : (2 : ℚ) ^ E' = 2 ^ (E' - E) * 2 ^ E := by rw [← two_zpow_add]; congr 1; ring
    rw [hE] at h
    have hp := two_zpow_pos E
    apply mul_right_cancel₀ (ne_of_gt hp)
    rw [h]; ring
  have hn : o = o' * 2 ^ (E' - E).toNat := by exact_mod_cast hq
  by_cases hj : (E' - E).toNat = 0
  · rw [hj] at hn
    simp at hn
    exact ⟨hn, by omega⟩
  · exfalso
    obtain ⟨j, hj'⟩ := Nat.exists_eq_succ_of_ne_zero hj
    rw [hj', Nat.pow_succ, ← Nat.mul_assoc] at hn
    generalize o' * 2 ^ j = w at hn
    omega

theorem odd_pow_unique (o o' : Nat) (E E' : Int) (ho : o % 2 = 1) (ho' : o' % 2 = 1)
    (h : (o : ℚ) * 2 ^ E = (o' : ℚ) * 2 ^ E') : o = o' ∧ E = E' := by
  rcases le_total E E' with hle | hle
  · exact odd_pow_unique_le o o' E E' ho hle h
  · obtain ⟨h1, h2⟩ := odd_pow_unique_le o' o E' E ho' hle h.symm
    exact ⟨h1.symm, h2.symm⟩

/-- two pairs of one positive value have the same normal form -/
theorem norm_congr (a b : Nat) (ha : a ≠ 0) (hb : b ≠ 0) (e e' : Int)
    (h : (a : ℚ) * 2 ^ e = (b : ℚ) * 2 ^ e') : norm (fin (a : Int) e) = norm (fin (b : Int) e') := by
  obtain ⟨o, k, h1, h2, h3⟩ := norm_pos a ha e
  obtain ⟨o', k', h1', h2', h3'⟩ := norm_pos b hb e'
  rw [h1, h1']
  have hv : (o : ℚ) * 2 ^ (e + k) = (o' : ℚ) * 2 ^ (e' + k') := by
    rw [two_zpow_add, two_zpow_add, zpow_natCast, zpow_natCast]
    have ea : (a : ℚ) = (o : ℚ) * 2 ^ k := by rw [← h2]; push_cast; rfl
    have eb : (b : ℚ) = (o' : ℚ) * 2 ^ k' := by rw [← h2']; push_cast; rfl
    rw [ea, eb] at h
    calc (o : ℚ) * (2 ^ e * 2 ^ k) = (o : ℚ) * 2 ^ k * 2 ^ e := by ring
      _ = (o' : ℚ) * 2 ^ k' * 2 ^ e' := h
      _ = (o' : ℚ) * (2 ^ e' * 2 ^ k') := by ring
  obtain ⟨g1, g2⟩ := odd_pow_unique o o' _ _ h3 h3' hv
  rw [g1, g2]

/-- the normal form of a negative value is the negation of the normal form -/
theorem norm_neg_nat (n : Nat) (hn : n ≠ 0) (e : Int) :
    norm (fin (-(n : Int)) e) = neg (norm (fin (n : Int) e)) := by
  have h0 : ((n : Int) == 0) = false := by rw [beq_eq_false_iff_ne]; omega
  have h0' : ((-(n : Int)) == 0) = false := by rw [beq_eq_false_iff_ne]; omega
  have hneg : ¬ ((n : Int) < 0) := by omega
  have hneg' : (-(n : Int)) < 0 := by omega
  unfold norm
  simp only [h0, h0', Bool.false_eq_true, if_false, Int.natAbs_natCast, Int.natAbs_neg, hneg, hneg',
    if_true, neg]

/-! ### a genuine double, whatever the pair that holds it -/

theorem isRep_congr (a b : Int) (e e' : Int) (hb : 0 ≤ b) (h : IsRep (fin a e))
    (hv : (a : ℚ) * 2 ^ e = (b : ℚ) * 2 ^ e') : IsRep (fin b e') := by
  obtain ⟨m0, e0, heq, _, hs, hlt⟩ := h
  refine ⟨b, e', rfl, hb, ?_, ?_⟩
  · rw [val_fin] at hs ⊢; rw [← hv]; exact hs
  · rw [val_fin] at hlt ⊢; rw [← hv]; exact hlt

/-! ### the search under `(n, d) ↦ (n·c, d·c)` -/

theorem decExp_scale (n d c : Nat) (hn : n ≠ 0) (hd : d ≠ 0) (hc : c ≠ 0) :
    decExp (n * c) (d * c) = decExp n d := by
  obtain ⟨a1, a2⟩ := decExp_spec (n * c) (d * c) (Nat.mul_ne_zero hn hc) (Nat.mul_ne_zero hd hc)
  obtain ⟨b1, b2⟩ := decExp_spec n d hn hd
  have hcq : (c : ℚ) ≠ 0 := by exact_mod_cast hc
  have : ((n * c : Nat) : ℚ) / ((d * c : Nat) : ℚ) = (n : ℚ) / d := by
    push_cast; rw [mul_div_mul_right _ _ hcq]
  rw [this] at a1 a2
  exact ten_exp_unique a1 a2 b1 b2

theorem candLo_scale (n d c : Nat) (hc : c ≠ 0) (s : Int) :
    candLo (n * c) (d * c) s = candLo n d s := by
  have hc' : 0 < c := Nat.pos_of_ne_zero hc
  unfold candLo
  split
  · rw [show d * c * 10 ^ s.toNat = d * 10 ^ s.toNat * c by ring, Nat.mul_div_mul_right _ _ hc']
  · rw [show n * c * 10 ^ (-s).toNat = n * 10 ^ (-s).toNat * c by ring, Nat.mul_div_mul_right _ _ hc']

theorem sigCandidates_scale (n d c : Nat) (hn : n ≠ 0) (hd : d ≠ 0) (hc : c ≠ 0) (p : Nat) :
    sigCandidates (n * c) (d * c) p = sigCandidates n d p := by
  rw [sigCandidates_eq, sigCandidates_eq, decExp_scale n d c hn hd hc, candLo_scale n d c hc]

theorem distNum_eq (n d D : Nat) (s : Int) :
    distNum n d D s =
      ((if (if s ≥ 0 then D * 10 ^ s.toNat else D) * d ≥ n * (if s ≥ 0 then 1 else 10 ^ (-s).toNat)
        then (if s ≥ 0 then D * 10 ^ s.toNat else D) * d - n * (if s ≥ 0 then 1 else 10 ^ (-s).toNat)
        else n * (if s ≥ 0 then 1 else 10 ^ (-s).toNat) - (if s ≥ 0 then D * 10 ^ s.toNat else D) * d),
       (if s ≥ 0 then 1 else 10 ^ (-s).toNat) * d) := by
  unfold distNum
  by_cases hs : s ≥ 0
  · simp only [hs, if_true]
  · simp only [hs, if_false]

theorem distNum_scale (n d c D : Nat) (s : Int) (hc : c ≠ 0) :
    distNum (n * c) (d * c) D s = ((distNum n d D s).1 * c, (distNum n d D s).2 * c) := by
  have hc' : 0 < c := Nat.pos_of_ne_zero hc
  rw [distNum_eq, distNum_eq]
  generalize (if s ≥ 0 then D * 10 ^ s.toNat else D) = cn
  generalize (if s ≥ 0 then 1 else 10 ^ (-s).toNat) = cd
  have e1 : cn * (d * c) = cn * d * c := by ring
  have e2 : n * c * cd = n * cd * c := by ring
  have e3 : cd * (d * c) = cd * d * c := by ring
  rw [e1, e2, e3]
  simp only []
  by_cases h : cn * d ≥ n * cd
  · have h' : cn * d * c ≥ n * cd * c := Nat.mul_le_mul_right c h
    rw [if_pos h, if_pos h', Nat.sub_mul]
  · have h' : ¬ cn * d * c ≥ n * cd * c := by
      intro hh; exact h (Nat.le_of_mul_le_mul_right hh hc')
    rw [if_neg h, if_neg h', Nat.sub_mul]

theorem pick_scale (n d c : Nat) (hc : c ≠ 0) (l : List (Nat × Int)) :
    pick (n * c) (d * c) l = pick n d l := by
  have hc' : 0 < c * c := Nat.mul_pos (Nat.pos_of_ne_zero hc) (Nat.pos_of_ne_zero hc)
  match l with
  | [] => rfl
  | [x] => rfl
  | c1 :: c2 :: r =>
    simp only [pick, distNum_scale n d c _ _ hc]
    generalize (distNum n d c1.1 c1.2).1 = a1
    generalize (distNum n d c1.1 c1.2).2 = b1
    generalize (distNum n d c2.1 c2.2).1 = a2
    generalize (distNum n d c2.1 c2.2).2 = b2
    have k1 : a1 * c * (b2 * c) = a1 * b2 * (c * c) := by ring
    have k2 : a2 * c * (b1 * c) = a2 * b1 * (c * c) := by ring
    rw [k1, k2]
    have i1 : a1 * b2 * (c * c) < a2 * b1 * (c * c) ↔ a1 * b2 < a2 * b1 := Nat.mul_lt_mul_right hc'
    have i2 : a2 * b1 * (c * c) < a1 * b2 * (c * c) ↔ a2 * b1 < a1 * b2 := Nat.mul_lt_mul_right hc'
    simp only [i1, i2]

theorem goO_scale (n d c : Nat) (hn : n ≠ 0) (hd : d ≠ 0) (hc : c ≠ 0) (t : Dbl) :
    ∀ (fuel p : Nat), goO (n * c) (d * c) t fuel p = goO n d t fuel p
  | 0, p => rfl
  | fuel + 1, p => by
    rw [goO_succ, goO_succ, sigCandidates_scale n d c hn hd hc, pick_scale n d c hc,
      goO_scale n d c hn hd hc t fuel (p + 1)]

/-- the search sees the fraction `n/d` only -/
theorem goO_congr (n1 d1 n2 d2 : Nat) (hn1 : n1 ≠ 0) (hd1 : d1 ≠ 0) (hn2 : n2 ≠ 0) (hd2 : d2 ≠ 0)
    (h : n1 * d2 = n2 * d1) (t : Dbl) (fuel p : Nat) :
    goO n1 d1 t fuel p = goO n2 d2 t fuel p := by
  rw [← goO_scale n1 d1 d2 hn1 hd1 hd2, ← goO_scale n2 d2 d1 hn2 hd2 hd1, h, Nat.mul_comm d1 d2]

/-- **the digits of a genuine double do not depend on the pair `m·2^e` that holds it** -/
theorem shortestDigits_congr (a b : Nat) (ha : a ≠ 0) (hb : b ≠ 0) (e e' : Int)
    (hrep : IsRep (fin (a : Int) e)) (h : (a : ℚ) * 2 ^ e = (b : ℚ) * 2 ^ e') :
    shortestDigits a e = shortestDigits b e' := by
  have hrep' : IsRep (fin (b : Int) e') :=
    isRep_congr a b e e' (by omega) hrep (by exact_mod_cast h)
  obtain ⟨_, _, _, g1, -, -⟩ := shortestDigits_good a ha e hrep
  obtain ⟨_, _, _, g2, -, -⟩ := shortestDigits_good b hb e' hrep'
  obtain ⟨hn1, hd1, hv1⟩ := toFrac_val a ha e
  obtain ⟨hn2, hd2, hv2⟩ := toFrac_val b hb e'
  have hcross : (toFrac a e).1 * (toFrac b e').2 = (toFrac b e').1 * (toFrac a e).2 := by
    have hq : ((toFrac a e).1 : ℚ) / ((toFrac a e).2 : ℚ) = ((toFrac b e').1 : ℚ) / ((toFrac b e').2 : ℚ) := by
      rw [hv1, hv2, h]
    have hd1q : ((toFrac a e).2 : ℚ) ≠ 0 := by exact_mod_cast hd1
    have hd2q : ((toFrac b e').2 : ℚ) ≠ 0 := by exact_mod_cast hd2
    rw [div_eq_div_iff hd1q hd2q] at hq
    exact_mod_cast hq
  rw [goO_congr _ _ _ _ hn1 hd1 hn2 hd2 hcross, norm_congr a b ha hb e e' h, g2] at g1
  exact (Option.some.inj g1).symm

end Dbl
end Pyab
