/-
  Helper lemmas for C10 (monotone ramp) and C16 (decision table of
  `deterministic_choice`).  Builds on `Proofs/Choice.lean`; nothing there is changed.
-/
import Pyab.Proofs.Choice
namespace Pyab.Proofs
open Pyab Pyab.Spec Pyab.Choice

/-! ### bounds of the binary search (no monotonicity needed) -/

theorem bisectLoop_bounds (a : Array Num) (x : Dbl) :
    ∀ fuel lo hi, lo ≤ hi →
      lo ≤ bisectLoop a x fuel lo hi ∧ bisectLoop a x fuel lo hi ≤ hi := by
  intro fuel
  induction fuel with
  | zero => intro lo hi hle; exact ⟨Nat.le_refl _, hle⟩
  | succ fuel ih =>
    intro lo hi hle
    unfold bisectLoop
    by_cases hlt : lo < hi
    · simp only [hlt, if_true]
      by_cases hP : Num.dblLt x a[(lo + hi) / 2]! = true
      · simp only [hP, if_true]
        have := ih lo ((lo + hi) / 2) (by omega)
        omega
      · have hP' : Num.dblLt x a[(lo + hi) / 2]! = false := by simpa using hP
        simp only [hP', Bool.false_eq_true, if_false]
        have := ih ((lo + hi) / 2 + 1) hi (by omega)
        omega
    · simp only [hlt, if_false]
      exact ⟨Nat.le_refl _, hle⟩

theorem bisect_le (cum : List Num) (x : Dbl) (m : Nat) : bisect cum x 0 m ≤ m :=
  (bisectLoop_bounds cum.toArray x (m - 0 + 1) 0 m (Nat.zero_le _)).2

/-! ### the ramp: pure arithmetic -/

theorem ramp_arith (P T T' S S' h : Nat) (hT' : 0 < T')
    (h1 : h * T < S * P) (h2 : S' * P ≤ h * T') (h3 : S * T' ≤ S' * T) : False := by
  have : h * T * T' < h * T * T' :=
    calc h * T * T' < S * P * T' := Nat.mul_lt_mul_of_pos_right h1 hT'
      _ = S * T' * P := Nat.mul_right_comm _ _ _
      _ ≤ S' * T * P := Nat.mul_le_mul_right P h3
      _ = S' * P * T := Nat.mul_right_comm _ _ _
      _ ≤ h * T' * T := Nat.mul_le_mul_right T h2
      _ = h * T * T' := Nat.mul_right_comm _ _ _
  exact Nat.lt_irrefl _ this

theorem isSpecIdx_ramp (w w' : List Nat) (h i j : Nat)
    (hpos' : 0 < total w')
    (hshare : ∀ k, k ≤ w.length → prefixSum w k * total w' ≤ prefixSum w' k * total w)
    (hi : IsSpecIdx w h i) (hj : IsSpecIdx w' h j) : j ≤ i := by
  obtain ⟨hil, _, hi2⟩ := hi
  obtain ⟨_, hj1, _⟩ := hj
  apply Nat.le_of_not_lt
  intro hlt
  have hm := prefixSum_mono w' (show i + 1 ≤ j from hlt)
  have h2 : prefixSum w' (i + 1) * 2 ^ 32 ≤ h * total w' :=
    Nat.le_trans (Nat.mul_le_mul_right _ hm) hj1
  exact ramp_arith (2 ^ 32) (total w) (total w') (prefixSum w (i + 1)) (prefixSum w' (i + 1)) h
    hpos' hi2 h2 (hshare (i + 1) hil)

/-! ### `choiceIdx` unfolded: the weight `match`, then one decision list -/

/-- the code after the weight `match`, as one explicit decision list -/
def weightedTail (h n : Nat) (cum : List Num) : Except Err Pick :=
  if cum.length != n then .error (.valueError "len") else
  match cum.getLast? with
  | none => .error .indexError
  | some last =>
    match Num.add last (.f Dbl.zero) with
    | .error e => .error e
    | .ok (.i _) => .error (.other "unreachable")
    | .ok (.f t) =>
      if Dbl.le t Dbl.zero then .error (.valueError "nonpositive")
      else if !t.isFinite then .error (.valueError "nonfinite")
      else .ok (.idx (bisect cum (Dbl.mul (proba h) t) 0 (n - 1)))

def randomTail (n : Nat) (cum : List Num) : Except Err Pick :=
  if cum.length != n then .error (.valueError "len") else
  match cum.getLast? with
  | none => .error .indexError
  | some last =>
    match Num.add last (.f Dbl.zero) with
    | .error e => .error e
    | .ok (.i _) => .error (.other "unreachable")
    | .ok (.f t) =>
      if Dbl.le t Dbl.zero then .error (.valueError "nonpositive")
      else if !t.isFinite then .error (.valueError "nonfinite")
      else .ok (.random cum)

theorem choiceIdx_cum (h n : Nat) (cw : List Num) :
    choiceIdx (some h) n none (some cw) = weightedTail h n cw := by
  unfold choiceIdx weightedTail
  simp only [bind, Except.bind, pure, Except.pure, throw, throwThe, MonadExceptOf.throw]
  by_cases hl : (cw.length != n) = true
  · simp only [hl, if_true]
  · simp only [hl]
    cases hg : cw.getLast? with
    | none => rfl
    | some last =>
      simp only []
      cases ha : Num.add last (.f Dbl.zero) with
      | error e => rfl
      | ok v =>
        cases v with
        | i v => rfl
        | f t =>
          rfl

theorem choiceIdx_weights (h n : Nat) (ws : List Num) :
    choiceIdx (some h) n (some ws) none = (accumulate ws).bind (weightedTail h n) := by
  cases hacc : accumulate ws with
  | error e =>
    unfold choiceIdx
    simp only [hacc, bind, Except.bind]
  | ok cum =>
    show _ = weightedTail h n cum
    rw [← choiceIdx_cum]
    unfold choiceIdx
    simp only [hacc, bind, Except.bind, pure, Except.pure]

theorem choiceIdx_none_cum (n : Nat) (cw : List Num) :
    choiceIdx none n none (some cw) = randomTail n cw := by
  unfold choiceIdx choiceIdx.randomChecks randomTail
  simp only [bind, Except.bind, pure, Except.pure, throw, throwThe, MonadExceptOf.throw]
  by_cases hl : (cw.length != n) = true
  · simp only [hl, if_true]
  · simp only [hl]
    cases hg : cw.getLast? with
    | none => rfl
    | some last =>
      simp only []
      cases ha : Num.add last (.f Dbl.zero) with
      | error e => rfl
      | ok v =>
        cases v with
        | i v => rfl
        | f t =>
          rfl

theorem choiceIdx_none_weights (n : Nat) (ws : List Num) :
    choiceIdx none n (some ws) none = (accumulate ws).bind (randomTail n) := by
  cases hacc : accumulate ws with
  | error e =>
    unfold choiceIdx
    simp only [hacc, bind, Except.bind]
  | ok cum =>
    show _ = randomTail n cum
    rw [← choiceIdx_none_cum]
    unfold choiceIdx
    simp only [hacc, bind, Except.bind]

/-! ### `accumulate` keeps the length -/

theorem go_length (ws : List Num) : ∀ (acc : Num) (cum : List Num),
    accumulate.go acc ws = .ok cum → cum.length = ws.length + 1 := by
  induction ws with
  | nil =>
    intro acc cum h
    simp only [accumulate.go, pure, Except.pure, Except.ok.injEq] at h
    subst h; rfl
  | cons w ws ih =>
    intro acc cum h
    simp only [accumulate.go, bind, Except.bind] at h
    cases ha : Num.add acc w with
    | error e => rw [ha] at h; cases h
    | ok acc' =>
      rw [ha] at h
      simp only [] at h
      cases hg : accumulate.go acc' ws with
      | error e => rw [hg] at h; cases h
      | ok rest =>
        rw [hg] at h
        simp only [pure, Except.pure, Except.ok.injEq] at h
        subst h
        simp only [List.length_cons, ih acc' rest hg]

theorem accumulate_length (ws cum : List Num) (h : accumulate ws = .ok cum) :
    cum.length = ws.length := by
  cases ws with
  | nil =>
    simp only [accumulate, pure, Except.pure, Except.ok.injEq] at h
    subst h; rfl
  | cons w ws =>
    simp only [accumulate] at h
    rw [go_length ws w cum h, List.length_cons]

/-- `cum_weights[-1] + 0.0` is a float whenever it is defined -/
theorem add_zero_isFloat (last v : Num) (h : Num.add last (.f Dbl.zero) = .ok v) :
    ∃ t, v = .f t := by
  cases last with
  | f d =>
    simp only [Num.add, Num.toDbl, bind, Except.bind, pure, Except.pure, Except.ok.injEq] at h
    exact ⟨_, h.symm⟩
  | i a =>
    simp only [Num.add, bind, Except.bind] at h
    cases hd : Num.toDbl (.i a) with
    | error e => rw [hd] at h; cases h
    | ok x =>
      rw [hd] at h
      simp only [Num.toDbl, pure, Except.pure, Except.ok.injEq] at h
      exact ⟨_, h.symm⟩

/-! ### cumulative weights that are exact naturals (float `S.0` or int `S`) -/

/-- `c` is the natural `S` as a Python number: the float `S.0` or the int `S` -/
def Rep (c : Num) (S : Nat) : Prop := c = fl S ∨ c = Num.i (S : Int)

theorem rep_add_zero (c : Num) (S : Nat) (hS : S < 2 ^ 53) (hc : Rep c S) :
    Num.add c (.f Dbl.zero) = .ok (fl S) := by
  rcases hc with hc | hc
  · subst hc; exact numAdd_fl_zero S hS
  · subst hc
    have h1 : Dbl.ofInt (S : Int) = Dbl.fin S 0 := round_nat0 S hS
    simp only [Num.add, Num.toDbl, h1, bind, Except.bind, pure, Except.pure, Dbl.zero]
    have := add_exact S 0 (by omega)
    simp only [Int.natCast_zero, Nat.add_zero] at this
    rw [this]; rfl

theorem cmp_fin_gt (k S : Nat) :
    Dbl.cmp (Dbl.fin S 0) (Dbl.fin k (-32)) = some (compare ((S : Int) * ((2 ^ 32 : Nat) : Int)) (k : Int)) := by
  have h1 : ¬ ((0 : Int) ≤ -32) := by decide
  have h2 : ((0:Int) - -32).toNat = 32 := by decide
  simp only [Dbl.cmp, Dbl.align, pow2_eq, h1, if_false, h2, Int.ofNat_eq_natCast]

theorem cmp_fin0_gt (S : Nat) :
    Dbl.cmp (Dbl.fin S 0) (Dbl.fin (0 : Nat) 0) = some (compare (S : Int) (0 : Int)) := by
  have h1 : (0 : Int) ≤ 0 := by decide
  have h2 : ((0:Int) - 0).toNat = 0 := by decide
  simp only [Dbl.cmp, Dbl.align, pow2_eq, h1, if_true, h2, Int.ofNat_eq_natCast, Nat.pow_zero,
    Int.natCast_one, Int.mul_one, Int.natCast_zero]

theorem gt_char (k S : Nat) (e : Int) (he : e = -32 ∨ (e = 0 ∧ k = 0)) :
    (Dbl.cmpInt (S : Int) (Dbl.fin k e) == some .gt) = true ↔ k < S * 2 ^ 32 := by
  unfold Dbl.cmpInt
  rcases he with he | ⟨he, hk⟩
  · subst he
    rw [cmp_fin_gt, ← Int.natCast_mul, beq_iff_eq, Option.some_inj, Int.compare_eq_gt]
    exact Int.ofNat_lt
  · subst he; subst hk
    rw [cmp_fin0_gt, beq_iff_eq, Option.some_inj, Int.compare_eq_gt]
    omega

theorem rep_lt (c : Num) (k S : Nat) (e : Int) (he : e = -32 ∨ (e = 0 ∧ k = 0)) (hc : Rep c S) :
    Num.dblLt (Dbl.fin k e) c = true ↔ k < S * 2 ^ 32 := by
  rcases hc with hc | hc
  · subst hc; exact lt_char k S e he
  · subst hc; exact gt_char k S e he

theorem total_pos_length (w : List Nat) (hpos : 0 < total w) : 0 < w.length := by
  cases w with
  | nil => simp [total] at hpos
  | cons a w => simp

theorem getLast?_eq_getElem! (cum : List Num) (hn : 0 < cum.length) :
    cum.getLast? = some cum[cum.length - 1]! := by
  rw [List.getLast?_eq_getElem?, List.getElem!_eq_getElem?_getD,
    List.getElem?_eq_getElem (by omega)]
  rfl

/-- **Exact partition for exact-natural cumulative weights**: if `cum` holds the prefix sums of
    `w` (each as a float or an int), the decision list returns the group of the interval rule,
    and `random.choices`' search at draw `h/2^32` returns the same group. -/
theorem weightedTail_spec (w : List Nat) (cum : List Num) (h : Nat) (hh : h < 2 ^ 32)
    (hpos : 0 < total w) (hT : total w < 2 ^ 21) (hlen : cum.length = w.length)
    (hrep : ∀ j, j < w.length → Rep cum[j]! (prefixSum w (j + 1))) :
    ∃ i, weightedTail h w.length cum = .ok (.idx i) ∧ IsSpecIdx w h i
      ∧ randomIdx cum w.length (proba h) = .ok i
      ∧ randomTail w.length cum = .ok (.random cum) := by
  have hn : 0 < w.length := total_pos_length w hpos
  obtain ⟨e, hx, he⟩ := xval h (total w) hh hT
  have hlast : cum.getLast? = some cum[w.length - 1]! := by
    rw [getLast?_eq_getElem! cum (by omega), hlen]
  have hrepl : Rep cum[w.length - 1]! (total w) := by
    have := hrep (w.length - 1) (by omega)
    rw [show w.length - 1 + 1 = w.length by omega,
      prefixSum_of_length_le w (Nat.le_refl _)] at this
    exact this
  have hadd := rep_add_zero _ _ (show total w < 2 ^ 53 by omega) hrepl
  have hle := le_zero_false (total w) hpos
  have hlt : ∀ j, j < w.length →
      (Num.dblLt (Dbl.fin ((h * total w : Nat) : Int) e) cum[j]! = true ↔
        h * total w < prefixSum w (j + 1) * 2 ^ 32) :=
    fun j hj => rep_lt _ _ _ e he (hrep j hj)
  have hpart := bisect_partition cum (Dbl.fin ((h * total w : Nat) : Int) e)
    w.length hlen hn (by
      intro i j hij hj
      rw [hlt i (by omega), hlt j hj]
      intro hlt1
      have := prefixSum_mono w (show i + 1 ≤ j + 1 by omega)
      exact Nat.lt_of_lt_of_le hlt1 (Nat.mul_le_mul_right _ this))
  refine ⟨bisect cum (Dbl.fin ((h * total w : Nat) : Int) e) 0 (w.length - 1), ?_, ?_, ?_, ?_⟩
  · unfold weightedTail
    simp only [hlen, bne_self_eq_false, Bool.false_eq_true, if_false, hlast, hadd]
    simp only [fl, hle, Bool.false_eq_true, if_false, Dbl.isFinite, Bool.not_true, hx]
  · obtain ⟨hp1, hp2, hp3⟩ := hpart
    generalize bisect cum (Dbl.fin ((h * total w : Nat) : Int) e) 0 (w.length - 1) = r
      at hp1 hp2 hp3
    refine ⟨by omega, ?_, ?_⟩
    · cases r with
      | zero => rw [prefixSum_zero]; omega
      | succ r' =>
        have hf := hp2 r' (by omega)
        have := (hlt r' (by omega)).2
        rw [hf] at this
        simp only [Bool.false_eq_true, imp_false] at this
        omega
    · by_cases hr : r < w.length - 1
      · exact (hlt r (by omega)).1 (hp3 hr)
      · have hr' : r + 1 = w.length := by omega
        rw [hr', prefixSum_of_length_le w (Nat.le_refl _)]
        have := Nat.mul_lt_mul_of_pos_right hh hpos
        rw [Nat.mul_comm (2 ^ 32)] at this
        exact this
  · unfold randomIdx
    simp only [hlast, hadd, bind, Except.bind]
    simp only [fl, hx]
    rfl
  · unfold randomTail
    simp only [hlen, bne_self_eq_false, Bool.false_eq_true, if_false, hlast, hadd]
    simp only [fl, hle, Bool.false_eq_true, if_false, Dbl.isFinite, Bool.not_true]

/-! ### integer weights given as Python ints -/

/-- a natural number as a Python int weight -/
def il (k : Nat) : Num := Num.i (k : Int)

theorem go_il (acc : Nat) (ws : List Nat) :
    accumulate.go (il acc) (ws.map il) = .ok ((psums acc ws).map il) := by
  induction ws generalizing acc with
  | nil => rfl
  | cons w ws ih =>
    simp only [List.map_cons, accumulate.go, psums]
    have : Num.add (il acc) (il w) = .ok (il (acc + w)) := by
      simp only [il, Num.add, Int.natCast_add]; rfl
    rw [this]
    simp only [bind, Except.bind]
    rw [ih (acc + w)]
    rfl

theorem accumulate_il (w0 : Nat) (ws : List Nat) :
    accumulate ((w0 :: ws).map il) = .ok ((psums w0 ws).map il) := by
  simp only [List.map_cons, accumulate]
  exact go_il w0 ws

theorem psums_map_getElem! (g : Nat → Num) (w0 : Nat) (ws : List Nat) (j : Nat) (hj : j ≤ ws.length) :
    ((psums w0 ws).map g)[j]! = g (prefixSum (w0 :: ws) (j + 1)) := by
  rw [List.getElem!_eq_getElem?_getD, List.getElem?_map, psums_getElem? w0 ws j hj]
  simp [prefixSum]

/-- the running totals of float-valued integer weights, with the properties used downstream -/
theorem accumulate_fl_rep (w : List Nat) (hpos : 0 < total w) (hT : total w < 2 ^ 21) :
    ∃ cum, accumulate (w.map fun x => Num.f (Dbl.ofNat x)) = .ok cum ∧ cum.length = w.length
      ∧ ∀ j, j < w.length → Rep cum[j]! (prefixSum w (j + 1)) := by
  have hmap : (w.map fun x => Num.f (Dbl.ofNat x)) = w.map fl := by
    apply List.map_congr_left
    intro x hx
    have : x ≤ total w := mem_le_sum w x hx
    rw [ofNat_exact x (by omega)]; rfl
  rw [hmap]
  cases w with
  | nil => simp [total] at hpos
  | cons w0 ws =>
    have htot : total (w0 :: ws) = w0 + ws.sum := by simp [total]
    refine ⟨(psums w0 ws).map fl, accumulate_fl w0 ws (by omega), ?_, ?_⟩
    · rw [List.length_map, psums_length, List.length_cons]
    · intro j hj
      rw [psums_map_getElem! fl w0 ws j (by simp at hj; omega)]
      exact Or.inl rfl

theorem accumulate_il_rep (w : List Nat) (hpos : 0 < total w) :
    ∃ cum, accumulate (w.map fun (x : Nat) => Num.i (x : Int)) = .ok cum ∧ cum.length = w.length
      ∧ ∀ j, j < w.length → Rep cum[j]! (prefixSum w (j + 1)) := by
  cases w with
  | nil => simp [total] at hpos
  | cons w0 ws =>
    refine ⟨(psums w0 ws).map il, accumulate_il w0 ws, ?_, ?_⟩
    · rw [List.length_map, psums_length, List.length_cons]
    · intro j hj
      rw [psums_map_getElem! il w0 ws j (by simp at hj; omega)]
      exact Or.inr rfl

/-! ### the unweighted branch: `population[floor(u * n)]` -/

theorem choiceIdx_unweighted (h n : Nat) (hh : h < 2 ^ 32) (hn0 : 0 < n) (hn : n < 2 ^ 21) :
    choiceIdx (some h) n none none = .ok (.idx (h * n / 2 ^ 32)) := by
  obtain ⟨e, hx, he⟩ := xval h n hh hn
  have hne : (n == 0) = false := by
    rw [beq_eq_false_iff_ne]; omega
  unfold choiceIdx
  simp only [bind, Except.bind, pure, Except.pure, ofNat_exact n (by omega), hx]
  rcases he with he | ⟨he, h0⟩
  · subst he
    have h1 : ¬ ((-32 : Int) ≥ 0) := by decide
    have h2 : (-(-32 : Int)).toNat = 32 := by decide
    simp only [Dbl.floor, h1, if_false, h2, pow2_eq, hne, Bool.false_eq_true,
      Int.ofNat_eq_natCast]
    rw [← Int.natCast_ediv, Int.toNat_natCast]
  · subst he
    have h1 : ((0 : Int) ≥ 0) := by decide
    have h2 : ((0 : Int)).toNat = 0 := by decide
    simp only [Dbl.floor, h1, if_true, h2, pow2_eq, hne, Bool.false_eq_true, if_false, h0,
      Int.natCast_zero, Int.zero_mul, Nat.zero_div]

/-! ### the decision list, case by case -/

theorem weightedTail_len (h n : Nat) (cum : List Num) (hlen : cum.length ≠ n) :
    weightedTail h n cum = .error (.valueError "len") := by
  have : (cum.length != n) = true := by rw [bne_iff_ne]; exact hlen
  unfold weightedTail
  simp only [this, if_true]

theorem weightedTail_empty (h : Nat) : weightedTail h 0 [] = .error .indexError := rfl

theorem weightedTail_addErr (h n : Nat) (cum : List Num) (last : Num) (e : Err)
    (hlen : cum.length = n) (hlast : cum.getLast? = some last)
    (htot : Num.add last (.f Dbl.zero) = .error e) :
    weightedTail h n cum = .error e := by
  unfold weightedTail
  simp only [hlen, bne_self_eq_false, Bool.false_eq_true, if_false, hlast, htot]

theorem weightedTail_nonpositive (h n : Nat) (cum : List Num) (last : Num) (t : Dbl)
    (hlen : cum.length = n) (hlast : cum.getLast? = some last)
    (htot : Num.add last (.f Dbl.zero) = .ok (.f t)) (hle : Dbl.le t Dbl.zero = true) :
    weightedTail h n cum = .error (.valueError "nonpositive") := by
  unfold weightedTail
  simp only [hlen, bne_self_eq_false, Bool.false_eq_true, if_false, hlast, htot, hle, if_true]

theorem weightedTail_nonfinite (h n : Nat) (cum : List Num) (last : Num) (t : Dbl)
    (hlen : cum.length = n) (hlast : cum.getLast? = some last)
    (htot : Num.add last (.f Dbl.zero) = .ok (.f t)) (hle : Dbl.le t Dbl.zero = false)
    (hfin : t.isFinite = false) :
    weightedTail h n cum = .error (.valueError "nonfinite") := by
  unfold weightedTail
  simp only [hlen, bne_self_eq_false, Bool.false_eq_true, if_false, hlast, htot, hle, hfin,
    Bool.not_false, if_true]

theorem weightedTail_good (h n : Nat) (cum : List Num) (last : Num) (t : Dbl)
    (hlen : cum.length = n) (hlast : cum.getLast? = some last)
    (htot : Num.add last (.f Dbl.zero) = .ok (.f t)) (hle : Dbl.le t Dbl.zero = false)
    (hfin : t.isFinite = true) :
    weightedTail h n cum = .ok (.idx (bisect cum (Dbl.mul (proba h) t) 0 (n - 1))) := by
  unfold weightedTail
  simp only [hlen, bne_self_eq_false, Bool.false_eq_true, if_false, hlast, htot, hle, hfin,
    Bool.not_true]

/-- inversion: the decision list succeeds only through its last line -/
theorem weightedTail_ok (h n : Nat) (cum : List Num) (p : Pick)
    (hok : weightedTail h n cum = .ok p) :
    ∃ last t, cum.length = n ∧ cum.getLast? = some last
      ∧ Num.add last (.f Dbl.zero) = .ok (.f t) ∧ Dbl.le t Dbl.zero = false
      ∧ t.isFinite = true ∧ p = .idx (bisect cum (Dbl.mul (proba h) t) 0 (n - 1)) := by
  by_cases hlen : cum.length = n
  · cases hlast : cum.getLast? with
    | none =>
      unfold weightedTail at hok
      simp only [hlen, bne_self_eq_false, Bool.false_eq_true, if_false, hlast] at hok
      cases hok
    | some last =>
      cases htot : Num.add last (.f Dbl.zero) with
      | error e => rw [weightedTail_addErr h n cum last e hlen hlast htot] at hok; cases hok
      | ok v =>
        obtain ⟨t, hv⟩ := add_zero_isFloat last v htot
        subst hv
        cases hle : Dbl.le t Dbl.zero with
        | true => rw [weightedTail_nonpositive h n cum last t hlen hlast htot hle] at hok; cases hok
        | false =>
          cases hfin : t.isFinite with
          | false =>
            rw [weightedTail_nonfinite h n cum last t hlen hlast htot hle hfin] at hok; cases hok
          | true =>
            rw [weightedTail_good h n cum last t hlen hlast htot hle hfin] at hok
            exact ⟨last, t, hlen, rfl, htot, hle, hfin, (Except.ok.inj hok).symm⟩
  · rw [weightedTail_len h n cum hlen] at hok; cases hok

theorem getLast?_some_length_pos (cum : List Num) (last : Num) (h : cum.getLast? = some last) :
    0 < cum.length := by
  cases cum with
  | nil => simp at h
  | cons a l => simp

theorem weightedTail_idx_lt (h n i : Nat) (cum : List Num)
    (hok : weightedTail h n cum = .ok (.idx i)) : i < n := by
  obtain ⟨last, t, hlen, hlast, _, _, _, hp⟩ := weightedTail_ok h n cum _ hok
  have hn := getLast?_some_length_pos cum last hlast
  have := bisect_le cum (Dbl.mul (proba h) t) (n - 1)
  rw [Pick.idx.inj hp]
  omega

/-! the same for the `random.choices` argument checks -/

theorem randomTail_len (n : Nat) (cum : List Num) (hlen : cum.length ≠ n) :
    randomTail n cum = .error (.valueError "len") := by
  have : (cum.length != n) = true := by rw [bne_iff_ne]; exact hlen
  unfold randomTail
  simp only [this, if_true]

theorem randomTail_empty : randomTail 0 [] = .error .indexError := rfl

theorem randomTail_addErr (n : Nat) (cum : List Num) (last : Num) (e : Err)
    (hlen : cum.length = n) (hlast : cum.getLast? = some last)
    (htot : Num.add last (.f Dbl.zero) = .error e) :
    randomTail n cum = .error e := by
  unfold randomTail
  simp only [hlen, bne_self_eq_false, Bool.false_eq_true, if_false, hlast, htot]

theorem randomTail_nonpositive (n : Nat) (cum : List Num) (last : Num) (t : Dbl)
    (hlen : cum.length = n) (hlast : cum.getLast? = some last)
    (htot : Num.add last (.f Dbl.zero) = .ok (.f t)) (hle : Dbl.le t Dbl.zero = true) :
    randomTail n cum = .error (.valueError "nonpositive") := by
  unfold randomTail
  simp only [hlen, bne_self_eq_false, Bool.false_eq_true, if_false, hlast, htot, hle, if_true]

theorem randomTail_nonfinite (n : Nat) (cum : List Num) (last : Num) (t : Dbl)
    (hlen : cum.length = n) (hlast : cum.getLast? = some last)
    (htot : Num.add last (.f Dbl.zero) = .ok (.f t)) (hle : Dbl.le t Dbl.zero = false)
    (hfin : t.isFinite = false) :
    randomTail n cum = .error (.valueError "nonfinite") := by
  unfold randomTail
  simp only [hlen, bne_self_eq_false, Bool.false_eq_true, if_false, hlast, htot, hle, hfin,
    Bool.not_false, if_true]

theorem randomTail_good (n : Nat) (cum : List Num) (last : Num) (t : Dbl)
    (hlen : cum.length = n) (hlast : cum.getLast? = some last)
    (htot : Num.add last (.f Dbl.zero) = .ok (.f t)) (hle : Dbl.le t Dbl.zero = false)
    (hfin : t.isFinite = true) :
    randomTail n cum = .ok (.random cum) := by
  unfold randomTail
  simp only [hlen, bne_self_eq_false, Bool.false_eq_true, if_false, hlast, htot, hle, hfin,
    Bool.not_true]

/-- the two decision lists differ only in their last line -/
theorem randomTail_ok_iff (h n : Nat) (cum : List Num) :
    randomTail n cum = .ok (.random cum) ↔ ∃ i, weightedTail h n cum = .ok (.idx i) := by
  constructor
  · intro hr
    by_cases hlen : cum.length = n
    · cases hlast : cum.getLast? with
      | none =>
        unfold randomTail at hr
        simp only [hlen, bne_self_eq_false, Bool.false_eq_true, if_false, hlast] at hr
        cases hr
      | some last =>
        cases htot : Num.add last (.f Dbl.zero) with
        | error e => rw [randomTail_addErr n cum last e hlen hlast htot] at hr; cases hr
        | ok v =>
          obtain ⟨t, hv⟩ := add_zero_isFloat last v htot
          subst hv
          cases hle : Dbl.le t Dbl.zero with
          | true => rw [randomTail_nonpositive n cum last t hlen hlast htot hle] at hr; cases hr
          | false =>
            cases hfin : t.isFinite with
            | false =>
              rw [randomTail_nonfinite n cum last t hlen hlast htot hle hfin] at hr; cases hr
            | true => exact ⟨_, weightedTail_good h n cum last t hlen hlast htot hle hfin⟩
    · rw [randomTail_len n cum hlen] at hr; cases hr
  · rintro ⟨i, hi⟩
    obtain ⟨last, t, hlen, hlast, htot, hle, hfin, _⟩ := weightedTail_ok h n cum _ hi
    exact randomTail_good n cum last t hlen hlast htot hle hfin

/-- errors of the two decision lists coincide -/
theorem randomTail_error_iff (h n : Nat) (cum : List Num) (e : Err) :
    randomTail n cum = .error e ↔ weightedTail h n cum = .error e := by
  by_cases hlen : cum.length = n
  · cases hlast : cum.getLast? with
    | none =>
      unfold randomTail weightedTail
      simp only [hlen, bne_self_eq_false, Bool.false_eq_true, if_false, hlast]
    | some last =>
      cases htot : Num.add last (.f Dbl.zero) with
      | error e' =>
        rw [randomTail_addErr n cum last e' hlen hlast htot,
          weightedTail_addErr h n cum last e' hlen hlast htot]
      | ok v =>
        obtain ⟨t, hv⟩ := add_zero_isFloat last v htot
        subst hv
        cases hle : Dbl.le t Dbl.zero with
        | true =>
          rw [randomTail_nonpositive n cum last t hlen hlast htot hle,
            weightedTail_nonpositive h n cum last t hlen hlast htot hle]
        | false =>
          cases hfin : t.isFinite with
          | false =>
            rw [randomTail_nonfinite n cum last t hlen hlast htot hle hfin,
              weightedTail_nonfinite h n cum last t hlen hlast htot hle hfin]
          | true =>
            rw [randomTail_good n cum last t hlen hlast htot hle hfin,
              weightedTail_good h n cum last t hlen hlast htot hle hfin]
            constructor <;> intro h' <;> cases h'
  · rw [randomTail_len n cum hlen, weightedTail_len h n cum hlen]

/-- `choiceIdx` with both kinds of weights -/
theorem choiceIdx_both (h : Option Nat) (n : Nat) (ws cw : List Num) :
    choiceIdx h n (some ws) (some cw) = .error .typeError := by
  cases h <;> rfl

theorem choiceIdx_unweighted_zero (h : Nat) (hh : h < 2 ^ 32) :
    choiceIdx (some h) 0 none none = .error .indexError := by
  obtain ⟨e, hx, he⟩ := xval h 0 hh (by decide)
  unfold choiceIdx
  simp only [bind, Except.bind, pure, Except.pure, ofNat_exact 0 (by decide), hx, Dbl.floor]
  rcases he with he | ⟨he, _⟩
  · subst he
    have h1 : ¬ ((-32 : Int) ≥ 0) := by decide
    simp only [h1, if_false]
    rfl
  · subst he
    have h1 : ((0 : Int) ≥ 0) := by decide
    simp only [h1, if_true]
    rfl

theorem choiceIdx_none_unweighted (n : Nat) :
    choiceIdx none n none none = if n = 0 then .error .indexError else .ok (.random []) := by
  unfold choiceIdx
  by_cases hn : n = 0
  · subst hn; rfl
  · have : (n == 0) = false := by rw [beq_eq_false_iff_ne]; exact hn
    simp only [this, hn, if_false, Bool.false_eq_true]
    rfl

/-! ### equal weights -/

theorem prefixSum_replicate_one (n i : Nat) (hi : i ≤ n) :
    prefixSum (List.replicate n 1) i = i := by
  simp [prefixSum, List.take_replicate, Nat.min_eq_left hi]

theorem total_replicate_one (n : Nat) : total (List.replicate n 1) = n := by
  simp [total]

/-- the interval rule with equal weights is `⌊h·n / 2^32⌋` -/
theorem isSpecIdx_replicate_one (n h i : Nat) (hs : IsSpecIdx (List.replicate n 1) h i) :
    i = h * n / 2 ^ 32 := by
  obtain ⟨hi, h1, h2⟩ := hs
  rw [List.length_replicate] at hi
  rw [prefixSum_replicate_one n i (by omega), total_replicate_one] at h1
  rw [prefixSum_replicate_one n (i + 1) (by omega), total_replicate_one] at h2
  generalize h * n = m at h1 h2 ⊢
  omega

/-- the weighted call, once past its argument checks, is the bisect of `proba h · total` -/
theorem choiceIdx_eq_bisect (h n : Nat) (ws cum : List Num) (last : Num) (t : Dbl)
    (hacc : accumulate ws = .ok cum) (hlen : cum.length = n)
    (hlast : cum.getLast? = some last)
    (htot : Num.add last (.f Dbl.zero) = .ok (.f t))
    (hposT : Dbl.le t Dbl.zero = false) (hfin : t.isFinite = true) :
    choiceIdx (some h) n (some ws) none
      = .ok (.idx (bisect cum (Dbl.mul (proba h) t) 0 (n - 1))) := by
  rw [choiceIdx_weights, hacc]
  exact weightedTail_good h n cum last t hlen hlast htot hposT hfin

end Pyab.Proofs
