/-
  `sortDedup` (`sorted(set(...))`): same members, strictly increasing, hence duplicate free;
  parameters of the generated function.
-/
import Pyab.Model.PyExec
namespace Pyab.Proofs.Run
open Pyab

/-! ### membership -/

theorem mem_insertSorted (x n : String) : ∀ l : List String, n ∈ insertSorted x l ↔ n = x ∨ n ∈ l
  | [] => by simp [insertSorted]
  | y :: ys => by
      unfold insertSorted
      by_cases h1 : x < y
      · simp [h1]
      · by_cases h2 : (x == y) = true
        · have : x = y := by simpa using h2
          subst this
          simp [h1]
        · simp only [h1, h2, if_false, Bool.false_eq_true]
          simp only [List.mem_cons, mem_insertSorted x n ys]
          constructor
          · rintro (h | h | h)
            · exact Or.inr (Or.inl h)
            · exact Or.inl h
            · exact Or.inr (Or.inr h)
          · rintro (h | h | h)
            · exact Or.inr (Or.inl h)
            · exact Or.inl h
            · exact Or.inr (Or.inr h)

theorem mem_sortDedup (n : String) : ∀ l : List String, n ∈ sortDedup l ↔ n ∈ l
  | [] => by simp [sortDedup]
  | x :: xs => by
      have ih := mem_sortDedup n xs
      simp only [sortDedup, List.foldr_cons] at ih ⊢
      rw [mem_insertSorted, ih]
      simp

theorem sortDedup_ne_nil {l : List String} (h : l ≠ []) : sortDedup l ≠ [] := by
  cases l with
  | nil => exact absurd rfl h
  | cons x xs =>
      intro hnil
      have : x ∈ sortDedup (x :: xs) := (mem_sortDedup x (x :: xs)).2 (by simp)
      rw [hnil] at this
      simp at this

/-! ### strictly increasing -/

theorem string_lt_of_not_lt_of_ne {x y : String} (h1 : ¬ x < y) (h2 : x ≠ y) : y < x := by
  exact Std.lt_of_le_of_ne h1 (Ne.symm h2)

theorem pairwise_insertSorted (x : String) :
    ∀ l : List String, l.Pairwise (· < ·) → (insertSorted x l).Pairwise (· < ·)
  | [], _ => by simp [insertSorted]
  | y :: ys, h => by
      unfold insertSorted
      have hy := List.pairwise_cons.1 h
      by_cases h1 : x < y
      · simp only [h1, if_true]
        refine List.pairwise_cons.2 ⟨?_, h⟩
        intro z hz
        rcases List.mem_cons.1 hz with rfl | hz
        · exact h1
        · exact String.lt_trans h1 (hy.1 z hz)
      · by_cases h2 : (x == y) = true
        · simp [h1, h2, h]
        · simp only [h1, h2, if_false, Bool.false_eq_true]
          have hne : x ≠ y := by simpa using h2
          have hyx : y < x := string_lt_of_not_lt_of_ne h1 hne
          refine List.pairwise_cons.2 ⟨?_, pairwise_insertSorted x ys hy.2⟩
          intro z hz
          rcases (mem_insertSorted x z ys).1 hz with rfl | hz
          · exact hyx
          · exact hy.1 z hz

theorem pairwise_sortDedup : ∀ l : List String, (sortDedup l).Pairwise (· < ·)
  | [] => by simp [sortDedup]
  | x :: xs => by
      have ih := pairwise_sortDedup xs
      simp only [sortDedup, List.foldr_cons] at ih ⊢
      exact pairwise_insertSorted x _ ih

theorem nodup_sortDedup (l : List String) : (sortDedup l).Nodup := by
  have := pairwise_sortDedup l
  refine this.imp ?_
  intro a b h e
  subst e
  exact String.lt_irrefl a h

/-! ### `hasDup` is the negation of `Nodup` -/

theorem hasDup_eq_false_iff : ∀ l : List String, hasDup l = false ↔ l.Nodup
  | [] => by simp [hasDup]
  | x :: xs => by
      simp only [hasDup, Bool.or_eq_false_iff, hasDup_eq_false_iff xs, List.nodup_cons]
      simp

/-! ### the parameter list -/

theorem mem_params_of_mem (cfg : GenCfg) (e : Experiment) (n : String)
    (h : n ∈ e.localVars ++ e.condIds cfg) : n ∈ e.params cfg := by
  unfold Experiment.params
  simp only [List.mem_append] at h
  by_cases hd : cfg.dedupSig = true
  · simp only [hd, if_true, List.mem_append, List.mem_filter]
    rcases h with h | h
    · exact Or.inl h
    · by_cases hl : n ∈ e.localVars
      · exact Or.inl hl
      · exact Or.inr ⟨h, by simpa using hl⟩
  · have hd' : cfg.dedupSig = false := by simpa using hd
    simp only [hd', Bool.false_eq_true, if_false, List.mem_append]
    exact h

theorem mem_of_mem_params (cfg : GenCfg) (e : Experiment) (n : String)
    (h : n ∈ e.params cfg) : n ∈ e.localVars ++ e.condIds cfg := by
  unfold Experiment.params at h
  by_cases hd : cfg.dedupSig = true
  · simp only [hd, if_true, List.mem_append, List.mem_filter] at h
    simp only [List.mem_append]
    rcases h with h | h
    · exact Or.inl h
    · exact Or.inr h.1
  · simpa [hd] using h

theorem nodup_params (cfg : GenCfg) (hd : cfg.dedupSig = true) (e : Experiment) : (e.params cfg).Nodup := by
  unfold Experiment.params
  simp only [hd, if_true]
  refine List.nodup_append.2 ⟨?_, ?_, ?_⟩
  · unfold Experiment.localVars
    cases e.splitters with
    | none => simp
    | some l => exact nodup_sortDedup l
  · exact (nodup_sortDedup _).filter _
  · intro a ha b hb hab
    subst hab
    have := (List.mem_filter.1 hb).2
    simp at this
    exact this ha

end Pyab.Proofs.Run
