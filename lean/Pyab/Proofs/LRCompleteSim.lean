/-
  Completeness of the generated LR tables on canonical renderings — part 2:
  facts read off the concrete tables (by evaluation) and, per nonterminal, the simulation
  lemma "the driver, started in a state where the nonterminal may begin and run on the
  canonical tokens of a well-formed subtree followed by `rest`, reaches the goto state
  with exactly that subtree as semantic value and `rest` left".
-/
import Pyab.Proofs.LRCompleteBase
namespace Pyab.Proofs.LRC
open Pyab Pyab.Spec

/-! ### State classes and follow sets -/

/-- states in which a `literal` may start -/
def litStart : List Nat := [15, 21, 22, 36, 37, 41, 60, 62, 74, 16, 70]
/-- states in which a `term` may start -/
def termStart : List Nat := [15, 21, 22, 36, 37, 41, 60, 62, 74]
/-- states after the first / a later element of a tuple, where `op_term` starts -/
def opStart : List Nat := [40, 69, 68]
/-- lookaheads on which a finished term is reduced -/
def Fterm : List String := ["COMMA", "KW_AND", "KW_EQ", "KW_GE", "KW_GT", "KW_IN", "KW_LE", "KW_LT",
  "KW_NE", "KW_NOT_IN", "KW_OR", "LBRACE", "RPAREN"]
/-- lookaheads on which a finished literal is reduced -/
def Flit : List String := "KW_WEIGHTED" :: Fterm
/-- first tokens of a term -/
def FirstTerm : List String := ["ID", "LPAREN", "MINUS", "NON_NEG_FLOAT", "NON_NEG_INTEGER", "STRING_LITERAL"]

theorem Fterm_sub_Flit : ∀ k ∈ Fterm, k ∈ Flit := by decide
theorem termStart_sub_litStart : ∀ s ∈ termStart, s ∈ litStart := by decide

theorem litStart_facts : ∀ s ∈ litStart,
    act s "NON_NEG_INTEGER" = .shift 29 ∧ act s "NON_NEG_FLOAT" = .shift 28 ∧
    act s "STRING_LITERAL" = .shift 27 ∧ act s "MINUS" = .shift 30 ∧
    G s "literal" = some (gt s "literal") := by decide +kernel

theorem act30 : act 30 "NON_NEG_FLOAT" = .shift 50 ∧ act 30 "NON_NEG_INTEGER" = .shift 51 := by decide +kernel

theorem lit_reduce_facts : ∀ k ∈ Flit,
    act 27 k = .reduce 39 ∧ act 28 k = .reduce 40 ∧ act 29 k = .reduce 41 ∧
    act 50 k = .reduce 42 ∧ act 51 k = .reduce 43 := by decide +kernel

theorem dbl_neg_neg (d : Dbl) : Dbl.neg (Dbl.neg d) = d := by
  cases d <;> simp [Dbl.neg]

/-- shift step: `shift h` where `h : act s k = .shift n` for the current top state and
    next token -/
macro "shift " h:term : tactic => `(tactic| (apply Run.shift; exact $h))

/-- reduce step: `reduce redN h, hg` with `h : act s k = .reduce N` for the top state and the
    lookahead, `hg` the goto fact for the uncovered state -/
macro "reduce " l:ident h:term ", " hg:term : tactic => `(tactic| (apply $l; exact $h; exact $hg))

theorem negzero_flag_of_zero (d : Dbl) (hz : dblIsZero d = true) :
    Term.float (Dbl.neg d) (negZeroFlag d)
      = Term.float d true := by
  cases d with
  | fin m e =>
    unfold dblIsZero at hz
    split at hz
    · rename_i heq
      cases heq
      rfl
    · cases hz
  | pinf => cases hz
  | ninf => cases hz
  | nan => cases hz

theorem negzero_flag_of_neg (d : Dbl) (hneg : dblIsNeg d = true) :
    Term.float (Dbl.neg (Dbl.neg d)) (negZeroFlag (Dbl.neg d)) = Term.float d false := by
  rw [dbl_neg_neg]
  cases d with
  | fin m e =>
    have hm : m < 0 := by simpa [dblIsNeg] using hneg
    have : negZeroFlag (Dbl.neg (Dbl.fin m e)) = false := by
      unfold Dbl.neg negZeroFlag
      split
      · rename_i heq
        simp only [Dbl.fin.injEq] at heq
        omega
      · rfl
    rw [this]
  | pinf => cases hneg
  | ninf => rfl
  | nan => cases hneg

/-- `literal`: int / float / string literals, in any state where a literal may start -/
theorem run_literal (t : Term) (hl : termIsLiteral t = true) (hwf : termWF t = true)
    (σ : List Entry) (rest : List Token) (hs : topState σ ∈ litStart) (hla : la rest ∈ Flit) :
    Run (2 * (tokensOfTerm t).length) σ (tokensOfTerm t ++ rest)
      (⟨gt (topState σ) "literal", "literal", .term t⟩ :: σ) rest := by
  obtain ⟨hI, hF, hS, hM, hg⟩ := litStart_facts _ hs
  obtain ⟨r27, r28, r29, r50, r51⟩ := lit_reduce_facts _ hla
  cases t with
  | int i =>
    simp only [tokensOfTerm, tokensOfInt]
    split
    · rename_i hi
      have hcast : ((i.toNat : Nat) : Int) = i := Int.toNat_of_nonneg hi
      apply Run.mono
      · shift hI
        apply red41 r29 hg
        rw [hcast]; exact Run.refl
      · simp
    · rename_i hi
      have hcast : -((i.natAbs : Nat) : Int) = i := by omega
      apply Run.mono
      · shift hM
        shift act30.2
        apply red43 r51 hg
        rw [hcast]; exact Run.refl
      · simp
  | float d nz =>
    simp only [tokensOfTerm, tokensOfFloat]
    split
    · rename_i hnz
      subst hnz
      have hz : dblIsZero d = true := by simpa [termWF, floatWF] using hwf
      apply Run.mono
      · shift hM
        shift act30.1
        apply red42 r50 hg
        rw [negzero_flag_of_zero d hz]; exact Run.refl
      · simp
    · rename_i hnz
      have hnz' : nz = false := by simpa using hnz
      subst hnz'
      split
      · rename_i hneg
        apply Run.mono
        · shift hM
          shift act30.1
          apply red42 r50 hg
          rw [negzero_flag_of_neg d hneg]; exact Run.refl
        · simp
      · apply Run.mono
        · shift hF
          apply red40 r28 hg
          exact Run.refl
        · simp
  | str s =>
    apply Run.mono
    · shift hS
      apply red39 r27 hg
      exact Run.refl
    · simp [tokensOfTerm]
  | ident n => cases hl
  | tuple l => cases hl

/-! ### Terms -/

theorem topState_cons (s : Nat) (y : String) (v : Sem) (σ : List Entry) :
    topState (⟨s, y, v⟩ :: σ) = s := rfl

/-- the state reached by shifting `LPAREN` -/
def lpOf (s : Nat) : Nat := match act s "LPAREN" with | .shift n => n | _ => 0

theorem termStart_facts : ∀ s ∈ termStart,
    act s "ID" = .shift 25 ∧ act s "LPAREN" = .shift (lpOf s) ∧ lpOf s ∈ termStart ∧
    gt s "literal" = 26 ∧ G s "term" = some (gt s "term") ∧ G s "tuple" = some 24 ∧
    gt (lpOf s) "term" ∈ opStart ∧ gt (gt (lpOf s) "term") "op_term" = 58 := by decide +kernel

theorem term_reduce_facts : ∀ k ∈ Fterm,
    act 26 k = .reduce 22 ∧ act 25 k = .reduce 21 ∧ act 24 k = .reduce 20 ∧
    act 58 k = .reduce 23 ∧ act 59 k = .reduce 24 ∧ act 75 k = .reduce 25 := by decide +kernel

theorem opStart_facts : ∀ q ∈ opStart,
    act q "RPAREN" = .shift 59 ∧ act q "COMMA" = .shift 60 ∧
    G q "op_term" = some (gt q "op_term") := by decide +kernel

theorem state60_facts : 60 ∈ termStart ∧ gt 60 "term" = 68 ∧ 68 ∈ opStart ∧ gt 68 "op_term" = 75 := by
  decide +kernel

theorem la_opterm (l : List Term) (rest : List Token) : la (tokensOfOpTerm l ++ rest) ∈ Fterm := by
  cases l with
  | nil => simp only [tokensOfOpTerm, List.cons_append, la]; decide
  | cons t l => simp only [tokensOfOpTerm, List.cons_append, la]; decide

theorem tokensOfTerm_pos (t : Term) : 1 ≤ (tokensOfTerm t).length := by
  cases t with
  | int i => simp only [tokensOfTerm, tokensOfInt]; split <;> simp
  | float d nz =>
    simp only [tokensOfTerm, tokensOfFloat]
    split
    · simp
    · split <;> simp
  | str s => simp [tokensOfTerm]
  | ident n => simp [tokensOfTerm]
  | tuple l => cases l <;> simp [tokensOfTerm]

/-- a literal as a `term` -/
theorem run_term_literal (t : Term) (hl : termIsLiteral t = true) (hwf : termWF t = true)
    (σ : List Entry) (rest : List Token) (hs : topState σ ∈ termStart) (hla : la rest ∈ Fterm) :
    Run (3 * (tokensOfTerm t).length) σ (tokensOfTerm t ++ rest)
      (⟨gt (topState σ) "term", "term", .term t⟩ :: σ) rest := by
  obtain ⟨_, _, _, hlit, hgT, _, _, _⟩ := termStart_facts _ hs
  obtain ⟨r26, _, _, _, _, _⟩ := term_reduce_facts _ hla
  have hpos := tokensOfTerm_pos t
  apply Run.mono
  · apply Run.trans (run_literal t hl hwf σ rest (termStart_sub_litStart _ hs) (Fterm_sub_Flit _ hla))
    rw [hlit]
    apply red22 r26 hgT
    exact Run.refl
  · omega

mutual
/-- `term`, in any state where a term may start, followed by anything a term may be
    followed by -/
theorem run_term : (t : Term) → termWF t = true → ∀ (σ : List Entry) (rest : List Token),
    topState σ ∈ termStart → la rest ∈ Fterm →
    Run (3 * (tokensOfTerm t).length) σ (tokensOfTerm t ++ rest)
      (⟨gt (topState σ) "term", "term", .term t⟩ :: σ) rest
  | .int i, hwf, σ, rest, hs, hla => run_term_literal _ rfl hwf σ rest hs hla
  | .float d nz, hwf, σ, rest, hs, hla => run_term_literal _ rfl hwf σ rest hs hla
  | .str s, hwf, σ, rest, hs, hla => run_term_literal _ rfl hwf σ rest hs hla
  | .ident n, _, σ, rest, hs, hla => by
    obtain ⟨hID, _, _, _, hgT, _, _, _⟩ := termStart_facts _ hs
    obtain ⟨_, r25, _, _, _, _⟩ := term_reduce_facts _ hla
    simp only [tokensOfTerm, List.cons_append, List.nil_append]
    apply Run.mono
    · shift hID
      apply red21 r25 hgT
      exact Run.refl
    · simp
  | .tuple [], hwf, _, _, _, _ => by simp [termWF] at hwf
  | .tuple (t :: l), hwf, σ, rest, hs, hla => by
    obtain ⟨_, hLP, hlp, _, hgT, hgTu, hop, h58⟩ := termStart_facts _ hs
    obtain ⟨_, _, r24, r58, _, _⟩ := term_reduce_facts _ hla
    have hwt : termWF t = true := by simp [termWF] at hwf; exact hwf.1
    have hwl : termsWF l = true := by simp [termWF] at hwf; exact hwf.2
    simp only [tokensOfTerm, List.cons_append, List.append_assoc]
    apply Run.mono
    · shift hLP
      apply Run.trans (run_term t hwt (⟨lpOf (topState σ), _, _⟩ :: σ) _ hlp (la_opterm l rest))
      apply Run.trans (run_opterm l hwl (⟨gt (lpOf (topState σ)) "term", _, _⟩ :: _) _ hop hla)
      simp only [topState_cons]
      rw [h58]
      apply red23 r58 hgTu
      apply red20 r24 hgT
      exact Run.refl
    · simp only [List.length_cons, List.length_append]; omega
/-- `op_term`: the rest of a tuple -/
theorem run_opterm : (l : List Term) → termsWF l = true → ∀ (σ : List Entry) (rest : List Token),
    topState σ ∈ opStart → la rest ∈ Fterm →
    Run (3 * (tokensOfOpTerm l).length) σ (tokensOfOpTerm l ++ rest)
      (⟨gt (topState σ) "op_term", "op_term", .terms l⟩ :: σ) rest
  | [], _, σ, rest, hs, hla => by
    obtain ⟨hRP, _, hgO⟩ := opStart_facts _ hs
    obtain ⟨_, _, _, _, r59, _⟩ := term_reduce_facts _ hla
    simp only [tokensOfOpTerm, List.cons_append, List.nil_append]
    apply Run.mono
    · shift hRP
      apply red24 r59 hgO
      exact Run.refl
    · simp
  | t :: l, hwf, σ, rest, hs, hla => by
    obtain ⟨_, hCO, hgO⟩ := opStart_facts _ hs
    obtain ⟨_, _, _, _, _, r75⟩ := term_reduce_facts _ hla
    obtain ⟨h60, h68, h68m, h75⟩ := state60_facts
    have hwt : termWF t = true := by simp [termsWF] at hwf; exact hwf.1
    have hwl : termsWF l = true := by simp [termsWF] at hwf; exact hwf.2
    simp only [tokensOfOpTerm, List.cons_append, List.append_assoc]
    apply Run.mono
    · shift hCO
      apply Run.trans (run_term t hwt (⟨60, _, _⟩ :: σ) _ h60 (la_opterm l rest))
      simp only [topState_cons]
      rw [h68]
      apply Run.trans (run_opterm l hwl (⟨68, _, _⟩ :: _) _ h68m hla)
      simp only [topState_cons]
      rw [h75]
      apply red25 r75 hgO
      exact Run.refl
    · simp only [List.length_cons, List.length_append]; omega
end

/-! ### Predicates -/

/-- states in which a canonical predicate may start: after `KW_IF`, `KW_ELIF`, `LPAREN` -/
def predStart : List Nat := [15, 74, 22]
/-- states in which a parenthesised predicate may start: those, and after `KW_NOT` / `KW_OR` / `KW_AND` -/
def parenStart : List Nat := [15, 74, 22, 21, 36, 37]
/-- states after the left operand of a comparison -/
def cmpMid : List Nat := [23, 40]
/-- lookaheads on which a finished predicate is reduced -/
def Fpred : List String := ["KW_AND", "KW_OR", "LBRACE", "RPAREN"]
/-- what follows a canonical predicate: `{` or `)` -/
def Fpred0 : List String := ["LBRACE", "RPAREN"]

theorem Fpred0_sub_Fpred : ∀ k ∈ Fpred0, k ∈ Fpred := by decide
theorem Fpred0_sub_Fterm : ∀ k ∈ Fpred0, k ∈ Fterm := by decide

theorem parenStart_facts : ∀ s ∈ parenStart,
    act s "LPAREN" = .shift 22 ∧ G s "predicate" = some (gt s "predicate") := by decide +kernel

theorem paren_facts : 22 ∈ predStart ∧ gt 22 "predicate" = 39 ∧ act 39 "RPAREN" = .shift 57 := by
  decide +kernel

theorem pred_reduce_facts : ∀ k ∈ Fpred,
    act 57 k = .reduce 18 ∧ act 61 k = .reduce 19 ∧ act 56 k = .reduce 17 ∧
    act 38 k = .reduce 15 := by decide +kernel

theorem or_reduce_facts : ∀ k ∈ Fpred0, act 55 k = .reduce 16 := by decide +kernel

theorem predStart_facts : ∀ s ∈ predStart,
    s ∈ termStart ∧ s ∈ parenStart ∧ act s "KW_NOT" = .shift 21 ∧
    G s "predicate" = some (gt s "predicate") ∧ gt s "term" ∈ cmpMid ∧
    act (gt s "predicate") "KW_AND" = .shift 37 ∧ act (gt s "predicate") "KW_OR" = .shift 36 := by
  decide +kernel

theorem cmpMid_facts : ∀ q ∈ cmpMid,
    G q "logical_op" = some 41 ∧
    act q "KW_NOT_IN" = .shift 42 ∧ act q "KW_EQ" = .shift 43 ∧ act q "KW_NE" = .shift 44 ∧
    act q "KW_IN" = .shift 45 ∧ act q "KW_LE" = .shift 46 ∧ act q "KW_GE" = .shift 47 ∧
    act q "KW_GT" = .shift 48 ∧ act q "KW_LT" = .shift 49 := by decide +kernel

theorem op_reduce_facts : ∀ k ∈ FirstTerm,
    act 42 k = .reduce 26 ∧ act 43 k = .reduce 27 ∧ act 44 k = .reduce 28 ∧ act 45 k = .reduce 29 ∧
    act 46 k = .reduce 30 ∧ act 47 k = .reduce 31 ∧ act 48 k = .reduce 32 ∧ act 49 k = .reduce 33 := by
  decide +kernel

theorem pred_state_facts :
    41 ∈ termStart ∧ gt 41 "term" = 61 ∧ 21 ∈ parenStart ∧ gt 21 "predicate" = 38 ∧
    36 ∈ parenStart ∧ gt 36 "predicate" = 55 ∧ 37 ∈ parenStart ∧ gt 37 "predicate" = 56 := by
  decide +kernel

theorem la_term_first (t : Term) (rest : List Token) : la (tokensOfTerm t ++ rest) ∈ FirstTerm := by
  cases t with
  | int i => simp only [tokensOfTerm, tokensOfInt]; split <;> (simp only [List.cons_append, la]; decide)
  | float d nz =>
    simp only [tokensOfTerm, tokensOfFloat]
    split
    · simp only [List.cons_append, la]; decide
    · split <;> (simp only [List.cons_append, la]; decide)
  | str s => simp only [tokensOfTerm, List.cons_append, la]; decide
  | ident n => simp only [tokensOfTerm, List.cons_append, la]; decide
  | tuple l => cases l <;> (simp only [tokensOfTerm, List.cons_append, la]; decide)

theorem op_kind_mem (op : CmpOp) : (tokenOfOp op).kind ∈ Fterm := by
  cases op <;> decide

/-- a comparison operator token: shift, then `logical_op → KW_…` -/
theorem run_op (op : CmpOp) (σ : List Entry) (rest : List Token)
    (hs : topState σ ∈ cmpMid) (hla : la rest ∈ FirstTerm) :
    Run 2 σ (tokenOfOp op :: rest) (⟨41, "logical_op", .op op⟩ :: σ) rest := by
  obtain ⟨hg, hNI, hEQ, hNE, hIN, hLE, hGE, hGT, hLT⟩ := cmpMid_facts _ hs
  obtain ⟨r42, r43, r44, r45, r46, r47, r48, r49⟩ := op_reduce_facts _ hla
  cases op with
  | eq => apply Run.mono; (· shift hEQ; apply red27 r43 hg; exact Run.refl); simp
  | gt => apply Run.mono; (· shift hGT; apply red32 r48 hg; exact Run.refl); simp
  | lt => apply Run.mono; (· shift hLT; apply red33 r49 hg; exact Run.refl); simp
  | ge => apply Run.mono; (· shift hGE; apply red31 r47 hg; exact Run.refl); simp
  | le => apply Run.mono; (· shift hLE; apply red30 r46 hg; exact Run.refl); simp
  | ne => apply Run.mono; (· shift hNE; apply red28 r44 hg; exact Run.refl); simp
  | isIn => apply Run.mono; (· shift hIN; apply red29 r45 hg; exact Run.refl); simp
  | notIn => apply Run.mono; (· shift hNI; apply red26 r42 hg; exact Run.refl); simp

/-- the simulation statement for a predicate -/
def PredRuns (p : Pred) : Prop :=
  ∀ (σ : List Entry) (rest : List Token), topState σ ∈ predStart → la rest ∈ Fpred0 →
    Run (3 * (tokensOfPred p).length) σ (tokensOfPred p ++ rest)
      (⟨gt (topState σ) "predicate", "predicate", .pred p⟩ :: σ) rest

/-- `LPAREN predicate RPAREN`, in any state where that may start, before `and` / `or` / `{` / `)` -/
theorem run_paren (p : Pred) (ih : PredRuns p) (σ : List Entry) (rest : List Token)
    (hs : topState σ ∈ parenStart) (hla : la rest ∈ Fpred) :
    Run (3 * (tokensOfPred p).length + 3) σ
      (tk "LPAREN" "(" :: (tokensOfPred p ++ tk "RPAREN" ")" :: rest))
      (⟨gt (topState σ) "predicate", "predicate", .pred p⟩ :: σ) rest := by
  obtain ⟨hLP, hg⟩ := parenStart_facts _ hs
  obtain ⟨h22, h39, hRP⟩ := paren_facts
  obtain ⟨r57, _, _, _⟩ := pred_reduce_facts _ hla
  have hr : la (tk "RPAREN" ")" :: rest) ∈ Fpred0 := by show "RPAREN" ∈ Fpred0; decide
  apply Run.mono
  · shift hLP
    apply Run.trans (ih (⟨22, _, _⟩ :: σ) _ h22 hr)
    simp only [topState_cons]
    rw [h39]
    shift hRP
    apply red18 r57 hg
    exact Run.refl
  · omega

/-- `predicate` (canonical, fully parenthesised rendering) -/
theorem run_pred : (p : Pred) → predWF p = true → PredRuns p
  | .cmp l op r, hwf, σ, rest, hs, hla => by
    obtain ⟨hsT, _, _, hg, hmid, _, _⟩ := predStart_facts _ hs
    obtain ⟨h41, h61, _, _, _, _, _, _⟩ := pred_state_facts
    obtain ⟨_, r61, _, _⟩ := pred_reduce_facts _ (Fpred0_sub_Fpred _ hla)
    have hwl : termWF l = true := by simp [predWF] at hwf; exact hwf.1
    have hwr : termWF r = true := by simp [predWF] at hwf; exact hwf.2
    have hop : la (tokenOfOp op :: (tokensOfTerm r ++ rest)) ∈ Fterm := op_kind_mem op
    simp only [tokensOfPred, List.cons_append, List.append_assoc]
    apply Run.mono
    · apply Run.trans (run_term l hwl σ _ hsT hop)
      apply Run.trans (run_op op (⟨gt (topState σ) "term", _, _⟩ :: σ) _ hmid (la_term_first r rest))
      apply Run.trans (run_term r hwr (⟨41, _, _⟩ :: _) _ h41 (Fpred0_sub_Fterm _ hla))
      simp only [topState_cons]
      rw [h61]
      apply red19 r61 hg
      exact Run.refl
    · simp only [List.length_cons, List.length_append]; omega
  | .and a b, hwf, σ, rest, hs, hla => by
    obtain ⟨_, hsP, _, hg, _, hAND, _⟩ := predStart_facts _ hs
    obtain ⟨_, _, _, _, _, _, h37, h56⟩ := pred_state_facts
    obtain ⟨_, _, r56, _⟩ := pred_reduce_facts _ (Fpred0_sub_Fpred _ hla)
    have hwa : predWF a = true := by simp [predWF] at hwf; exact hwf.1
    have hwb : predWF b = true := by simp [predWF] at hwf; exact hwf.2
    have hk : la (tk "KW_AND" "and" :: tk "LPAREN" "(" :: (tokensOfPred b ++ tk "RPAREN" ")" :: rest)) ∈ Fpred := by
      show "KW_AND" ∈ Fpred; decide
    simp only [tokensOfPred, List.cons_append, List.append_assoc, List.nil_append]
    apply Run.mono
    · apply Run.trans (run_paren a (run_pred a hwa) σ _ hsP hk)
      shift hAND
      apply Run.trans (run_paren b (run_pred b hwb) (⟨37, _, _⟩ :: _) _ h37 (Fpred0_sub_Fpred _ hla))
      simp only [topState_cons]
      rw [h56]
      apply red17 r56 hg
      exact Run.refl
    · simp only [List.length_cons, List.length_append]; omega
  | .or a b, hwf, σ, rest, hs, hla => by
    obtain ⟨_, hsP, _, hg, _, _, hOR⟩ := predStart_facts _ hs
    obtain ⟨_, _, _, _, h36, h55, _, _⟩ := pred_state_facts
    have r55 := or_reduce_facts _ hla
    have hwa : predWF a = true := by simp [predWF] at hwf; exact hwf.1
    have hwb : predWF b = true := by simp [predWF] at hwf; exact hwf.2
    have hk : la (tk "KW_OR" "or" :: tk "LPAREN" "(" :: (tokensOfPred b ++ tk "RPAREN" ")" :: rest)) ∈ Fpred := by
      show "KW_OR" ∈ Fpred; decide
    simp only [tokensOfPred, List.cons_append, List.append_assoc, List.nil_append]
    apply Run.mono
    · apply Run.trans (run_paren a (run_pred a hwa) σ _ hsP hk)
      shift hOR
      apply Run.trans (run_paren b (run_pred b hwb) (⟨36, _, _⟩ :: _) _ h36 (Fpred0_sub_Fpred _ hla))
      simp only [topState_cons]
      rw [h55]
      apply red16 r55 hg
      exact Run.refl
    · simp only [List.length_cons, List.length_append]; omega
  | .not a, hwf, σ, rest, hs, hla => by
    obtain ⟨_, _, hNOT, hg, _, _, _⟩ := predStart_facts _ hs
    obtain ⟨_, _, h21, h38, _, _, _, _⟩ := pred_state_facts
    obtain ⟨_, _, _, r38⟩ := pred_reduce_facts _ (Fpred0_sub_Fpred _ hla)
    have hwa : predWF a = true := by simpa [predWF] using hwf
    simp only [tokensOfPred, List.cons_append, List.append_assoc, List.nil_append]
    apply Run.mono
    · shift hNOT
      apply Run.trans (run_paren a (run_pred a hwa) (⟨21, _, _⟩ :: σ) _ h21 (Fpred0_sub_Fpred _ hla))
      simp only [topState_cons]
      rw [h38]
      apply red15 r38 hg
      exact Run.refl
    · simp only [List.length_cons, List.length_append]; omega

end Pyab.Proofs.LRC
