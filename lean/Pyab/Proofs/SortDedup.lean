/-
  `sortDedup` (the model of Python's `sorted(set(names))`) is canonical: its result is
  strictly increasing, has exactly the members of its argument, and therefore depends on
  the *set* of names only.  Consequences for the hashed key (`keyOf`): it is the same for
  every declaration order / repetition of the splitter names; it determines the salt; and
  for a single field it determines the printed field value.  The documented
  non-injectivity (concatenation without separators, `str(1) == str('1')`) is recorded as
  examples.

  Only core order facts on `String` are used (`String.lt_irrefl`, `String.lt_trans`,
  `String.lt_asymm`, `String.le_antisymm`; `¬ a < b` unfolds to `b ≤ a`).
-/
import Pyab.Model.Codegen
import Pyab.Model.PyExec
namespace Pyab.Proofs
open Pyab

/-! ### `<` on `String` is a strict total order -/

/-- trichotomy in the form used below -/
theorem str_eq_of_not_lt_of_not_gt {a b : String} (h1 : ¬ a < b) (h2 : ¬ b < a) : a = b :=
  String.le_antisymm (String.not_lt.mp h2) (String.not_lt.mp h1)

theorem str_lt_of_not_lt_of_ne {a b : String} (h1 : ¬ a < b) (h2 : a ≠ b) : b < a :=
  Decidable.byContradiction fun h => h2 (str_eq_of_not_lt_of_not_gt h1 h)

/-! ### `insertSorted` -/

theorem mem_insertSorted (a x : String) (l : List String) :
    a ∈ insertSorted x l ↔ a = x ∨ a ∈ l := by
  induction l with
  | nil => simp [insertSorted]
  | cons y ys ih =>
    unfold insertSorted
    split
    · simp
    · split
      · next hxy =>
        have : x = y := by simpa using hxy
        subst this
        simp
      · simp only [List.mem_cons, ih]
        constructor
        · rintro (h | h | h)
          · exact .inr (.inl h)
          · exact .inl h
          · exact .inr (.inr h)
        · rintro (h | h | h)
          · exact .inr (.inl h)
          · exact .inl h
          · exact .inr (.inr h)

theorem insertSorted_sorted (x : String) (l : List String) (h : l.Pairwise (· < ·)) :
    (insertSorted x l).Pairwise (· < ·) := by
  induction l with
  | nil => simp [insertSorted]
  | cons y ys ih =>
    have hy : ∀ z ∈ ys, y < z := (List.pairwise_cons.mp h).1
    have hys : ys.Pairwise (· < ·) := (List.pairwise_cons.mp h).2
    unfold insertSorted
    split
    · next hxy =>
      refine List.pairwise_cons.mpr ⟨?_, h⟩
      intro z hz
      rcases List.mem_cons.mp hz with rfl | hz
      · exact hxy
      · exact String.lt_trans hxy (hy z hz)
    · next hxy =>
      split
      · exact h
      · next hne =>
        have hne' : x ≠ y := by simpa using hne
        have hyx : y < x := str_lt_of_not_lt_of_ne hxy hne'
        refine List.pairwise_cons.mpr ⟨?_, ih hys⟩
        intro z hz
        rcases (mem_insertSorted z x ys).mp hz with rfl | hz
        · exact hyx
        · exact hy z hz

/-! ### `sortDedup` -/

@[simp] theorem sortDedup_nil : sortDedup [] = [] := rfl

@[simp] theorem sortDedup_cons (x : String) (xs : List String) :
    sortDedup (x :: xs) = insertSorted x (sortDedup xs) := rfl

/-- `sorted(set(xs))` has exactly the members of `xs` -/
theorem mem_sortDedup (x : String) (xs : List String) : x ∈ sortDedup xs ↔ x ∈ xs := by
  induction xs with
  | nil => simp
  | cons y ys ih => simp [mem_insertSorted, ih]

/-- `sorted(set(xs))` is strictly increasing (so it has no duplicates) -/
theorem sortDedup_sorted (xs : List String) : (sortDedup xs).Pairwise (· < ·) := by
  induction xs with
  | nil => simp
  | cons y ys ih => exact insertSorted_sorted y _ ih

theorem sortDedup_nodup (xs : List String) : (sortDedup xs).Nodup :=
  (sortDedup_sorted xs).imp fun h => String.ne_of_lt h

/-- two strictly increasing lists with the same members are equal -/
theorem sorted_ext : ∀ (l1 l2 : List String), l1.Pairwise (· < ·) → l2.Pairwise (· < ·) →
    (∀ x, x ∈ l1 ↔ x ∈ l2) → l1 = l2
  | [], l2, _, _, h => by
      symm
      exact List.eq_nil_iff_forall_not_mem.mpr fun a ha => by simpa using (h a).mpr ha
  | a :: l1, [], _, _, h => by
      have := (h a).mp (by simp)
      simp at this
  | a :: l1, b :: l2, h1, h2, h => by
      have ha : ∀ z ∈ l1, a < z := (List.pairwise_cons.mp h1).1
      have hb : ∀ z ∈ l2, b < z := (List.pairwise_cons.mp h2).1
      have hab : a = b := by
        apply Decidable.byContradiction
        intro hne
        have h1' : b < a := by
          rcases List.mem_cons.mp ((h a).mp (by simp)) with e | m
          · exact absurd e hne
          · exact hb a m
        have h2' : a < b := by
          rcases List.mem_cons.mp ((h b).mpr (by simp)) with e | m
          · exact absurd e.symm hne
          · exact ha b m
        exact String.lt_asymm h1' h2'
      subst hab
      have htl : l1 = l2 := by
        apply sorted_ext l1 l2 (List.pairwise_cons.mp h1).2 (List.pairwise_cons.mp h2).2
        intro x
        constructor
        · intro hx
          rcases List.mem_cons.mp ((h x).mp (List.mem_cons_of_mem _ hx)) with e | m
          · subst e; exact absurd (ha x hx) (String.lt_irrefl x)
          · exact m
        · intro hx
          rcases List.mem_cons.mp ((h x).mpr (List.mem_cons_of_mem _ hx)) with e | m
          · subst e; exact absurd (hb x hx) (String.lt_irrefl x)
          · exact m
      rw [htl]

/-- `sorted(set(xs))` depends only on the *set* of names: order and repetition are irrelevant -/
theorem sortDedup_ext (xs ys : List String) (h : ∀ x, x ∈ xs ↔ x ∈ ys) :
    sortDedup xs = sortDedup ys :=
  sorted_ext _ _ (sortDedup_sorted xs) (sortDedup_sorted ys) fun x => by
    rw [mem_sortDedup, mem_sortDedup]; exact h x

theorem sortDedup_perm (xs ys : List String) (h : xs.Perm ys) : sortDedup xs = sortDedup ys :=
  sortDedup_ext xs ys fun _ => h.mem_iff

/-- a strictly increasing list is a fixed point -/
theorem sortDedup_of_sorted (l : List String) (h : l.Pairwise (· < ·)) : sortDedup l = l :=
  sorted_ext _ _ (sortDedup_sorted l) h (fun x => mem_sortDedup x l)

theorem sortDedup_idem (xs : List String) : sortDedup (sortDedup xs) = sortDedup xs :=
  sortDedup_of_sorted _ (sortDedup_sorted xs)

/-- repetition is irrelevant -/
theorem sortDedup_append_self (xs : List String) : sortDedup (xs ++ xs) = sortDedup xs :=
  sortDedup_ext _ _ fun x => by simp

/-- order is irrelevant -/
theorem sortDedup_reverse (xs : List String) : sortDedup xs.reverse = sortDedup xs :=
  sortDedup_ext _ _ fun x => by simp

/-! ### key canonicity -/

theorem localVars_ext (e e' : Experiment) (xs ys : List String)
    (h1 : e.splitters = some xs) (h2 : e'.splitters = some ys)
    (hset : ∀ x, x ∈ xs ↔ x ∈ ys) : e.localVars = e'.localVars := by
  simp only [Experiment.localVars, h1, h2]
  exact sortDedup_ext xs ys hset

theorem localVars_sorted (e : Experiment) : e.localVars.Pairwise (· < ·) := by
  unfold Experiment.localVars
  split
  · exact sortDedup_sorted _
  · exact List.Pairwise.nil

theorem keyOf_canonical (pr : Nat → Bool) (salt : String) (xs ys : List String) (env : Env)
    (hset : ∀ x, x ∈ xs ↔ x ∈ ys) :
    keyOf pr salt (sortDedup xs) env = keyOf pr salt (sortDedup ys) env := by
  rw [sortDedup_ext xs ys hset]

/-! ### shape of the key -/

/-- `str(value of n)` or `NameError` -/
def keyPart (pr : Nat → Bool) (env : Env) (n : String) : Except Err String :=
  match env.get n with
  | some v => PyVal.pyStr pr v
  | none => throw .nameError

theorem keyOf_eq (pr : Nat → Bool) (salt : String) (names : List String) (env : Env) :
    keyOf pr salt names env =
      (names.mapM (keyPart pr env)).map (fun vals => salt ++ String.join vals) := by
  show (do let vals ← names.mapM (keyPart pr env); pure (salt ++ String.join vals)) = _
  cases names.mapM (keyPart pr env) <;> rfl

/-- a successful key is the salt followed by a suffix that does not depend on the salt -/
theorem keyOf_ok_iff (pr : Nat → Bool) (salt : String) (names : List String) (env : Env) (k : String) :
    keyOf pr salt names env = .ok k ↔
      ∃ vals, names.mapM (keyPart pr env) = .ok vals ∧ k = salt ++ String.join vals := by
  rw [keyOf_eq]
  cases names.mapM (keyPart pr env) with
  | error e => simp [Except.map]
  | ok vals => simp [Except.map, eq_comm]

theorem keyOf_nil (pr : Nat → Bool) (salt : String) (env : Env) : keyOf pr salt [] env = .ok salt := by
  rw [keyOf_ok_iff]; exact ⟨[], rfl, by simp⟩

theorem keyOf_single (pr : Nat → Bool) (salt n : String) (env : Env) (v : PyVal) (p : String)
    (hget : env.get n = some v) (hp : PyVal.pyStr pr v = .ok p) :
    keyOf pr salt [n] env = .ok (salt ++ p) := by
  rw [keyOf_ok_iff]
  refine ⟨[p], ?_, by simp⟩
  have : keyPart pr env n = .ok p := by simp [keyPart, hget, hp]
  simp [this]
  rfl

/-- the key is a function of the per-name printed values only -/
theorem keyOf_congr (pr : Nat → Bool) (salt : String) (names : List String) (env env' : Env)
    (h : ∀ n ∈ names, keyPart pr env n = keyPart pr env' n) :
    keyOf pr salt names env = keyOf pr salt names env' := by
  rw [keyOf_eq, keyOf_eq]
  congr 1
  induction names with
  | nil => rfl
  | cons n ns ih =>
    rw [List.mapM_cons, List.mapM_cons, h n (by simp), ih fun m hm => h m (List.mem_cons_of_mem _ hm)]

/-! ### injectivity facts -/

/-- same fields, same arguments: equal keys force equal salts -/
theorem keyOf_salt_injective (pr : Nat → Bool) (s1 s2 : String) (names : List String) (env : Env) (k1 k2 : String)
    (h1 : keyOf pr s1 names env = .ok k1) (h2 : keyOf pr s2 names env = .ok k2) (hk : k1 = k2) :
    s1 = s2 := by
  obtain ⟨v1, hv1, rfl⟩ := (keyOf_ok_iff ..).mp h1
  obtain ⟨v2, hv2, rfl⟩ := (keyOf_ok_iff ..).mp h2
  rw [hv1] at hv2
  cases hv2
  exact (String.append_left_inj _).mp hk

/-- contrapositive: different salts give different keys (when the key exists) -/
theorem keyOf_ne_of_salt_ne (pr : Nat → Bool) (s1 s2 : String) (names : List String) (env : Env) (k1 k2 : String)
    (h1 : keyOf pr s1 names env = .ok k1) (h2 : keyOf pr s2 names env = .ok k2) (hs : s1 ≠ s2) :
    k1 ≠ k2 :=
  fun hk => hs (keyOf_salt_injective pr s1 s2 names env k1 k2 h1 h2 hk)

/-- one splitter field, same salt: values that print differently give different keys -/
theorem keyOf_single_injective (pr : Nat → Bool) (salt n : String) (env env' : Env) (v v' : PyVal) (p p' : String)
    (hget : env.get n = some v) (hget' : env'.get n = some v')
    (hp : PyVal.pyStr pr v = .ok p) (hp' : PyVal.pyStr pr v' = .ok p') (hne : p ≠ p') :
    keyOf pr salt [n] env ≠ keyOf pr salt [n] env' := by
  rw [keyOf_single pr salt n env v p hget hp, keyOf_single pr salt n env' v' p' hget' hp']
  intro h
  exact hne ((String.append_right_inj _).mp (Except.ok.inj h))

/-- one splitter field: values that print the same give the same key -/
theorem keyOf_single_same_print (pr : Nat → Bool) (salt n : String) (env env' : Env) (v v' : PyVal)
    (hget : env.get n = some v) (hget' : env'.get n = some v')
    (hp : PyVal.pyStr pr v = PyVal.pyStr pr v') :
    keyOf pr salt [n] env = keyOf pr salt [n] env' := by
  apply keyOf_congr
  intro m hm
  have : m = n := by simpa using hm
  subst this
  simp [keyPart, hget, hget', hp]

/-! ### documented non-injectivity -/

/-- `str()` erases the type: the int `1` and the string `'1'` print the same -/
example (pr : Nat → Bool) : PyVal.pyStr pr (.int 1) = PyVal.pyStr pr (.str "1") := by rfl

/-- no separator between field values: `'ab' + 'c' = 'a' + 'bc'` -/
example (pr : Nat → Bool) : keyOf pr "" ["a", "b"] [("a", .str "ab"), ("b", .str "c")]
        = keyOf pr "" ["a", "b"] [("a", .str "a"), ("b", .str "bc")] := by rfl

/-- no separator between salt and values either -/
example (pr : Nat → Bool) : keyOf pr "s" ["a"] [("a", .str "x")] = keyOf pr "sx" ["a"] [("a", .str "")] := by rfl

end Pyab.Proofs
