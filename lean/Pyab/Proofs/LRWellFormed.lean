/-
  The converse of `Experiment.WF`: everything the LR driver accepts is well-formed.

  `Spec.Experiment.WF` claims to describe "exactly the ASTs the grammar actions can build".
  `LRComplete.lean` / `LRCompleteMin.lean` prove one half (every well-formed AST is built
  from its rendering); this file proves the other half, by an invariant over the driver's
  stack in the style of `LRSound.lean`: every semantic value on the stack is well-formed
  *for the grammar symbol it is stored under* (`semWF`), every shift pushes such a value,
  every grammar action maps such arguments to such a result, and at accept the single
  value left is the experiment.

  No hypothesis on the tokens is needed: the grammar actions themselves match on the
  payload constructor of the tokens they read (`.int` for `NON_NEG_INTEGER`, …) and fail
  otherwise, so a token list with mismatched payloads is not accepted in the first place.
  The only fact used about the tables is the generated flag `weightToFloat = true`
  (integer weights become floats); action / goto tables, production list and the
  `smart_union` flags are arbitrary.
-/
import Pyab.Model.Parser
import Pyab.Spec.Unparse
import Pyab.Generated.LRTables
namespace Pyab.Proofs.LRW
open Pyab Pyab.Spec

/-- a weight the actions build under `weightToFloat`: a float -/
def numWF : Num → Bool
  | .f _ => true
  | .i _ => false

/-- **well-formedness of a semantic value stored under grammar symbol `sym`.**
    The value type does not distinguish `literal` from `term`, nor `tuple` from `op_term`,
    so the symbol decides: under `literal` the term is an int / float / string, under
    `tuple` the list is non-empty. -/
def semWF (sym : String) : Sem → Bool
  | .tok _ => true
  | .unit => true
  | .str _ => true
  | .optStr _ => true
  | .fields l => !l.isEmpty
  | .optFields o => splittersWF o
  | .cond c => condWF c
  | .sub s => subWF s
  | .pred p => predWF p
  | .term t => termWF t && (sym != "literal" || termIsLiteral t)
  | .terms l => termsWF l && (sym != "tuple" || !l.isEmpty)
  | .op _ => true
  | .groups l => !l.isEmpty && groupsWF l
  | .num n => numWF n
  | .exp e => e.wf

/-- pointwise `semWF` of a symbol list and a value list -/
def zipWF : List String → List Sem → Bool
  | s :: ss, v :: vs => semWF s v && zipWF ss vs
  | _, _ => true

theorem zipWF_of_entries (args : List Entry) (h : ∀ a ∈ args, semWF a.sym a.sem = true) :
    zipWF (args.map (·.sym)) (args.map (·.sem)) = true := by
  induction args with
  | nil => rfl
  | cons a l ih =>
    simp only [List.map_cons, zipWF, Bool.and_eq_true]
    exact ⟨h a (List.mem_cons_self ..), ih (fun b hb => h b (List.mem_cons_of_mem _ hb))⟩

theorem termWF_tuple_cons (t : Term) (l : List Term) :
    termWF (.tuple (t :: l)) = (termWF t && termsWF l) := by
  simp only [termWF]

theorem termsWF_cons (t : Term) (l : List Term) :
    termsWF (t :: l) = (termWF t && termsWF l) := by
  simp only [termsWF]

/-- pydantic's operand validation keeps a term well-formed, with or without `smart_union` -/
theorem termWF_validateTerm (smart : Bool) (t : Term) (h : termWF t = true) :
    termWF (validateTerm smart t) = true := by
  cases t with
  | int i =>
    cases smart
    · simp only [validateTerm, Bool.false_eq_true, if_false, termWF, floatWF, Bool.not_false,
        Bool.true_or]
    · simp only [validateTerm, if_true, termWF]
  | _ => exact h

/-- `- x` on a float token: the flag is set only when the token's double is a zero, and the
    negation of a zero is a zero -/
theorem floatWF_neg (d : Dbl) :
    floatWF (Dbl.neg d) (match d with | .fin 0 _ => true | _ => false) = true := by
  unfold floatWF
  split
  · simp only [Dbl.neg, Int.neg_zero, dblIsZero, Bool.not_true, Bool.false_or]
  · simp only [Bool.not_false, Bool.true_or]

/-- the concrete tables -/
abbrev T : LRTables := Generated.lrTables

/-! ### Equations of the predicates on constructors (so that `simp only` never unfolds them on a variable) -/

theorem semWF_fields (s : String) (l : List String) : semWF s (.fields l) = !l.isEmpty := rfl
theorem semWF_optFields (s : String) (o : Option (List String)) : semWF s (.optFields o) = splittersWF o := rfl
theorem semWF_cond (s : String) (c : Cond) : semWF s (.cond c) = condWF c := rfl
theorem semWF_sub (s : String) (c : Sub) : semWF s (.sub c) = subWF c := rfl
theorem semWF_pred (s : String) (p : Pred) : semWF s (.pred p) = predWF p := rfl
theorem semWF_term (s : String) (t : Term) :
    semWF s (.term t) = (termWF t && (s != "literal" || termIsLiteral t)) := rfl
theorem semWF_terms (s : String) (l : List Term) :
    semWF s (.terms l) = (termsWF l && (s != "tuple" || !l.isEmpty)) := rfl
theorem semWF_groups (s : String) (l : List Group) : semWF s (.groups l) = (!l.isEmpty && groupsWF l) := rfl
theorem semWF_num (s : String) (n : Num) : semWF s (.num n) = numWF n := rfl
theorem semWF_exp (s : String) (e : Experiment) : semWF s (.exp e) = e.wf := rfl
theorem semWF_unit (s : String) : semWF s .unit = true := rfl
theorem semWF_str (s x : String) : semWF s (.str x) = true := rfl
theorem semWF_optStr (s : String) (x : Option String) : semWF s (.optStr x) = true := rfl
theorem semWF_op (s : String) (o : CmpOp) : semWF s (.op o) = true := rfl
theorem zipWF_cons (s : String) (ss : List String) (v : Sem) (vs : List Sem) :
    zipWF (s :: ss) (v :: vs) = (semWF s v && zipWF ss vs) := rfl
theorem zipWF_nil : zipWF [] [] = true := rfl
theorem groupWF_mk (t : Term) (w : Num) :
    groupWF ⟨t, w⟩ = (termIsLiteral t && termWF t && numWF w) := by
  cases w <;> rfl
theorem groupsWF_cons (g : Group) (gs : List Group) : groupsWF (g :: gs) = (groupWF g && groupsWF gs) := rfl
theorem condWF_ret (gs : List Group) : condWF (.ret gs) = (!gs.isEmpty && groupsWF gs) := by
  simp only [condWF]
theorem condWF_ifte (p : Pred) (c : Cond) (r : Sub) :
    condWF (.ifte p c r) = (predWF p && condWF c && subWF r) := by
  simp only [condWF]
theorem subWF_none : subWF .none = true := by simp only [subWF]
theorem subWF_else (c : Cond) : subWF (.else_ c) = condWF c := by simp only [subWF]
theorem subWF_elif (p : Pred) (c : Cond) (r : Sub) :
    subWF (.elif p c r) = (predWF p && condWF c && subWF r) := by
  simp only [subWF]

/-- closes the well-formedness goal of one grammar action from the well-formedness of its
    arguments (`hz`) -/
macro "wf_close" hz:ident : tactic => `(tactic|
  (simp only [zipWF_cons, zipWF_nil, semWF_fields, semWF_optFields, semWF_cond, semWF_sub, semWF_pred,
     semWF_term, semWF_terms, semWF_groups, semWF_num, semWF_exp, semWF_unit, semWF_str, semWF_optStr,
     semWF_op, Experiment.wf, condWF_ret, condWF_ifte, subWF_none, subWF_else, subWF_elif,
     predWF, termWF_tuple_cons, termsWF_cons, termWF, termsWF, groupsWF_cons, groupsWF, groupWF_mk,
     numWF, splittersWF, termIsLiteral, floatWF,
     List.isEmpty_cons, List.isEmpty_nil, Bool.and_eq_true, Bool.or_eq_true, Bool.not_eq_true',
     Bool.and_true, Bool.true_and, Bool.not_false, Bool.not_true, Bool.true_or, Bool.or_true,
     Bool.false_or, Bool.or_false, bne_self_eq_false, String.reduceBNe, and_true, true_and] at $hz:ident ⊢
   <;> first | done | simp only [$hz:ident, and_self] | grind))

/-! ### One lemma per production: the action maps well-formed arguments to a well-formed result

  `match vs, h with` inverts the action: the elaborator discharges every argument shape the
  action does not accept (there `h : none = some v`). -/

set_option linter.unusedVariables false

theorem act0 (vs : List Sem) (v : Sem) (hz : zipWF ["header"] vs = true)
    (h : semAction T ⟨"S'", ["header"]⟩ vs = some v) : semWF "S'" v = true := by
  cases h

theorem act1 (vs : List Sem) (v : Sem) (hz : zipWF ["header_id", "LBRACE", "opt_header_salt", "opt_splitter", "conditional", "RBRACE"] vs = true)
    (h : semAction T ⟨"header", ["header_id", "LBRACE", "opt_header_salt", "opt_splitter", "conditional", "RBRACE"]⟩ vs = some v) : semWF "header" v = true := by
  match vs, h with
  | [.str _, _, .optStr _, .optFields _, .cond _, _], h => cases h; wf_close hz

theorem act2 (vs : List Sem) (v : Sem) (hz : zipWF [] vs = true)
    (h : semAction T ⟨"empty", []⟩ vs = some v) : semWF "empty" v = true := by
  match vs, h with
  | [], h => cases h; wf_close hz

theorem act3 (vs : List Sem) (v : Sem) (hz : zipWF ["KW_DEF", "ID"] vs = true)
    (h : semAction T ⟨"header_id", ["KW_DEF", "ID"]⟩ vs = some v) : semWF "header_id" v = true := by
  match vs, h with
  | [_, .tok ⟨_, .raw _⟩], h => cases h; wf_close hz

theorem act4 (vs : List Sem) (v : Sem) (hz : zipWF ["KW_SALT", "COLON", "STRING_LITERAL"] vs = true)
    (h : semAction T ⟨"opt_header_salt", ["KW_SALT", "COLON", "STRING_LITERAL"]⟩ vs = some v) : semWF "opt_header_salt" v = true := by
  match vs, h with
  | [_, _, .tok ⟨_, .str _⟩], h => cases h; wf_close hz

theorem act5 (vs : List Sem) (v : Sem) (hz : zipWF ["empty"] vs = true)
    (h : semAction T ⟨"opt_header_salt", ["empty"]⟩ vs = some v) : semWF "opt_header_salt" v = true := by
  match vs, h with
  | [_], h => cases h; wf_close hz

theorem act6 (vs : List Sem) (v : Sem) (hz : zipWF ["KW_SPLITTERS", "COLON", "fields"] vs = true)
    (h : semAction T ⟨"opt_splitter", ["KW_SPLITTERS", "COLON", "fields"]⟩ vs = some v) : semWF "opt_splitter" v = true := by
  match vs, h with
  | [_, _, .fields _], h => cases h; wf_close hz

theorem act7 (vs : List Sem) (v : Sem) (hz : zipWF ["empty"] vs = true)
    (h : semAction T ⟨"opt_splitter", ["empty"]⟩ vs = some v) : semWF "opt_splitter" v = true := by
  match vs, h with
  | [_], h => cases h; wf_close hz

theorem act8 (vs : List Sem) (v : Sem) (hz : zipWF ["ID"] vs = true)
    (h : semAction T ⟨"fields", ["ID"]⟩ vs = some v) : semWF "fields" v = true := by
  match vs, h with
  | [.tok ⟨_, .raw _⟩], h => cases h; wf_close hz

theorem act9 (vs : List Sem) (v : Sem) (hz : zipWF ["ID", "COMMA", "fields"] vs = true)
    (h : semAction T ⟨"fields", ["ID", "COMMA", "fields"]⟩ vs = some v) : semWF "fields" v = true := by
  match vs, h with
  | [.tok ⟨_, .raw _⟩, _, .fields _], h => cases h; wf_close hz

theorem act10 (vs : List Sem) (v : Sem) (hz : zipWF ["return_expr"] vs = true)
    (h : semAction T ⟨"conditional", ["return_expr"]⟩ vs = some v) : semWF "conditional" v = true := by
  match vs, h with
  | [.groups _], h => cases h; wf_close hz

theorem act11 (vs : List Sem) (v : Sem) (hz : zipWF ["KW_IF", "predicate", "LBRACE", "conditional", "RBRACE", "subconditional"] vs = true)
    (h : semAction T ⟨"conditional", ["KW_IF", "predicate", "LBRACE", "conditional", "RBRACE", "subconditional"]⟩ vs = some v) : semWF "conditional" v = true := by
  match vs, h with
  | [_, .pred _, _, .cond _, _, .sub _], h => cases h; wf_close hz

theorem act12 (vs : List Sem) (v : Sem) (hz : zipWF ["empty"] vs = true)
    (h : semAction T ⟨"subconditional", ["empty"]⟩ vs = some v) : semWF "subconditional" v = true := by
  match vs, h with
  | [_], h => cases h; wf_close hz

theorem act13 (vs : List Sem) (v : Sem) (hz : zipWF ["KW_ELSE", "LBRACE", "conditional", "RBRACE"] vs = true)
    (h : semAction T ⟨"subconditional", ["KW_ELSE", "LBRACE", "conditional", "RBRACE"]⟩ vs = some v) : semWF "subconditional" v = true := by
  match vs, h with
  | [_, _, .cond _, _], h => cases h; wf_close hz

theorem act14 (vs : List Sem) (v : Sem) (hz : zipWF ["KW_ELIF", "predicate", "LBRACE", "conditional", "RBRACE", "subconditional"] vs = true)
    (h : semAction T ⟨"subconditional", ["KW_ELIF", "predicate", "LBRACE", "conditional", "RBRACE", "subconditional"]⟩ vs = some v) : semWF "subconditional" v = true := by
  match vs, h with
  | [_, .pred _, _, .cond _, _, .sub _], h => cases h; wf_close hz

theorem act15 (vs : List Sem) (v : Sem) (hz : zipWF ["KW_NOT", "predicate"] vs = true)
    (h : semAction T ⟨"predicate", ["KW_NOT", "predicate"]⟩ vs = some v) : semWF "predicate" v = true := by
  match vs, h with
  | [_, .pred _], h => cases h; wf_close hz

theorem act16 (vs : List Sem) (v : Sem) (hz : zipWF ["predicate", "KW_OR", "predicate"] vs = true)
    (h : semAction T ⟨"predicate", ["predicate", "KW_OR", "predicate"]⟩ vs = some v) : semWF "predicate" v = true := by
  match vs, h with
  | [.pred _, _, .pred _], h => cases h; wf_close hz

theorem act17 (vs : List Sem) (v : Sem) (hz : zipWF ["predicate", "KW_AND", "predicate"] vs = true)
    (h : semAction T ⟨"predicate", ["predicate", "KW_AND", "predicate"]⟩ vs = some v) : semWF "predicate" v = true := by
  match vs, h with
  | [.pred _, _, .pred _], h => cases h; wf_close hz

theorem act18 (vs : List Sem) (v : Sem) (hz : zipWF ["LPAREN", "predicate", "RPAREN"] vs = true)
    (h : semAction T ⟨"predicate", ["LPAREN", "predicate", "RPAREN"]⟩ vs = some v) : semWF "predicate" v = true := by
  match vs, h with
  | [_, .pred _, _], h => cases h; wf_close hz

theorem act19 (vs : List Sem) (v : Sem) (hz : zipWF ["term", "logical_op", "term"] vs = true)
    (h : semAction T ⟨"predicate", ["term", "logical_op", "term"]⟩ vs = some v) : semWF "predicate" v = true := by
  match vs, h with
  | [.term a, .op _, .term b], h =>
    cases h
    simp only [zipWF, semWF, Bool.and_eq_true] at hz
    simp only [semWF, predWF, Bool.and_eq_true]
    exact ⟨termWF_validateTerm _ a hz.1.1, termWF_validateTerm _ b hz.2.2.1.1⟩

theorem act20 (vs : List Sem) (v : Sem) (hz : zipWF ["tuple"] vs = true)
    (h : semAction T ⟨"term", ["tuple"]⟩ vs = some v) : semWF "term" v = true := by
  match vs, h with
  | [.terms (_ :: _)], h => cases h; wf_close hz
  | [.terms []], h => cases h; wf_close hz

theorem act21 (vs : List Sem) (v : Sem) (hz : zipWF ["ID"] vs = true)
    (h : semAction T ⟨"term", ["ID"]⟩ vs = some v) : semWF "term" v = true := by
  match vs, h with
  | [.tok ⟨_, .raw _⟩], h => cases h; wf_close hz

theorem act22 (vs : List Sem) (v : Sem) (hz : zipWF ["literal"] vs = true)
    (h : semAction T ⟨"term", ["literal"]⟩ vs = some v) : semWF "term" v = true := by
  match vs, h with
  | [.term _], h => cases h; wf_close hz

theorem act23 (vs : List Sem) (v : Sem) (hz : zipWF ["LPAREN", "term", "op_term"] vs = true)
    (h : semAction T ⟨"tuple", ["LPAREN", "term", "op_term"]⟩ vs = some v) : semWF "tuple" v = true := by
  match vs, h with
  | [_, .term _, .terms _], h => cases h; wf_close hz

theorem act24 (vs : List Sem) (v : Sem) (hz : zipWF ["RPAREN"] vs = true)
    (h : semAction T ⟨"op_term", ["RPAREN"]⟩ vs = some v) : semWF "op_term" v = true := by
  match vs, h with
  | [_], h => cases h; wf_close hz

theorem act25 (vs : List Sem) (v : Sem) (hz : zipWF ["COMMA", "term", "op_term"] vs = true)
    (h : semAction T ⟨"op_term", ["COMMA", "term", "op_term"]⟩ vs = some v) : semWF "op_term" v = true := by
  match vs, h with
  | [_, .term _, .terms _], h => cases h; wf_close hz

theorem act26 (vs : List Sem) (v : Sem) (hz : zipWF ["KW_NOT_IN"] vs = true)
    (h : semAction T ⟨"logical_op", ["KW_NOT_IN"]⟩ vs = some v) : semWF "logical_op" v = true := by
  match vs, h with
  | [_], h => cases h; wf_close hz

theorem act27 (vs : List Sem) (v : Sem) (hz : zipWF ["KW_EQ"] vs = true)
    (h : semAction T ⟨"logical_op", ["KW_EQ"]⟩ vs = some v) : semWF "logical_op" v = true := by
  match vs, h with
  | [_], h => cases h; wf_close hz

theorem act28 (vs : List Sem) (v : Sem) (hz : zipWF ["KW_NE"] vs = true)
    (h : semAction T ⟨"logical_op", ["KW_NE"]⟩ vs = some v) : semWF "logical_op" v = true := by
  match vs, h with
  | [_], h => cases h; wf_close hz

theorem act29 (vs : List Sem) (v : Sem) (hz : zipWF ["KW_IN"] vs = true)
    (h : semAction T ⟨"logical_op", ["KW_IN"]⟩ vs = some v) : semWF "logical_op" v = true := by
  match vs, h with
  | [_], h => cases h; wf_close hz

theorem act30 (vs : List Sem) (v : Sem) (hz : zipWF ["KW_LE"] vs = true)
    (h : semAction T ⟨"logical_op", ["KW_LE"]⟩ vs = some v) : semWF "logical_op" v = true := by
  match vs, h with
  | [_], h => cases h; wf_close hz

theorem act31 (vs : List Sem) (v : Sem) (hz : zipWF ["KW_GE"] vs = true)
    (h : semAction T ⟨"logical_op", ["KW_GE"]⟩ vs = some v) : semWF "logical_op" v = true := by
  match vs, h with
  | [_], h => cases h; wf_close hz

theorem act32 (vs : List Sem) (v : Sem) (hz : zipWF ["KW_GT"] vs = true)
    (h : semAction T ⟨"logical_op", ["KW_GT"]⟩ vs = some v) : semWF "logical_op" v = true := by
  match vs, h with
  | [_], h => cases h; wf_close hz

theorem act33 (vs : List Sem) (v : Sem) (hz : zipWF ["KW_LT"] vs = true)
    (h : semAction T ⟨"logical_op", ["KW_LT"]⟩ vs = some v) : semWF "logical_op" v = true := by
  match vs, h with
  | [_], h => cases h; wf_close hz

theorem act34 (vs : List Sem) (v : Sem) (hz : zipWF ["KW_RETURN", "return_statement"] vs = true)
    (h : semAction T ⟨"return_expr", ["KW_RETURN", "return_statement"]⟩ vs = some v) : semWF "return_expr" v = true := by
  match vs, h with
  | [_, .groups _], h => cases h; wf_close hz

theorem act35 (vs : List Sem) (v : Sem) (hz : zipWF ["literal", "KW_WEIGHTED", "weight", "COMMA", "return_statement"] vs = true)
    (h : semAction T ⟨"return_statement", ["literal", "KW_WEIGHTED", "weight", "COMMA", "return_statement"]⟩ vs = some v) : semWF "return_statement" v = true := by
  match vs, h with
  | [.term _, _, .num _, _, .groups _], h => cases h; wf_close hz

theorem act36 (vs : List Sem) (v : Sem) (hz : zipWF ["literal", "KW_WEIGHTED", "weight"] vs = true)
    (h : semAction T ⟨"return_statement", ["literal", "KW_WEIGHTED", "weight"]⟩ vs = some v) : semWF "return_statement" v = true := by
  match vs, h with
  | [.term _, _, .num _], h => cases h; wf_close hz

theorem act37 (vs : List Sem) (v : Sem) (hz : zipWF ["NON_NEG_FLOAT"] vs = true)
    (h : semAction T ⟨"weight", ["NON_NEG_FLOAT"]⟩ vs = some v) : semWF "weight" v = true := by
  match vs, h with
  | [.tok ⟨_, .float _⟩], h => cases h; wf_close hz

theorem act38 (vs : List Sem) (v : Sem) (hz : zipWF ["NON_NEG_INTEGER"] vs = true)
    (h : semAction T ⟨"weight", ["NON_NEG_INTEGER"]⟩ vs = some v) : semWF "weight" v = true := by
  match vs, h with
  | [.tok ⟨_, .int _⟩], h => cases h; rfl

theorem act39 (vs : List Sem) (v : Sem) (hz : zipWF ["STRING_LITERAL"] vs = true)
    (h : semAction T ⟨"literal", ["STRING_LITERAL"]⟩ vs = some v) : semWF "literal" v = true := by
  match vs, h with
  | [.tok ⟨_, .str _⟩], h => cases h; wf_close hz

theorem act40 (vs : List Sem) (v : Sem) (hz : zipWF ["NON_NEG_FLOAT"] vs = true)
    (h : semAction T ⟨"literal", ["NON_NEG_FLOAT"]⟩ vs = some v) : semWF "literal" v = true := by
  match vs, h with
  | [.tok ⟨_, .float _⟩], h => cases h; wf_close hz

theorem act41 (vs : List Sem) (v : Sem) (hz : zipWF ["NON_NEG_INTEGER"] vs = true)
    (h : semAction T ⟨"literal", ["NON_NEG_INTEGER"]⟩ vs = some v) : semWF "literal" v = true := by
  match vs, h with
  | [.tok ⟨_, .int _⟩], h => cases h; wf_close hz

theorem act42 (vs : List Sem) (v : Sem) (hz : zipWF ["MINUS", "NON_NEG_FLOAT"] vs = true)
    (h : semAction T ⟨"literal", ["MINUS", "NON_NEG_FLOAT"]⟩ vs = some v) : semWF "literal" v = true := by
  match vs, h with
  | [_, .tok ⟨_, .float d⟩], h =>
    cases h
    simp only [semWF, termWF, termIsLiteral, Bool.or_true, Bool.and_true]
    exact floatWF_neg d

theorem act43 (vs : List Sem) (v : Sem) (hz : zipWF ["MINUS", "NON_NEG_INTEGER"] vs = true)
    (h : semAction T ⟨"literal", ["MINUS", "NON_NEG_INTEGER"]⟩ vs = some v) : semWF "literal" v = true := by
  match vs, h with
  | [_, .tok ⟨_, .int _⟩], h => cases h; wf_close hz

/-- **every grammar action of the generated tables preserves well-formedness**: for each of
    the 44 productions, if the popped values are well-formed for the right-hand side symbols
    and the action succeeds, its result is well-formed for the left-hand side symbol -/
theorem semAction_wf (p : Prod) (hp : p ∈ T.prods.toList) (vs : List Sem) (v : Sem)
    (hz : zipWF p.rhs vs = true) (h : semAction T p vs = some v) : semWF p.lhs v = true := by
  simp only [Generated.lrTables, Generated.lrProds, List.mem_cons, List.not_mem_nil, or_false] at hp
  rcases hp with rfl | rfl | rfl | rfl | rfl | rfl | rfl | rfl | rfl | rfl | rfl | rfl | rfl | rfl | rfl | rfl | rfl | rfl | rfl | rfl | rfl | rfl | rfl | rfl | rfl | rfl | rfl | rfl | rfl | rfl | rfl | rfl | rfl | rfl | rfl | rfl | rfl | rfl | rfl | rfl | rfl | rfl | rfl | rfl
  · exact act0 vs v hz h
  · exact act1 vs v hz h
  · exact act2 vs v hz h
  · exact act3 vs v hz h
  · exact act4 vs v hz h
  · exact act5 vs v hz h
  · exact act6 vs v hz h
  · exact act7 vs v hz h
  · exact act8 vs v hz h
  · exact act9 vs v hz h
  · exact act10 vs v hz h
  · exact act11 vs v hz h
  · exact act12 vs v hz h
  · exact act13 vs v hz h
  · exact act14 vs v hz h
  · exact act15 vs v hz h
  · exact act16 vs v hz h
  · exact act17 vs v hz h
  · exact act18 vs v hz h
  · exact act19 vs v hz h
  · exact act20 vs v hz h
  · exact act21 vs v hz h
  · exact act22 vs v hz h
  · exact act23 vs v hz h
  · exact act24 vs v hz h
  · exact act25 vs v hz h
  · exact act26 vs v hz h
  · exact act27 vs v hz h
  · exact act28 vs v hz h
  · exact act29 vs v hz h
  · exact act30 vs v hz h
  · exact act31 vs v hz h
  · exact act32 vs v hz h
  · exact act33 vs v hz h
  · exact act34 vs v hz h
  · exact act35 vs v hz h
  · exact act36 vs v hz h
  · exact act37 vs v hz h
  · exact act38 vs v hz h
  · exact act39 vs v hz h
  · exact act40 vs v hz h
  · exact act41 vs v hz h
  · exact act42 vs v hz h
  · exact act43 vs v hz h

/-! ### The driver invariant -/

theorem popN_mem {n : Nat} {stack args stack' : List Entry}
    (h : popN n stack = some (args, stack')) :
    (∀ a ∈ args, a ∈ stack) ∧ (∀ a ∈ stack', a ∈ stack) := by
  unfold popN at h
  split at h
  · simp only [Option.some.injEq] at h
    obtain ⟨rfl, rfl⟩ := h
    exact ⟨fun a ha => List.mem_of_mem_take (List.mem_reverse.1 ha), fun a ha => List.mem_of_mem_drop ha⟩
  · cases h

/-- the invariant, for any tables whose actions preserve `semWF`: all values on the stack
    are well-formed for their symbols; so the experiment handed out at accept is -/
theorem lrLoop_wf (tb : LRTables)
    (hact : ∀ p ∈ tb.prods.toList, ∀ (vs : List Sem) (v : Sem), zipWF p.rhs vs = true →
      semAction tb p vs = some v → semWF p.lhs v = true) :
    ∀ (fuel : Nat) (stack : List Entry) (input : List Token) (e : Experiment),
      (∀ a ∈ stack, semWF a.sym a.sem = true) →
      lrLoop tb fuel stack input = .ok e → e.wf = true
  | 0, _, _, _, _, h => by
    simp [lrLoop, throw, throwThe, MonadExceptOf.throw] at h
  | fuel + 1, stack, input, e, hinv, h => by
    unfold lrLoop at h
    simp only at h
    split at h
    · cases h
    · rename_i t _
      split at h
      · -- shift: a token value is well-formed under any symbol
        split at h
        · rename_i tok rest _
          refine lrLoop_wf tb hact fuel _ rest e ?_ h
          intro a ha
          rcases List.mem_cons.1 ha with rfl | ha
          · rfl
          · exact hinv a ha
        · cases h
      · split at h
        · -- reduce
          split at h
          · cases h
          · rename_i p hp
            split at h
            · cases h
            · rename_i args stack' hpop
              split at h
              · cases h
              · rename_i hrhs
                have hrhs' : args.map (·.sym) = p.rhs := by
                  simpa using hrhs
                split at h
                · cases h
                · rename_i v hv
                  split at h
                  · cases h
                  · rename_i g _
                    obtain ⟨hargs, hrest⟩ := popN_mem hpop
                    have hmem : p ∈ tb.prods.toList :=
                      List.mem_of_getElem? (l := tb.prods.toList)
                        (by simpa using hp : tb.prods.toList[(-t).toNat]? = some p)
                    have hz : zipWF p.rhs (args.map (·.sem)) = true := by
                      rw [← hrhs']
                      exact zipWF_of_entries args (fun a ha => hinv a (hargs a ha))
                    have hv' : semWF p.lhs v = true := hact p hmem _ v hz hv
                    refine lrLoop_wf tb hact fuel _ input e ?_ h
                    intro a ha
                    rcases List.mem_cons.1 ha with rfl | ha
                    · exact hv'
                    · exact hinv a (hrest a ha)
        · -- accept
          split at h
          · rename_i st sym e' _
            split at h
            · have : e' = e := by
                simpa [pure, Except.pure] using h
              subst this
              exact hinv ⟨st, sym, .exp e'⟩ (List.mem_singleton.2 rfl)
            · cases h
          · cases h

/-- **Everything the parser accepts is well-formed** — the converse of
    `lrParse_tokensOf` / `lrParse_tokensOfMin`.  For every token list whatsoever (no
    hypothesis on the token payloads: the actions check them), if the driver over the
    generated tables accepts it with AST `e`, then `e` satisfies `Experiment.WF`. -/
theorem lrParse_wf (toks : List Token) (e : Experiment)
    (h : lrParse Generated.lrTables toks = .ok e) : e.WF :=
  lrLoop_wf T semAction_wf _ [] toks e (fun _ ha => nomatch ha) h

end Pyab.Proofs.LRW
