/-
  C18 — helper lemmas about `probitR` / `intervalR` (the `ℝ` instantiation of
  `Pyab/Model/Stats.lean`): unfolding lemmas, sign / symmetry / monotonicity of the
  z-score, and the two polynomial inequalities behind "Agresti–Coull narrows with n"
  and "Agresti–Coull widens with z".
-/
import Pyab.Spec.StatsReal
import Mathlib.Tactic.Positivity
import Mathlib.Tactic.Ring
import Mathlib.Tactic.Linarith
import Mathlib.Tactic.FieldSimp
import Mathlib.Tactic.NormNum
import Mathlib.Tactic.GCongr
namespace Pyab.Proofs.StatsReal
open Pyab Pyab.Stats Pyab.Spec

/-! ### unfolding the generic definitions at `realOps` -/

theorem probitR_eq (a : ℝ) :
    probitR a = Real.sqrt (Real.pi / 8) * |Real.log (a / (1 - a))| := by
  simp [probitR, probit, realOps]

theorem intervalR_wald (n p c : ℝ) :
    intervalR .wald n p c =
      (p - probitR ((1 - c) / 2) * Real.sqrt (p * (1 - p) / n),
       p + probitR ((1 - c) / 2) * Real.sqrt (p * (1 - p) / n)) := by
  simp [intervalR, interval, probitR, realOps]

/-- the Agresti–Coull branch, literally as the code computes it -/
theorem intervalR_ac_raw (n p c : ℝ) :
    intervalR .agrestiCoull n p c =
      (let z := probitR ((1 - c) / 2)
       let nn := n + z * z
       let pp := 1 / nn * (p * n + 1 / 2 * (z * z))
       (pp - z * Real.sqrt (pp * (1 - pp) / nn), pp + z * Real.sqrt (pp * (1 - pp) / nn))) := by
  simp [intervalR, interval, probitR, realOps]

/-! ### the z-score -/

theorem probitR_nonneg (a : ℝ) : 0 ≤ probitR a := by
  rw [probitR_eq]; positivity

/-- holds for every real `a` under Lean's total `/` and `log`; the hypotheses `0 < a < 1`
    of the property are only what makes the Python expression defined -/
theorem probitR_symm (a : ℝ) : probitR a = probitR (1 - a) := by
  rw [probitR_eq, probitR_eq]
  have e : (1 - a) / (1 - (1 - a)) = (a / (1 - a))⁻¹ := by
    rw [inv_div]; congr 1; ring
  rw [e, Real.log_inv, abs_neg]

/-- on `(0, 1/2]` the z-score is antitone in the tail mass -/
theorem probitR_antitone_lower (a b : ℝ) (ha : 0 < a) (hab : a ≤ b) (hb : b ≤ 1 / 2) :
    probitR b ≤ probitR a := by
  have ha1 : 0 < 1 - a := by linarith
  have hb1 : 0 < 1 - b := by linarith
  have hb0 : 0 < b := lt_of_lt_of_le ha hab
  rw [probitR_eq, probitR_eq]
  have hqa : 0 < a / (1 - a) := div_pos ha ha1
  have hqb : 0 < b / (1 - b) := div_pos hb0 hb1
  have hle : a / (1 - a) ≤ b / (1 - b) := by
    rw [div_le_div_iff₀ ha1 hb1]; nlinarith
  have hb_le1 : b / (1 - b) ≤ 1 := by
    rw [div_le_one hb1]; linarith
  have hlb : Real.log (b / (1 - b)) ≤ 0 := Real.log_nonpos hqb.le hb_le1
  have hla : Real.log (a / (1 - a)) ≤ Real.log (b / (1 - b)) := Real.log_le_log hqa hle
  rw [abs_of_nonpos hlb, abs_of_nonpos (hla.trans hlb)]
  have : 0 ≤ Real.sqrt (Real.pi / 8) := Real.sqrt_nonneg _
  nlinarith

/-- confidence up ⇒ z up -/
theorem z_mono_confidence (c c' : ℝ) (hcc : c ≤ c') (hc1 : c' < 1) (hc0 : 0 < c) :
    probitR ((1 - c) / 2) ≤ probitR ((1 - c') / 2) := by
  apply probitR_antitone_lower <;> linarith

/-! ### Agresti–Coull: centre and variance term -/

/-- adjusted sample size `ñ = n + z²` -/
noncomputable def acN (n z : ℝ) : ℝ := n + z ^ 2
/-- adjusted proportion `p̃ = (n p + z²/2) / ñ` -/
noncomputable def acP (n p z : ℝ) : ℝ := (n * p + z ^ 2 / 2) / acN n z
/-- numerator of `p̃ (1 - p̃) / ñ` over the common denominator `ñ³`, in `w = z²`, `q = p (1-p)` -/
noncomputable def acNum (n q w : ℝ) : ℝ := q * n ^ 2 + n * w / 2 + w ^ 2 / 4

theorem acN_pos (n z : ℝ) (hn : 1 ≤ n) : 0 < acN n z := by unfold acN; positivity

theorem intervalR_ac (n p c : ℝ) :
    intervalR .agrestiCoull n p c =
      (let z := probitR ((1 - c) / 2)
       (acP n p z - z * Real.sqrt (acP n p z * (1 - acP n p z) / acN n z),
        acP n p z + z * Real.sqrt (acP n p z * (1 - acP n p z) / acN n z))) := by
  rw [intervalR_ac_raw]
  simp only
  have hN : n + probitR ((1 - c) / 2) * probitR ((1 - c) / 2) = acN n (probitR ((1 - c) / 2)) := by
    unfold acN; ring
  have hP : 1 / (n + probitR ((1 - c) / 2) * probitR ((1 - c) / 2))
        * (p * n + 1 / 2 * (probitR ((1 - c) / 2) * probitR ((1 - c) / 2)))
      = acP n p (probitR ((1 - c) / 2)) := by
    unfold acP; rw [hN]; ring
  rw [hP, hN]

theorem acP_nonneg (n p z : ℝ) (hn : 1 ≤ n) (hp0 : 0 ≤ p) : 0 ≤ acP n p z := by
  unfold acP
  have := acN_pos n z hn
  have : 0 ≤ n := by linarith
  positivity

theorem acP_le_one (n p z : ℝ) (hn : 1 ≤ n) (hp1 : p ≤ 1) : acP n p z ≤ 1 := by
  unfold acP
  rw [div_le_one (acN_pos n z hn)]
  unfold acN
  have : 0 ≤ z ^ 2 := by positivity
  nlinarith

/-- `p̃ (1 - p̃) / ñ = (q n² + n w / 2 + w² / 4) / (n + w)³` with `w = z²`, `q = p (1 - p)` -/
theorem acVar_eq (n p z : ℝ) (hn : 1 ≤ n) :
    acP n p z * (1 - acP n p z) / acN n z = acNum n (p * (1 - p)) (z ^ 2) / (n + z ^ 2) ^ 3 := by
  have h := (acN_pos n z hn).ne'
  unfold acP acNum
  unfold acN at h ⊢
  field_simp
  ring

theorem acNum_nonneg (n q w : ℝ) (hn : 0 ≤ n) (hq : 0 ≤ q) (hw : 0 ≤ w) : 0 ≤ acNum n q w := by
  unfold acNum; positivity

/-- the variance term is antitone in `n` (for fixed `w = z² ≥ 0`, `0 ≤ q ≤ 1/4`) -/
theorem acVar_antitone_n (n n' q w : ℝ) (hn : 0 < n) (hnn : n ≤ n') (hq0 : 0 ≤ q) (hq1 : q ≤ 1 / 4)
    (hw : 0 ≤ w) : acNum n' q w / (n' + w) ^ 3 ≤ acNum n q w / (n + w) ^ 3 := by
  have hs : 0 < n + w := by linarith
  have hs' : 0 < n' + w := by linarith
  rw [div_le_div_iff₀ (by positivity) (by positivity)]
  obtain ⟨d, hd, rfl⟩ : ∃ d, 0 ≤ d ∧ n' = n + d := ⟨n' - n, by linarith, by ring⟩
  have h1 : 0 ≤ 1 - 2 * q := by linarith
  have h2 : 0 ≤ 3 / 2 - 2 * q := by linarith
  have h3 : 0 ≤ 3 / 4 - q := by linarith
  have key : acNum n q w * (n + d + w) ^ 3 - acNum (n + d) q w * (n + w) ^ 3
      = d * ((n + w) ^ 2 * (q * n ^ 2 + n * w * (1 - 2 * q) + w ^ 2 / 4))
        + d ^ 2 * ((n + w) * (2 * q * n ^ 2 + n * w * (3 / 2 - 2 * q) + w ^ 2 * (3 / 4 - q)))
        + d ^ 3 * acNum n q w := by
    unfold acNum; ring
  have hN := acNum_nonneg n q w hn.le hq0 hw
  have : 0 ≤ acNum n q w * (n + d + w) ^ 3 - acNum (n + d) q w * (n + w) ^ 3 := by
    rw [key]; positivity
  linarith

/-- `z² · (variance term)` is monotone in `w = z²` -/
theorem acWidthSq_mono_w (n q w w' : ℝ) (hn : 0 < n) (hq0 : 0 ≤ q) (hq1 : q ≤ 1 / 4)
    (hw : 0 ≤ w) (hww : w ≤ w') :
    w * (acNum n q w / (n + w) ^ 3) ≤ w' * (acNum n q w' / (n + w') ^ 3) := by
  have hs : 0 < n + w := by linarith
  have hs' : 0 < n + w' := by linarith
  rw [← mul_div_assoc, ← mul_div_assoc, div_le_div_iff₀ (by positivity) (by positivity)]
  obtain ⟨e, he, rfl⟩ : ∃ e, 0 ≤ e ∧ w' = w + e := ⟨w' - w, by linarith, by ring⟩
  have h1 : 0 ≤ 1 - 2 * q := by linarith
  have h2 : 0 ≤ 7 / 4 - 3 * q := by linarith
  have h3 : 0 ≤ 3 / 4 - q := by linarith
  have key : (w + e) * acNum n q (w + e) * (n + w) ^ 3 - w * acNum n q w * (n + (w + e)) ^ 3
      = e * ((n + w) ^ 2 * (n * (q * n ^ 2 + n * w * (1 - 2 * q) + w ^ 2 / 4)))
        + e ^ 2 * ((n + w) * (n ^ 3 / 2 + n ^ 2 * w * (7 / 4 - 3 * q) + n * w ^ 2 / 2))
        + e ^ 3 * (n ^ 3 / 4 + n ^ 2 * w * (3 / 4 - q) + n * w ^ 2 / 4) := by
    unfold acNum; ring
  have : 0 ≤ (w + e) * acNum n q (w + e) * (n + w) ^ 3 - w * acNum n q w * (n + (w + e)) ^ 3 := by
    rw [key]; positivity
  linarith

theorem pq_bounds (p : ℝ) (hp0 : 0 ≤ p) (hp1 : p ≤ 1) : 0 ≤ p * (1 - p) ∧ p * (1 - p) ≤ 1 / 4 := by
  constructor
  · exact mul_nonneg hp0 (by linarith)
  · nlinarith [sq_nonneg (p - 1 / 2)]

/-- for `z ≥ 0`, `z · √v = √(z² v)` -/
theorem mul_sqrt_eq (z v : ℝ) (hz : 0 ≤ z) : z * Real.sqrt v = Real.sqrt (z ^ 2 * v) := by
  rw [Real.sqrt_mul (sq_nonneg z), Real.sqrt_sq hz]

end Pyab.Proofs.StatsReal
