/-
  Totality facts about the choice stage: which errors `deterministic_choice` and the key
  construction can raise, bounds on the bisect result, length of `accumulate`.
-/
import Pyab.Model.PyExec
import Pyab.Proofs.Routing
namespace Pyab.Proofs.Run
open Pyab
set_option linter.unusedSimpArgs false

/-! ### `accumulate` preserves length -/

theorem accumulate_go_length : ∀ (ws : List Num) (acc : Num) (cum : List Num),
    Choice.accumulate.go acc ws = .ok cum → cum.length = ws.length + 1
  | [], acc, cum, h => by
      simp only [Choice.accumulate.go, pure, Except.pure] at h
      cases h; rfl
  | w :: ws, acc, cum, h => by
      simp only [Choice.accumulate.go, bind_ok_iff] at h
      obtain ⟨acc', _, rest, hrest, h⟩ := h
      simp only [pure, Except.pure] at h
      cases h
      simp [accumulate_go_length ws acc' rest hrest]

theorem accumulate_length (ws cum : List Num) (h : Choice.accumulate ws = .ok cum) :
    cum.length = ws.length := by
  cases ws with
  | nil => simp only [Choice.accumulate, pure, Except.pure] at h; cases h; rfl
  | cons w ws =>
      simp only [Choice.accumulate] at h
      simpa using accumulate_go_length ws w cum h

/-! ### `bisect` stays inside `[lo, hi]` (no monotonicity of the list needed) -/

theorem bisectLoop_bounds (a : Array Num) (x : Dbl) : ∀ (fuel lo hi : Nat), lo ≤ hi →
    lo ≤ Choice.bisectLoop a x fuel lo hi ∧ Choice.bisectLoop a x fuel lo hi ≤ hi
  | 0, lo, hi, h => by simp [Choice.bisectLoop, h]
  | fuel + 1, lo, hi, h => by
      unfold Choice.bisectLoop
      by_cases hlt : lo < hi
      · simp only [hlt, if_true]
        by_cases hP : Num.dblLt x a[(lo + hi) / 2]! = true
        · simp only [hP, if_true]
          have := bisectLoop_bounds a x fuel lo ((lo + hi) / 2) (by omega)
          omega
        · simp only [hP, if_false, Bool.false_eq_true]
          have := bisectLoop_bounds a x fuel ((lo + hi) / 2 + 1) hi (by omega)
          omega
      · simp only [hlt, if_false]
        omega

theorem bisect_le (cum : List Num) (x : Dbl) (hi : Nat) : Choice.bisect cum x 0 hi ≤ hi :=
  (bisectLoop_bounds cum.toArray x (hi - 0 + 1) 0 hi (Nat.zero_le _)).2

/-! ### the successful path of `deterministic_choice` with weights -/

theorem choiceIdx_some_ok (h n : Nat) (ws cum : List Num) (last : Num) (t : Dbl)
    (hacc : Choice.accumulate ws = .ok cum) (hlen : cum.length = n)
    (hlast : cum.getLast? = some last) (htot : Num.add last (.f Dbl.zero) = .ok (.f t))
    (hpos : Dbl.le t Dbl.zero = false) (hfin : t.isFinite = true) :
    Choice.choiceIdx (some h) n (some ws) none
      = .ok (.idx (Choice.bisect cum (Dbl.mul (Choice.proba h) t) 0 (n - 1))) := by
  unfold Choice.choiceIdx
  simp [hacc, bind, Except.bind, hlen, hlast, htot, hpos, hfin, pure, Except.pure]

/-! ### error classes -/

/-- the errors `deterministic_choice` / `random.choices` raise on their arguments -/
def choiceErr : Err → Bool
  | .valueError _ => true
  | .indexError => true
  | .typeError => true
  | .other w => w == "OverflowError" || w == "unreachable" || w == "floor"
  | _ => false

theorem toDbl_err (a : Num) (err : Err) (h : Num.toDbl a = .error err) : choiceErr err = true := by
  cases a with
  | f d => simp [Num.toDbl, pure, Except.pure] at h
  | i v =>
      simp only [Num.toDbl] at h
      split at h <;> simp [throw, throwThe, MonadExceptOf.throw, pure, Except.pure] at h <;>
        (subst h; rfl)

theorem bind_err_iff {α β : Type} {x : Except Err α} {f : α → Except Err β} {e : Err} :
    (x >>= f) = .error e ↔ x = .error e ∨ ∃ a, x = .ok a ∧ f a = .error e := by
  cases x <;> simp [bind, Except.bind]

theorem add_err (a b : Num) (err : Err) (h : Num.add a b = .error err) : choiceErr err = true := by
  cases a <;> cases b <;> simp only [Num.add, pure, Except.pure, bind_err_iff] at h
  · cases h
  all_goals
    rcases h with h | ⟨_, _, h | ⟨_, _, h⟩⟩
    · exact toDbl_err _ _ h
    · exact toDbl_err _ _ h
    · cases h

theorem accumulate_go_err : ∀ (ws : List Num) (acc : Num) (err : Err),
    Choice.accumulate.go acc ws = .error err → choiceErr err = true
  | [], acc, err, h => by simp [Choice.accumulate.go, pure, Except.pure] at h
  | w :: ws, acc, err, h => by
      simp only [Choice.accumulate.go, bind_err_iff, pure, Except.pure] at h
      rcases h with h | ⟨acc', _, h | ⟨_, _, h⟩⟩
      · exact add_err _ _ _ h
      · exact accumulate_go_err ws acc' err h
      · cases h

theorem accumulate_err (ws : List Num) (err : Err) (h : Choice.accumulate ws = .error err) :
    choiceErr err = true := by
  cases ws with
  | nil => simp [Choice.accumulate, pure, Except.pure] at h
  | cons w ws => exact accumulate_go_err ws w err h

theorem randomChecks_err (n : Nat) (cum : List Num) (err : Err)
    (h : Choice.choiceIdx.randomChecks n cum = .error err) : choiceErr err = true := by
  unfold Choice.choiceIdx.randomChecks at h
  by_cases hl : cum.length = n
  · cases hg : cum.getLast? with
    | none => simp [hl, hg, bind, Except.bind, pure, Except.pure, throw, throwThe, MonadExceptOf.throw] at h; subst h; rfl
    | some last =>
      cases ha : Num.add last (.f Dbl.zero) with
      | error e => 
          simp [hl, hg, ha, bind, Except.bind, pure, Except.pure, throw, throwThe, MonadExceptOf.throw] at h
          subst h; exact add_err _ _ _ ha
      | ok tot =>
        cases tot with
        | i v => simp [hl, hg, ha, bind, Except.bind, pure, Except.pure, throw, throwThe, MonadExceptOf.throw] at h; subst h; rfl
        | f t =>
          simp [hl, hg, ha, bind, Except.bind, pure, Except.pure, throw, throwThe, MonadExceptOf.throw] at h
          split at h
          · cases h; rfl
          · split at h
            · cases h; rfl
            · cases h
  · simp [hl, bind, Except.bind, pure, Except.pure, throw, throwThe, MonadExceptOf.throw] at h
    subst h; rfl

theorem choiceIdx_none_err (n : Nat) (ws : List Num) (err : Err)
    (h : Choice.choiceIdx none n (some ws) none = .error err) : choiceErr err = true := by
  unfold Choice.choiceIdx at h
  simp only [bind_err_iff] at h
  rcases h with h | ⟨cum, _, h⟩
  · exact accumulate_err _ _ h
  · exact randomChecks_err _ _ _ h

theorem choiceIdx_some_err (p n : Nat) (ws : List Num) (err : Err)
    (h : Choice.choiceIdx (some p) n (some ws) none = .error err) : choiceErr err = true := by
  unfold Choice.choiceIdx at h
  cases hacc : Choice.accumulate ws with
  | error e =>
      simp [hacc, bind, Except.bind, pure, Except.pure, throw, throwThe, MonadExceptOf.throw] at h
      subst h; exact accumulate_err _ _ hacc
  | ok cum =>
  by_cases hl : cum.length = n
  · cases hg : cum.getLast? with
    | none => simp [hacc, hl, hg, bind, Except.bind, pure, Except.pure, throw, throwThe, MonadExceptOf.throw] at h; subst h; rfl
    | some last =>
      cases ha : Num.add last (.f Dbl.zero) with
      | error e => 
          simp [hacc, hl, hg, ha, bind, Except.bind, pure, Except.pure, throw, throwThe, MonadExceptOf.throw] at h
          subst h; exact add_err _ _ _ ha
      | ok tot =>
        cases tot with
        | i v => simp [hacc, hl, hg, ha, bind, Except.bind, pure, Except.pure, throw, throwThe, MonadExceptOf.throw] at h; subst h; rfl
        | f t =>
          simp [hacc, hl, hg, ha, bind, Except.bind, pure, Except.pure, throw, throwThe, MonadExceptOf.throw] at h
          split at h
          · cases h; rfl
          · split at h
            · cases h; rfl
            · cases h
  · simp [hacc, hl, bind, Except.bind, pure, Except.pure, throw, throwThe, MonadExceptOf.throw] at h
    subst h; rfl

/-- every error of `deterministic_choice(key, …)`: the encode error (ASCII encoding only), an
    argument error of the choice, or the (unreachable) index error -/
theorem chooseByKey_err (utf8 : Bool) (key : String) (pop : List PyVal) (ws : List Num) (err : Err)
    (h : chooseByKey utf8 key pop ws = .error err) :
    (utf8 = false ∧ err = .encodeError) ∨ choiceErr err = true := by
  unfold chooseByKey at h
  by_cases hu : (!utf8 && !isAscii key) = true
  · simp [hu, bind, Except.bind, pure, Except.pure, throw, throwThe, MonadExceptOf.throw] at h
    subst h
    left
    simp only [Bool.and_eq_true, Bool.not_eq_true'] at hu
    exact ⟨hu.1, rfl⟩
  · right
    have hu' : (!utf8 && !isAscii key) = false := by simpa using hu
    simp only [hu', Bool.false_eq_true, if_false] at h
    cases hc : Choice.choiceIdx (some (MD5.pos32 key)) pop.length (some ws) none with
    | error e =>
        simp [hc, bind, Except.bind, pure, Except.pure] at h
        subst h; exact choiceIdx_some_err _ _ _ _ hc
    | ok pk =>
        cases pk with
        | random c =>
            simp [hc, bind, Except.bind, pure, Except.pure, throw, throwThe, MonadExceptOf.throw] at h
            subst h; rfl
        | idx i =>
            cases hi : pop[i]? with
            | none =>
                simp [hc, hi, bind, Except.bind, pure, Except.pure, throw, throwThe, MonadExceptOf.throw] at h
                subst h; rfl
            | some v =>
                simp [hc, hi, bind, Except.bind, pure, Except.pure] at h

/-- whatever `chooseByKey` returns is a member of the population -/
theorem chooseByKey_ok_mem (utf8 : Bool) (key : String) (pop : List PyVal) (ws : List Num) (v : PyVal)
    (h : chooseByKey utf8 key pop ws = .ok v) : v ∈ pop := by
  unfold chooseByKey at h
  by_cases hu : (!utf8 && !isAscii key) = true
  · simp [hu, bind, Except.bind, pure, Except.pure, throw, throwThe, MonadExceptOf.throw] at h
  · have hu' : (!utf8 && !isAscii key) = false := by simpa using hu
    simp only [hu', Bool.false_eq_true, if_false] at h
    cases hc : Choice.choiceIdx (some (MD5.pos32 key)) pop.length (some ws) none with
    | error e => simp [hc, bind, Except.bind, pure, Except.pure] at h
    | ok pk =>
        cases pk with
        | random c =>
            simp [hc, bind, Except.bind, pure, Except.pure, throw, throwThe, MonadExceptOf.throw] at h
        | idx i =>
            cases hi : pop[i]? with
            | none =>
                simp [hc, hi, bind, Except.bind, pure, Except.pure, throw, throwThe, MonadExceptOf.throw] at h
            | some u =>
                simp [hc, hi, bind, Except.bind, pure, Except.pure] at h
                subst h
                exact List.mem_of_getElem? hi

/-- the successful path of `chooseByKey` with the UTF-8 encoding -/
theorem chooseByKey_utf8_ok (key : String) (pop : List PyVal) (ws cum : List Num) (last : Num) (t : Dbl)
    (hacc : Choice.accumulate ws = .ok cum) (hlast : cum.getLast? = some last)
    (htot : Num.add last (.f Dbl.zero) = .ok (.f t))
    (hpos : Dbl.le t Dbl.zero = false) (hfin : t.isFinite = true)
    (hlen : pop.length = ws.length) (hne : 0 < pop.length) :
    ∃ v ∈ pop, chooseByKey true key pop ws = .ok v := by
  have hcl : cum.length = pop.length := by rw [accumulate_length ws cum hacc, hlen]
  have hci := choiceIdx_some_ok (MD5.pos32 key) pop.length ws cum last t hacc hcl hlast htot hpos hfin
  have hb := bisect_le cum (Dbl.mul (Choice.proba (MD5.pos32 key)) t) (pop.length - 1)
  have hlt : Choice.bisect cum (Dbl.mul (Choice.proba (MD5.pos32 key)) t) 0 (pop.length - 1) < pop.length := by
    omega
  refine ⟨pop[Choice.bisect cum (Dbl.mul (Choice.proba (MD5.pos32 key)) t) 0 (pop.length - 1)],
    List.getElem_mem hlt, ?_⟩
  unfold chooseByKey
  simp [hci, bind, Except.bind, pure, Except.pure, List.getElem?_eq_getElem hlt]

end Pyab.Proofs.Run

