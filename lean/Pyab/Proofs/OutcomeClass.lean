/-
  Classification of what a call of the generated function can result in, once the module
  compiled and every declared field is passed.
-/
import Pyab.Proofs.RunGenerated
import Pyab.Proofs.ErrClass
import Pyab.Proofs.KeyTotal
namespace Pyab.Proofs.Run
open Pyab Pyab.Spec
set_option linter.unusedSimpArgs false

/-- errors of the choice stage: an argument error of `deterministic_choice` /
    `random.choices` (ValueError, IndexError, TypeError, OverflowError), the digit-limit
    error of `str(int)`, and — with the ASCII key encoding only — the encode error -/
theorem choiceStage_err (cfg : RunCfg) (e : Experiment) (env : Env) (pop : List PyVal) (ws : List Num)
    (err : Err) (hb : Bound e.localVars env) (h : choiceStage cfg e env pop ws = .error err) :
    (cfg.keyUtf8 = false ∧ err = .encodeError) ∨ choiceErr err = true := by
  unfold choiceStage at h
  cases hlv : e.localVars with
  | nil =>
      right
      simp only [hlv, bind_err_iff] at h
      rcases h with h | ⟨pk, _, h⟩
      · exact choiceIdx_none_err _ _ _ h
      · cases pk with
        | random c => simp [pure, Except.pure] at h
        | idx i => simp [throw, throwThe, MonadExceptOf.throw] at h; subst h; rfl
  | cons x xs =>
      simp only [hlv, bind_err_iff] at h
      rcases h with h | ⟨key, _, h⟩
      · rcases keyOf_err _ _ _ _ _ h with ⟨_, n, hn, hnone⟩ | hd
        · have := hb n (by rw [hlv]; exact hn)
          simp [hnone] at this
        · right; subst hd; rfl
      · cases hch : chooseByKey cfg.keyUtf8 key pop ws with
        | ok v => simp [hch, Functor.map, Except.map] at h
        | error e' =>
            simp [hch, Functor.map, Except.map] at h
            subst h
            exact chooseByKey_err _ _ _ _ _ hch

/-- **trichotomy**: a group chosen from the routed statement's population (or a choice-stage
    error), the unroutable error, or the TypeError of the reference semantics -/
theorem runGenerated_class (cfg : RunCfg) (hc : CanonicalExpr cfg.toGenCfg)
    (hrb : ∀ s, readBackStr cfg.toGenCfg true s = .ok s) (hs : cfg.strReprSalt = true)
    (e : Experiment) (env : Env) (L : List ILine) (hL : bodyLines cfg.toGenCfg 2 e.cond = .ok L)
    (hp : Bound (e.params cfg.toGenCfg) env) :
    (∃ gs pop ws, specRoute env e.cond = .ok (some gs) ∧ retVals cfg.toGenCfg gs = .ok (pop, ws) ∧
        runGenerated cfg e env = choiceStage cfg e env pop ws) ∨
    (specRoute env e.cond = .ok none ∧ runGenerated cfg e env = .error .unroutable) ∨
    (specRoute env e.cond = .error .typeError ∧ runGenerated cfg e env = .error .typeError) := by
  rw [runGenerated_eq_specRun cfg hc hrb hs e env L hL, specRun_eq]
  have h1 : (e.params cfg.toGenCfg).all (fun p => (env.get p).isSome) = true := List.all_eq_true.2 hp
  simp only [h1, Bool.not_true, Bool.false_eq_true, if_false]
  have hbc : Bound (e.cond.idents true) env := by
    intro n hn
    apply hp n
    apply mem_params_of_mem
    apply List.mem_append_right
    unfold Experiment.condIds
    rw [hc.tuples]
    exact (mem_sortDedup n _).2 hn
  unfold routed
  cases hr : specRoute env e.cond with
  | error err =>
      have := specRoute_err env e.cond err hbc hr
      subst this
      exact Or.inr (Or.inr ⟨rfl, rfl⟩)
  | ok o =>
      cases o with
      | none => exact Or.inr (Or.inl ⟨rfl, rfl⟩)
      | some gs =>
          obtain ⟨pop, ws, hret⟩ := routed_retVals_ok cfg.toGenCfg env e.cond 2 L hL gs hr
          refine Or.inl ⟨gs, pop, ws, rfl, hret, ?_⟩
          simp [hret, bind, Except.bind]

/-- the errors a call can end in -/
def runtimeErr (utf8 : Bool) : Err → Bool
  | .unroutable => true
  | .encodeError => !utf8
  | err => choiceErr err

theorem runGenerated_err (cfg : RunCfg) (hc : CanonicalExpr cfg.toGenCfg)
    (hrb : ∀ s, readBackStr cfg.toGenCfg true s = .ok s) (hs : cfg.strReprSalt = true)
    (e : Experiment) (env : Env) (L : List ILine) (hL : bodyLines cfg.toGenCfg 2 e.cond = .ok L)
    (hp : Bound (e.params cfg.toGenCfg) env) (err : Err) (h : runGenerated cfg e env = .error err) :
    runtimeErr cfg.keyUtf8 err = true := by
  rcases runGenerated_class cfg hc hrb hs e env L hL hp with ⟨gs, pop, ws, _, _, hrun⟩ | ⟨_, hrun⟩ | ⟨_, hrun⟩
  · rw [hrun] at h
    have hb : Bound e.localVars env := fun n hn =>
      hp n (mem_params_of_mem _ e n (List.mem_append_left _ hn))
    rcases choiceStage_err cfg e env pop ws err hb h with ⟨hu, rfl⟩ | hce
    · simp [runtimeErr, hu]
    · cases err <;> simp_all [runtimeErr, choiceErr]
  · rw [hrun] at h; cases h; rfl
  · rw [hrun] at h; cases h; rfl

end Pyab.Proofs.Run
