/-
  Float weights in `deterministic_choice`: the running sums of non-negative binary64 weights are
  non-decreasing under rounding, the scaled position `u·t` stays below the total, and hence the
  bisect realises half-open intervals of the rounded cumulative sums.
  Builds on `Proofs/DblRound.lean` (monotone rounding) and `Proofs/Choice2.lean`.
-/
import Pyab.Proofs.DblRound

namespace Pyab
namespace Dbl
open Pyab.Proofs (pow2_eq round_zero round_exact)
open Pyab.Choice

/-- the hash position `h / 2^32` is exact -/
theorem proba_val (h : Nat) (hh : h < 2 ^ 32) :
    ∃ m e, proba h = fin m e ∧ 0 ≤ m ∧ val (fin m e) = (h : ℚ) * 2 ^ (-32 : Int) := by
  unfold proba ofNatDivPow2
  by_cases h0 : h = 0
  · subst h0
    refine ⟨0, 0, round_zero _, le_refl _, ?_⟩
    rw [val_fin]; simp
  · refine ⟨(h : Int), -32, ?_, by omega, by rw [val_fin, Int.cast_natCast]⟩
    show round (h : Int) (-32) = _
    exact round_exact _ _ (by omega) (by simp only [Int.natAbs_natCast]; omega)
      (by omega) (by omega)

theorem zpow_neg32 : (2 : ℚ) ^ (-32 : Int) = 1 / 4294967296 := by norm_num

/-- the scaled position `u·t` is never negative, `-inf` or `nan` -/
theorem mul_proba_nonneg (h : Nat) (hh : h < 2 ^ 32) (mt et : Int) (hmt : 0 ≤ mt) :
    mul (proba h) (fin mt et) = pinf ∨
      ∃ mx ex, mul (proba h) (fin mt et) = fin mx ex ∧ 0 ≤ mx := by
  obtain ⟨m, e, hp, hm, _⟩ := proba_val h hh
  rw [hp, mul_fin_fin]
  exact round_nonneg _ _ (Int.mul_nonneg hm hmt)

/-- **the scaled position stays strictly below the total**: `u ≤ 1 - 2^-32` and the total is a
    normal double, so `u·t` cannot round back up to `t`.  (For totals below `2^-1043` this is
    false: `(1 - 2^-32)·2^-1074` rounds to `2^-1074`.) -/
theorem mul_proba_lt (h : Nat) (hh : h < 2 ^ 32) (t : Dbl) (ht : IsRep t)
    (hnormal : (2 : ℚ) ^ (-1022 : Int) ≤ val t) :
    ∃ mx ex, mul (proba h) t = fin mx ex ∧ 0 ≤ mx ∧ val (fin mx ex) < val t := by
  obtain ⟨m, e, hp, hm, hu⟩ := proba_val h hh
  obtain ⟨mt, et, rfl, hmt, hs, hlt⟩ := ht
  obtain ⟨r, hr, hcase⟩ := mul_spec m e mt et hm hmt
  rw [hp]
  rw [hu] at hr
  generalize val (fin mt et) = T at *
  have hTpos : 0 < T := lt_of_lt_of_le (two_zpow_pos _) hnormal
  have hh' : (h : ℚ) ≤ 4294967295 := by
    have : h ≤ 4294967295 := by omega
    exact_mod_cast this
  have hc := zpow_neg32
  -- the exact product is at most `(1 - 2^-32)·T`
  have hvle : (h : ℚ) * 2 ^ (-32 : Int) * T ≤ T - T * 2 ^ (-32 : Int) := by
    rw [hc]; nlinarith
  have hrT : r ≤ T := RSpec_mono (by rw [hc] at hvle ⊢; nlinarith) hr hs
  rcases hcase with ⟨_, mx, ex, heq, hmx, hv⟩ | ⟨hge, _⟩
  · refine ⟨mx, ex, heq, hmx, ?_⟩
    rw [hv]
    by_contra hcon
    have hrT' : T ≤ r := not_lt.1 hcon
    obtain ⟨k, Q, hrQ, hk, hu', hl, ha, hb, _, _⟩ := hr
    obtain ⟨e1, -, -⟩ := zpow_split k
    have hP := two_zpow_pos (k - 1)
    -- `r - 2^(k-1) ≤ v ≤ T - T·2^-32`, hence `T·2^-32 ≤ 2^(k-1)`
    have hTP : T * 2 ^ (-32 : Int) ≤ 2 ^ (k - 1) := by
      rw [hrQ, e1] at hrT'
      nlinarith
    rcases hl with hk' | hl'
    · -- subnormal binade of the product: the total is normal, so `T·2^-32 ≥ 2^-1054`
      subst hk'
      have h1 : (2 : ℚ) ^ (-1054 : Int) ≤ T * 2 ^ (-32 : Int) := by
        rw [show (-1054 : Int) = -1022 + -32 by norm_num, two_zpow_add]
        exact mul_le_mul_of_nonneg_right hnormal (two_zpow_pos _).le
      have h2 : (2 : ℚ) ^ ((-1074 : Int) - 1) < 2 ^ (-1054 : Int) :=
        two_zpow_lt_iff.2 (by norm_num)
      linarith
    · have h1 : (2 : ℚ) ^ (k + 52 + -32) ≤ T * 2 ^ (-32 : Int) := by
        rw [two_zpow_add]
        refine mul_le_mul_of_nonneg_right (le_trans hl' ?_) (two_zpow_pos _).le
        have := mul_pos hTpos (two_zpow_pos (-32))
        linarith
      have h2 : (2 : ℚ) ^ (k - 1) < 2 ^ (k + 52 + -32) := two_zpow_lt_iff.2 (by omega)
      linarith
  · exfalso; linarith

end Dbl
end Pyab

namespace Pyab
namespace Dbl
open Pyab.Proofs (pow2_eq round_zero round_exact)
open Pyab.Choice

/-- comparing against two finite values with `c1 ≤ c2` -/
theorem lt_mono_right (x : Dbl) (m1 e1 m2 e2 : Int)
    (hv : val (fin m1 e1) ≤ val (fin m2 e2)) (h : lt x (fin m1 e1) = true) :
    lt x (fin m2 e2) = true := by
  cases x with
  | fin m e =>
    rw [lt_iff_val] at h ⊢
    exact lt_of_lt_of_le h hv
  | pinf => cases h
  | ninf => rfl
  | nan => cases h

theorem lt_congr_val (x : Dbl) (m1 e1 m2 e2 : Int)
    (hv : val (fin m1 e1) = val (fin m2 e2)) : lt x (fin m1 e1) = lt x (fin m2 e2) := by
  cases h1 : lt x (fin m1 e1) with
  | true => exact (lt_mono_right x m1 e1 m2 e2 (le_of_eq hv) h1).symm
  | false =>
    cases h2 : lt x (fin m2 e2) with
    | false => rfl
    | true => rw [lt_mono_right x m2 e2 m1 e1 (le_of_eq hv.symm) h2] at h1; cases h1

/-- `c + 0.0` (any zero) has the value of `c` -/
theorem add_zero_val' (a : Dbl) (ha : IsRep a) (e : Int) (t : Dbl) (ht : add a (fin 0 e) = t) :
    IsRep t ∧ val t = val a := by
  obtain ⟨ma, ea, rfl, hma, hs, hlt⟩ := ha
  obtain ⟨r, hr, hcase⟩ := add_spec ma ea 0 e hma (le_refl _)
  have hz : val (fin 0 e) = 0 := by rw [val_fin]; simp
  rw [hz, add_zero] at hr
  have hrv := RSpec_unique hr hs
  rcases hcase with ⟨hlt', m'', e'', heq, hm'', hv⟩ | ⟨hge, _⟩
  · have : t = fin m'' e'' := by rw [← ht]; exact heq
    subst this
    refine ⟨⟨m'', e'', rfl, hm'', ?_, by rw [hv]; exact hlt'⟩, by rw [hv, hrv]⟩
    rw [hv]; exact RSpec_idem hr
  · exfalso; rw [hrv] at hge; linarith

/-! ### running sums of float weights -/

/-- `itertools.accumulate` on doubles -/
def accD (a : Dbl) : List Dbl → List Dbl
  | [] => [a]
  | w :: ws => a :: accD (add a w) ws

theorem accD_cons (a : Dbl) (ds : List Dbl) : ∃ tl, accD a ds = a :: tl := by
  cases ds with
  | nil => exact ⟨[], rfl⟩
  | cons w ws => exact ⟨_, rfl⟩

theorem accD_length (ds : List Dbl) : ∀ a, (accD a ds).length = ds.length + 1 := by
  induction ds with
  | nil => intro a; rfl
  | cons w ws ih => intro a; simp [accD, ih]

theorem numAdd_ff (a w : Dbl) : Num.add (.f a) (.f w) = .ok (.f (add a w)) := rfl

theorem go_floats (ds : List Dbl) : ∀ a : Dbl,
    accumulate.go (.f a) (ds.map Num.f) = .ok ((accD a ds).map Num.f) := by
  induction ds with
  | nil => intro a; rfl
  | cons w ws ih =>
    intro a
    simp only [List.map_cons, accumulate.go, numAdd_ff, bind, Except.bind, ih (add a w), accD]
    rfl

theorem accumulate_floats (d0 : Dbl) (ds : List Dbl) :
    accumulate ((d0 :: ds).map Num.f) = .ok ((accD d0 ds).map Num.f) := by
  simp only [List.map_cons, accumulate]
  exact go_floats ds d0

theorem exists_floats (P : Dbl → Prop) (ws : List Num)
    (hw : ∀ w ∈ ws, ∃ d, w = .f d ∧ P d) : ∃ ds : List Dbl, ws = ds.map Num.f ∧ ∀ d ∈ ds, P d := by
  induction ws with
  | nil => exact ⟨[], rfl, by simp⟩
  | cons w ws ih =>
    obtain ⟨d, hd, hP⟩ := hw w (by simp)
    obtain ⟨ds, hds, hPs⟩ := ih (fun w' hw' => hw w' (by simp [hw']))
    refine ⟨d :: ds, by rw [hd, hds]; rfl, ?_⟩
    intro d' hd'
    rcases List.mem_cons.1 hd' with h | h
    · rw [h]; exact hP
    · exact hPs d' h

/-- a finite running total forces every earlier partial sum to be finite -/
theorem accD_finite (ds : List Dbl) : ∀ (a l : Dbl), (accD a ds).getLast? = some l →
    l.isFinite = true → ∀ c ∈ accD a ds, c.isFinite = true := by
  induction ds with
  | nil =>
    intro a l hl hfin c hc
    simp only [accD, List.getLast?_singleton, Option.some.injEq] at hl
    simp only [accD, List.mem_singleton] at hc
    rw [hc, hl]; exact hfin
  | cons w ws ih =>
    intro a l hl hfin c hc
    obtain ⟨tl, htl⟩ := accD_cons (add a w) ws
    have hl' : (accD (add a w) ws).getLast? = some l := by
      simp only [accD] at hl
      rw [htl] at hl ⊢
      rw [List.getLast?_cons_cons] at hl
      exact hl
    have hall := ih (add a w) l hl' hfin
    have hhead : (add a w).isFinite = true := hall _ (by rw [htl]; simp)
    simp only [accD, List.mem_cons] at hc
    rcases hc with hc | hc
    · rw [hc]; exact add_isFinite_left a w hhead
    · exact hall c hc

/-- finite non-negative dyadic -/
def FinNonneg (d : Dbl) : Prop := ∃ m e, d = fin m e ∧ 0 ≤ m

theorem IsRep.finNonneg {d : Dbl} (h : IsRep d) : FinNonneg d := by
  obtain ⟨m, e, hd, hm, _⟩ := h
  exact ⟨m, e, hd, hm⟩

/-- **the running sums of non-negative weights never decrease** (as exact values, under binary64
    rounding), and each is a genuine double -/
theorem accD_sorted (ds : List Dbl) : ∀ (a : Dbl), IsRep a → (∀ d ∈ ds, FinNonneg d) →
    (∀ c ∈ accD a ds, c.isFinite = true) →
    (∀ c ∈ accD a ds, IsRep c) ∧ List.Pairwise (fun x y => val x ≤ val y) (accD a ds) := by
  induction ds with
  | nil =>
    intro a ha _ _
    simp only [accD, List.mem_singleton, forall_eq, List.pairwise_cons, List.not_mem_nil,
      false_imp_iff, implies_true, List.Pairwise.nil, and_self, and_true]
    exact ha
  | cons w ws ih =>
    intro a ha hds hfin
    obtain ⟨tl, htl⟩ := accD_cons (add a w) ws
    obtain ⟨mw, ew, rfl, hmw⟩ := hds w (by simp)
    have hfin' : ∀ c ∈ accD (add a (fin mw ew)) ws, c.isFinite = true :=
      fun c hc => hfin c (by simp only [accD, List.mem_cons]; exact Or.inr hc)
    have hhead : (add a (fin mw ew)).isFinite = true := hfin' _ (by rw [htl]; simp)
    cases hadd : add a (fin mw ew) with
    | fin m' e' =>
      obtain ⟨hrep, hle⟩ := add_step a ha mw ew hmw m' e' hadd
      rw [hadd] at htl hfin'
      obtain ⟨hall, hpw⟩ := ih (fin m' e') hrep (fun d hd => hds d (by simp [hd])) hfin'
      simp only [accD, hadd, List.mem_cons, forall_eq_or_imp, List.pairwise_cons]
      refine ⟨⟨ha, hall⟩, ?_, hpw⟩
      intro c hc
      rw [htl] at hc hpw
      rcases List.mem_cons.1 hc with h | h
      · rw [h]; exact hle
      · exact le_trans hle ((List.pairwise_cons.1 hpw).1 c h)
    | pinf => rw [hadd] at hhead; cases hhead
    | ninf => rw [hadd] at hhead; cases hhead
    | nan => rw [hadd] at hhead; cases hhead

theorem getElem!_eq {α : Type} [Inhabited α] (l : List α) (j : Nat) (hj : j < l.length) :
    l[j]! = l[j] := by
  rw [List.getElem!_eq_getElem?_getD, List.getElem?_eq_getElem hj]; rfl

theorem accD_zero (a : Dbl) (ds : List Dbl) : (accD a ds)[0]! = a := by
  obtain ⟨tl, htl⟩ := accD_cons a ds
  rw [htl]; rfl

theorem cons_getElem!_succ {α : Type} [Inhabited α] (a : α) (l : List α) (j : Nat) :
    (a :: l)[j + 1]! = l[j]! := by
  rw [List.getElem!_eq_getElem?_getD, List.getElem!_eq_getElem?_getD, List.getElem?_cons_succ]

/-- each running sum is the previous one plus the next weight -/
theorem accD_succ (ds : List Dbl) : ∀ (a : Dbl) (j : Nat), j < ds.length →
    (accD a ds)[j + 1]! = add (accD a ds)[j]! ds[j]! := by
  induction ds with
  | nil => intro a j hj; simp at hj
  | cons w ws ih =>
    intro a j hj
    cases j with
    | zero =>
      simp only [accD]
      rw [cons_getElem!_succ, accD_zero]
      rfl
    | succ j =>
      simp only [accD]
      rw [cons_getElem!_succ, cons_getElem!_succ, cons_getElem!_succ]
      exact ih (add a w) j (by simpa using hj)

end Dbl
end Pyab

namespace Pyab
namespace Dbl
open Pyab.Proofs
open Pyab.Choice

/-- all weights are genuine non-negative finite binary64 values, given as Python floats -/
def FloatWeights (ws : List Num) : Prop := ∀ w ∈ ws, ∃ d, w = Num.f d ∧ NonnegDouble d

/-- what a successful weighted call on float weights establishes -/
theorem float_run (ws : List Num) (h n i : Nat) (hw : FloatWeights ws)
    (hres : choiceIdx (some h) n (some ws) none = .ok (.idx i)) :
    ∃ (d0 : Dbl) (ds : List Dbl) (l t : Dbl),
      ws = (d0 :: ds).map Num.f ∧ (accD d0 ds).length = n ∧
      (accD d0 ds).getLast? = some l ∧ t = add l zero ∧
      (∀ d ∈ d0 :: ds, IsRep d) ∧
      (∀ c ∈ accD d0 ds, IsRep c) ∧
      List.Pairwise (fun x y => val x ≤ val y) (accD d0 ds) ∧
      IsRep t ∧ val t = val l ∧ 0 < val t ∧
      i = bisect ((accD d0 ds).map Num.f) (mul (proba h) t) 0 (n - 1) := by
  obtain ⟨dl, hdl, hP⟩ := exists_floats NonnegDouble ws hw
  rw [choiceIdx_weights] at hres
  cases dl with
  | nil =>
    subst hdl
    have : weightedTail h n [] = .ok (.idx i) := hres
    obtain ⟨last, t, _, hlast, _⟩ := weightedTail_ok h n [] _ this
    cases hlast
  | cons d0 ds =>
    subst hdl
    rw [accumulate_floats] at hres
    have hres' : weightedTail h n ((accD d0 ds).map Num.f) = .ok (.idx i) := hres
    obtain ⟨last, t, hlen, hlast, htot, hle, hfin, hp⟩ := weightedTail_ok h n _ _ hres'
    rw [List.length_map] at hlen
    rw [List.getLast?_map] at hlast
    cases hl : (accD d0 ds).getLast? with
    | none => rw [hl] at hlast; cases hlast
    | some l =>
      rw [hl] at hlast
      simp only [Option.map_some, Option.some.injEq] at hlast
      subst hlast
      rw [numAdd_ff] at htot
      have ht : t = add l zero := by
        have := Except.ok.inj htot
        exact (Num.f.inj this).symm
      have hlfin : l.isFinite = true := add_isFinite_left l zero (by rw [← ht]; exact hfin)
      have hallfin := accD_finite ds d0 l hl hlfin
      have hrep0 : ∀ d ∈ d0 :: ds, IsRep d := fun d hd => (hP d hd).isRep
      obtain ⟨hall, hpw⟩ := accD_sorted ds d0 (hrep0 d0 (by simp))
        (fun d hd => (hrep0 d (by simp [hd])).finNonneg) hallfin
      have hlmem : l ∈ accD d0 ds := List.mem_of_getLast? hl
      obtain ⟨htrep, htval⟩ := add_zero_val l (hall l hlmem) t ht.symm
      have htpos : 0 < val t := by
        obtain ⟨mt, et, hteq, _, _, _⟩ := htrep
        rw [hteq] at hle ⊢
        have hz : val (fin 0 0) = 0 := by rw [val_fin]; simp
        have := (le_iff_val mt et 0 0).not.1 (by rw [show fin 0 0 = zero from rfl, hle]; simp)
        rw [hz] at this
        exact not_le.1 this
      exact ⟨d0, ds, l, t, rfl, hlen, hl, ht, hrep0, hall, hpw, htrep, htval, htpos,
        Pick.idx.inj hp⟩

end Dbl
end Pyab

namespace Pyab
namespace Dbl
open Pyab.Proofs
open Pyab.Choice

theorem map_f_getElem! (cs : List Dbl) (j : Nat) (hj : j < cs.length) :
    (cs.map Num.f)[j]! = Num.f cs[j] := by
  rw [getElem!_eq _ j (by rw [List.length_map]; exact hj), List.getElem_map]

theorem dblLt_f (x c : Dbl) : Num.dblLt x (Num.f c) = lt x c := rfl

theorem sorted_val_le (cs : List Dbl)
    (hpw : List.Pairwise (fun x y => val x ≤ val y) cs) (i j : Nat) (hij : i ≤ j)
    (hj : j < cs.length) : val (cs[i]'(by omega)) ≤ val cs[j] := by
  rcases Nat.lt_or_eq_of_le hij with h | h
  · exact List.pairwise_iff_getElem.1 hpw i j (by omega) hj h
  · subst h; exact le_refl _

/-- the monotonicity hypothesis of `bisect_partition`, discharged for float running sums -/
theorem float_hmono (cs : List Dbl) (x : Dbl) (hall : ∀ c ∈ cs, IsRep c)
    (hpw : List.Pairwise (fun x y => val x ≤ val y) cs) :
    ∀ i j, i ≤ j → j < cs.length → Num.dblLt x (cs.map Num.f)[i]! = true →
      Num.dblLt x (cs.map Num.f)[j]! = true := by
  intro i j hij hj
  have hi : i < cs.length := by omega
  rw [map_f_getElem! cs i hi, map_f_getElem! cs j hj, dblLt_f, dblLt_f]
  have hle := sorted_val_le cs hpw i j hij hj
  obtain ⟨m1, e1, h1, _⟩ := hall cs[i] (List.getElem_mem hi)
  obtain ⟨m2, e2, h2, _⟩ := hall cs[j] (List.getElem_mem hj)
  rw [h1, h2] at hle ⊢
  exact lt_mono_right x m1 e1 m2 e2 hle

end Dbl
end Pyab

namespace Pyab
namespace Dbl
open Pyab.Proofs
open Pyab.Choice

/-- the half-open intervals of the rounded cumulative sums, in declared order -/
theorem float_partition (cs : List Dbl) (x : Dbl) (n : Nat) (hlen : cs.length = n) (hn : 0 < n)
    (hall : ∀ c ∈ cs, IsRep c) (hpw : List.Pairwise (fun x y => val x ≤ val y) cs) :
    bisect (cs.map Num.f) x 0 (n - 1) ≤ n - 1 ∧
    (∀ j, j < bisect (cs.map Num.f) x 0 (n - 1) → Num.dblLt x (cs.map Num.f)[j]! = false) ∧
    (bisect (cs.map Num.f) x 0 (n - 1) < n - 1 →
      Num.dblLt x (cs.map Num.f)[bisect (cs.map Num.f) x 0 (n - 1)]! = true) := by
  have hm := float_hmono cs x hall hpw
  rw [hlen] at hm
  exact bisect_partition (cs.map Num.f) x n (by rw [List.length_map]; exact hlen) hn hm

theorem getLast?_getElem! (cs : List Dbl) (l : Dbl) (h : cs.getLast? = some l) :
    cs[cs.length - 1]! = l := by
  rw [List.getLast?_eq_getElem?] at h
  rw [List.getElem!_eq_getElem?_getD, h]; rfl

theorem getElem?_getElem! (cs : List Dbl) (k : Nat) (d : Dbl) (h : cs[k]? = some d) :
    k < cs.length ∧ cs[k]! = d := by
  have hk : k < cs.length := by
    by_contra hcon
    rw [List.getElem?_eq_none (by omega)] at h; cases h
  refine ⟨hk, ?_⟩
  rw [List.getElem!_eq_getElem?_getD, h]; rfl

/-- **a zero-weighted group is never selected** — first, middle or last position; for the last
    position the total must be a normal double (`≥ 2^-1022`) -/
theorem float_zero_never (d0 : Dbl) (ds : List Dbl) (l t : Dbl) (h n idx : Nat) (e : Int)
    (hh : h < 2 ^ 32)
    (hlen : (accD d0 ds).length = n)
    (hl : (accD d0 ds).getLast? = some l)
    (hall : ∀ c ∈ accD d0 ds, IsRep c)
    (hpw : List.Pairwise (fun x y => val x ≤ val y) (accD d0 ds))
    (htrep : IsRep t) (htval : val t = val l) (htpos : 0 < val t)
    (hz : (d0 :: ds)[idx]? = some (fin 0 e))
    (hnorm : idx + 1 = n → (2 : ℚ) ^ (-1022 : Int) ≤ val t) :
    bisect ((accD d0 ds).map Num.f) (mul (proba h) t) 0 (n - 1) ≠ idx := by
  intro hi
  have hn : n = ds.length + 1 := by rw [← hlen, accD_length]
  obtain ⟨hp1, hp2, hp3⟩ := float_partition (accD d0 ds) (mul (proba h) t) n hlen (by omega)
    hall hpw
  rw [hi] at hp1 hp2 hp3
  have hxlt : idx + 1 = n → ∃ mx ex, mul (proba h) t = fin mx ex ∧ 0 ≤ mx ∧
      val (fin mx ex) < val t := fun hh' => mul_proba_lt h hh t htrep (hnorm hh')
  obtain ⟨mt, et, hteq, hmt, _, _⟩ := htrep
  subst hteq
  have hxnn := mul_proba_nonneg h hh mt et hmt
  generalize mul (proba h) (fin mt et) = x at *
  have hcsl : ∀ k, k < n → (accD d0 ds)[k]! ∈ accD d0 ds := by
    intro k hk
    rw [getElem!_eq _ k (by omega)]
    exact List.getElem_mem _
  have hget : ∀ k, k < n → ((accD d0 ds).map Num.f)[k]! = Num.f (accD d0 ds)[k]! := by
    intro k hk
    rw [map_f_getElem! _ k (by omega), getElem!_eq _ k (by omega)]
  cases idx with
  | zero =>
    simp only [List.getElem?_cons_zero, Option.some.injEq] at hz
    subst hz
    clear hxlt hnorm
    by_cases hn1 : 0 < n - 1
    · have h3 := hp3 hn1
      rw [hget 0 (by omega), accD_zero, dblLt_f] at h3
      rcases hxnn with hx | ⟨mx, ex, hx, hmx⟩
      · rw [hx] at h3; cases h3
      · rw [hx, lt_iff_val, val_fin, val_fin] at h3
        have : (0 : ℚ) ≤ (mx : ℚ) * 2 ^ ex := mul_nonneg (by exact_mod_cast hmx) (two_zpow_pos _).le
        simp only [Int.cast_zero, zero_mul] at h3
        linarith
    · -- a single group of weight zero: the total is zero
      have hds : ds = [] := List.eq_nil_of_length_eq_zero (by omega)
      subst hds
      simp only [accD, List.getLast?_singleton, Option.some.injEq] at hl
      subst hl
      rw [htval, val_fin] at htpos
      simp at htpos
  | succ k =>
    rw [List.getElem?_cons_succ] at hz
    obtain ⟨hk, hdk⟩ := getElem?_getElem! ds k _ hz
    have hstep := accD_succ ds d0 k hk
    rw [hdk] at hstep
    have hrepk := hall _ (hcsl k (by omega))
    obtain ⟨hrepk1, hveq⟩ := add_zero_val' _ hrepk e _ hstep.symm
    obtain ⟨m1, e1, hc1, _⟩ := hrepk
    obtain ⟨m2, e2, hc2, _⟩ := hrepk1
    have h2 := hp2 k (by omega)
    rw [hget k (by omega), dblLt_f, hc1] at h2
    rw [hc1, hc2] at hveq
    by_cases hlast : k + 1 < n - 1
    · have h3 := hp3 hlast
      rw [hget (k + 1) (by omega), dblLt_f, hc2, lt_congr_val x m2 e2 m1 e1 hveq, h2] at h3
      cases h3
    · -- the last group: the position is strictly below the total
      have hkn : k + 1 = n - 1 := by omega
      have hlk : (accD d0 ds)[k + 1]! = l := by
        have := getLast?_getElem! _ _ hl
        rw [hlen, ← hkn] at this
        exact this
      obtain ⟨mx, ex, hx, _, hxv⟩ := hxlt (by omega)
      rw [htval, ← hlk, hc2, hveq] at hxv
      rw [hx, (lt_iff_val mx ex m1 e1).2 hxv] at h2
      cases h2

end Dbl
end Pyab

namespace Pyab
namespace Dbl
open Pyab.Proofs
open Pyab.Choice

theorem val_minNormal : val (fin 1 (-1022)) = (2 : ℚ) ^ (-1022 : Int) := by
  rw [val_fin]; simp

/-- the running sums of float weights are non-decreasing under the model's own `Dbl.le`,
    whenever the last one is finite -/
theorem float_cum_sorted (ws cum : List Num) (l : Dbl) (hw : FloatWeights ws)
    (hacc : accumulate ws = .ok cum) (hlast : cum.getLast? = some (Num.f l))
    (hfin : l.isFinite = true) :
    ∀ i j, i ≤ j → j < cum.length →
      ∃ ci cj, cum[i]! = Num.f ci ∧ cum[j]! = Num.f cj ∧ ci.isFinite = true ∧
        cj.isFinite = true ∧ le ci cj = true := by
  obtain ⟨dl, hdl, hP⟩ := exists_floats NonnegDouble ws hw
  cases dl with
  | nil =>
    subst hdl
    have : cum = [] := by
      have := hacc
      simp only [List.map_nil, accumulate, pure, Except.pure, Except.ok.injEq] at this
      exact this.symm
    subst this
    intro i j _ hj; simp at hj
  | cons d0 ds =>
    subst hdl
    rw [accumulate_floats] at hacc
    have hcum : cum = (accD d0 ds).map Num.f := (Except.ok.inj hacc).symm
    subst hcum
    rw [List.getLast?_map] at hlast
    cases hl : (accD d0 ds).getLast? with
    | none => rw [hl] at hlast; cases hlast
    | some l' =>
      rw [hl] at hlast
      simp only [Option.map_some, Option.some.injEq] at hlast
      have hll : l' = l := Num.f.inj hlast
      subst hll
      have hallfin := accD_finite ds d0 l' hl hfin
      have hrep0 : ∀ d ∈ d0 :: ds, IsRep d := fun d hd => (hP d hd).isRep
      obtain ⟨hall, hpw⟩ := accD_sorted ds d0 (hrep0 d0 (by simp))
        (fun d hd => (hrep0 d (by simp [hd])).finNonneg) hallfin
      intro i j hij hj
      rw [List.length_map] at hj
      have hi : i < (accD d0 ds).length := by omega
      have hle := sorted_val_le _ hpw i j hij hj
      obtain ⟨m1, e1, h1, _⟩ := hall _ (List.getElem_mem hi)
      obtain ⟨m2, e2, h2, _⟩ := hall _ (List.getElem_mem hj)
      refine ⟨_, _, map_f_getElem! _ i hi, map_f_getElem! _ j hj, ?_, ?_, ?_⟩
      · rw [h1]; rfl
      · rw [h2]; rfl
      · rw [h1, h2] at hle ⊢
        exact (le_iff_val _ _ _ _).2 hle

/-- the partition statement on the code's own terms -/
theorem float_choice_partition (ws : List Num) (h n i : Nat) (hw : FloatWeights ws)
    (hres : choiceIdx (some h) n (some ws) none = .ok (.idx i)) :
    ∃ (cum : List Num) (c t : Dbl), accumulate ws = .ok cum ∧ cum.length = n ∧
      cum.getLast? = some (Num.f c) ∧ Num.add (Num.f c) (Num.f zero) = .ok (Num.f t) ∧
      i < n ∧
      (∀ j, j < i → Num.dblLt (mul (proba h) t) cum[j]! = false) ∧
      (i < n - 1 → Num.dblLt (mul (proba h) t) cum[i]! = true) ∧
      (h < 2 ^ 32 → le (fin 1 (-1022)) c = true → Num.dblLt (mul (proba h) t) (Num.f c) = true) := by
  obtain ⟨d0, ds, l, t, hws, hlen, hl, ht, _, hall, hpw, htrep, htval, htpos, hi⟩ :=
    float_run ws h n i hw hres
  have hn : n = ds.length + 1 := by rw [← hlen, accD_length]
  obtain ⟨hp1, hp2, hp3⟩ := float_partition (accD d0 ds) (mul (proba h) t) n hlen (by omega)
    hall hpw
  rw [← hi] at hp1 hp2 hp3
  refine ⟨(accD d0 ds).map Num.f, l, t, by rw [hws, accumulate_floats], by
    rw [List.length_map]; exact hlen, by rw [List.getLast?_map, hl]; rfl, by rw [numAdd_ff, ht],
    by omega, hp2, hp3, ?_⟩
  intro hh hnorm
  obtain ⟨ml, el, hleq, _⟩ := hall l (List.mem_of_getLast? hl)
  rw [hleq, le_iff_val, val_minNormal] at hnorm
  rw [← hleq, ← htval] at hnorm
  obtain ⟨mx, ex, hx, _, hxv⟩ := mul_proba_lt h hh t htrep hnorm
  rw [hx, dblLt_f, hleq, lt_iff_val, ← hleq, ← htval]
  exact hxv

/-- a zero-weighted group is never selected, on the code's own terms -/
theorem float_choice_zero_never (ws cum : List Num) (h n i : Nat) (e : Int) (hh : h < 2 ^ 32)
    (hw : FloatWeights ws) (hacc : accumulate ws = .ok cum)
    (hz : ws[i]? = some (Num.f (fin 0 e)))
    (hnorm : i + 1 = n → ∃ c, cum.getLast? = some (Num.f c) ∧ le (fin 1 (-1022)) c = true) :
    choiceIdx (some h) n (some ws) none ≠ .ok (.idx i) := by
  intro hres
  obtain ⟨d0, ds, l, t, hws, hlen, hl, ht, _, hall, hpw, htrep, htval, htpos, hi⟩ :=
    float_run ws h n i hw hres
  subst hws
  rw [accumulate_floats] at hacc
  have hcum : cum = (accD d0 ds).map Num.f := (Except.ok.inj hacc).symm
  subst hcum
  have hz' : (d0 :: ds)[i]? = some (fin 0 e) := by
    rw [List.getElem?_map] at hz
    cases hd : (d0 :: ds)[i]? with
    | none => rw [hd] at hz; cases hz
    | some d =>
      rw [hd] at hz
      simp only [Option.map_some, Option.some.injEq] at hz
      rw [Num.f.inj hz]
  have hnorm' : i + 1 = n → (2 : ℚ) ^ (-1022 : Int) ≤ val t := by
    intro hin
    obtain ⟨c, hc, hle⟩ := hnorm hin
    rw [List.getLast?_map, hl] at hc
    simp only [Option.map_some, Option.some.injEq] at hc
    have hcl : l = c := Num.f.inj hc
    subst hcl
    obtain ⟨ml, el, hleq, _⟩ := hall l (List.mem_of_getLast? hl)
    rw [hleq, le_iff_val, val_minNormal] at hle
    rw [htval, hleq]; exact hle
  exact float_zero_never d0 ds l t h n i e hh hlen hl hall hpw htrep htval htpos hz' hnorm' hi.symm

end Dbl
end Pyab

namespace Pyab
namespace Dbl
open Pyab.Proofs
open Pyab.Choice

/-- decimal literals (`float("0.1")`) are genuine non-negative doubles -/
theorem roundRat_nonnegDouble (n d : Nat) (hfin : (roundRat false n d).isFinite = true) :
    NonnegDouble (roundRat false n d) := by
  unfold roundRat at hfin ⊢
  split
  · exact ⟨0, 0, le_refl _, (round_zero 0).symm, rfl⟩
  · rename_i hc
    simp only [hc, if_false, Bool.false_eq_true] at hfin
    simp only [Bool.false_eq_true, if_false] at hfin ⊢
    exact ⟨_, _, by simp only [Int.ofNat_eq_natCast]; omega, rfl, hfin⟩

theorem ofDecimal_nonnegDouble (digits scale : Nat)
    (hfin : (ofDecimal false digits scale).isFinite = true) :
    NonnegDouble (ofDecimal false digits scale) := roundRat_nonnegDouble _ _ hfin

theorem ofNat_nonnegDouble (k : Nat) (hfin : (ofNat k).isFinite = true) : NonnegDouble (ofNat k) :=
  ⟨_, _, by simp only [Int.ofNat_eq_natCast]; omega, rfl, hfin⟩

end Dbl
end Pyab
