/-
  Exact order of finite binary64 values of the model (`Dbl.fin m e` = m·2^e, not normalised).

  `Dbl.leq` is defined by cross-multiplication with powers of two (integers only) and shown to be
  exactly the model's own comparison (`Dbl.le`, `Dbl.lt`, which go through `align`).  Reflexivity,
  transitivity and totality are proved through the exact value `Dbl.val : Dbl → ℚ`, which is the
  common scale on which three values with different exponents can be compared; `val` is used only
  inside proofs (`Proofs/DblRound.lean`, `Proofs/ChoiceFloat.lean`), never in a Properties statement.
-/
import Mathlib.Tactic.Linarith
import Mathlib.Tactic.Ring
import Mathlib.Tactic.Positivity
import Mathlib.Algebra.Order.Field.Power
import Pyab.Proofs.Choice2

namespace Pyab
namespace Dbl
open Pyab.Proofs (pow2_eq)

/-- exact value of a finite double (0 for the non-finite ones; only used on finite values) -/
def val : Dbl → ℚ
  | fin m e => (m : ℚ) * (2 : ℚ) ^ e
  | _ => 0

/-- `a ≤ b` on finite doubles by cross-multiplication with powers of two; no rationals -/
def leq : Dbl → Dbl → Prop
  | fin m1 e1, fin m2 e2 =>
      m1 * 2 ^ (e1 - min e1 e2).toNat ≤ m2 * 2 ^ (e2 - min e1 e2).toNat
  | _, _ => False

theorem val_fin (m e : Int) : val (fin m e) = (m : ℚ) * (2 : ℚ) ^ e := rfl

theorem leq_fin (m1 e1 m2 e2 : Int) : leq (fin m1 e1) (fin m2 e2) ↔
    m1 * 2 ^ (e1 - min e1 e2).toNat ≤ m2 * 2 ^ (e2 - min e1 e2).toNat := Iff.rfl

theorem two_zpow_pos (e : Int) : (0 : ℚ) < (2 : ℚ) ^ e := zpow_pos (by norm_num) e

theorem two_zpow_add (a b : Int) : (2 : ℚ) ^ (a + b) = 2 ^ a * 2 ^ b := zpow_add₀ (by norm_num) a b

theorem two_zpow_toNat (d : Int) (hd : 0 ≤ d) : ((2 : ℚ) ^ d.toNat) = (2 : ℚ) ^ d := by
  rw [← zpow_natCast, Int.toNat_of_nonneg hd]

theorem two_zpow_le {a b : Int} (h : a ≤ b) : (2 : ℚ) ^ a ≤ 2 ^ b :=
  zpow_le_zpow_right₀ (by norm_num) h

theorem two_zpow_lt_iff {a b : Int} : (2 : ℚ) ^ a < 2 ^ b ↔ a < b :=
  zpow_lt_zpow_iff_right₀ (by norm_num)

theorem scale_val (m : Int) (e E : Int) (h : E ≤ e) :
    (((m * 2 ^ (e - E).toNat : Int) : ℚ)) * 2 ^ E = (m : ℚ) * 2 ^ e := by
  push_cast
  rw [two_zpow_toNat _ (by omega), mul_assoc, ← two_zpow_add]
  congr 2; omega

theorem mul_zpow_le_iff (a b : Int) (E : Int) :
    (a : ℚ) * 2 ^ E ≤ (b : ℚ) * 2 ^ E ↔ a ≤ b := by
  rw [mul_le_mul_iff_of_pos_right (two_zpow_pos E)]
  exact Int.cast_le

theorem leq_iff_val (m1 e1 m2 e2 : Int) :
    leq (fin m1 e1) (fin m2 e2) ↔ val (fin m1 e1) ≤ val (fin m2 e2) := by
  rw [leq_fin, val_fin, val_fin, ← scale_val m1 e1 (min e1 e2) (by omega), ← scale_val m2 e2 (min e1 e2) (by omega),
    mul_zpow_le_iff]

theorem align_val (m1 e1 m2 e2 : Int) :
    ((align m1 e1 m2 e2).1 : ℚ) * 2 ^ (align m1 e1 m2 e2).2.2 = (m1 : ℚ) * 2 ^ e1 ∧
    ((align m1 e1 m2 e2).2.1 : ℚ) * 2 ^ (align m1 e1 m2 e2).2.2 = (m2 : ℚ) * 2 ^ e2 := by
  by_cases h : e1 ≤ e2
  · rw [align, if_pos h]
    refine ⟨rfl, ?_⟩
    have := scale_val m2 e2 e1 h
    simp only [pow2_eq, Int.ofNat_eq_natCast]
    push_cast at this ⊢
    exact this
  · rw [align, if_neg h]
    refine ⟨?_, rfl⟩
    have := scale_val m1 e1 e2 (by omega)
    simp only [pow2_eq, Int.ofNat_eq_natCast]
    push_cast at this ⊢
    exact this

theorem cmp_fin_fin (m1 e1 m2 e2 : Int) :
    cmp (fin m1 e1) (fin m2 e2) = some (compare (align m1 e1 m2 e2).1 (align m1 e1 m2 e2).2.1) := rfl

theorem le_iff_val (m1 e1 m2 e2 : Int) :
    le (fin m1 e1) (fin m2 e2) = true ↔ val (fin m1 e1) ≤ val (fin m2 e2) := by
  obtain ⟨h1, h2⟩ := align_val m1 e1 m2 e2
  unfold le
  rw [val_fin, val_fin, cmp_fin_fin, ← h1, ← h2, mul_zpow_le_iff]
  generalize (align m1 e1 m2 e2).1 = a
  generalize (align m1 e1 m2 e2).2.1 = b
  rcases Int.lt_trichotomy a b with h | h | h
  · have : compare a b = .lt := Int.compare_eq_lt.2 h
    simp only [this]; exact ⟨fun _ => by omega, fun _ => trivial⟩
  · have : compare a b = .eq := Int.compare_eq_eq.2 h
    simp only [this]; exact ⟨fun _ => by omega, fun _ => trivial⟩
  · have : compare a b = .gt := Int.compare_eq_gt.2 h
    simp only [this]; constructor
    · intro h'; cases h'
    · intro h'; omega

theorem lt_iff_val (m1 e1 m2 e2 : Int) :
    lt (fin m1 e1) (fin m2 e2) = true ↔ val (fin m1 e1) < val (fin m2 e2) := by
  obtain ⟨h1, h2⟩ := align_val m1 e1 m2 e2
  unfold lt
  rw [val_fin, val_fin, cmp_fin_fin, ← h1, ← h2, beq_iff_eq, Option.some_inj, Int.compare_eq_lt,
    mul_lt_mul_iff_of_pos_right (two_zpow_pos _)]
  exact Int.cast_lt.symm

theorem le_iff_leq (m1 e1 m2 e2 : Int) :
    le (fin m1 e1) (fin m2 e2) = true ↔ leq (fin m1 e1) (fin m2 e2) := by
  rw [le_iff_val, leq_iff_val]

theorem lt_iff_leq (m1 e1 m2 e2 : Int) :
    lt (fin m1 e1) (fin m2 e2) = true ↔
      leq (fin m1 e1) (fin m2 e2) ∧ ¬ leq (fin m2 e2) (fin m1 e1) := by
  rw [lt_iff_val, leq_iff_val, leq_iff_val]
  constructor
  · intro h; exact ⟨le_of_lt h, not_le.2 h⟩
  · intro h; exact not_le.1 h.2

theorem leq_refl (m e : Int) : leq (fin m e) (fin m e) := by
  rw [leq_iff_val]

theorem leq_trans (m1 e1 m2 e2 m3 e3 : Int) (h12 : leq (fin m1 e1) (fin m2 e2))
    (h23 : leq (fin m2 e2) (fin m3 e3)) : leq (fin m1 e1) (fin m3 e3) := by
  rw [leq_iff_val] at *
  exact le_trans h12 h23

theorem leq_total (m1 e1 m2 e2 : Int) :
    leq (fin m1 e1) (fin m2 e2) ∨ leq (fin m2 e2) (fin m1 e1) := by
  rw [leq_iff_val, leq_iff_val]
  exact le_total _ _

theorem leq_antisymm_val (m1 e1 m2 e2 : Int) (h12 : leq (fin m1 e1) (fin m2 e2))
    (h21 : leq (fin m2 e2) (fin m1 e1)) : val (fin m1 e1) = val (fin m2 e2) := by
  rw [leq_iff_val] at *
  exact le_antisymm h12 h21

end Dbl
end Pyab
