/-
  Model of `codegen/python/python_generator.py: PythonCodeGen.generate()`.

  Two views of the same output are produced:
  * `genText`  — the emitted text, character for character (tied to the real
    generator's text on every correspondence case);
  * `genProg`  — the emitted *lines* as (indentation depth, structured line), which
    `PyExec` turns back into nested blocks the way Python's indentation rules do
    and then executes.  Expressions inside a line are kept as the operator
    *strings* the generator emits (from the generated `OpTable`) and as terms whose
    string constants went through `render → Python's literal reader`.
-/
import Pyab.Model.Syntax
import Pyab.Model.PyStrLit
namespace Pyab

/-- facts about the generator that the translator extracts from `/repo` -/
structure GenCfg where
  /-- how `_generate_op` renders each operator: enum member name ↦ Python text -/
  opTable : List (String × String)
  /-- strings in predicates are rendered with `repr()` (true) or wrapped in `'…'` verbatim (false) -/
  strReprTerm : Bool
  /-- same for the salt -/
  strReprSalt : Bool
  /-- parameter list is de-duplicated between splitters and condition fields -/
  dedupSig : Bool
  /-- tuples are rendered member by member (true) or through `str()` of the raw value (false) -/
  tupleRecursive : Bool
  printable : Nat → Bool

def CmpOp.table : CmpOp → String := CmpOp.name

def GenCfg.op (cfg : GenCfg) (name : String) : String :=
  match lookupS name cfg.opTable with
  | some s => s
  | none => "<?>"
where lookupS (k : String) : List (String × String) → Option String
  | [] => none
  | (k', v) :: rest => if k == k' then some v else lookupS k rest

/-! ### sorted sets of names (`sorted(set(...))`) -/

def insertSorted (x : String) : List String → List String
  | [] => [x]
  | y :: ys => if x < y then x :: y :: ys else if x == y then y :: ys else y :: insertSorted x ys

/-- `sorted(set(xs))` — Python compares `str` by code point, as Lean's `<` on `String` does -/
def sortDedup (xs : List String) : List String := xs.foldr insertSorted []

/-! ### identifiers referenced by predicates (`_conditional_ids`) -/

mutual
def Term.idents : Term → List String
  | .ident n => [n]
  | .tuple l => Term.identsList l
  | _ => []
def Term.identsList : List Term → List String
  | [] => []
  | t :: ts => t.idents ++ Term.identsList ts
end

/-- with the non-recursive tuple rendering identifiers inside tuples are never registered -/
def Term.identsTop : Term → List String
  | .ident n => [n]
  | _ => []

def Pred.idents (deep : Bool) : Pred → List String
  | .cmp l _ r => if deep then l.idents ++ r.idents else l.identsTop ++ r.identsTop
  | .and a b => a.idents deep ++ b.idents deep
  | .or a b => a.idents deep ++ b.idents deep
  | .not a => a.idents deep

mutual
def Cond.idents (deep : Bool) : Cond → List String
  | .ret _ => []
  | .ifte p t rest => p.idents deep ++ t.idents deep ++ rest.idents deep
def Sub.idents (deep : Bool) : Sub → List String
  | .none => []
  | .else_ t => t.idents deep
  | .elif p t rest => p.idents deep ++ t.idents deep ++ rest.idents deep
end

/-! ### rendering of terms -/

def intStr (i : Int) : Except Err String :=
  if PyVal.natDigits i.natAbs > PyVal.maxStrDigits then throw (.valueError "digits") else pure (toString i)

def floatStr (d : Dbl) (negZero : Bool) : String := if negZero then "-0.0" else Dbl.repr d

def renderStr (cfg : GenCfg) (useRepr : Bool) (s : String) : String :=
  if useRepr then PyStrLit.pyReprStr cfg.printable s else "'" ++ s ++ "'"

mutual
/-- `_generate_term` -/
def renderTerm (cfg : GenCfg) : Term → Except Err String
  | .int i => intStr i
  | .float d nz => pure (floatStr d nz)
  | .str s => pure (renderStr cfg cfg.strReprTerm s)
  | .ident n => pure n
  | .tuple l => do
      if cfg.tupleRecursive then
        let parts ← renderTerms cfg l
        match parts with
        | [p] => pure ("(" ++ p ++ ",)")
        | _ => pure ("(" ++ ", ".intercalate parts ++ ")")
      else
        -- str(tuple) of the raw members: only literal members render as Python would read them
        let parts ← renderRawMembers cfg l
        match parts with
        | [p] => pure ("(" ++ p ++ ",)")
        | _ => pure ("(" ++ ", ".intercalate parts ++ ")")
def renderTerms (cfg : GenCfg) : List Term → Except Err (List String)
  | [] => pure []
  | t :: ts => do
      let a ← renderTerm cfg t
      let b ← renderTerms cfg ts
      pure (a :: b)
def renderRawMembers (cfg : GenCfg) : List Term → Except Err (List String)
  | [] => pure []
  | t :: ts => do
      let a ← match t with
        | .int i => intStr i
        | .float d nz => pure (floatStr d nz)
        | .str s => pure (PyStrLit.pyReprStr cfg.printable s)
        | .ident _ => throw (.other "model-gap:ident-in-raw-tuple")
        | .tuple _ => throw (.other "model-gap:tuple-in-raw-tuple")
      let b ← renderRawMembers cfg ts
      pure (a :: b)
end

def renderPred (cfg : GenCfg) : Pred → Except Err String
  | .cmp l op r => do
      let a ← renderTerm cfg l
      let b ← renderTerm cfg r
      pure ("(" ++ a ++ " " ++ cfg.op op.name ++ " " ++ b ++ ")")
  | .and a b => do
      let x ← renderPred cfg a
      let y ← renderPred cfg b
      pure ("(" ++ x ++ " " ++ cfg.op "AND" ++ " " ++ y ++ ")")
  | .or a b => do
      let x ← renderPred cfg a
      let y ← renderPred cfg b
      pure ("(" ++ x ++ " " ++ cfg.op "OR" ++ " " ++ y ++ ")")
  | .not a => do
      let x ← renderPred cfg a
      pure ("(" ++ cfg.op "NOT" ++ " " ++ x ++ ")")

/-- `str([group.group_definition for ...])`: list repr, members through `repr()` -/
def renderGroupDef (cfg : GenCfg) : Term → Except Err String
  | .int i => intStr i
  | .float d nz => pure (floatStr d nz)
  | .str s => pure (PyStrLit.pyReprStr cfg.printable s)
  | _ => throw (.other "group-definition-not-literal")

def renderWeight : Num → Except Err String
  | .i v => intStr v
  | .f d => pure (Dbl.repr d)

def renderList (parts : List String) : String := "[" ++ ", ".intercalate parts ++ "]"

def tabs (n : Nat) : String := String.ofList (List.replicate n '\t')

def renderReturn (cfg : GenCfg) (d : Nat) (gs : List Group) : Except Err String := do
  let pop ← gs.mapM (fun g => renderGroupDef cfg g.defn)
  let ws ← gs.mapM (fun g => renderWeight g.weight)
  pure (tabs d ++ "return partial(deterministic_choice, population=" ++ renderList pop
        ++ ", weights=" ++ renderList ws ++ ")\n")

mutual
/-- `_generate_conditionals` at indentation depth `d` -/
def renderCond (cfg : GenCfg) (d : Nat) : Cond → Except Err String
  | .ret gs => renderReturn cfg d gs
  | .ifte p t rest => do
      let ps ← renderPred cfg p
      let tb ← renderCond cfg (d + 1) t
      let fb ← renderSub cfg d rest
      pure (tabs d ++ "if " ++ ps ++ ": \n" ++ tb ++ fb)
def renderSub (cfg : GenCfg) (d : Nat) : Sub → Except Err String
  | .none => pure ""
  | .else_ t => do
      let tb ← renderCond cfg (d + 1) t
      pure (tabs d ++ "else: \n" ++ tb)
  | .elif p t rest => do
      let ps ← renderPred cfg p
      let tb ← renderCond cfg (d + 1) t
      let fb ← renderSub cfg d rest
      pure (tabs d ++ "elif " ++ ps ++ ": \n" ++ tb ++ fb)
end

def topline : String :=
  "from functools import partial\n" ++
  "from pyab_experiment.codegen.python.custom_exceptions import ExperimentConditionalFailedError\n" ++
  "from pyab_experiment.binning.binning import deterministic_choice\n" ++
  "\n#*******AUTOGENERATED DO NOT MODIFY ***********\n\n"

/-- `local_vars`: sorted set of splitter names -/
def Experiment.localVars (e : Experiment) : List String :=
  match e.splitters with
  | some l => sortDedup l
  | none => []

/-- `conditional_ids`: sorted set of identifiers the predicates mention -/
def Experiment.condIds (cfg : GenCfg) (e : Experiment) : List String :=
  sortDedup (e.cond.idents cfg.tupleRecursive)

/-- the parameter list of the generated experiment function (without `**kwargs`) -/
def Experiment.params (cfg : GenCfg) (e : Experiment) : List String :=
  let lv := e.localVars
  let ci := e.condIds cfg
  if cfg.dedupSig then lv ++ ci.filter (fun c => !lv.contains c) else lv ++ ci

/-- `generate_key_definition` -/
def keyText (cfg : GenCfg) (e : Experiment) : String :=
  let saltDef := match e.salt with
    | some s => renderStr cfg cfg.strReprSalt s
    | none => "''"
  match e.localVars with
  | [] => "None"
  | lv => saltDef ++ "+" ++ "''.join(map(str, [" ++ ", ".intercalate lv ++ "]))"

/-- `PythonCodeGen(ast, expose_experiment_variant_function=expose).generate()` -/
def genText (cfg : GenCfg) (e : Experiment) (expose : Bool) : Except Err String := do
  let d := if expose then 1 else 2
  let body ← renderCond cfg d e.cond
  let ci := e.condIds cfg
  let assign := ", ".intercalate (ci.map fun i => i ++ "=" ++ i)
  let body := body ++ "\n" ++ tabs d ++ "raise ExperimentConditionalFailedError()" ++ "\n"
  let sig := tabs (d - 1) ++ "def choose_experiment_variant(" ++ ", ".intercalate ci ++ "): \n"
  let call := tabs 1 ++ "return choose_experiment_variant(" ++ assign ++ ")(" ++ keyText cfg e ++ ")\n"
  let fnDef := "def " ++ e.id ++ "(" ++ ", ".intercalate (e.params cfg ++ ["**kwargs"]) ++ "): \n"
  if expose then pure (topline ++ fnDef ++ call ++ sig ++ body)
  else pure (topline ++ fnDef ++ sig ++ body ++ call)

end Pyab
