/-
  The sly lexer loop (`sly/lex.py: Lexer.tokenize`) over rule tables extracted
  from `/repo` by the translator: at each index try the master alternation in
  rule order — first rule that matches wins, *not* the longest match — run the
  rule's action, keep a stack of lexer states, and on no match call the error
  callback (raise, or skip one character, as extracted from the source).
-/
import Pyab.Model.Regex
import Pyab.Model.Syntax
namespace Pyab

inductive Conv where
  | raw | int | float | strip1
deriving Repr, DecidableEq, Inhabited

inductive LexAction where
  | emit (c : Conv)               -- yield a token (after the value conversion)
  | ignore                        -- `ignore_*` rule, or a rule function returning None
  | push (state : Nat)            -- self.push_state(<state>) ; no token
  | pop                           -- self.pop_state() ; no token
  | unknown (what : String)       -- an action the translator could not classify
deriving Repr, Inhabited

structure LexRule where
  name : String
  re : Re
  action : LexAction
deriving Repr, Inhabited

structure LexState where
  name : String
  rules : List LexRule
  /-- does `error()` of this lexer class raise (true) or skip one character and go on (false) -/
  errorRaises : Bool
deriving Inhabited

structure LexSpec where
  states : Array LexState
  tables : CharTables
  /-- after the last character: must the lexer be back in state 0?  (unterminated block comment) -/
  eofRequiresInitial : Bool
deriving Inhabited

/-- value of a run of Unicode decimal digits, as `int()` reads it -/
def digitVal (t : CharTables) (c : Char) : Nat :=
  let n := c.toNat
  -- the zero of the run this digit belongs to: largest zero ≤ n
  let z := t.digitZeros.foldl (fun acc z => if z ≤ n && n < z + 10 then z else acc) n
  n - z

def digitsVal (t : CharTables) (cs : List Char) : Nat :=
  cs.foldl (fun acc c => acc * 10 + digitVal t c) 0

def convert (t : CharTables) (c : Conv) (lexeme : List Char) : TokVal :=
  match c with
  | .raw => .raw (String.ofList lexeme)
  | .int => .int (digitsVal t lexeme)
  | .float =>
      let ip := lexeme.takeWhile (· != '.')
      let fp := (lexeme.dropWhile (· != '.')).drop 1
      .float (Dbl.ofDecimal false (digitsVal t (ip ++ fp)) fp.length)
  | .strip1 => .str (String.ofList ((lexeme.drop 1).dropLast))

/-- one lexeme with what became of it: used by the no-skip theorem (C06) -/
inductive Piece where
  | token (kind : String) (lexeme : List Char)
  | trivia (lexeme : List Char)
  | skipped (c : Char)             -- dropped by a non-raising error callback
deriving Repr

/-- first rule of the state that matches at the head of `s` -/
def firstMatch (t : CharTables) (bound : Nat) (rules : List LexRule) (prev : Option Char) (s : List Char) :
    Option (LexRule × Nat × List Char) :=
  match rules with
  | [] => none
  | r :: rs =>
    match Re.matchPrefix t bound r.re prev s with
    | some (n, rest) => some (r, n, rest)
    | none => firstMatch t bound rs prev s

structure LexOut where
  toks : List Token
  pieces : List Piece
deriving Inhabited

/-- the tokenize loop; `fuel` ≥ remaining length + 1 -/
def lexLoop (spec : LexSpec) (bound : Nat) : Nat → (state : Nat) → (stack : List Nat) → Option Char → List Char →
    Except Err LexOut
  | 0, _, _, _, _ => throw (.other "fuel")
  | fuel + 1, st, stack, prev, s =>
    match s with
    | [] =>
        if spec.eofRequiresInitial && st != 0 then throw .lexError else pure ⟨[], []⟩
    | c :: cs =>
      match spec.states[st]? with
      | none => throw (.other "bad-lexer-state")
      | some state =>
      match firstMatch spec.tables bound state.rules prev s with
      | some (r, n, rest) =>
          if n == 0 then throw (.other "empty-match") else
          let lexeme := s.take n
          let prev' := lexeme.getLast?
          match r.action with
          | .emit conv => do
              let out ← lexLoop spec bound fuel st stack prev' rest
              pure ⟨⟨r.name, convert spec.tables conv lexeme⟩ :: out.toks, .token r.name lexeme :: out.pieces⟩
          | .ignore => do
              let out ← lexLoop spec bound fuel st stack prev' rest
              pure ⟨out.toks, .trivia lexeme :: out.pieces⟩
          | .push st' => do
              let out ← lexLoop spec bound fuel st' (st :: stack) prev' rest
              pure ⟨out.toks, .trivia lexeme :: out.pieces⟩
          | .pop =>
              match stack with
              | [] => throw (.other "pop-empty")
              | st' :: stack' => do
                  let out ← lexLoop spec bound fuel st' stack' prev' rest
                  pure ⟨out.toks, .trivia lexeme :: out.pieces⟩
          | .unknown w => throw (.other ("unknown-action:" ++ w))
      | none =>
          if state.errorRaises then throw .lexError
          else do
            let out ← lexLoop spec bound fuel st stack (some c) cs
            pure ⟨out.toks, .skipped c :: out.pieces⟩

def lexFull (spec : LexSpec) (text : String) : Except Err LexOut :=
  let s := text.toList
  lexLoop spec s.length (s.length + 1) 0 [] none s

def lex (spec : LexSpec) (text : String) : Except Err (List Token) :=
  (lexFull spec text).map (·.toks)

end Pyab
