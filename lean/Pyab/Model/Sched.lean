/-
  Abstract shared-memory interleaving model (Mathlib-free, computable, total).

  A *thread* is a straight-line program with forward conditional jumps over a private
  register file.  All threads share one memory `Mem`; every entry of a schedule executes
  exactly ONE instruction of the named thread, so a schedule (`List Tid`) is an arbitrary
  instruction-level interleaving — the granularity at which CPython may switch threads
  is coarser (bytecode boundaries), so every real interleaving is one of these.

  Locations are split into `priv t x` (locals of thread `t`, and fields of objects thread
  `t` allocated and never published) and `shared g` (everything else: module globals,
  class attributes, fields of published objects).  The split is only a *naming*: the
  semantics lets every thread load and store every location; who is allowed to touch what
  is expressed by the predicates `Owns`, `ReadsOwn`, `NoStoreTo`, … below, which appear
  as hypotheses of the theorems.
-/
namespace Pyab.Sched

abbrev Tid := Nat
abbrev Val := Nat

inductive Loc
  | priv (t : Tid) (x : Nat)
  | shared (g : Nat)
  deriving DecidableEq, Repr

/-- `l` is one of thread `t`'s private locations -/
def Loc.isPrivOf (t : Tid) : Loc → Bool
  | .priv t' _ => t' == t
  | .shared _ => false

/-- atomic instructions.  `load`/`store` move a value between memory and a register,
    `op`/`const` compute on registers, `jz r n` skips the next `n` instructions when
    register `r` holds 0 (so control flow may depend on loaded values; jumps are forward
    only, hence every program terminates). -/
inductive Instr
  | load (reg : Nat) (l : Loc)
  | store (l : Loc) (reg : Nat)
  | op (dst : Nat) (f : Val → Val → Val) (a b : Nat)
  | const (dst : Nat) (v : Val)
  | jz (reg : Nat) (skip : Nat)

abbrev Mem := Loc → Val
abbrev Regs := Nat → Val

def setMem (m : Mem) (l : Loc) (v : Val) : Mem := fun l' => if l' = l then v else m l'
def setReg (r : Regs) (i : Nat) (v : Val) : Regs := fun j => if j = i then v else r j

structure ThreadState where
  prog : List Instr
  regs : Regs

/-- execute instruction `i` (the remaining program after it being `rest`) -/
def execInstr (mem : Mem) (regs : Regs) (rest : List Instr) : Instr → Mem × ThreadState
  | .load r l => (mem, ⟨rest, setReg regs r (mem l)⟩)
  | .store l r => (setMem mem l (regs r), ⟨rest, regs⟩)
  | .op d f a b => (mem, ⟨rest, setReg regs d (f (regs a) (regs b))⟩)
  | .const d v => (mem, ⟨rest, setReg regs d v⟩)
  | .jz r n => (mem, ⟨if regs r = 0 then rest.drop n else rest, regs⟩)

/-- one atomic step of a thread; `none` when it has finished -/
def stepThread (mem : Mem) (th : ThreadState) : Option (Mem × ThreadState) :=
  match th.prog with
  | [] => none
  | i :: rest => some (execInstr mem th.regs rest i)

/-- shared memory and the thread pool (thread `i` = index `i`) -/
abbrev Config := Mem × List ThreadState

/-- schedule thread `t` for one instruction (finished / non-existent thread: no-op) -/
def stepCfg (cfg : Config) (t : Tid) : Config :=
  match cfg.2[t]? with
  | none => cfg
  | some th =>
    match stepThread cfg.1 th with
    | none => cfg
    | some r => (r.1, cfg.2.set t r.2)

/-- run a whole schedule -/
def runSched (cfg : Config) (sched : List Tid) : Config := sched.foldl stepCfg cfg

/-! ### running one thread with nobody else around -/

def stepAlone (s : Mem × ThreadState) : Mem × ThreadState := (stepThread s.1 s.2).getD s

def stepsAlone : Nat → Mem × ThreadState → Mem × ThreadState
  | 0, s => s
  | n+1, s => stepsAlone n (stepAlone s)

/-- run a thread to completion, alone (every step consumes at least one instruction) -/
def runAlone (mem : Mem) (th : ThreadState) : Mem × ThreadState :=
  stepsAlone th.prog.length (mem, th)

/-- the store the thread's next step performs, if it is a store -/
def storeEvent (th : ThreadState) : Option (Loc × Val) :=
  match th.prog with
  | .store l r :: _ => some (l, th.regs r)
  | _ => none

def storesFuel (g : Loc) : Nat → Mem × ThreadState → List Val
  | 0, _ => []
  | n+1, s =>
    (match storeEvent s.2 with
      | some (l, v) => if l = g then [v] else []
      | none => []) ++ storesFuel g n (stepAlone s)

/-- the values the thread stores to `g`, in order, when run alone from `mem` -/
def storesAlone (g : Loc) (mem : Mem) (th : ThreadState) : List Val :=
  storesFuel g th.prog.length (mem, th)

/-! ### access disciplines (all decidable) -/

def Instr.loadOk (ok : Loc → Bool) : Instr → Bool
  | .load _ l => ok l
  | _ => true

def Instr.storeOk (ok : Loc → Bool) : Instr → Bool
  | .store l _ => ok l
  | _ => true

/-- every load of the program reads a location in `A` -/
def LoadsIn (A : Loc → Bool) (prog : List Instr) : Bool := prog.all (·.loadOk A)
/-- no store of the program writes a location in `A` -/
def NoStoreIn (A : Loc → Bool) (prog : List Instr) : Bool := prog.all (·.storeOk (fun l => !A l))

/-- thread-local reads AND writes: every location the program loads or stores is `priv t _` -/
def Owns (t : Tid) (prog : List Instr) : Bool :=
  prog.all fun i => i.loadOk (Loc.isPrivOf t) && i.storeOk (Loc.isPrivOf t)

/-- thread-local reads: every load is from `priv t _` (stores may go anywhere) -/
def ReadsOwn (t : Tid) (prog : List Instr) : Bool := LoadsIn (Loc.isPrivOf t) prog

/-- the program never stores to a `priv t _` location -/
def NoStoreTo (t : Tid) (prog : List Instr) : Bool := NoStoreIn (Loc.isPrivOf t) prog

/-- the program neither loads nor stores a `priv t _` location -/
def NoTouch (t : Tid) (prog : List Instr) : Bool :=
  prog.all fun i => i.loadOk (fun l => !Loc.isPrivOf t l) && i.storeOk (fun l => !Loc.isPrivOf t l)

/-- the program never stores to the single location `g` -/
def NoStoreLoc (g : Loc) (prog : List Instr) : Bool := NoStoreIn (fun l => l == g) prog

/-- thread `j`'s stores go to its own private locations or to shared ones -/
def StoresScoped (j : Tid) (prog : List Instr) : Bool :=
  prog.all (·.storeOk fun l => match l with | .priv t _ => t == j | .shared _ => true)

def wellScopedFrom : Nat → List ThreadState → Bool
  | _, [] => true
  | j, th :: rest => StoresScoped j th.prog && wellScopedFrom (j+1) rest

/-- decidable form of "private means private": thread `j` stores only to `priv j _` / `shared _` -/
def WellScoped (ths : List ThreadState) : Bool := wellScopedFrom 0 ths

/-- no thread stores into another thread's private locations -/
def PrivRespected (ths : List ThreadState) : Prop :=
  ∀ i j th, i ≠ j → ths[j]? = some th → NoStoreTo i th.prog = true

/-- two memories agree on region `A` -/
def AgreeOn (A : Loc → Bool) (m1 m2 : Mem) : Prop := ∀ l, A l = true → m1 l = m2 l

/-- states thread `i` can reach from `s0` when, before each of its steps, everything except
    its private locations may have been overwritten arbitrarily (by other threads) -/
inductive HavocReach (i : Tid) (s0 : Mem × ThreadState) : Mem × ThreadState → Prop
  | refl : HavocReach i s0 s0
  | step {s : Mem × ThreadState} (m' : Mem) : HavocReach i s0 s →
      AgreeOn (Loc.isPrivOf i) m' s.1 → HavocReach i s0 (stepAlone (m', s.2))

/-- whatever the other threads do to non-private memory, thread `i` stores to `g` only
    values satisfying `S` (most general "writer" hypothesis; sufficient conditions:
    `NoStoreLoc`, `ReadsOwn ∧ WritesOnly`, `pubSafe`) -/
def RobustWrites (g : Loc) (S : Val → Prop) (i : Tid) (mem : Mem) (th : ThreadState) : Prop :=
  ∀ s, HavocReach i (mem, th) s → ∀ v, storeEvent s.2 = some (g, v) → S v

/-- decidable syntactic discipline: every store to `g` is immediately preceded by
    `const r v` loading an allowed value into the stored register, and jumps only go to the
    end of the program (so no jump can land between the `const` and the `store`).  The loads
    and branches of such a program may depend on racy shared reads (e.g. `self._checksum`). -/
def pubSafe (g : Loc) (ok : Val → Bool) : List Instr → Bool
  | [] => true
  | .const r v :: .store l r' :: rest => ((l != g) || (r == r' && ok v)) && pubSafe g ok rest
  | .store l _ :: rest => (l != g) && pubSafe g ok rest
  | .jz _ n :: rest => decide (rest.length ≤ n) && pubSafe g ok rest
  | _ :: rest => pubSafe g ok rest

/-- run alone from `mem`, thread `th` stores to `g` only values satisfying `S` -/
def WritesOnly (g : Loc) (S : Val → Prop) (mem : Mem) (th : ThreadState) : Prop :=
  ∀ k v, storeEvent (stepsAlone k (mem, th)).2 = some (g, v) → S v

def Instr.isJump : Instr → Bool
  | .jz _ _ => true
  | _ => false

/-- straight-line code -/
def JumpFree (prog : List Instr) : Bool := prog.all fun i => !i.isJump

/-- thread `t` of `cfg` is in thread state `s.2` (remaining program, registers) and all of
    `t`'s private locations hold the values they hold in `s.1` -/
def EndsAs (t : Tid) (cfg : Config) (s : Mem × ThreadState) : Prop :=
  cfg.2[t]? = some s.2 ∧ ∀ x, cfg.1 (.priv t x) = s.1 (.priv t x)

/-- the shared location holding the evaluator's installed function (`self.run_experiment`) -/
def fnLoc : Loc := .shared 0

/-- decidable "this thread installs only `new`": either it reads only its private locations
    and, run alone, every value it stores to `fnLoc` is `new`; or it follows the `pubSafe`
    discipline (its control flow may then depend on racy shared reads) -/
def PublishesOnly (new : Val) (r : Tid) (mem : Mem) (th : ThreadState) : Prop :=
  (ReadsOwn r th.prog = true ∧ ∀ v ∈ storesAlone fnLoc mem th, v = new) ∨
  pubSafe fnLoc (fun v => v == new) th.prog = true

instance (new r mem th) : Decidable (PublishesOnly new r mem th) := by
  unfold PublishesOnly; infer_instance

end Pyab.Sched
