/-
  Python string literals as far as generated code can reach them:

  * `pyReprStr printable s` — CPython's `repr(str)` (`unicode_repr`): quote choice,
    backslash escapes, `\xhh` / `\uhhhh` / `\Uhhhhhhhh` for non-printable code
    points (`printable` comes from the translator: `str.isprintable` ranges);
  * `pyScanStr` — the tokenizer + escape decoder for a short (non-triple, non-raw,
    unprefixed) string literal at the head of the input.

  The round trip `pyScanStr (pyReprStr s ++ rest) = some (s, rest)` is C05/C13's
  core lemma (`Proofs/StrLit.lean`).
-/
import Pyab.Model.Regex
namespace Pyab
namespace PyStrLit

def hexDigit (n : Nat) : Char :=
  if n < 10 then Char.ofNat (48 + n) else Char.ofNat (87 + n)

/-- `n` as exactly `w` lower-case hex digits -/
def hexFixed : Nat → Nat → List Char
  | 0, _ => []
  | w + 1, n => hexFixed w (n / 16) ++ [hexDigit (n % 16)]

def escapeChar (printable : Nat → Bool) (quote : Char) (c : Char) : List Char :=
  let n := c.toNat
  if c == quote || c == '\\' then ['\\', c]
  else if c == '\t' then ['\\', 't']
  else if c == '\n' then ['\\', 'n']
  else if c == '\r' then ['\\', 'r']
  else if n < 32 || n == 127 then '\\' :: 'x' :: hexFixed 2 n
  else if n < 127 then [c]
  else if printable n then [c]
  else if n ≤ 255 then '\\' :: 'x' :: hexFixed 2 n
  else if n ≤ 65535 then '\\' :: 'u' :: hexFixed 4 n
  else '\\' :: 'U' :: hexFixed 8 n

def chooseQuote (s : List Char) : Char :=
  if s.contains '\'' && !s.contains '"' then '"' else '\''

/-- `repr(s)` -/
def pyReprChars (printable : Nat → Bool) (s : List Char) : List Char :=
  let q := chooseQuote s
  q :: (s.flatMap (escapeChar printable q)) ++ [q]

def pyReprStr (printable : Nat → Bool) (s : String) : String :=
  String.ofList (pyReprChars printable s.toList)

def hexVal (c : Char) : Option Nat :=
  let n := c.toNat
  if 48 ≤ n && n ≤ 57 then some (n - 48)
  else if 97 ≤ n && n ≤ 102 then some (n - 87)
  else if 65 ≤ n && n ≤ 70 then some (n - 55)
  else none

/-- read exactly `w` hex digits -/
def readHex : Nat → Nat → List Char → Option (Nat × List Char)
  | 0, acc, s => some (acc, s)
  | w + 1, acc, c :: s => match hexVal c with
      | some v => readHex w (acc * 16 + v) s
      | none => none
  | _ + 1, _, [] => none

def octVal (c : Char) : Option Nat :=
  let n := c.toNat
  if 48 ≤ n && n ≤ 55 then some (n - 48) else none

def hexN (cs : List Char) : Option Nat :=
  cs.foldl (fun acc c => match acc, hexVal c with
    | some a, some v => some (a * 16 + v)
    | _, _ => none) (some 0)

/-- body of a literal after the opening quote: decoded characters and the rest after
    the closing quote; `none` = not a well-formed single-line literal (SyntaxError)
    or an escape this model does not decode (`\N{..}`, surrogate escapes) -/
def scanBody (quote : Char) : List Char → Option (List Char × List Char)
  | [] => none
  | '\\' :: 'x' :: h1 :: h2 :: s =>
      match hexN [h1, h2] with
      | some v => (scanBody quote s).map fun (b, r) => (Char.ofNat v :: b, r)
      | none => none
  | '\\' :: 'u' :: h1 :: h2 :: h3 :: h4 :: s =>
      match hexN [h1, h2, h3, h4] with
      | some v =>
          if 0xD800 ≤ v && v ≤ 0xDFFF then none
          else (scanBody quote s).map fun (b, r) => (Char.ofNat v :: b, r)
      | none => none
  | '\\' :: 'U' :: h1 :: h2 :: h3 :: h4 :: h5 :: h6 :: h7 :: h8 :: s =>
      match hexN [h1, h2, h3, h4, h5, h6, h7, h8] with
      | some v =>
          if (0xD800 ≤ v && v ≤ 0xDFFF) || v > 0x10FFFF then none
          else (scanBody quote s).map fun (b, r) => (Char.ofNat v :: b, r)
      | none => none
  | '\\' :: e :: s =>
      let simple (ch : Char) := (scanBody quote s).map fun (b, r) => (ch :: b, r)
      if e == '\\' then simple '\\'
      else if e == '\'' then simple '\''
      else if e == '"' then simple '"'
      else if e == 'n' then simple '\n'
      else if e == 't' then simple '\t'
      else if e == 'r' then simple '\r'
      else if e == 'a' then simple (Char.ofNat 7)
      else if e == 'b' then simple (Char.ofNat 8)
      else if e == 'f' then simple (Char.ofNat 12)
      else if e == 'v' then simple (Char.ofNat 11)
      else if e == 'x' || e == 'u' || e == 'U' || e == 'N' then none   -- truncated / named escapes
      else if e == '\n' then scanBody quote s                        -- line continuation
      else if (octVal e).isSome then none                             -- octal escapes: never emitted by repr; not decoded here
      else (scanBody quote s).map fun (b, r) => ('\\' :: e :: b, r)   -- unknown escape: backslash kept
  | c :: s =>
    if c == quote then some ([], s)
    else if c == '\n' || c == '\r' || c == '\\' then none
    else (scanBody quote s).map fun (b, r) => (c :: b, r)

/-- scan one short string literal at the head of the input.  Triple quotes: an empty
    literal followed by another quote would open a triple-quoted string in Python;
    reported as `none` (the generator never emits that after `repr`). -/
def pyScanStr (s : List Char) : Option (String × List Char) :=
  match s with
  | q :: rest =>
    if q == '\'' || q == '"' then
      match rest with
      | q2 :: q3 :: _ => if q2 == q && q3 == q then none else
          (scanBody q rest).map fun (b, r) => (String.ofList b, r)
      | _ => (scanBody q rest).map fun (b, r) => (String.ofList b, r)
    else none
  | [] => none

end PyStrLit
end Pyab
