/-
  Model of `utils/stats.py`, written once over a structure of operations and
  instantiated at Lean's `Float` (binary64, same libm calls as CPython; used by the
  correspondence) — the instantiation at `ℝ` lives in `Pyab/Spec/StatsReal.lean`.
-/
namespace Pyab
namespace Stats

/-- the operations `probit` / `confidence_interval` use -/
structure Ops (α : Type) where
  add : α → α → α
  sub : α → α → α
  mul : α → α → α
  div : α → α → α
  abs : α → α
  log : α → α
  sqrt : α → α              -- `x ** 0.5`
  sq : α → α                -- `x ** 2`
  ofNat : Nat → α
  pi : α

variable {α : Type} (o : Ops α)

/-- `(pi / 8) ** 0.5 * abs(log(alpha / (1 - alpha)))` -/
def probit (alpha : α) : α :=
  o.mul (o.sqrt (o.div o.pi (o.ofNat 8))) (o.abs (o.log (o.div alpha (o.sub (o.ofNat 1) alpha))))

inductive Method where
  | agrestiCoull | wald
deriving Repr, DecidableEq

/-- ASCII lower-casing as `str.lower()` does on the method names that matter -/
def lowerAscii (s : String) : String :=
  String.ofList (s.toList.map fun c => if 'A' ≤ c && c ≤ 'Z' then Char.ofNat (c.toNat + 32) else c)

/-- the method dispatch of `confidence_interval`: anything else is refused -/
def parseMethod (lowered : String) : Option Method :=
  if lowered == "agresti-coull" then some .agrestiCoull
  else if lowered == "wald" then some .wald
  else none

def interval (m : Method) (n p confidence : α) : α × α :=
  let alpha := o.sub (o.ofNat 1) confidence
  let z := probit o (o.div alpha (o.ofNat 2))
  let estSucc := o.mul p n
  match m with
  | .agrestiCoull =>
      let z2 := o.sq z
      let nPrime := o.add n z2
      let pPrime := o.mul (o.div (o.ofNat 1) nPrime) (o.add estSucc (o.mul (o.div (o.ofNat 1) (o.ofNat 2)) z2))
      let iv := o.mul z (o.sqrt (o.div (o.mul pPrime (o.sub (o.ofNat 1) pPrime)) nPrime))
      (o.sub pPrime iv, o.add pPrime iv)
  | .wald =>
      let iv := o.mul z (o.sqrt (o.div (o.mul p (o.sub (o.ofNat 1) p)) n))
      (o.sub p iv, o.add p iv)

/-- binary64 instance.  `z**2` and `x**0.5` go through libm `pow` exactly as CPython's
    `float_pow` does (glibc's `pow` is not correctly rounded: `z**2 ≠ z*z` and
    `x**0.5 ≠ sqrt x` for about one input in a thousand, so `pow` it must be). -/
def floatOps : Ops Float where
  add := (· + ·)
  sub := (· - ·)
  mul := (· * ·)
  div := (· / ·)
  abs := Float.abs
  log := Float.log
  sqrt := fun x => Float.pow x 0.5
  sq := fun x => Float.pow x 2.0
  ofNat := Float.ofNat
  pi := 3.141592653589793

def probitF (a : Float) : Float := probit floatOps a

def confidenceIntervalF (n p c : Float) (method : String) : Option (Float × Float) :=
  (parseMethod (lowerAscii method)).map fun m => interval floatOps m n p c

def floatOfMantExp (m : Int) (e : Int) : Float :=
  Float.scaleB (Float.ofInt m) e

end Stats
end Pyab
