/-
  Model of `experiment_evaluator.py`: the whole compile pipeline as one function
  and the `(checksum, compiled function)` record of an `ExperimentEvaluator`
  instance, stepped by `new / recompile / call`.
-/
import Pyab.Model.Lexer
import Pyab.Model.Parser
import Pyab.Model.PyExec
namespace Pyab

structure Pipeline where
  lex : LexSpec
  lr : LRTables
  run : RunCfg
  /-- `_checksum` is stored before the new text has compiled (true) or after (false) -/
  checksumEarly : Bool

/-- `parse_source(text)` then code generation and `compile()`: the accepted program or the error -/
def Pipeline.compile (p : Pipeline) (text : String) : Except Err Experiment := do
  let toks ← Pyab.lex p.lex text
  let e ← lrParse p.lr toks
  compileChecks p.run.toGenCfg e
  pure e

/-- `ExperimentEvaluator(text)(**env)` -/
def Pipeline.runText (p : Pipeline) (text : String) (env : Env) : Except Err Outcome := do
  let e ← p.compile text
  runGenerated p.run e env

structure EvState where
  checksum : Option String          -- `_checksum` (none: the class default "")
  fn : Option Experiment            -- `run_experiment` (none: the class stub)
deriving Inhabited

inductive EvOp where
  | new (id : Nat) (text : String)
  | recompile (id : Nat) (text : String)
  | call (id : Nat) (env : Env)

inductive EvOut where
  | ok
  | err (e : Err)
  | result (o : Outcome)
  | noSuchEvaluator
deriving Inhabited

abbrev World := List (Nat × EvState)

def World.get (w : World) (id : Nat) : Option EvState :=
  match w with
  | [] => none
  | (k, v) :: rest => if k == id then some v else World.get rest id

def World.set (w : World) (id : Nat) (s : EvState) : World :=
  match w with
  | [] => [(id, s)]
  | (k, v) :: rest => if k == id then (k, s) :: rest else (k, v) :: World.set rest id s

/-- `recompile` on one instance: new state and raised error, if any -/
def recompileState (p : Pipeline) (digest : String → String) (s : EvState) (text : String) :
    EvState × Option Err :=
  let d := digest text
  if s.checksum == some d then (s, none)
  else
    match p.compile text with
    | .ok e => ({ checksum := some d, fn := some e }, none)
    | .error err =>
        (if p.checksumEarly then { s with checksum := some d } else s, some err)

def step (p : Pipeline) (digest : String → String) (w : World) : EvOp → World × EvOut
  | .new id text =>
      let (s, err) := recompileState p digest ⟨none, none⟩ text
      match err with
      | some e => (w, .err e)                -- constructor raised: no object, `id` keeps whatever it was bound to
      | none => (w.set id s, .ok)
  | .recompile id text =>
      match w.get id with
      | none => (w, .noSuchEvaluator)
      | some s =>
          let (s', err) := recompileState p digest s text
          (w.set id s', match err with | some e => .err e | none => .ok)
  | .call id env =>
      match w.get id with
      | none => (w, .noSuchEvaluator)
      | some s =>
          match s.fn with
          | none => (w, .err .notLoaded)
          | some e =>
              match runGenerated p.run e env with
              | .ok o => (w, .result o)
              | .error err => (w, .err err)

def runHistory (p : Pipeline) (digest : String → String) : World → List EvOp → List EvOut
  | _, [] => []
  | w, op :: ops =>
      let (w', out) := step p digest w op
      out :: runHistory p digest w' ops

def md5hex (text : String) : String := MD5.hexdigest text.toUTF8.toList

end Pyab
