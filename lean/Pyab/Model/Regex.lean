/-
  A small backtracking regular-expression matcher with Python `re` priority
  semantics (first alternative first, greedy / lazy repetition, backtracking into
  earlier choices), in continuation-passing style.  It is *not* a longest-match
  automaton: sly's lexer relies on `re.match` of one master alternation, so rule
  order and greediness are observable, and the properties C02/C06/C07/C08 live
  exactly there.

  The regex ASTs themselves are generated from `/repo` by the translator
  (`Generated/LexRules.lean`) through `re._parser.parse`.
-/
namespace Pyab

inductive SetItem where
  | chr (c : Nat)
  | range (lo hi : Nat)
  | cat (name : String)            -- "digit" | "space" | "word" | "not_digit" | ...
deriving Repr, DecidableEq, Inhabited

inductive Re where
  | eps
  | lit (c : Nat)
  | notLit (c : Nat)
  | set (items : List SetItem) (neg : Bool)
  | any                             -- `.` without DOTALL: anything but '\n'
  | seq (a b : Re)
  | alt (a b : Re)
  | rep (min : Nat) (max : Option Nat) (greedy : Bool) (r : Re)
  | boundary (neg : Bool)           -- \b / \B
  | look (neg : Bool) (r : Re)      -- (?=r) / (?!r)
  | unsupported (what : String)     -- construct the model does not cover: never matches, flagged by the tie
deriving Repr, Inhabited

/-- character classes as sorted inclusive code-point ranges (from the translator) -/
structure CharTables where
  digit : Array (Nat × Nat)
  space : Array (Nat × Nat)
  word  : Array (Nat × Nat)
  /-- first code point of every run of ten decimal digits `0..9` -/
  digitZeros : Array Nat
deriving Inhabited

def inRanges (rs : Array (Nat × Nat)) (c : Nat) : Bool :=
  -- binary search over sorted disjoint ranges
  let rec go (fuel lo hi : Nat) : Bool :=
    match fuel with
    | 0 => false
    | fuel + 1 =>
      if lo < hi then
        let mid := (lo + hi) / 2
        let (a, b) := rs[mid]!
        if c < a then go fuel lo mid
        else if c > b then go fuel (mid + 1) hi
        else true
      else false
  go (rs.size + 1) 0 rs.size

def CharTables.isCat (t : CharTables) (name : String) (c : Nat) : Bool :=
  match name with
  | "digit" => inRanges t.digit c
  | "space" => inRanges t.space c
  | "word" => inRanges t.word c
  | "not_digit" => !inRanges t.digit c
  | "not_space" => !inRanges t.space c
  | "not_word" => !inRanges t.word c
  | _ => false

def SetItem.test (t : CharTables) (c : Nat) : SetItem → Bool
  | .chr x => c == x
  | .range lo hi => lo ≤ c && c ≤ hi
  | .cat n => t.isCat n c

def isWordChar (t : CharTables) : Option Char → Bool
  | none => false
  | some c => inRanges t.word c.toNat

namespace Re

/-- continuation: previous character (for `\b`), number of characters consumed so far,
    remaining input; the answer is (consumed, remaining) of the overall match -/
abbrev K := Option Char → Nat → List Char → Option (Nat × List Char)

/-- repetition of a one-step matcher; `fuel` bounds the number of iterations -/
def repLoop (one : Option Char → Nat → List Char → K → Option (Nat × List Char)) (greedy : Bool) :
    Nat → Nat → Option Nat → Option Char → Nat → List Char → K → Option (Nat × List Char)
  | 0, _, _, _, _, _, _ => none
  | fuel + 1, min, max, p, n, s, k =>
    let dec : Option Nat → Option Nat := fun m => m.map (· - 1)
    if min > 0 then
      one p n s (fun p' n' s' => repLoop one greedy fuel (min - 1) (dec max) p' n' s' k)
    else if max == some 0 then k p n s
    else
      let more : Unit → Option (Nat × List Char) := fun _ =>
        one p n s (fun p' n' s' =>
          if n' > n then repLoop one greedy fuel 0 (dec max) p' n' s' k else none)
      if greedy then (more ()).orElse (fun _ => k p n s)
      else (k p n s).orElse more

/-- `m t r prev n s k`: try to match `r` at the head of `s` (having consumed `n` characters
    so far), then continue with `k` -/
def m (t : CharTables) (bound : Nat) : Re → Option Char → Nat → List Char → K → Option (Nat × List Char)
  | .eps, p, n, s, k => k p n s
  | .lit c, _, n, s, k => match s with
      | x :: xs => if x.toNat == c then k (some x) (n + 1) xs else none
      | [] => none
  | .notLit c, _, n, s, k => match s with
      | x :: xs => if x.toNat != c then k (some x) (n + 1) xs else none
      | [] => none
  | .set items neg, _, n, s, k => match s with
      | x :: xs => if (items.any (·.test t x.toNat)) != neg then k (some x) (n + 1) xs else none
      | [] => none
  | .any, _, n, s, k => match s with
      | x :: xs => if x != '\n' then k (some x) (n + 1) xs else none
      | [] => none
  | .seq a b, p, n, s, k => m t bound a p n s (fun p' n' s' => m t bound b p' n' s' k)
  | .alt a b, p, n, s, k => (m t bound a p n s k).orElse (fun _ => m t bound b p n s k)
  | .rep min max greedy r, p, n, s, k =>
      -- iterations are bounded by `bound` ≥ remaining input length (each must consume) plus `min`
      repLoop (fun p' n' s' k' => m t bound r p' n' s' k') greedy (bound + min + 2) min max p n s k
  | .boundary neg, p, n, s, k =>
      let a := isWordChar t p
      let b := isWordChar t s.head?
      if (a != b) != neg then k p n s else none
  | .look neg r, p, n, s, k =>
      let ok := (m t bound r p n s (fun _ n' rest => some (n', rest))).isSome
      if ok != neg then k p n s else none
  | .unsupported _, _, _, _, _ => none

/-- `re.match` of a single pattern: number of characters matched and the remaining input -/
def matchPrefix (t : CharTables) (bound : Nat) (r : Re) (prev : Option Char) (s : List Char) : Option (Nat × List Char) :=
  m t bound r prev 0 s (fun _ n rest => some (n, rest))

def hasUnsupported : Re → Bool
  | .unsupported _ => true
  | .seq a b => hasUnsupported a || hasUnsupported b
  | .alt a b => hasUnsupported a || hasUnsupported b
  | .rep _ _ _ r => hasUnsupported r
  | .look _ r => hasUnsupported r
  | _ => false

end Re
end Pyab
