/-
  Python values that a caller can pass as a field, a literal can denote, or a
  group can be; with the fragment of Python's data model the generated code
  reaches: `str()`, `==`, ordering with the numeric tower and `TypeError` for
  unordered pairs, `in` on tuples / strings.
-/
import Pyab.Model.Dbl
namespace Pyab

/-- outcome classes of everything observable (exceptions mapped to a small enum) -/
inductive Err where
  | unroutable          -- ExperimentConditionalFailedError
  | lexError            -- LexError
  | parseError          -- YaccError / ParseError
  | validationError     -- pydantic ValidationError
  | pySyntaxError       -- SyntaxError when compiling the generated text
  | nameError
  | typeError
  | missingField        -- TypeError: missing required keyword argument
  | valueError (kind : String)   -- len | nonpositive | nonfinite | digits
  | indexError
  | encodeError         -- UnicodeEncodeError
  | notLoaded           -- RuntimeError("Code was not loaded")
  | other (what : String)
deriving Repr, DecidableEq, Inhabited

def Err.tag : Err → String
  | .unroutable => "Unroutable" | .lexError => "LexError" | .parseError => "ParseError"
  | .validationError => "ValidationError"
  | .pySyntaxError => "PySyntaxError" | .nameError => "NameError" | .typeError => "TypeError"
  | .missingField => "MissingField" | .valueError k => "ValueError:" ++ k
  | .indexError => "IndexError" | .encodeError => "EncodeError" | .notLoaded => "NotLoaded"
  | .other w => "Other:" ++ w

inductive PyVal where
  | none
  | bool (b : Bool)
  | int (i : Int)
  | float (d : Dbl) (negZero : Bool)     -- negZero: the value is -0.0 (only `str` can see it)
  | str (s : String)
  | tuple (l : List PyVal)
deriving Repr, Inhabited

namespace PyVal

/-- CPython's default limit for int -> str conversion -/
def maxStrDigits : Nat := 4300

def natDigits (n : Nat) : Nat := (toString n).length

mutual
/-- `repr(v)`; the string case is a parameter (`reprStr`, see `PyStrLit.pyReprStr`) -/
def pyReprWith (reprStr : String → String) : PyVal → Except Err String
  | .none => pure "None"
  | .bool b => pure (if b then "True" else "False")
  | .int i => if natDigits i.natAbs > maxStrDigits then throw (.valueError "digits") else pure (toString i)
  | .float d nz => pure (if nz then "-0.0" else Dbl.repr d)
  | .str s => pure (reprStr s)
  | .tuple l => do
      let parts ← pyReprListWith reprStr l
      match parts with
      | [p] => pure ("(" ++ p ++ ",)")
      | _ => pure ("(" ++ ", ".intercalate parts ++ ")")
def pyReprListWith (reprStr : String → String) : List PyVal → Except Err (List String)
  | [] => pure []
  | x :: xs => do
      let a ← pyReprWith reprStr x
      let b ← pyReprListWith reprStr xs
      pure (a :: b)
end

/-- `str(v)`: a string is itself, everything else is its `repr` — so a string *nested in a
    tuple* is printed by `reprStr` (quote choice, escapes; instantiated at
    `PyStrLit.pyReprStr printable` as `PyVal.pyStr` in `PyExec.lean`) -/
def pyStrWith (reprStr : String → String) : PyVal → Except Err String
  | .str s => pure s
  | v => pyReprWith reprStr v

/-- numeric view for the numeric tower: bool ⊂ int, float -/
inductive Num where
  | i (v : Int)
  | f (d : Dbl)

def toNum : PyVal → Option Num
  | .bool b => some (.i (if b then 1 else 0))
  | .int i => some (.i i)
  | .float d _ => some (.f d)
  | _ => Option.none

def numCmp : Num → Num → Option Ordering
  | .i a, .i b => some (compare a b)
  | .i a, .f d => Dbl.cmpInt a d
  | .f d, .i b => (Dbl.cmpInt b d).map fun o => match o with | .lt => .gt | .gt => .lt | .eq => .eq
  | .f a, .f b => Dbl.cmp a b

/-- lexicographic comparison of strings by code point (Python `str` ordering) -/
def strCmp (a b : List Char) : Ordering :=
  match a, b with
  | [], [] => .eq
  | [], _ => .lt
  | _, [] => .gt
  | x :: xs, y :: ys => if x.toNat < y.toNat then .lt else if x.toNat > y.toNat then .gt else strCmp xs ys

mutual
/-- `a == b` (never raises on these types) -/
def pyEq : PyVal → PyVal → Bool
  | .none, .none => true
  | .str a, .str b => a == b
  | .tuple a, .tuple b => pyEqList a b
  | .tuple _, _ => false
  | _, .tuple _ => false
  | .str _, _ => false
  | _, .str _ => false
  | .none, _ => false
  | _, .none => false
  | .bool a, .bool b => a == b
  | .bool a, .int b => (if a then 1 else 0) == b
  | .int a, .bool b => a == (if b then 1 else 0)
  | .int a, .int b => a == b
  | .bool a, .float d _ => Dbl.cmpInt (if a then 1 else 0) d == some .eq
  | .float d _, .bool a => Dbl.cmpInt (if a then 1 else 0) d == some .eq
  | .int a, .float d _ => Dbl.cmpInt a d == some .eq
  | .float d _, .int a => Dbl.cmpInt a d == some .eq
  | .float a _, .float b _ => Dbl.cmp a b == some .eq
def pyEqList : List PyVal → List PyVal → Bool
  | [], [] => true
  | x :: xs, y :: ys => pyEq x y && pyEqList xs ys
  | _, _ => false
end

mutual
/-- three-way ordering or `TypeError`; `none` result = unordered (NaN involved) -/
def pyCmp : PyVal → PyVal → Except Err (Option Ordering)
  | .str a, .str b => pure (some (strCmp a.toList b.toList))
  | .tuple a, .tuple b => pyCmpList a b
  | .tuple _, _ => throw .typeError
  | _, .tuple _ => throw .typeError
  | a, b =>
    match toNum a, toNum b with
    | some x, some y => pure (numCmp x y)
    | _, _ => throw .typeError
def pyCmpList : List PyVal → List PyVal → Except Err (Option Ordering)
  | [], [] => pure (some .eq)
  | [], _ :: _ => pure (some .lt)
  | _ :: _, [] => pure (some .gt)
  | x :: xs, y :: ys => if pyEq x y then pyCmpList xs ys else pyCmp x y
end

/-- is `needle` a substring of `hay` -/
def isInfix (needle hay : List Char) : Bool :=
  let rec go (fuel : Nat) (h : List Char) : Bool :=
    match fuel with
    | 0 => needle.isEmpty
    | fuel + 1 => needle.isPrefixOf h || (match h with | [] => false | _ :: t => go fuel t)
  go (hay.length + 1) hay

/-- `a in b` -/
def pyIn (a b : PyVal) : Except Err Bool :=
  match b with
  | .tuple l => pure (l.any fun x => pyEq a x)
  | .str h => match a with
      | .str n => pure (isInfix n.toList h.toList)
      | _ => throw .typeError
  | _ => throw .typeError

end PyVal
end Pyab
