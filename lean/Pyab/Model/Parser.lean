/-
  The sly LALR driver (`sly/yacc.py: Parser.parse`) over the tables sly built for
  the code's grammar (dumped by the translator), with the grammar actions of
  `language/grammar.py` building the AST.

  * every reduce *checks* that the popped stack symbols are the production's
    right-hand side, so soundness w.r.t. the production list is provable for any
    table (`Proofs/LRSound.lean`);
  * the error path is "raise" only: sly's panic-mode recovery (reached when the
    parser's `error()` callback does not raise) is deliberately not modelled —
    `LRTables.errorRaises` records which of the two the code has, and the
    properties need it to be `true`.
-/
import Pyab.Model.Syntax
namespace Pyab

structure Prod where
  lhs : String
  rhs : List String
deriving Repr, DecidableEq, Inhabited

structure LRTables where
  /-- per state: terminal ↦ action (>0 shift to state, <0 reduce by production, 0 accept) -/
  action : Array (List (String × Int))
  goto : Array (List (String × Nat))
  defaulted : List (Nat × Int)
  prods : Array Prod
  /-- does `ExperimentParser.error` raise? -/
  errorRaises : Bool
  /-- pydantic `smart_union` on TerminalPredicate (exact-type match before coercion) -/
  smartUnionTerm : Bool
  /-- pydantic `smart_union` on ExperimentGroup -/
  smartUnionGroup : Bool
  /-- does the `tuple` grammar action build a Python tuple (true) or leave a list (false) -/
  tupleIsTuple : Bool
  /-- pydantic turns an integer group weight into a float (Union[NonNegativeFloat, NonNegativeInt]) -/
  weightToFloat : Bool
deriving Inhabited

/-- the grammar's start symbol: right-hand side of the augmented production 0 (`S' → start`) -/
def LRTables.startSym (tb : LRTables) : String :=
  match tb.prods[0]? with
  | some p => p.rhs.headD ""
  | none => ""

/-- semantic values on the parser stack -/
inductive Sem where
  | tok (t : Token)
  | unit
  | str (s : String)
  | optStr (o : Option String)
  | fields (l : List String)
  | optFields (o : Option (List String))
  | cond (c : Cond)
  | sub (s : Sub)
  | pred (p : Pred)
  | term (t : Term)
  | terms (l : List Term)
  | op (o : CmpOp)
  | groups (l : List Group)
  | num (n : Num)
  | exp (e : Experiment)
deriving Inhabited

def lookupS {β : Type} (k : String) : List (String × β) → Option β
  | [] => none
  | (k', v) :: rest => if k == k' then some v else lookupS k rest

def lookupN {β : Type} (k : Nat) : List (Nat × β) → Option β
  | [] => none
  | (k', v) :: rest => if k == k' then some v else lookupN k rest

/-- pydantic validation of a predicate operand (Union[float, int, str, tuple, Identifier]) -/
def validateTerm (smart : Bool) : Term → Term
  | .int i => if smart then .int i else .float (Dbl.ofInt i) false   -- left-to-right: float(v) succeeds first
  | t => t

/-- the grammar actions, keyed by production shape -/
def semAction (tb : LRTables) (p : Prod) (args : List Sem) : Option Sem :=
  match p.lhs, p.rhs, args with
  | "header", ["header_id", "LBRACE", "opt_header_salt", "opt_splitter", "conditional", "RBRACE"],
      [.str id, _, .optStr salt, .optFields sp, .cond c, _] => some (.exp ⟨id, salt, sp, c⟩)
  | "empty", [], [] => some .unit
  | "header_id", ["KW_DEF", "ID"], [_, .tok ⟨_, .raw s⟩] => some (.str s)
  | "opt_header_salt", ["empty"], [_] => some (.optStr none)
  | "opt_header_salt", ["KW_SALT", "COLON", "STRING_LITERAL"], [_, _, .tok ⟨_, .str s⟩] => some (.optStr (some s))
  | "opt_splitter", ["empty"], [_] => some (.optFields none)
  | "opt_splitter", ["KW_SPLITTERS", "COLON", "fields"], [_, _, .fields l] => some (.optFields (some l))
  | "fields", ["ID", "COMMA", "fields"], [.tok ⟨_, .raw s⟩, _, .fields l] => some (.fields (s :: l))
  | "fields", ["ID"], [.tok ⟨_, .raw s⟩] => some (.fields [s])
  | "conditional", ["KW_IF", "predicate", "LBRACE", "conditional", "RBRACE", "subconditional"],
      [_, .pred p, _, .cond c, _, .sub s] => some (.cond (.ifte p c s))
  | "conditional", ["return_expr"], [.groups g] => some (.cond (.ret g))
  | "subconditional", ["KW_ELIF", "predicate", "LBRACE", "conditional", "RBRACE", "subconditional"],
      [_, .pred p, _, .cond c, _, .sub s] => some (.sub (.elif p c s))
  | "subconditional", ["KW_ELSE", "LBRACE", "conditional", "RBRACE"], [_, _, .cond c, _] => some (.sub (.else_ c))
  | "subconditional", ["empty"], [_] => some (.sub .none)
  | "predicate", ["term", "logical_op", "term"], [.term a, .op o, .term b] =>
      some (.pred (.cmp (validateTerm tb.smartUnionTerm a) o (validateTerm tb.smartUnionTerm b)))
  | "predicate", ["LPAREN", "predicate", "RPAREN"], [_, .pred p, _] => some (.pred p)
  | "predicate", ["predicate", "KW_AND", "predicate"], [.pred a, _, .pred b] => some (.pred (.and a b))
  | "predicate", ["predicate", "KW_OR", "predicate"], [.pred a, _, .pred b] => some (.pred (.or a b))
  | "predicate", ["KW_NOT", "predicate"], [_, .pred a] => some (.pred (.not a))
  | "term", ["literal"], [.term t] => some (.term t)
  | "term", ["ID"], [.tok ⟨_, .raw s⟩] => some (.term (.ident s))
  | "term", ["tuple"], [.terms l] => some (.term (.tuple l))
  | "tuple", ["LPAREN", "term", "op_term"], [_, .term t, .terms l] => some (.terms (t :: l))
  | "op_term", ["COMMA", "term", "op_term"], [_, .term t, .terms l] => some (.terms (t :: l))
  | "op_term", ["RPAREN"], [_] => some (.terms [])
  | "logical_op", ["KW_LT"], [_] => some (.op .lt)
  | "logical_op", ["KW_GT"], [_] => some (.op .gt)
  | "logical_op", ["KW_GE"], [_] => some (.op .ge)
  | "logical_op", ["KW_LE"], [_] => some (.op .le)
  | "logical_op", ["KW_IN"], [_] => some (.op .isIn)
  | "logical_op", ["KW_NE"], [_] => some (.op .ne)
  | "logical_op", ["KW_EQ"], [_] => some (.op .eq)
  | "logical_op", ["KW_NOT_IN"], [_] => some (.op .notIn)
  | "return_expr", ["KW_RETURN", "return_statement"], [_, .groups g] => some (.groups g)
  | "return_statement", ["literal", "KW_WEIGHTED", "weight"], [.term t, _, .num w] => some (.groups [⟨t, w⟩])
  | "return_statement", ["literal", "KW_WEIGHTED", "weight", "COMMA", "return_statement"],
      [.term t, _, .num w, _, .groups g] => some (.groups (⟨t, w⟩ :: g))
  | "weight", ["NON_NEG_INTEGER"], [.tok ⟨_, .int n⟩] =>
      some (.num (if tb.weightToFloat then .f (Dbl.ofNat n) else .i n))
  | "weight", ["NON_NEG_FLOAT"], [.tok ⟨_, .float d⟩] => some (.num (.f d))
  | "literal", ["MINUS", "NON_NEG_INTEGER"], [_, .tok ⟨_, .int n⟩] => some (.term (.int (-(n : Int))))
  | "literal", ["MINUS", "NON_NEG_FLOAT"], [_, .tok ⟨_, .float d⟩] =>
      some (.term (.float (Dbl.neg d) (match d with | .fin 0 _ => true | _ => false)))
  | "literal", ["NON_NEG_INTEGER"], [.tok ⟨_, .int n⟩] => some (.term (.int n))
  | "literal", ["NON_NEG_FLOAT"], [.tok ⟨_, .float d⟩] => some (.term (.float d false))
  | "literal", ["STRING_LITERAL"], [.tok ⟨_, .str s⟩] => some (.term (.str s))
  | _, _, _ => none

/-- one stack entry: LR state, grammar symbol, semantic value -/
structure Entry where
  state : Nat
  sym : String
  sem : Sem
deriving Inhabited

/-- split off the top `n` entries (returned bottom-to-top order) -/
def popN (n : Nat) (stack : List Entry) : Option (List Entry × List Entry) :=
  if n ≤ stack.length then some ((stack.take n).reverse, stack.drop n) else none

def topState (stack : List Entry) : Nat :=
  match stack with
  | [] => 0
  | e :: _ => e.state

/-- the driver loop; the stack is a list with the top first; state 0 is the bottom.
    `fuel` bounds the number of steps. -/
def lrLoop (tb : LRTables) : Nat → List Entry → List Token → Except Err Experiment
  | 0, _, _ => throw (.other "fuel")
  | fuel + 1, stack, input =>
    let st := topState stack
    let la : String := match input with | [] => "$end" | t :: _ => t.kind
    let act : Option Int :=
      match lookupN st tb.defaulted with
      | some a => some a
      | none => (tb.action[st]?).bind (lookupS la)
    match act with
    | none => throw .parseError
    | some t =>
      if t > 0 then
        match input with
        | tok :: rest => lrLoop tb fuel (⟨t.toNat, tok.kind, .tok tok⟩ :: stack) rest
        | [] => throw (.other "shift-eof")
      else if t < 0 then
        match tb.prods[(-t).toNat]? with
        | none => throw (.other "bad-production")
        | some p =>
          match popN p.rhs.length stack with
          | none => throw (.other "stack-underflow")
          | some (args, stack') =>
            if args.map (·.sym) != p.rhs then throw (.other "rhs-mismatch") else
            match semAction tb p (args.map (·.sem)) with
            | none => throw (.other ("no-action:" ++ p.lhs))
            | some v =>
              match (tb.goto[topState stack']?).bind (lookupS p.lhs) with
              | none => throw (.other "no-goto")
              | some g => lrLoop tb fuel (⟨g, p.lhs, v⟩ :: stack') input
      else
        -- accept: only at end of input, with exactly the start symbol on the stack
        match input, stack with
        | [], [⟨_, sym, .exp e⟩] => if sym == tb.startSym then pure e else throw (.other "accept-wrong-symbol")
        | _, _ => throw (.other "accept-without-ast")

/-- number of driver steps is linear in the input for this grammar; generous bound -/
def lrParse (tb : LRTables) (toks : List Token) : Except Err Experiment :=
  lrLoop tb (16 * toks.length + 64) [] toks

end Pyab
