/-
  RFC 1321 MD5 over `List UInt8`, with `UInt32` arithmetic, plus the
  "hash position" the library derives from it:

      int(hashlib.md5(s.encode("utf-8")).hexdigest()[:8], 16)

  i.e. the big-endian value of digest bytes 0..3.  Mathlib-free, total,
  executable.  MD5 itself is *modelled*, not verified: it is pinned by the
  RFC known-answer vectors (Properties/C12.lean) and by the `pos`
  correspondence on every run.
-/
namespace Pyab.MD5

/-- per-round shift amounts -/
def sTable : Array UInt32 := #[
  7,12,17,22, 7,12,17,22, 7,12,17,22, 7,12,17,22,
  5, 9,14,20, 5, 9,14,20, 5, 9,14,20, 5, 9,14,20,
  4,11,16,23, 4,11,16,23, 4,11,16,23, 4,11,16,23,
  6,10,15,21, 6,10,15,21, 6,10,15,21, 6,10,15,21]

/-- floor(2^32 * |sin(i+1)|) -/
def kTable : Array UInt32 := #[
  0xd76aa478, 0xe8c7b756, 0x242070db, 0xc1bdceee, 0xf57c0faf, 0x4787c62a, 0xa8304613, 0xfd469501,
  0x698098d8, 0x8b44f7af, 0xffff5bb1, 0x895cd7be, 0x6b901122, 0xfd987193, 0xa679438e, 0x49b40821,
  0xf61e2562, 0xc040b340, 0x265e5a51, 0xe9b6c7aa, 0xd62f105d, 0x02441453, 0xd8a1e681, 0xe7d3fbc8,
  0x21e1cde6, 0xc33707d6, 0xf4d50d87, 0x455a14ed, 0xa9e3e905, 0xfcefa3f8, 0x676f02d9, 0x8d2a4c8a,
  0xfffa3942, 0x8771f681, 0x6d9d6122, 0xfde5380c, 0xa4beea44, 0x4bdecfa9, 0xf6bb4b60, 0xbebfbc70,
  0x289b7ec6, 0xeaa127fa, 0xd4ef3085, 0x04881d05, 0xd9d4d039, 0xe6db99e5, 0x1fa27cf8, 0xc4ac5665,
  0xf4292244, 0x432aff97, 0xab9423a7, 0xfc93a039, 0x655b59c3, 0x8f0ccc92, 0xffeff47d, 0x85845dd1,
  0x6fa87e4f, 0xfe2ce6e0, 0xa3014314, 0x4e0811a1, 0xf7537e82, 0xbd3af235, 0x2ad7d2bb, 0xeb86d391]

@[inline] def rotl (x : UInt32) (c : UInt32) : UInt32 :=
  (x <<< c) ||| (x >>> (32 - c))

/-- message padding: 0x80, zeros to 56 mod 64, then the bit length as 64-bit LE -/
def pad (msg : List UInt8) : List UInt8 :=
  let len := msg.length
  let bitLen : Nat := (len * 8) % (2 ^ 64)
  let zeros := (55 + 64 - len % 64) % 64
  let lenBytes := (List.range 8).map fun i => UInt8.ofNat ((bitLen >>> (8 * i)) % 256)
  msg ++ [0x80] ++ List.replicate zeros 0 ++ lenBytes

/-- little-endian 32-bit word from 4 bytes -/
@[inline] def word (b0 b1 b2 b3 : UInt8) : UInt32 :=
  b0.toUInt32 ||| (b1.toUInt32 <<< 8) ||| (b2.toUInt32 <<< 16) ||| (b3.toUInt32 <<< 24)

def wordsOf : List UInt8 → List UInt32
  | b0 :: b1 :: b2 :: b3 :: rest => word b0 b1 b2 b3 :: wordsOf rest
  | _ => []

structure St where
  a : UInt32
  b : UInt32
  c : UInt32
  d : UInt32
deriving Repr, DecidableEq

def init : St := ⟨0x67452301, 0xefcdab89, 0x98badcfe, 0x10325476⟩

def round (m : Array UInt32) (s : St) (i : Nat) : St :=
  let (f, g) :=
    if i < 16 then ((s.b &&& s.c) ||| ((~~~ s.b) &&& s.d), i)
    else if i < 32 then ((s.d &&& s.b) ||| ((~~~ s.d) &&& s.c), (5 * i + 1) % 16)
    else if i < 48 then (s.b ^^^ s.c ^^^ s.d, (3 * i + 5) % 16)
    else (s.c ^^^ (s.b ||| (~~~ s.d)), (7 * i) % 16)
  let f := f + s.a + kTable[i]! + m[g]!
  ⟨s.d, s.b + rotl f sTable[i]!, s.b, s.c⟩

def block (s : St) (m : Array UInt32) : St :=
  let t := (List.range 64).foldl (round m) s
  ⟨s.a + t.a, s.b + t.b, s.c + t.c, s.d + t.d⟩

def chunks16 : Nat → List UInt32 → List (Array UInt32)
  | 0, _ => []
  | _, [] => []
  | fuel + 1, ws => (ws.take 16).toArray :: chunks16 fuel (ws.drop 16)

def leBytes (w : UInt32) : List UInt8 :=
  [w.toUInt8, (w >>> 8).toUInt8, (w >>> 16).toUInt8, (w >>> 24).toUInt8]

/-- the 16 digest bytes -/
def digest (msg : List UInt8) : List UInt8 :=
  let ws := wordsOf (pad msg)
  let s := (chunks16 ws.length ws).foldl block init
  leBytes s.a ++ leBytes s.b ++ leBytes s.c ++ leBytes s.d

def hexDigit (n : Nat) : Char :=
  if n < 10 then Char.ofNat (48 + n) else Char.ofNat (87 + n)

def hexdigest (msg : List UInt8) : String :=
  String.ofList ((digest msg).flatMap fun b => [hexDigit (b.toNat / 16), hexDigit (b.toNat % 16)])

/-- `int(hexdigest[:8], 16)`: big-endian value of the first four digest bytes.
    Only `s.a` of the final state is needed. -/
def pos32Bytes (msg : List UInt8) : Nat :=
  match digest msg with
  | b0 :: b1 :: b2 :: b3 :: _ =>
      ((b0.toNat * 256 + b1.toNat) * 256 + b2.toNat) * 256 + b3.toNat
  | _ => 0

/-- hash position numerator of a string key (UTF-8, as the published scheme says) -/
def pos32 (s : String) : Nat := pos32Bytes s.toUTF8.toList

theorem pos32Bytes_lt (msg : List UInt8) : pos32Bytes msg < 2 ^ 32 := by
  unfold pos32Bytes
  split
  · rename_i b0 b1 b2 b3 _ _
    have h0 := b0.toNat_lt; have h1 := b1.toNat_lt
    have h2 := b2.toNat_lt; have h3 := b3.toNat_lt
    omega
  · decide

theorem pos32_lt (s : String) : pos32 s < 2 ^ 32 := pos32Bytes_lt _

end Pyab.MD5
