/-
  Tokens and the abstract syntax of the experiment language, mirroring
  `language/lexer.py`, `language/grammar.py` and `data_structures/syntax_tree.py`.
-/
import Pyab.Model.Choice
namespace Pyab

/-- payload of a token after the lexer rule's action ran -/
inductive TokVal where
  | raw (s : String)             -- matched text, unchanged
  | int (n : Nat)                -- `int(t.value)`
  | float (d : Dbl)              -- `float(t.value)`
  | str (s : String)             -- `t.value[1:-1]`
deriving Repr, Inhabited

structure Token where
  kind : String
  val : TokVal
deriving Repr, Inhabited

inductive CmpOp where
  | eq | gt | lt | ge | le | ne | isIn | notIn
deriving Repr, DecidableEq, Inhabited

def CmpOp.name : CmpOp → String
  | .eq => "EQ" | .gt => "GT" | .lt => "LT" | .ge => "GE" | .le => "LE" | .ne => "NE"
  | .isIn => "IN" | .notIn => "NOT_IN"

inductive Term where
  | int (i : Int)
  | float (d : Dbl) (negZero : Bool)
  | str (s : String)
  | ident (name : String)
  | tuple (l : List Term)
deriving Repr, Inhabited

inductive Pred where
  | cmp (l : Term) (op : CmpOp) (r : Term)
  | and (a b : Pred)
  | or (a b : Pred)
  | not (a : Pred)
deriving Repr, Inhabited

structure Group where
  defn : Term                    -- a literal: int / float / str
  weight : Num
deriving Repr, Inhabited

mutual
/-- `conditional` of the grammar -/
inductive Cond where
  | ret (gs : List Group)
  | ifte (p : Pred) (t : Cond) (rest : Sub)
/-- `subconditional` of the grammar -/
inductive Sub where
  | none
  | else_ (t : Cond)
  | elif (p : Pred) (t : Cond) (rest : Sub)
end

instance : Inhabited Cond := ⟨.ret []⟩
instance : Inhabited Sub := ⟨.none⟩

structure Experiment where
  id : String
  salt : Option String
  splitters : Option (List String)
  cond : Cond
deriving Inhabited

end Pyab
