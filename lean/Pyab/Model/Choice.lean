/-
  Model of `binning.py`: `deterministic_proba` and `deterministic_choice`, with
  every error branch in the code's order, `itertools.accumulate`, and
  `bisect.bisect(a, x, lo, hi)` as the binary search CPython runs.

  Numbers are Python numbers: unbounded `int`s stay exact, anything touching a
  `float` is rounded by `Dbl.round`.
-/
import Pyab.Model.PyVal
import Pyab.Model.MD5
namespace Pyab

/-- a Python number as used for weights -/
inductive Num where
  | i (v : Int)
  | f (d : Dbl)
deriving Repr, Inhabited

namespace Num

/-- `float(int)`; CPython raises OverflowError beyond the binary64 range -/
def toDbl : Num → Except Err Dbl
  | .f d => pure d
  | .i v => match Dbl.ofInt v with
      | .pinf => throw (.other "OverflowError")
      | .ninf => throw (.other "OverflowError")
      | d => pure d

/-- Python `a + b` on int / float -/
def add : Num → Num → Except Err Num
  | .i a, .i b => pure (.i (a + b))
  | a, b => do
      let x ← a.toDbl
      let y ← b.toDbl
      pure (.f (Dbl.add x y))

/-- exact comparison float `x` against a Python number `c`: `x < c` -/
def dblLt (x : Dbl) : Num → Bool
  | .i c => Dbl.cmpInt c x == some .gt
  | .f c => Dbl.lt x c

end Num

namespace Choice

/-- `list(itertools.accumulate(ws))` -/
def accumulate : List Num → Except Err (List Num)
  | [] => pure []
  | w :: ws => go w ws
where
  go (acc : Num) : List Num → Except Err (List Num)
    | [] => pure [acc]
    | w :: ws => do
        let acc' ← Num.add acc w
        let rest ← go acc' ws
        pure (acc :: rest)

/-- `bisect.bisect_right(a, x, lo, hi)` — the loop CPython executes; `fuel` bounds
    the iterations (`hi - lo` always suffices, see `Proofs/Bisect.lean`) -/
def bisectLoop (a : Array Num) (x : Dbl) : Nat → Nat → Nat → Nat
  | 0, lo, _ => lo
  | fuel + 1, lo, hi =>
      if lo < hi then
        let mid := (lo + hi) / 2
        if Num.dblLt x (a[mid]!) then bisectLoop a x fuel lo mid
        else bisectLoop a x fuel (mid + 1) hi
      else lo

def bisect (a : List Num) (x : Dbl) (lo hi : Nat) : Nat :=
  bisectLoop a.toArray x (hi - lo + 1) lo hi

/-- `deterministic_proba` given the 32-bit numerator: `h / 0x100000000` -/
def proba (h : Nat) : Dbl := Dbl.ofNatDivPow2 h 32

/-- which population index `deterministic_choice` returns, given the hash position
    numerator `h` of the id (`none`: `input_id is None`, the random branch) -/
inductive Pick where
  | idx (i : Nat)
  | random (cum : List Num)        -- delegated to random.choices with these cumulative weights (or unweighted)
deriving Repr

def choiceIdx (h : Option Nat) (n : Nat) (weights cumWeights : Option (List Num)) :
    Except Err Pick := do
  match h with
  | none =>
      -- random.choices: same argument checks, in random.py's order
      match cumWeights, weights with
      | none, none => if n == 0 then throw .indexError else pure (.random [])
      | some _, some _ => throw .typeError
      | none, some ws => do
          let cum ← accumulate ws
          randomChecks n cum
      | some cum, none => randomChecks n cum
  | some h =>
      let cum ← match cumWeights, weights with
        | none, none =>
            -- population[floor(u * n)]
            match Dbl.floor (Dbl.mul (proba h) (Dbl.ofNat n)) with
            | some k => if n == 0 then throw .indexError else return (.idx k.toNat)
            | none => throw (.other "floor")
        | none, some ws => accumulate ws
        | some _, some _ => throw .typeError
        | some cw, none => pure cw
      if cum.length != n then throw (.valueError "len")
      match cum.getLast? with
      | none => throw .indexError            -- cum_weights[-1] on an empty list
      | some last =>
          let total ← Num.add last (.f Dbl.zero)
          match total with
          | .f t =>
              if Dbl.le t Dbl.zero then throw (.valueError "nonpositive")
              if !t.isFinite then throw (.valueError "nonfinite")
              let x := Dbl.mul (proba h) t
              pure (.idx (bisect cum x 0 (n - 1)))
          | .i _ => throw (.other "unreachable")
where
  randomChecks (n : Nat) (cum : List Num) : Except Err Pick := do
    if cum.length != n then throw (.valueError "len")
    match cum.getLast? with
    | none => throw .indexError
    | some last =>
        let total ← Num.add last (.f Dbl.zero)
        match total with
        | .f t =>
            if Dbl.le t Dbl.zero then throw (.valueError "nonpositive")
            if !t.isFinite then throw (.valueError "nonfinite")
            pure (.random cum)
        | .i _ => throw (.other "unreachable")

/-- index `random.choices` returns for a draw `r ∈ [0,1)` (as a double) -/
def randomIdx (cum : List Num) (n : Nat) (r : Dbl) : Except Err Nat := do
  match cum.getLast? with
  | none =>
      match Dbl.floor (Dbl.mul r (Dbl.ofNat n)) with
      | some k => pure k.toNat
      | none => throw (.other "floor")
  | some last =>
      let total ← Num.add last (.f Dbl.zero)
      match total with
      | .f t => pure (bisect cum (Dbl.mul r t) 0 (n - 1))
      | .i _ => throw (.other "unreachable")

end Choice
end Pyab
