/-
  How Python READS the text of the generated function body — for the fragment the
  generator emits, and nothing more.

  * `nextTok` / `tokenizeF` / `tokenizeLine` — the tokenizer for one logical line after its
    indentation: names and keywords, integer and float literals, short string literals
    (`PyStrLit.pyScanStr`), the operators and punctuation `( ) [ ] , : = == != < > <= >= - .`,
    blanks between tokens, the end of the line;
  * `parseNode` / `parseGroup` / `parseItems` — the expression reader for the emitted shapes
    with Python's meaning: atoms, `(l op r)`, `(a and b)`, `(a or b)`, `(not a)`, tuple
    displays `()`, `(t,)`, `(t, u, …)`; `readTerm` / `readExpr` read one of them alone;
  * `parseStmt` — `if E: `, `elif E: `, `else: `, `return partial(deterministic_choice,
    population=[…], weights=[…])`, `raise ExperimentConditionalFailedError()`;
  * `readLine`, `readBody` — indentation (tabs) + statement, line after line.  The reader
    returns the lines as they stand; whether they nest into well-formed blocks is
    `PyExec.wellIndented`.

  This is a model of how Python reads THESE texts, not a Python parser: whatever is outside
  the emitted shapes is `none`.  `Proofs/PyReadRoundtrip.lean` proves that the reader
  inverts the printer of `Proofs/TextOfLines.lean`; the driver operation `pyread` compares
  the reader with CPython's `ast` on the same texts.
-/
import Pyab.Model.PyExec
namespace Pyab
namespace PyRead

/-! ### tokens -/

inductive Sym where
  | lpar | rpar | lbrk | rbrk | comma | colon | assign | eq | ne | lt | gt | le | ge | minus | dot
deriving Repr, DecidableEq, Inhabited

/-- the keywords the emitted body uses (every other Python keyword is rejected) -/
inductive Kw where
  | kIf | kElif | kElse | kReturn | kRaise | kAnd | kOr | kNot | kIn | kNone | kTrue | kFalse
deriving Repr, DecidableEq, Inhabited

inductive Tok where
  | name (s : String)
  | kw (k : Kw)
  | int (n : Nat)
  /-- value of a float literal (a literal has no sign) -/
  | float (d : Dbl)
  | str (s : String)
  | sym (s : Sym)
deriving Repr, Inhabited

/-! ### the tokenizer -/

/-- `[A-Za-z_]` -/
def isIdStart (c : Char) : Bool := c.isAlpha || c == '_'
/-- `[A-Za-z0-9_]` -/
def isIdChar (c : Char) : Bool := c.isAlphanum || c == '_'

/-- a word `[A-Za-z_][A-Za-z0-9_]*`: one of the keywords of the fragment, another Python
    keyword (outside the fragment: rejected), or a name (`inf` and `nan` are names) -/
def classifyWord (w : String) : Option Tok :=
  if w == "if" then some (.kw .kIf)
  else if w == "elif" then some (.kw .kElif)
  else if w == "else" then some (.kw .kElse)
  else if w == "return" then some (.kw .kReturn)
  else if w == "raise" then some (.kw .kRaise)
  else if w == "and" then some (.kw .kAnd)
  else if w == "or" then some (.kw .kOr)
  else if w == "not" then some (.kw .kNot)
  else if w == "in" then some (.kw .kIn)
  else if w == "None" then some (.kw .kNone)
  else if w == "True" then some (.kw .kTrue)
  else if w == "False" then some (.kw .kFalse)
  else if pyKeywords.contains w then none
  else some (.name w)

/-- what may follow a number: not a letter, digit, `_` or `.` (`1x`, `1.2.3`, `1_0` are
    outside the fragment) -/
def numFollowOK : List Char → Bool
  | [] => true
  | c :: _ => !isIdChar c && c != '.'

/-- value of the decimal digits `ip.fp` times ten to the `ex`: correctly rounded, the way
    `Dbl.repr` looks for the shortest digits (`Dbl.decToDbl`) -/
def mkFloat (ip fp : List Char) (ex : Int) : Dbl :=
  Dbl.decToDbl (Nat.ofDigitChars 10 (ip ++ fp) 0) (ex - (fp.length : Int))

/-- the end of a number: what follows must not continue it -/
def numFinish (t : Tok) (r : List Char) : Option (Tok × List Char) :=
  if numFollowOK r then some (t, r) else none

/-- a number without exponent.  `isFloat`: a `.` was read. -/
def scanPlain (ip fp : List Char) (isFloat : Bool) (r : List Char) : Option (Tok × List Char) :=
  if isFloat then numFinish (.float (mkFloat ip fp 0)) r
  -- `012` is not a Python literal (only zeros may follow a leading zero)
  else if ip.head? == some '0' && ip.any (· != '0') then none
  else numFinish (.int (Nat.ofDigitChars 10 ip 0)) r

/-- the optional exponent `e[+-]ddd` of a number and the end of the number -/
def scanExp (ip fp : List Char) (isFloat : Bool) (r : List Char) : Option (Tok × List Char) :=
  match r with
  | c :: r1 =>
    if c == 'e' || c == 'E' then
      match r1 with
      | s :: r2 =>
        let r3 := if s == '+' || s == '-' then r2 else s :: r2
        let ed := r3.takeWhile Char.isDigit
        if ed.isEmpty || ed.length > 3 then none
        else
          let e : Int := Nat.ofDigitChars 10 ed 0
          numFinish (.float (mkFloat ip fp (if s == '-' then -e else e))) (r3.dropWhile Char.isDigit)
      | [] => none
    else scanPlain ip fp isFloat r
  | [] => scanPlain ip fp isFloat r

/-- a number at the head of the input (which starts with a digit): digits, optionally `.`
    and digits, optionally an exponent -/
def scanNumber (cs : List Char) : Option (Tok × List Char) :=
  let ip := cs.takeWhile Char.isDigit
  match cs.dropWhile Char.isDigit with
  | c :: r2 =>
    if c == '.' then scanExp ip (r2.takeWhile Char.isDigit) true (r2.dropWhile Char.isDigit)
    else scanExp ip [] false (c :: r2)
  | [] => scanExp ip [] false []

/-- the token at the head of the input (not a blank, not the end of the line) -/
def nextTok : List Char → Option (Tok × List Char)
  | [] => none
  | c :: cs =>
    if c == '\'' || c == '"' then
      (PyStrLit.pyScanStr (c :: cs)).map fun (s, r) => (.str s, r)
    else if isIdStart c then
      let w := cs.takeWhile isIdChar
      let r := cs.dropWhile isIdChar
      -- a word directly followed by a quote is a string prefix (`b'…'`, `r'…'`, …)
      if r.head? == some '\'' || r.head? == some '"' then none
      else (classifyWord (String.ofList (c :: w))).map fun t => (t, r)
    else if c.isDigit then scanNumber (c :: cs)
    else
      match c, cs with
      | '(', r => some (.sym .lpar, r)
      | ')', r => some (.sym .rpar, r)
      | '[', r => some (.sym .lbrk, r)
      | ']', r => some (.sym .rbrk, r)
      | ',', r => some (.sym .comma, r)
      | ':', r => some (.sym .colon, r)
      | '-', r => some (.sym .minus, r)
      | '=', '=' :: r => some (.sym .eq, r)
      | '=', r => some (.sym .assign, r)
      | '!', '=' :: r => some (.sym .ne, r)
      | '<', '=' :: r => some (.sym .le, r)
      | '<', r => some (.sym .lt, r)
      | '>', '=' :: r => some (.sym .ge, r)
      | '>', r => some (.sym .gt, r)
      | '.', [] => some (.sym .dot, [])
      | '.', d :: r => if d.isDigit then none else some (.sym .dot, d :: r)   -- `.5` is a float literal
      | _, _ => none

/-- the tokens of one logical line and the text after its end (`\n` or the end of the
    input).  Blanks between tokens are skipped (any number, as Python does; the generator
    emits single ones); every other character that starts no token
    (a tab, `#`, `;`, a backslash, …) is outside the fragment.  The fuel is the number of
    characters; every step consumes at least one. -/
def tokenizeF : Nat → List Char → Option (List Tok × List Char)
  | _, [] => some ([], [])
  | 0, _ :: _ => none
  | f + 1, c :: cs =>
    if c == '\n' then some ([], cs)
    else if c == ' ' then tokenizeF f cs
    else
      match nextTok (c :: cs) with
      | some (t, rest) =>
          if rest.length < (c :: cs).length then
            (tokenizeF f rest).map fun (ts, r) => (t :: ts, r)
          else none
      | none => none

def tokenizeLine (cs : List Char) : Option (List Tok × List Char) := tokenizeF cs.length cs

/-! ### expressions -/

/-- a parenthesised form is an operand (a tuple display) or a condition -/
inductive Node where
  | term (t : PTerm)
  | expr (e : PExpr)
deriving Inhabited

def isZero : Dbl → Bool
  | .fin 0 _ => true
  | _ => false

/-- a constant: `None`, `True`, `False`, a number with an optional `-`, a string.
    `-0.0` is the float zero with its sign remembered, as in `PyVal`. -/
def parseAtom : List Tok → Option (PyVal × List Tok)
  | .kw .kNone :: r => some (.none, r)
  | .kw .kTrue :: r => some (.bool true, r)
  | .kw .kFalse :: r => some (.bool false, r)
  | .int n :: r => some (.int (Int.ofNat n), r)
  | .float d :: r => some (.float d false, r)
  | .str s :: r => some (.str s, r)
  | .sym .minus :: .int n :: r => some (.int (-(Int.ofNat n)), r)
  | .sym .minus :: .float d :: r => some (.float (Dbl.neg d) (isZero d), r)
  | _ => none

/-- a comparison operator; the text is the canonical one (single blanks) -/
def cmpOp : List Tok → Option (String × List Tok)
  | .sym .eq :: r => some ("==", r)
  | .sym .ne :: r => some ("!=", r)
  | .sym .lt :: r => some ("<", r)
  | .sym .gt :: r => some (">", r)
  | .sym .le :: r => some ("<=", r)
  | .sym .ge :: r => some (">=", r)
  | .kw .kIn :: r => some ("in", r)
  | .kw .kNot :: .kw .kIn :: r => some ("not in", r)
  | _ => none

def boolOp : List Tok → Option (String × List Tok)
  | .kw .kAnd :: r => some ("and", r)
  | .kw .kOr :: r => some ("or", r)
  | _ => none

mutual
/-- an operand or a parenthesised condition at the head of the tokens -/
def parseNode : Nat → List Tok → Option (Node × List Tok)
  | 0, _ => none
  | _ + 1, .name n :: r => some (.term (.name n), r)
  | f + 1, .sym .lpar :: r => parseGroup f r
  | _ + 1, toks => (parseAtom toks).map fun (v, r) => (.term (.const v), r)
/-- after `(`: `)` — the empty tuple; `not E )`; `T , …)` — a tuple display;
    `T op T )` — a comparison; `E and E )`, `E or E )` -/
def parseGroup : Nat → List Tok → Option (Node × List Tok)
  | 0, _ => none
  | _ + 1, .sym .rpar :: r => some (.term (.tuple []), r)
  | f + 1, .kw .kNot :: r =>
      match parseNode f r with
      | some (.expr e, .sym .rpar :: r') => some (.expr (.un "not" e), r')
      | _ => none
  | f + 1, toks =>
      match parseNode f toks with
      | some (.term t, r1) =>
          match cmpOp r1 with
          | some (op, r2) =>
              match parseNode f r2 with
              | some (.term rt, .sym .rpar :: r3) => some (.expr (.cmp t op rt), r3)
              | _ => none
          | none =>
              match r1 with
              | .sym .comma :: r2 =>
                  (parseItems f r2).map fun (ts, r3) => (.term (.tuple (t :: ts)), r3)
              | _ => none
      | some (.expr a, r1) =>
          match boolOp r1 with
          | some (op, r2) =>
              match parseNode f r2 with
              | some (.expr b, .sym .rpar :: r3) => some (.expr (.bin a op b), r3)
              | _ => none
          | none => none
      | none => none
/-- the members of a tuple display after a comma, up to the closing `)` -/
def parseItems : Nat → List Tok → Option (List PTerm × List Tok)
  | 0, _ => none
  | _ + 1, .sym .rpar :: r => some ([], r)
  | f + 1, toks =>
      match parseNode f toks with
      | some (.term t, .sym .comma :: r) => (parseItems f r).map fun (ts, r') => (t :: ts, r')
      | some (.term t, .sym .rpar :: r) => some ([t], r)
      | _ => none
end

/-- one operand or one parenthesised condition, alone in the text -/
def readNode (s : String) : Option Node :=
  match tokenizeLine s.toList with
  | some (toks, []) =>
      match parseNode toks.length toks with
      | some (n, []) => some n
      | _ => none
  | _ => none

def readTerm (s : String) : Option PTerm :=
  match readNode s with
  | some (.term t) => some t
  | _ => none

def readExpr (s : String) : Option PExpr :=
  match readNode s with
  | some (.expr e) => some e
  | _ => none

/-! ### statements -/

/-- `a, a, …, a]` (at least one member) -/
def parseSeq {α : Type} (item : List Tok → Option (α × List Tok)) :
    Nat → List Tok → Option (List α × List Tok)
  | 0, _ => none
  | f + 1, toks =>
      match item toks with
      | some (a, .sym .comma :: r) => (parseSeq item f r).map fun (as, r') => (a :: as, r')
      | some (a, .sym .rbrk :: r) => some ([a], r)
      | _ => none

/-- a list display after its `[` -/
def parseList {α : Type} (item : List Tok → Option (α × List Tok)) (toks : List Tok) :
    Option (List α × List Tok) :=
  match toks with
  | .sym .rbrk :: r => some ([], r)
  | _ => parseSeq item toks.length toks

/-- a weight: a number with an optional `-` -/
def parseNum : List Tok → Option (Num × List Tok)
  | .int n :: r => some (.i (Int.ofNat n), r)
  | .float d :: r => some (.f d, r)
  | .sym .minus :: .int n :: r => some (.i (-(Int.ofNat n)), r)
  | .sym .minus :: .float d :: r => some (.f (Dbl.neg d), r)
  | _ => none

/-- the condition of an `if` / `elif`: one parenthesised condition, then `:` -/
def parseCond (toks : List Tok) : Option PExpr :=
  match parseNode toks.length toks with
  | some (.expr e, [.sym .colon]) => some e
  | _ => none

def parseStmt : List Tok → Option Line
  | [.kw .kElse, .sym .colon] => some .elseL
  | .kw .kIf :: r => (parseCond r).map .ifL
  | .kw .kElif :: r => (parseCond r).map .elifL
  | [.kw .kRaise, .name f, .sym .lpar, .sym .rpar] =>
      if f == "ExperimentConditionalFailedError" then some .raiseU else none
  | .kw .kReturn :: .name f :: .sym .lpar :: .name g :: .sym .comma :: .name p :: .sym .assign
      :: .sym .lbrk :: r =>
      if f == "partial" && g == "deterministic_choice" && p == "population" then
        match parseList parseAtom r with
        | some (pop, .sym .comma :: .name w :: .sym .assign :: .sym .lbrk :: r') =>
            if w == "weights" then
              match parseList parseNum r' with
              | some (ws, [.sym .rpar]) => some (.ret pop ws)
              | _ => none
            else none
        | _ => none
      else none
  | _ => none

/-! ### lines -/

/-- one line: `depth` tabs, a statement, the end of the line; the text after it -/
def readLineChars (cs : List Char) : Option (ILine × List Char) :=
  let body := cs.dropWhile (· == '\t')
  -- tabs then blanks: not the generator's indentation
  if body.head? == some ' ' then none
  else
    match tokenizeLine body with
    | some (toks, rest) => (parseStmt toks).map fun l => (((cs.takeWhile (· == '\t')).length, l), rest)
    | none => none

/-- exactly one line (with or without its final newline) -/
def readLine (s : String) : Option ILine :=
  match readLineChars s.toList with
  | some (x, []) => some x
  | _ => none

/-- line after line; a line holding nothing but tabs is skipped (the generator emits one
    empty line before the final `raise`) -/
def readBodyF : Nat → List Char → Option (List ILine)
  | _, [] => some []
  | 0, _ :: _ => none
  | f + 1, c :: cs =>
    let body := (c :: cs).dropWhile (· == '\t')
    if body.isEmpty then some []
    else if body.head? == some '\n' then readBodyF f (body.drop 1)
    else
      match readLineChars (c :: cs) with
      | some (x, rest) => (readBodyF f rest).map (x :: ·)
      | none => none

/-- the body of the generated function as Python reads it: indented lines -/
def readBody (s : String) : Option (List ILine) := readBodyF (s.length + 1) s.toList

end PyRead
end Pyab
