/-
  The part of IEEE-754 binary64 that the library's arithmetic reaches, made
  explicit with integer arithmetic so that it is executable *and* visible to the
  kernel: finite values are dyadic rationals `m * 2^e`, rounding is
  round-to-nearest-even at 53 bits with gradual underflow (min exponent -1074)
  and overflow to infinity.

  Tied to CPython bit-for-bit by the `cum` / `fdec` / `repr` correspondence
  operations; not derived from any IEEE formalisation.
-/
namespace Pyab

/-- a binary64 value, sign of zero ignored (never observable through `<`, `==`,
    `bisect`, `floor`; `str(-0.0)` is handled by the carried sign in `PyVal`) -/
inductive Dbl where
  | fin (m : Int) (e : Int)      -- m * 2^e
  | pinf | ninf | nan
deriving Repr, Inhabited

namespace Dbl

def pow2 (k : Nat) : Nat := 1 <<< k

/-- strip trailing zero bits of a positive natural: returns (odd part, count) -/
def stripTwos : Nat → Nat → Nat → Nat × Nat
  | 0, n, k => (n, k)
  | fuel + 1, n, k => if n != 0 && n % 2 == 0 then stripTwos fuel (n / 2) (k + 1) else (n, k)

/-- canonical form: mantissa odd (or zero with exponent 0) -/
def norm : Dbl → Dbl
  | fin m e =>
      if m == 0 then fin 0 0
      else
        let (o, k) := stripTwos (m.natAbs.log2 + 1) m.natAbs 0
        fin (if m < 0 then -(Int.ofNat o) else Int.ofNat o) (e + k)
  | d => d

/-- round the exact dyadic `m * 2^e` to binary64 (nearest, ties to even) -/
def round (m : Int) (e : Int) : Dbl :=
  if m == 0 then fin 0 0 else
  let n := m.natAbs
  let bits : Int := n.log2 + 1
  let shift : Int := max (bits - 53) (-1074 - e)
  if shift ≤ 0 then
    -- representable unless it overflows
    if bits + e > 1024 then (if m < 0 then ninf else pinf) else fin m e
  else
    let s := shift.toNat
    let q := n >>> s
    let rem := n - (q <<< s)
    let half := pow2 (s - 1)
    let q' := if rem > half || (rem == half && q % 2 == 1) then q + 1 else q
    let e' := e + shift
    if q' == 0 then fin 0 0
    else if (q'.log2 + 1 : Int) + e' > 1024 then (if m < 0 then ninf else pinf)
    else fin (if m < 0 then -(Int.ofNat q') else Int.ofNat q') e'

/-- correctly rounded `n / d` (d > 0): enough quotient bits plus a sticky bit -/
def roundRat (neg : Bool) (n d : Nat) : Dbl :=
  if n == 0 || d == 0 then fin 0 0 else
  let k : Nat := (56 + d.log2 + 1) - n.log2        -- quotient gets ≥ 56 bits
  let num := n <<< k
  let q := num / d
  let sticky := if num % d == 0 then 0 else 1
  let m : Int := Int.ofNat (2 * q + sticky)
  round (if neg then -m else m) (-(Int.ofNat k) - 1)

def ofInt (i : Int) : Dbl := round i 0
def ofNat (n : Nat) : Dbl := round (Int.ofNat n) 0
def zero : Dbl := fin 0 0

/-- `float("<ip>.<fp>")` for decimal digit strings already converted to numbers:
    value = digits / 10^scale -/
def ofDecimal (neg : Bool) (digits : Nat) (scale : Nat) : Dbl :=
  roundRat neg digits (10 ^ scale)

def isFinite : Dbl → Bool
  | fin _ _ => true
  | _ => false

def neg : Dbl → Dbl
  | fin m e => fin (-m) e
  | pinf => ninf | ninf => pinf | nan => nan

/-- exact alignment of two dyadics to a common exponent -/
def align (m1 e1 m2 e2 : Int) : Int × Int × Int :=
  if e1 ≤ e2 then (m1, m2 * (Int.ofNat (pow2 (e2 - e1).toNat)), e1)
  else (m1 * (Int.ofNat (pow2 (e1 - e2).toNat)), m2, e2)

def add : Dbl → Dbl → Dbl
  | fin m1 e1, fin m2 e2 =>
      let (a, b, e) := align m1 e1 m2 e2
      round (a + b) e
  | nan, _ => nan | _, nan => nan
  | pinf, ninf => nan | ninf, pinf => nan
  | pinf, _ => pinf | _, pinf => pinf
  | ninf, _ => ninf | _, ninf => ninf

def sign : Dbl → Int
  | fin m _ => if m > 0 then 1 else if m < 0 then -1 else 0
  | pinf => 1 | ninf => -1 | nan => 0

def mul : Dbl → Dbl → Dbl
  | fin m1 e1, fin m2 e2 => round (m1 * m2) (e1 + e2)
  | nan, _ => nan | _, nan => nan
  | a, b =>
      let s := sign a * sign b
      if s > 0 then pinf else if s < 0 then ninf else nan

/-- `h / 2^32` for a natural `h` — exact in binary64 when `h < 2^53` -/
def ofNatDivPow2 (h : Nat) (k : Nat) : Dbl := round (Int.ofNat h) (-(Int.ofNat k))

/-- three-way comparison of non-NaN values; `none` when either is NaN -/
def cmp : Dbl → Dbl → Option Ordering
  | nan, _ => none | _, nan => none
  | pinf, pinf => some .eq | pinf, _ => some .gt | _, pinf => some .lt
  | ninf, ninf => some .eq | ninf, _ => some .lt | _, ninf => some .gt
  | fin m1 e1, fin m2 e2 =>
      let (a, b, _) := align m1 e1 m2 e2
      some (compare a b)

def lt (a b : Dbl) : Bool := cmp a b == some .lt
def le (a b : Dbl) : Bool := match cmp a b with | some .lt | some .eq => true | _ => false
def beq (a b : Dbl) : Bool := cmp a b == some .eq

instance : BEq Dbl := ⟨fun a b => match a, b with
  | nan, nan => true
  | a, b => beq a b⟩

/-- exact comparison of a Python int with a float (CPython compares exactly) -/
def cmpInt (i : Int) (d : Dbl) : Option Ordering := cmp (fin i 0) d

/-- `math.floor` of a finite value -/
def floor : Dbl → Option Int
  | fin m e =>
      if e ≥ 0 then some (m * Int.ofNat (pow2 e.toNat))
      else some (m / Int.ofNat (pow2 (-e).toNat))     -- Int `/` rounds toward -∞ for positive divisor (`Int.div` T-rounding is `Int.tdiv`)
  | _ => none

/-- is the value an integer?  (used by `str`/repr and int-vs-float equality) -/
def toIntExact? : Dbl → Option Int
  | fin m e =>
      if e ≥ 0 then some (m * Int.ofNat (pow2 e.toNat))
      else
        let d := Int.ofNat (pow2 (-e).toNat)
        if m % d == 0 then some (m / d) else none
  | _ => none

/-! ### `float.__repr__`: shortest round-tripping decimal, CPython formatting -/

/-- round-half-even of `n / d` to a natural -/
def divRoundHalfEven (n d : Nat) : Nat :=
  let q := n / d
  let r := n % d
  if 2 * r > d || (2 * r == d && q % 2 == 1) then q + 1 else q

/-- exact value of a positive finite double as a fraction -/
def toFrac (m : Nat) (e : Int) : Nat × Nat :=
  if e ≥ 0 then (m * pow2 e.toNat, 1) else (m, pow2 (-e).toNat)

/-- number of decimal digits of a positive natural -/
def numDigits (n : Nat) : Nat := (toString n).length

/-- `k` with `10^k ≤ n/d < 10^(k+1)` (n, d > 0) -/
def decExp (n d : Nat) : Int :=
  -- estimate from digit counts, then correct
  let est : Int := (numDigits n : Int) - (numDigits d : Int)
  let ge (k : Int) : Bool :=       -- n/d ≥ 10^k ?
    if k ≥ 0 then n ≥ d * 10 ^ k.toNat else n * 10 ^ (-k).toNat ≥ d
  if ge (est + 1) then est + 1 else if ge est then est else est - 1

/-- candidates with `p` significant digits around n/d: (digits, exponent-of-last-digit) -/
def sigCandidates (n d : Nat) (p : Nat) : List (Nat × Int) :=
  let k := decExp n d
  let s : Int := k - (p : Int) + 1         -- value ≈ D * 10^s
  let (num, den) := if s ≥ 0 then (n, d * 10 ^ s.toNat) else (n * 10 ^ (-s).toNat, d)
  let lo := num / den
  [(lo, s), (lo + 1, s)]

def decToDbl (digits : Nat) (s : Int) : Dbl :=
  if s ≥ 0 then roundRat false (digits * 10 ^ s.toNat) 1 else roundRat false digits (10 ^ (-s).toNat)

/-- |D*10^s - n/d| as a comparable fraction numerator over the common denominator -/
def distNum (n d : Nat) (D : Nat) (s : Int) : Nat × Nat :=
  let (cn, cd) := if s ≥ 0 then (D * 10 ^ s.toNat, 1) else (D, 10 ^ (-s).toNat)
  let a := cn * d
  let b := n * cd
  ((if a ≥ b then a - b else b - a), cd * d)

def shortestDigits (m : Nat) (e : Int) : Nat × Int :=
  let (n, d) := toFrac m e
  let target := norm (fin (Int.ofNat m) e)
  let rec go (fuel p : Nat) : Nat × Int :=
    match fuel with
    | 0 => (m, e)
    | fuel + 1 =>
      let cands := (sigCandidates n d p).filter fun (D, s) => D != 0 && decToDbl D s == target
      match cands with
      | [] => go fuel (p + 1)
      | [c] => c
      | c1 :: c2 :: _ =>
          let (d1, den1) := distNum n d c1.1 c1.2
          let (d2, den2) := distNum n d c2.1 c2.2
          -- same denominators by construction
          if d1 * den2 < d2 * den1 then c1
          else if d2 * den1 < d1 * den2 then c2
          else if c1.1 % 2 == 0 then c1 else c2
  go 18 1

/-- strip trailing decimal zeros from the digit block -/
def stripZeros : Nat → Nat → Int → Nat × Int
  | 0, D, s => (D, s)
  | fuel + 1, D, s => if D != 0 && D % 10 == 0 then stripZeros fuel (D / 10) (s + 1) else (D, s)

/-- CPython `repr(float)` -/
def repr : Dbl → String
  | nan => "nan" | pinf => "inf" | ninf => "-inf"
  | fin m e =>
    if m == 0 then "0.0" else
    let sgn := if m < 0 then "-" else ""
    let (D0, s0) := shortestDigits m.natAbs e
    let (D, s) := stripZeros 20 D0 s0
    let ds := toString D
    let nd : Int := ds.length
    let decpt : Int := nd + s          -- position of the decimal point relative to digit start
    if -4 < decpt && decpt ≤ 16 then
      if s ≥ 0 then sgn ++ ds ++ String.ofList (List.replicate s.toNat '0') ++ ".0"
      else if decpt > 0 then
        sgn ++ String.ofList (ds.toList.take decpt.toNat) ++ "." ++ String.ofList (ds.toList.drop decpt.toNat)
      else sgn ++ "0." ++ String.ofList (List.replicate (-decpt).toNat '0') ++ ds
    else
      let ex := decpt - 1
      let mant := if ds.length == 1 then ds
                  else String.ofList (ds.toList.take 1) ++ "." ++ String.ofList (ds.toList.drop 1)
      let exs := toString ex.natAbs
      let exs := if exs.length < 2 then "0" ++ exs else exs
      sgn ++ mant ++ "e" ++ (if ex < 0 then "-" else "+") ++ exs

end Dbl
end Pyab
