/-
  "Python as far as generated code can reach": the generated module as indented
  lines, the way Python's indentation rules nest them, name binding of the
  generated `def`s, evaluation of the emitted predicate expressions on `PyVal`,
  the key expression, and the call into `deterministic_choice`.

  Trusted by correspondence (every case is compared with CPython executing the
  real generator's output), not verified.
-/
import Pyab.Model.Codegen
namespace Pyab

inductive PTerm where
  | const (v : PyVal)
  | name (n : String)
  | tuple (l : List PTerm)
deriving Inhabited

inductive PExpr where
  | cmp (l : PTerm) (op : String) (r : PTerm)
  | bin (a : PExpr) (op : String) (b : PExpr)
  | un (op : String) (a : PExpr)
deriving Inhabited

inductive Line where
  | ifL (e : PExpr)
  | elifL (e : PExpr)
  | elseL
  | ret (pop : List PyVal) (ws : List Num)
  | raiseU
deriving Inhabited

abbrev ILine := Nat × Line

/-! ### from the AST to emitted lines (string constants go through render → Python's reader) -/

/-- what Python reads back from the rendered text of a string constant -/
def readBackStr (cfg : GenCfg) (useRepr : Bool) (s : String) : Except Err String :=
  match PyStrLit.pyScanStr (renderStr cfg useRepr s).toList with
  | some (s', []) => pure s'
  | _ => throw (.other "model-gap:string-literal-text")

mutual
def lowerTerm (cfg : GenCfg) : Term → Except Err PTerm
  | .int i => do let _ ← intStr i; pure (.const (.int i))
  | .float d nz => pure (.const (.float d nz))
  | .str s => do pure (.const (.str (← readBackStr cfg cfg.strReprTerm s)))
  | .ident n => pure (.name n)
  | .tuple l => do
      if cfg.tupleRecursive then pure (.tuple (← lowerTerms cfg l))
      else
        let _ ← renderRawMembers cfg l       -- raises on members the raw rendering cannot express
        pure (.tuple (← lowerRaw cfg l))
def lowerTerms (cfg : GenCfg) : List Term → Except Err (List PTerm)
  | [] => pure []
  | t :: ts => do
      let a ← lowerTerm cfg t
      let b ← lowerTerms cfg ts
      pure (a :: b)
def lowerRaw (cfg : GenCfg) : List Term → Except Err (List PTerm)
  | [] => pure []
  | t :: ts => do
      let a ← match t with
        | .int i => pure (PTerm.const (.int i))
        | .float d nz => pure (PTerm.const (.float d nz))
        | .str s => do pure (PTerm.const (.str (← readBackStr cfg true s)))
        | _ => throw (.other "model-gap:raw-tuple")
      let b ← lowerRaw cfg ts
      pure (a :: b)
end

def lowerPred (cfg : GenCfg) : Pred → Except Err PExpr
  | .cmp l op r => do pure (.cmp (← lowerTerm cfg l) (cfg.op op.name) (← lowerTerm cfg r))
  | .and a b => do pure (.bin (← lowerPred cfg a) (cfg.op "AND") (← lowerPred cfg b))
  | .or a b => do pure (.bin (← lowerPred cfg a) (cfg.op "OR") (← lowerPred cfg b))
  | .not a => do pure (.un (cfg.op "NOT") (← lowerPred cfg a))

def groupVal (cfg : GenCfg) : Term → Except Err PyVal
  | .int i => do let _ ← intStr i; pure (.int i)
  | .float d nz => pure (.float d nz)
  | .str s => do pure (.str (← readBackStr cfg true s))
  | _ => throw (.other "group-definition-not-literal")

/-- population and weights a return statement passes to `deterministic_choice` -/
def retVals (cfg : GenCfg) (gs : List Group) : Except Err (List PyVal × List Num) := do
  let pop ← gs.mapM (fun g => groupVal cfg g.defn)
  let _ ← gs.mapM (fun g => renderWeight g.weight)
  pure (pop, gs.map (·.weight))

def lowerReturn (cfg : GenCfg) (gs : List Group) : Except Err Line := do
  let (pop, ws) ← retVals cfg gs
  pure (.ret pop ws)

mutual
def linesCond (cfg : GenCfg) (d : Nat) : Cond → Except Err (List ILine)
  | .ret gs => do pure [(d, ← lowerReturn cfg gs)]
  | .ifte p t rest => do
      let e ← lowerPred cfg p
      let tb ← linesCond cfg (d + 1) t
      let fb ← linesSub cfg d rest
      pure ((d, .ifL e) :: tb ++ fb)
def linesSub (cfg : GenCfg) (d : Nat) : Sub → Except Err (List ILine)
  | .none => pure []
  | .else_ t => do
      let tb ← linesCond cfg (d + 1) t
      pure ((d, .elseL) :: tb)
  | .elif p t rest => do
      let e ← lowerPred cfg p
      let tb ← linesCond cfg (d + 1) t
      let fb ← linesSub cfg d rest
      pure ((d, .elifL e) :: tb ++ fb)
end

/-- body of `choose_experiment_variant` as emitted: the conditionals, then the trailing raise -/
def bodyLines (cfg : GenCfg) (d : Nat) (c : Cond) : Except Err (List ILine) := do
  pure ((← linesCond cfg d c) ++ [(d, .raiseU)])

/-! ### Python's comparison and boolean operators on the emitted operator text -/

abbrev Env := List (String × PyVal)

def Env.get (env : Env) (n : String) : Option PyVal :=
  match env with
  | [] => none
  | (k, v) :: rest => if k == n then some v else Env.get rest n

mutual
def evalTerm (env : Env) : PTerm → Except Err PyVal
  | .const v => pure v
  | .name n => match env.get n with
      | some v => pure v
      | none => throw .nameError
  | .tuple l => do pure (.tuple (← evalTerms env l))
def evalTerms (env : Env) : List PTerm → Except Err (List PyVal)
  | [] => pure []
  | t :: ts => do
      let a ← evalTerm env t
      let b ← evalTerms env ts
      pure (a :: b)
end

/-- Python's meaning of a comparison operator given as text -/
def pyCompare (op : String) (a b : PyVal) : Except Err Bool :=
  match op with
  | "==" => pure (PyVal.pyEq a b)
  | "!=" => pure (!PyVal.pyEq a b)
  | "<" => do pure ((← PyVal.pyCmp a b) == some .lt)
  | ">" => do pure ((← PyVal.pyCmp a b) == some .gt)
  | "<=" => do let o ← PyVal.pyCmp a b; pure (o == some .lt || o == some .eq)
  | ">=" => do let o ← PyVal.pyCmp a b; pure (o == some .gt || o == some .eq)
  | "in" => PyVal.pyIn a b
  | "not in" => do pure (!(← PyVal.pyIn a b))
  | _ => throw .pySyntaxError

def evalExpr (env : Env) : PExpr → Except Err Bool
  | .cmp l op r => do
      let a ← evalTerm env l
      let b ← evalTerm env r
      pyCompare op a b
  | .bin a op b =>
      match op with
      | "and" => do if (← evalExpr env a) then evalExpr env b else pure false
      | "or" => do if (← evalExpr env a) then pure true else evalExpr env b
      | _ => throw .pySyntaxError
  | .un op a =>
      match op with
      | "not" => do pure (!(← evalExpr env a))
      | _ => throw .pySyntaxError

/-! ### executing indented lines -/

/-- where the interpreter is in an `if / elif / else` chain -/
inductive Mode where
  | exec                      -- executing statements normally
  | seek (d : Nat)            -- an `if`/`elif` at depth `d` was false: skip its body, look for the next clause
  | skipChain (d : Nat)       -- a branch of the chain at depth `d` was taken and ended: skip the remaining clauses
deriving Repr, DecidableEq, Inhabited

/-- what one line does, given where the interpreter is in a chain -/
inductive Act where
  | goto (m : Mode)                              -- continue with the next line in mode `m`
  | branch (e : PExpr) (mTrue mFalse : Mode)     -- evaluate `e`, continue accordingly
  | done (r : Except Err (List PyVal × List Num)) -- `return` / `raise`
deriving Inhabited

/-- a line executed normally -/
def execAct (d' : Nat) : Line → Act
  | .ret pop ws => .done (pure (pop, ws))
  | .raiseU => .done (throw .unroutable)
  | .ifL e => .branch e .exec (.seek d')
  -- an `elif`/`else` met while executing normally: the body of a taken sibling branch
  -- just fell through, so the rest of the chain is skipped
  | .elifL _ => .goto (.skipChain d')
  | .elseL => .goto (.skipChain d')

def classify : Mode → Nat → Line → Act
  | .exec, d', line => execAct d' line
  | .seek d, d', line =>
      if d' > d then .goto (.seek d)
      else if d' == d then
        match line with
        | .elifL e => .branch e .exec (.seek d)
        | .elseL => .goto .exec
        | _ => execAct d' line
      else execAct d' line
  | .skipChain d, d', line =>
      if d' > d then .goto (.skipChain d)
      else if d' == d then
        match line with
        | .elifL _ => .goto (.skipChain d)
        | .elseL => .goto (.skipChain d)
        | _ => execAct d' line
      else execAct d' line

/-- Python's control flow over the emitted lines, one line per step (structural in the
    list); falling off the end of the function body would return `None`. -/
def runLines (env : Env) : Mode → List ILine → Except Err (List PyVal × List Num)
  | _, [] => throw (.other "fell-off-end")
  | mode, (d', line) :: rest =>
    match classify mode d' line with
    | .goto m => runLines env m rest
    | .branch e m1 m2 => do
        if (← evalExpr env e) then runLines env m1 rest else runLines env m2 rest
    | .done r => r

/-- indentation well-formedness that `compile()` enforces on the body:
    a header is followed by a line exactly one level deeper (the generator's step),
    no other line goes deeper than its predecessor, `elif`/`else` continue a chain -/
def isHeader : Line → Bool
  | .ifL _ | .elifL _ | .elseL => true
  | _ => false

def wellIndented : List ILine → Bool
  | [] => true
  | [(_, l)] => !isHeader l
  | (d, l) :: (d', l') :: rest =>
      (if isHeader l then d' > d else d' ≤ d) && wellIndented ((d', l') :: rest)

/-! ### the generated function as a whole -/

def pyKeywords : List String :=
  ["False", "None", "True", "and", "as", "assert", "async", "await", "break", "class", "continue",
   "def", "del", "elif", "else", "except", "finally", "for", "from", "global", "if", "import", "in",
   "is", "lambda", "nonlocal", "not", "or", "pass", "raise", "return", "try", "while", "with", "yield"]

/-- names the generated code itself relies on: a field or experiment with one of these
    names changes what the skeleton's own references resolve to (finding family K1) -/
def helperNames : List String :=
  ["kwargs", "partial", "deterministic_choice", "str", "map", "ExperimentConditionalFailedError",
   "choose_experiment_variant", "self", "__debug__"]

def hasDup : List String → Bool
  | [] => false
  | x :: xs => xs.contains x || hasDup xs

/-- identifiers are emitted verbatim as Python names -/
def Experiment.pyNameOK (cfg : GenCfg) (e : Experiment) : Bool :=
  let names := e.id :: (e.params cfg ++ e.condIds cfg)
  names.all fun n => !pyKeywords.contains n && !helperNames.contains n && !(n.startsWith "__")

inductive Outcome where
  | group (v : PyVal)
  /-- no splitters: `random.choices` over these candidates -/
  | random (pop : List PyVal) (cum : List Num)
deriving Inhabited

structure RunCfg extends GenCfg where
  /-- `deterministic_proba` encodes the key as UTF-8 (true) or ASCII (false) -/
  keyUtf8 : Bool

def isAscii (s : String) : Bool := s.toList.all (·.toNat < 128)

/-- `deterministic_choice(key, population=pop, weights=ws)` for a string key -/
def chooseByKey (utf8 : Bool) (key : String) (pop : List PyVal) (ws : List Num) : Except Err PyVal := do
  if !utf8 && !isAscii key then throw .encodeError
  match ← Choice.choiceIdx (some (MD5.pos32 key)) pop.length (some ws) none with
  | .idx i => match pop[i]? with
      | some v => pure v
      | none => throw .indexError
  | .random _ => throw (.other "unreachable")

/-- `repr(v)` with CPython's `repr(str)` for the strings in it (`printable`: the table of
    `str.isprintable` code points, `GenCfg.printable`) -/
def PyVal.pyRepr (printable : Nat → Bool) (v : PyVal) : Except Err String :=
  PyVal.pyReprWith (PyStrLit.pyReprStr printable) v

/-- `str(v)`: a string prints as itself; inside a tuple it prints as `repr(str)` does
    (`("it's",)`, `('a\\b', 1)` for the value with one backslash) -/
def PyVal.pyStr (printable : Nat → Bool) (v : PyVal) : Except Err String :=
  PyVal.pyStrWith (PyStrLit.pyReprStr printable) v

/-- the hashed key: salt followed by `str()` of the splitter values in sorted-name order -/
def keyOf (printable : Nat → Bool) (salt : String) (names : List String) (env : Env) : Except Err String := do
  let vals ← names.mapM fun n => match env.get n with
    | some v => PyVal.pyStr printable v
    | none => throw .nameError
  pure (salt ++ String.join vals)

/-- executing the code generated for `e` on keyword arguments `env`
    (`ExperimentEvaluator(text)(**env)` after a successful compile) -/
def runGenerated (cfg : RunCfg) (e : Experiment) (env : Env) : Except Err Outcome := do
  let params := e.params cfg.toGenCfg
  -- binding of keyword arguments to the declared parameters
  if !params.all (fun p => (env.get p).isSome) then throw .missingField
  let lines ← bodyLines cfg.toGenCfg 2 e.cond
  let (pop, ws) ← runLines env .exec lines
  match e.localVars with
  | [] =>
      match ← Choice.choiceIdx none pop.length (some ws) none with
      | .random cum => pure (.random pop cum)
      | .idx _ => throw (.other "unreachable")
  | lv =>
      let salt ← match e.salt with
        | some s => readBackStr cfg.toGenCfg cfg.strReprSalt s
        | none => pure ""
      let key ← keyOf cfg.printable salt lv env
      pure (.group (← chooseByKey cfg.keyUtf8 key pop ws))

/-- what `compile()` of the generated text checks before anything runs -/
def compileChecks (cfg : GenCfg) (e : Experiment) : Except Err Unit := do
  let _ ← genText cfg e false                      -- rendering itself can raise (int digits)
  let names := e.id :: (e.params cfg ++ e.condIds cfg)
  if names.any (fun n => pyKeywords.contains n) then throw .pySyntaxError
  if hasDup (e.params cfg ++ ["kwargs"]) then throw .pySyntaxError
  let lines ← bodyLines cfg 2 e.cond
  if !wellIndented lines then throw .pySyntaxError
  pure ()

end Pyab
