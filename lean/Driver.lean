/-
  Line-protocol driver: one JSON request per line on stdin, one JSON answer per
  line on stdout.  Runs the executable model (`Pyab/Model`) over the tables the
  translator generated from /repo.  See harness/proto.py for the other side.
-/
import Lean.Data.Json
import Pyab.Model.Evaluator
import Pyab.Model.Stats
import Pyab.Model.PyRead
import Pyab.Generated.LexRules
import Pyab.Generated.LRTables
import Pyab.Generated.Config
import Pyab.Generated.Pipeline
import Pyab.Spec.Unparse
import Pyab.Spec.UnparseMin
open Lean Pyab

namespace Drv

def dblStr (d : Dbl) : String :=
  match Dbl.norm d with
  | .fin m e => s!"{m} {e}"
  | .pinf => "inf" | .ninf => "-inf" | .nan => "nan"

def numJ : Num → Json
  | .i v => Json.mkObj [("i", toString v)]
  | .f d => Json.mkObj [("f", dblStr d)]

partial def valJ : PyVal → Json
  | .none => Json.mkObj [("n", Json.null)]
  | .bool b => Json.mkObj [("b", b)]
  | .int i => Json.mkObj [("i", toString i)]
  | .float d nz => if nz then Json.mkObj [("f", "0 0"), ("z", true)] else Json.mkObj [("f", dblStr d)]
  | .str s => Json.mkObj [("s", s)]
  | .tuple l => Json.mkObj [("t", Json.arr (l.map valJ).toArray)]

def parseDbl (s : String) : Except String Dbl :=
  match s with
  | "inf" => pure .pinf | "-inf" => pure .ninf | "nan" => pure .nan
  | _ =>
    match s.splitOn " " with
    | [m, e] => match m.toInt?, e.toInt? with
        | some m, some e => pure (.fin m e)
        | _, _ => throw s!"bad float {s}"
    | _ => throw s!"bad float {s}"

def getStr (j : Json) (k : String) : Except String String := do
  (← j.getObjVal? k).getStr?

def parseNum (j : Json) : Except String Num := do
  match j.getObjVal? "i" with
  | .ok v => match (← v.getStr?).toInt? with
      | some i => pure (.i i)
      | none => throw "bad int"
  | .error _ => pure (.f (← parseDbl (← getStr j "f")))

partial def parseVal (j : Json) : Except String PyVal := do
  if let .ok _ := j.getObjVal? "n" then return .none
  if let .ok b := j.getObjVal? "b" then return .bool (← b.getBool?)
  if let .ok v := j.getObjVal? "i" then
    match (← v.getStr?).toInt? with
    | some i => return .int i
    | none => throw "bad int"
  if let .ok v := j.getObjVal? "f" then
    let z := match j.getObjVal? "z" with | .ok _ => true | _ => false
    return .float (← parseDbl (← v.getStr?)) z
  if let .ok v := j.getObjVal? "s" then return .str (← v.getStr?)
  if let .ok v := j.getObjVal? "t" then
    let arr ← v.getArr?
    return .tuple (← arr.toList.mapM parseVal)
  throw "bad value"

def parseEnv (j : Json) : Except String Env := do
  match j with
  | .obj kvs => kvs.toList.mapM fun (k, v) => do pure (k, ← parseVal v)
  | .arr a => a.toList.mapM fun kv => do
      let k ← (← kv.getArrVal? 0).getStr?
      let v ← parseVal (← kv.getArrVal? 1)
      pure (k, v)
  | _ => throw "bad env"

def errJ (e : Err) : Json := Json.mkObj [("e", e.tag)]

def tokJ (t : Token) : Json :=
  let v := match t.val with
    | .raw s => Json.mkObj [("r", s)]
    | .int n => Json.mkObj [("i", toString n)]
    | .float d => Json.mkObj [("f", dblStr d)]
    | .str s => Json.mkObj [("s", s)]
  Json.arr #[t.kind, v]

partial def termJ : Pyab.Term → Json
  | .int i => Json.mkObj [("i", toString i)]
  | .float d nz => if nz then Json.mkObj [("f", "0 0"), ("z", true)] else Json.mkObj [("f", dblStr d)]
  | .str s => Json.mkObj [("s", s)]
  | .ident n => Json.mkObj [("id", n)]
  | .tuple l => Json.mkObj [("t", Json.arr (l.map termJ).toArray)]

partial def predJ : Pred → Json
  | .cmp l op r => Json.mkObj [("cmp", Json.arr #[termJ l, op.name, termJ r])]
  | .and a b => Json.mkObj [("and", Json.arr #[predJ a, predJ b])]
  | .or a b => Json.mkObj [("or", Json.arr #[predJ a, predJ b])]
  | .not a => Json.mkObj [("not", predJ a)]

def groupJ (g : Group) : Json := Json.mkObj [("g", termJ g.defn), ("w", numJ g.weight)]

mutual
partial def condJ : Cond → Json
  | .ret gs => Json.mkObj [("ret", Json.arr (gs.map groupJ).toArray)]
  | .ifte p t rest => Json.mkObj [("if", Json.arr #[predJ p, condJ t, subJ rest])]
partial def subJ : Sub → Json
  | .none => Json.null
  | .else_ t => Json.mkObj [("else", condJ t)]
  | .elif p t rest => Json.mkObj [("elif", Json.arr #[predJ p, condJ t, subJ rest])]
end

def expJ (e : Experiment) : Json :=
  Json.mkObj [
    ("id", e.id),
    ("salt", match e.salt with | some s => Json.str s | none => Json.null),
    ("splitters", match e.splitters with | some l => Json.arr (l.map Json.str).toArray | none => Json.null),
    ("cond", condJ e.cond)]

def outcomeJ : Except Err Outcome → Json
  | .ok (.group v) => Json.mkObj [("g", valJ v)]
  | .ok (.random pop cum) => Json.mkObj [("r", Json.mkObj [("pop", Json.arr (pop.map valJ).toArray), ("cum", Json.arr (cum.map numJ).toArray)])]
  | .error e => errJ e

/-! the structured view of the generated body as JSON (operation `pyread`) -/

partial def ptermJ : PTerm → Json
  | .const v => Json.mkObj [("c", valJ v)]
  | .name n => Json.mkObj [("n", n)]
  | .tuple l => Json.mkObj [("t", Json.arr (l.map ptermJ).toArray)]

partial def pexprJ : PExpr → Json
  | .cmp l op r => Json.mkObj [("cmp", Json.arr #[ptermJ l, op, ptermJ r])]
  | .bin a op b => Json.mkObj [("bin", Json.arr #[pexprJ a, op, pexprJ b])]
  | .un op a => Json.mkObj [("un", Json.arr #[op, pexprJ a])]

def lineJ : Line → Json
  | .ifL e => Json.mkObj [("if", pexprJ e)]
  | .elifL e => Json.mkObj [("elif", pexprJ e)]
  | .elseL => Json.str "else"
  | .ret pop ws => Json.mkObj [("ret", Json.mkObj [("pop", Json.arr (pop.map valJ).toArray),
      ("w", Json.arr (ws.map numJ).toArray)])]
  | .raiseU => Json.str "raise"

def ilineJ (x : ILine) : Json := Json.arr #[x.1, lineJ x.2]

def pipeline : Pipeline := Generated.pipeline

def exceptJ {α} (f : α → Json) : Except Err α → Json
  | .ok a => f a
  | .error e => errJ e

def optList (j : Json) (k : String) : Except String (Option (List Num)) := do
  match j.getObjVal? k with
  | .ok .null => pure none
  | .ok v => do
      let a ← v.getArr?
      pure (some (← a.toList.mapM parseNum))
  | .error _ => pure none

def pickJ : Except Err Choice.Pick → Json
  | .ok (.idx i) => Json.mkObj [("idx", i)]
  | .ok (.random cum) => Json.mkObj [("random", Json.arr (cum.map numJ).toArray)]
  | .error e => errJ e

def handle (j : Json) : Except String Json := do
  let op ← getStr j "op"
  match op with
  | "pos" =>
      pure (Json.mkObj [("h", MD5.pos32 (← getStr j "s"))])
  | "md5" =>
      pure (Json.mkObj [("hex", md5hex (← getStr j "s"))])
  | "choice" =>
      let h ← match j.getObjVal? "h" with
        | .ok .null => pure none
        | .ok v => do pure (some (← v.getNat?))
        | .error _ => pure none
      let n ← (← j.getObjVal? "n").getNat?
      pure (pickJ (Choice.choiceIdx h n (← optList j "w") (← optList j "cw")))
  | "cum" =>
      match ← optList j "w" with
      | some ws => pure (exceptJ (fun l => Json.mkObj [("cum", Json.arr (l.map numJ).toArray)]) (Choice.accumulate ws))
      | none => throw "cum: no w"
  | "ridx" =>
      let cw ← match ← optList j "cw" with | some l => pure l | none => pure []
      let n ← (← j.getObjVal? "n").getNat?
      let r ← parseDbl (← getStr j "r")
      pure (exceptJ (fun (i : Nat) => Json.mkObj [("idx", i)]) (Choice.randomIdx cw n r))
  | "fdec" =>
      -- float("<digits>.<digits>") of ASCII digit strings
      let ip ← getStr j "ip"
      let fp ← getStr j "fp"
      let d := Dbl.ofDecimal false (ip ++ fp).toNat! fp.length
      pure (Json.mkObj [("f", dblStr d), ("repr", Dbl.repr d)])
  | "repr" =>
      let d ← parseDbl (← getStr j "f")
      pure (Json.mkObj [("repr", Dbl.repr d)])
  | "strlit" =>
      let s ← getStr j "s"
      let r := PyStrLit.pyReprStr Generated.isPrintable s
      let back := match PyStrLit.pyScanStr r.toList with
        | some (s', []) => Json.str s'
        | _ => Json.null
      pure (Json.mkObj [("repr", r), ("back", back)])
  | "pyread" =>
      -- the body text of the generated function as the model of Python's reader sees it
      let text ← getStr j "text"
      match PyRead.readBody text with
      | some ls => pure (Json.mkObj [("lines", Json.arr (ls.map ilineJ).toArray),
          -- block structure is not the reader's business: `PyExec.wellIndented` on the lines read
          ("well", wellIndented ls)])
      | none => pure (Json.mkObj [("lines", Json.null)])
  | "pystr" =>
      let v ← parseVal (← j.getObjVal? "v")
      pure (exceptJ (fun (s : String) => Json.mkObj [("str", s)]) (PyVal.pyStr Generated.isPrintable v))
  | "lex" =>
      let text ← getStr j "text"
      pure (exceptJ (fun (l : List Token) => Json.mkObj [("toks", Json.arr (l.map tokJ).toArray)]) (lex pipeline.lex text))
  | "run" =>
      let text ← getStr j "text"
      let envs ← match j.getObjVal? "envs" with
        | .ok v => do (← v.getArr?).toList.mapM parseEnv
        | .error _ => pure []
      let lexR := lex pipeline.lex text
      let astR : Except Err Experiment := do lrParse pipeline.lr (← lexR)
      let cfg := pipeline.run.toGenCfg
      let gen (expose : Bool) : Json := match astR with
        | .ok e => exceptJ (fun (s : String) => Json.str s) (genText cfg e expose)
        | .error e => errJ e
      let comp : Except Err Experiment := pipeline.compile text
      let outs := envs.map fun env => outcomeJ (do runGenerated pipeline.run (← comp) env)
      let nameOK := match astR with | .ok e => e.pyNameOK cfg | _ => true
      pure (Json.mkObj [
        ("toks", exceptJ (fun (l : List Token) => Json.arr (l.map tokJ).toArray) lexR),
        ("ast", exceptJ expJ astR),
        ("canon", match astR with
          | .ok e => if e.wf then Json.arr ((Spec.tokensOfExperiment e).map tokJ).toArray else Json.null
          | .error _ => Json.null),
        ("canonmin", match astR with
          | .ok e => if e.wf then Json.arr ((Spec.tokensOfExperimentMin e).map tokJ).toArray else Json.null
          | .error _ => Json.null),
        ("gen", gen false),
        ("genx", gen true),
        ("compile", match comp with | .ok _ => Json.str "ok" | .error e => errJ e),
        ("nameok", nameOK),
        ("out", Json.arr outs.toArray)])
  | "life" =>
      let ops ← (← j.getObjVal? "ops").getArr?
      let ops ← ops.toList.mapM fun o => do
        let kind ← (← o.getArrVal? 0).getStr?
        let id ← (← o.getArrVal? 1).getNat?
        match kind with
        | "new" => pure (EvOp.new id (← (← o.getArrVal? 2).getStr?))
        | "recompile" => pure (EvOp.recompile id (← (← o.getArrVal? 2).getStr?))
        | "call" => pure (EvOp.call id (← parseEnv (← o.getArrVal? 2)))
        | _ => throw "bad life op"
      let outs := runHistory pipeline md5hex [] ops
      let outJ : EvOut → Json
        | .ok => Json.str "ok"
        | .err e => errJ e
        | .result o => outcomeJ (.ok o)
        | .noSuchEvaluator => Json.str "no-such-evaluator"
      pure (Json.mkObj [("outs", Json.arr (outs.map outJ).toArray)])
  | "stats" =>
      let f (k : String) : Except String Float := do
        let v ← j.getObjVal? k
        match v with
        | .str s => match s with
            | "inf" => pure (1.0 / 0.0)
            | _ => throw "bad float string"
        | _ => do
            -- hex-exact transport: [mantissa, exponent] as integers
            let m ← (← v.getArrVal? 0).getInt?
            let e ← (← v.getArrVal? 1).getInt?
            pure (Stats.floatOfMantExp m e)
      let kind ← getStr j "kind"
      match kind with
      | "probit" =>
          let a ← f "alpha"
          pure (Json.mkObj [("bits", toString (Stats.probitF a).toBits)])
      | "ci" =>
          let n ← f "n"; let p ← f "p"; let c ← f "confidence"
          let method ← getStr j "method"
          match Stats.confidenceIntervalF n p c method with
          | some (lo, hi) => pure (Json.mkObj [("lo", toString lo.toBits), ("hi", toString hi.toBits)])
          | none => pure (Json.mkObj [("e", "NotImplemented")])
      | _ => throw "bad stats kind"
  | _ => throw s!"unknown op {op}"

partial def loop (h : IO.FS.Stream) (out : IO.FS.Stream) : IO Unit := do
  let line ← h.getLine
  if line.isEmpty then return ()
  let ans : Json := match Json.parse line with
    | .error e => Json.mkObj [("fatal", s!"json: {e}")]
    | .ok j => match handle j with
        | .ok r => r
        | .error e => Json.mkObj [("fatal", e)]
  out.putStrLn ans.compress
  loop h out

end Drv

def main : IO Unit := do
  let stdin ← IO.getStdin
  let stdout ← IO.getStdout
  Drv.loop stdin stdout
  stdout.flush
