-- This module serves as the root of the `Pyab` library.
-- Import modules here that should be built as part of the library.
import Pyab.Basic
