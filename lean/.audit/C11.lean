import Pyab.Properties.C11
#print axioms Pyab.Properties.C11_checksum_after_compile
#print axioms Pyab.Properties.C11_digest_collision_resistant
#print axioms Pyab.Properties.C11_refinement_history
#print axioms Pyab.Properties.C11_refinement_repo
#print axioms Pyab.Properties.C11_invalid_always_raises
#print axioms Pyab.Properties.C11_recompile_same_is_noop
#print axioms Pyab.Properties.C11_instance_local
#print axioms Pyab.Properties.C11_call_changes_nothing
#print axioms Pyab.Properties.purity_scan_nonempty
#print axioms Pyab.Properties.no_flag_dependent_statements
#print axioms Pyab.Properties.no_identity_dependence
#print axioms Pyab.Properties.no_ambient_dependence
#print axioms Pyab.Properties.sly_uses_are_the_reviewed_ones
