import Pyab.Properties.C06
#print axioms Pyab.Properties.C06_lexer_errors_raise
#print axioms Pyab.Properties.C06_parser_errors_raise
#print axioms Pyab.Properties.C06_unterminated_comment_rejected
#print axioms Pyab.Properties.C06_lex_all_raise_bool
#print axioms Pyab.Properties.C06_lex_all_raise
#print axioms Pyab.Properties.C06_lex_no_skip
#print axioms Pyab.Properties.C06_lex_tokens_from_pieces
#print axioms Pyab.Properties.evaluator_digest_of_exact_text
#print axioms Pyab.Properties.evaluator_checksum_after_install
#print axioms Pyab.Properties.C06_tables_are_documented_grammar
#print axioms Pyab.Properties.C06_documented_grammar_in_tables
#print axioms Pyab.Properties.C06_startSym
#print axioms Pyab.Properties.derives_drop_aug
#print axioms Pyab.Properties.derivesSeq_drop_aug
#print axioms Pyab.Properties.C06_parse_sound
