import Pyab.Properties.C06
#print axioms Pyab.Properties.C06_lexer_errors_raise
#print axioms Pyab.Properties.C06_parser_errors_raise
#print axioms Pyab.Properties.C06_unterminated_comment_rejected
