import Pyab.Properties.C02
#print axioms Pyab.Properties.C02_generator_canonical
#print axioms Pyab.Properties.readBack_repr
#print axioms Pyab.Properties.C02_routing_correct
#print axioms Pyab.Properties.C02_routing_correct_repo
#print axioms Pyab.Properties.C02_pred_correct
