import Pyab.Properties.C07
#print axioms Pyab.Properties.C07_trivial_placeholder
