#!/bin/sh
# MANIFEST.setup_cmd: regenerate the tables from /repo and build the Lean project (offline)
set -e
cd "$(dirname "$0")"
/venv/bin/python tools/translate.py
cd lean
lake build Pyab pyabdriver
