"""Child interpreter for C17's long-source phase: ONE attempt in a process whose global state nobody has touched yet
(a race on process-wide state can leave the process in a condition in which it never shows again).
argv: rounds nthreads seed.  Prints one JSON list of findings."""
import io
import contextlib
import json
import os
import sys

sys.path.insert(0, os.path.dirname(os.path.abspath(__file__)))
sys.path.insert(0, os.path.join(os.path.dirname(os.path.abspath(__file__)), "props"))
sys.path.insert(0, os.path.join(os.environ.get("PYAB_REPO", "/repo"), "src"))
import common  # noqa: E402

common.load_impl()
import c17  # noqa: E402


class Ctx:
    tier = "quick"

    def __init__(self, seed):
        self.seed = seed
        self.counts = {}

    def count(self, k, n=1):
        self.counts[k] = self.counts.get(k, 0) + n


if __name__ == "__main__":
    real = sys.stdout
    if sys.argv[1] == "ref":
        with contextlib.redirect_stdout(io.StringIO()):
            ref = c17.run_long_sources_here(Ctx(0), 0, 0, ref_only=True)
        real.write(json.dumps(ref))
        sys.exit(0)
    rounds, nthreads, seed = int(sys.argv[1]), int(sys.argv[2]), int(sys.argv[3])
    ref = json.loads(sys.stdin.read() or "null")
    ctx = Ctx(seed)
    with contextlib.redirect_stdout(io.StringIO()):
        errs = c17.run_long_sources_here(ctx, rounds, nthreads, shift=seed, ref=ref)
    real.write(json.dumps({"errors": errs, "counts": ctx.counts}))
