"""Token-level mutations of grammatical experiments (the malformed stream of C06)."""
import gen

ILLEGAL = ["=", ".", ";", "@", "$", "!", "&", "|", "~", "?", "^", "`", "[", "]", "\\", "#", "%", "+", "*", "/", "€", "\x00",
           # invisible / format characters that editors and file encodings introduce
           "\ufeff", "\u200b", "\u200c", "\u200d", "\u2060", "\u00ad", "\x7f", "\x1b", "\x08", "\u202e", "\ufffd", "\U000e0001"]
VOCAB = ["def", "salt", "splitters", "if", "else", "else if", "weighted", "return", "and", "or", "not", "in", "not in",
         "(", ")", "-", ",", ":", "{", "}", "==", ">", "<", ">=", "<=", "!=", "x", "y", "1", "2.5", '"s"', "'t'"]


def mutate(toks, rng):
    """-> (kind, token list); never raises"""
    try:
        return _mutate(toks, rng)
    except (IndexError, ValueError):
        return "insert", list(toks) + [rng.choice(VOCAB)]


def _mutate(toks, rng):
    toks = list(toks)
    n = len(toks)
    if n < 2:
        return "insert", toks + [rng.choice(VOCAB)]
    kind = rng.choice(["delete", "duplicate", "swap", "insert", "replace", "illegal", "illegal-glued", "prefix", "suffix",
                       "concat", "truncate", "unterminated-string", "unterminated-comment", "split-op", "two-mutations",
                       "extra-clause", "extra-clause", "mismatched-quotes"])
    if kind == "delete":
        del toks[rng.randrange(n)]
    elif kind == "duplicate":
        i = rng.randrange(n)
        toks.insert(i, toks[i])
    elif kind == "swap":
        i = rng.randrange(n - 1)
        toks[i], toks[i + 1] = toks[i + 1], toks[i]
    elif kind == "insert":
        toks.insert(rng.randrange(n + 1), rng.choice(VOCAB))
    elif kind == "replace":
        toks[rng.randrange(n)] = rng.choice(VOCAB)
    elif kind == "illegal":
        toks.insert(rng.randrange(n + 1), rng.choice(ILLEGAL))
    elif kind == "illegal-glued":
        i = rng.randrange(n)
        c = rng.choice(ILLEGAL)
        t = toks[i]
        if t and t[0] in "\"'":
            toks[i] = t + c if rng.random() < 0.5 else c + t
        else:
            j = rng.randrange(len(t) + 1)
            toks[i] = t[:j] + c + t[j:]
    elif kind == "prefix":
        toks = [rng.choice(VOCAB) for _ in range(rng.randint(1, 3))] + toks
    elif kind == "suffix":
        toks = toks + [rng.choice(VOCAB) for _ in range(rng.randint(1, 3))]
    elif kind == "concat":
        other = gen.program_tokens(gen.gen_program(rng, gen.GenOpts(max_depth=1, ident_pool=gen.PLAIN_IDENTS)))
        toks = toks + other if rng.random() < 0.5 else other + toks
    elif kind == "truncate":
        toks = toks[: rng.randrange(1, n)]
    elif kind == "unterminated-string":
        toks.insert(rng.randrange(n + 1), rng.choice(['"abc', "'abc", '"', "'"]))
    elif kind == "unterminated-comment":
        toks.insert(rng.randrange(n + 1), rng.choice(["/* open", "/*", "/* a */ /* b"]))
    elif kind == "split-op":
        # a two-character operator written with a space / transposed
        idx = [i for i, t in enumerate(toks) if t in (">=", "<=", "==", "!=")]
        if idx:
            i = rng.choice(idx)
            t = toks[i]
            toks[i] = rng.choice([t[0] + " " + t[1], t[1] + t[0], t[0], t[1]])
        else:
            toks.insert(rng.randrange(n + 1), "=<")
    elif kind == "extra-clause":
        # a whole extra else / else-if / if clause after some closing brace
        idx = [i for i, t in enumerate(toks) if t == "}"] or [len(toks) - 1]
        i = rng.choice(idx)
        clause = rng.choice([["else", "{", "return", '"z"', "weighted", "1", "}"],
                             ["else if", "x", "==", "1", "{", "return", '"z"', "weighted", "1", "}"],
                             ["if", "x", "==", "1", "{", "return", '"z"', "weighted", "1", "}"],
                             ["return", '"z"', "weighted", "1"]])
        toks[i + 1:i + 1] = clause
    elif kind == "mismatched-quotes":
        idx = [i for i, t in enumerate(toks) if t and t[0] in "\"'" and len(t) >= 2]
        if idx:
            i = rng.choice(idx)
            t = toks[i]
            other = "'" if t[0] == '"' else '"'
            toks[i] = rng.choice([t[:-1] + other, other + t[1:]])
        else:
            toks.insert(rng.randrange(n + 1), "\"abc'")
    else:
        _, toks = _mutate(toks, rng)
        _, toks = _mutate(toks, rng)
    return kind, toks
