"""Twin texts: the part of every property that is observed through a long-lived ExperimentEvaluator.

An evaluator that was built from text T1 and is then given T2 with recompile() must answer as T2
(or raise, if T2 is not an experiment).  recompile() decides "unchanged" from a digest of the text, so
what can go wrong is a digest that does not see the whole, exact text.  Random program pairs never
meet that: the pairs here are *twins* — they differ only where a lossy digest is blind:

  ws        white space inside a string literal (run of blanks, blank -> tab, trailing blank)
  slash     text after `//`, between `/*` and `*/`, or after `#` INSIDE a string literal
  case      letter case inside a literal
  nfc       canonically equivalent Unicode spellings of a literal
  adler     three equally spaced characters changed by +1, -2, +1 (same length, same Adler-32 / byte sum)
  crc       a 7-character XOR pattern in the kernel of CRC-32 (same length, same CRC-32)
  swap      two characters exchanged (same multiset of characters: same sum / xor / sorted digest)
  far       a change after 6000 characters of leading text, or before 6000 characters of trailing text
  numtype   a numeric literal respelt in the other numeric type (1 <-> 1.0), group label or weight
  invalid   T2 = T1 with something that makes it no experiment at all (lone surrogate, NUL, illegal
            character, trailing junk) — recompile must raise and the evaluator must keep answering T1

`focus` says which part of the program carries the difference, so that each property looks at its own
observable: "pred" (a literal in a condition — C02/C05), "weights" (C03/C04/C10), "salt" (C12/C14/C09/C01),
"label" (a group label — C05/C13/C15), "trivia" (where a comment ends — C08), "invalid" (C06/C11).
"""
import json

import common

CRC_PATTERN = bytes.fromhex("0c1c060c010e06")       # xor-ing it into 7 consecutive bytes keeps zlib.crc32


def _xor(s, pat=CRC_PATTERN):
    return "".join(chr(ord(c) ^ p) for c, p in zip(s, pat)) + s[len(pat):]


# (name, literal1, literal2): two different string literals a lossy digest may confuse
STRING_TWINS = [
    ("ws", "new user", "new  user"), ("ws", "new user", "new\tuser"), ("ws", "exp 7", "exp  7"), ("ws", "x", "x "), ("ws", " x", "x"),
    ("slash", "https://cdn.example.com/a", "https://cdn.example.com/b"), ("slash", "a // old", "a // new"), ("slash", "/*a*/x", "/*b*/x"),
    ("slash", "x /* a", "x /* b"), ("slash", "a # 1", "a # 2"), ("slash", "a -- 1", "a -- 2"), ("slash", "a ; 1", "a ; 2"),
    ("case", "Checkout", "checkout"), ("case", "NEW", "new"), ("nfc", "café", "café"), ("nfc", "Å", "Å"),
    ("nfc", "ﬁn", "fin"), ("adler", "1x2x1", "2x0x2"), ("adler", "bab", "aca"), ("adler", "a1b2c1", "a2b0c2"),
    ("crc", "ABCDEFG", _xor("ABCDEFG")), ("crc", "QRSTUVWXYZ", _xor("QRSTUVWXYZ")), ("swap", "ab", "ba"), ("swap", "group12", "group21"),
    ("swap", "a b", "b a"),
    # a character that has no UTF-8 encoding (a lone surrogate, as produced by errors="surrogateescape" or by JSON) against the text that a lossy
    # encoder would make of it.  The unchanged implementation refuses such texts altogether (UnicodeEncodeError — the source-text side of finding
    # family K3); an implementation that accepts them must still tell them apart
    ("surrogate", "caf\udcc3\udca9", "café"), ("surrogate", "x\udc80", "x\\udc80"), ("surrogate", "x\udc80", "x?"), ("surrogate", "\ud800y", "\\ud800y"),
    ("surrogate", "a\udcff", "a\ufffd"), ("surrogate", "a\udc80", "a"),
]
# numeric twins (literal text 1, literal text 2, same type?)
NUM_TWINS = [("numtype", "1", "1.0"), ("numtype", "0", "0.0"), ("numtype", "1.0", "1"), ("numtype", "1152921504606846976", "1152921504606846976.0"),
             ("adler", "121", "202"), ("swap", "12", "21"), ("numtype", "-0.0", "0.0"), ("numtype", "7", "7.00")]
WEIGHT_TWINS = [("adler", ("1", "2", "1"), ("2", "0", "2")), ("swap", ("1", "9", "5"), ("9", "1", "5")), ("numtype", ("1", "3", "1"), ("1.0", "3", "1")),
                ("swap", ("10", "90", "1"), ("90", "10", "1")), ("ws", ("1", "1", "1"), ("1", "1", "3"))]
INVALID_SUFFIX = ["\udc80", "\ud800", "\x00", " @", " .", ";", " =", " }", " def", " x", "﻿", "​", "\\", "`", " /*", ' "', " '"]


def _prog(salt="s", lit='"A"', labels=('"a"', '"b"', '"c"'), weights=("1", "1", "1"), head="", tail="", between=""):
    groups = ", ".join("%s weighted %s" % (l, w) for l, w in zip(labels, weights))
    return ('%sdef tw { salt: "%s" splitters: u %sif seg == %s { return %s } else { return "other" weighted 1 } }%s'
            % (head, salt, between, lit, groups, tail))


def _q(s):
    return '"%s"' % s


def pairs(rng, focus, n):
    """-> list of (kind, t1, t2, envs)"""
    out = []
    units = ["u%d" % rng.randrange(10 ** 6) for _ in range(10)] + [rng.randrange(10 ** 9), "", "user_1"]

    def envs_for(segs):
        return [{"u": u, "seg": s} for s in segs for u in units]

    pad = "/* " + "x" * 6000 + " */ "
    # every twin of the table once (direction by the seed), then n random ones (some of them "far")
    todo = [(t, False) for t in STRING_TWINS] + [(rng.choice(STRING_TWINS), rng.random() < 0.4) for _ in range(n)]
    import itertools
    num_iter = itertools.cycle(NUM_TWINS)
    w_iter = itertools.cycle(WEIGHT_TWINS)
    for idx, ((kind, a, b), far) in enumerate(todo):
        if rng.random() < 0.5:
            a, b = b, a
        head, tail = (pad, "") if far and rng.random() < 0.5 else ("", " " + pad) if far else ("", "")
        if far:
            kind += "+far"
        if focus == "pred":
            if idx % 3 == 0:
                k2, x, y = next(num_iter)
                t1, t2 = _prog(lit=x, head=head, tail=tail), _prog(lit=y, head=head, tail=tail)
                segs = [1, 1.0, 0, 0.0, 7, 12, 21, 121, 202, 2 ** 60, float(2 ** 60)]
                out.append((k2, t1, t2, envs_for(segs)[:40]))
                continue
            t1, t2 = _prog(lit=_q(a), head=head, tail=tail), _prog(lit=_q(b), head=head, tail=tail)
            out.append((kind, t1, t2, envs_for([a, b])))
        elif focus == "salt":
            t1, t2 = _prog(salt=a, head=head, tail=tail), _prog(salt=b, head=head, tail=tail)
            out.append((kind, t1, t2, envs_for(["A"])))
        elif focus == "label":
            if idx % 3 == 0:
                k2, x, y = next(num_iter)
                t1, t2 = _prog(labels=(x, '"b"', '"c"'), head=head, tail=tail), _prog(labels=(y, '"b"', '"c"'), head=head, tail=tail)
                out.append((k2, t1, t2, envs_for(["A"])))
                continue
            t1, t2 = _prog(labels=(_q(a), '"b"', '"c"'), head=head, tail=tail), _prog(labels=(_q(b), '"b"', '"c"'), head=head, tail=tail)
            out.append((kind, t1, t2, envs_for(["A"])))
        elif focus == "weights":
            k2, w1, w2 = next(w_iter)
            labels = ('"a"', '"b"', '"c"')
            if idx % 2 == 1:
                # the weights sit behind a `//` that is inside a literal on the same line
                labels = ('"https://cdn/a.js"', '"https://cdn/b.js"', '"https://cdn/c.js"')
                k2 += "+slash"
            if rng.random() < 0.5:
                w1, w2 = w2, w1
            t1, t2 = _prog(labels=labels, weights=w1, head=head, tail=tail), _prog(labels=labels, weights=w2, head=head, tail=tail)
            out.append((k2, t1, t2, envs_for(["A"])))
        elif focus == "trivia":
            # the same characters up to white space, but a different token sequence: a line break that ends a `//` comment
            # sits before or after the text that follows the comment marker
            tailtext = rng.choice([', "b" weighted 1', ', "b" weighted 3, "c" weighted 1', ', "c" weighted 9'])
            sep1, sep2 = rng.choice([(" ", "\n"), ("  ", "\n "), ("\t", "\n"), (" ", "\r\n")])
            x = 'def tw { salt: "%s" splitters: u return "a" weighted 1 //%s%s\n}' % (a, sep1, tailtext)
            v = 'def tw { salt: "%s" splitters: u return "a" weighted 1 //%s%s\n}' % (a, sep2, tailtext)
            if rng.random() < 0.5:
                x, v = v, x
            out.append(("comment-line-break", x, v, envs_for(["A"])))
        elif focus == "invalid":
            t1 = _prog(salt=a)
            if idx % 4 == 0 and t1.isascii():
                # same length: one character replaced (the closing brace, a keyword letter, a quote)
                pos = rng.choice([len(t1) - 1, t1.index("splitters"), t1.index("weighted") + 2, t1.index('"')])
                t2 = t1[:pos] + rng.choice("@;.=") + t1[pos + 1:]
                import recogniser
                if not recogniser.accepts(t2):
                    out.append(("invalid-same-length", t1, t2, envs_for(["A"])[:6]))
                    continue
            suf = rng.choice(INVALID_SUFFIX)
            where = rng.choice(["end", "mid", "start"])
            t2 = t1 + suf if where == "end" else suf.strip() + " " + t1 if where == "start" else t1.replace(" splitters", suf + " splitters", 1)
            import recogniser
            if recogniser.accepts(t2):
                continue
            out.append(("invalid", t1, t2, envs_for(["A"])[:6]))
    return out


def _volatile(ctx, focus, kind, t1, t2, envs):
    """the same pair once more with both texts passed as TEMPORARIES: the evaluator is built from a string nobody else
    holds, the string is dropped and collected, and the second text is a new string that the allocator placed at the freed
    address (same length, same character width).  Anything that remembers a text by `id()` instead of by content confuses them."""
    import gc
    from pyab_experiment.experiment_evaluator import ExperimentEvaluator
    if len(t1) != len(t2) or t1.isascii() != t2.isascii() or max(map(ord, t1)) > 0xFFFF or max(map(ord, t2)) > 0xFFFF or t1 == t2:
        return
    s1 = "".join([t1[:3], t1[3:]])
    old = id(s1)
    try:
        ev, _ = common.quiet(lambda: ExperimentEvaluator(s1))
    except Exception:  # noqa
        return
    del s1
    gc.collect()
    keep, c = [], None
    for _ in range(300):
        c = "".join([t2[:3], t2[3:]])
        if id(c) == old:
            break
        keep.append(c)
    else:
        ctx.count("twin:volatile:address-not-recycled")
        return
    ctx.count("twin:volatile:address-recycled")
    try:
        common.quiet(lambda: ev.recompile(c))
        rec = "ok"
    except Exception as ex:  # noqa
        rec = {"e": common.classify_exc(ex)}
    hist = {"history": [["new", 0, t1], ["recompile", 0, t2]] + [["call", 0, common.enc_env(e)] for e in envs[:2]], "kind": kind + "+recycled-address", "focus": focus,
            "note": "both texts were temporaries; the second one was allocated at the address of the first (dropped and collected) one"}
    if focus == "invalid":
        if rec == "ok":
            ctx.violation("recompile() of a text that is no experiment returns silently when that text is a new string object at the address of the "
                          f"(freed) text the evaluator was built from: {t2[-50:]!r}", dict(hist, recompile=rec))
        return
    fresh = _fresh(t2, envs[:6])
    if isinstance(fresh, dict) or rec != "ok":
        return
    for e, f_ in zip(envs[:6], fresh):
        a = common.outcome_of(lambda e=e: ev(**e))
        if a != f_:
            ctx.violation(f"after recompile() with a different text of the same length ({kind}, {focus}) passed as a new string object at the address of the "
                          f"(freed) first text, the evaluator answers {json.dumps(a)[:80]} on {json.dumps(common.enc_env(e))[:100]}; an evaluator built from that text "
                          f"answers {json.dumps(f_)[:80]}", dict(hist, env=common.enc_env(e), impl=a, fresh=f_))
            return


def checksum_function():
    """the change-detection digest of `recompile` as a function of the text, cut out of the implementation's own source: the
    simple statements that precede the first `if` mentioning `self._checksum`, executed with `source_code` bound.  None when the
    code does not have that shape."""
    import ast
    import inspect
    import textwrap
    from pyab_experiment import experiment_evaluator as evmod
    try:
        cls = evmod.ExperimentEvaluator
        fn = ast.parse(textwrap.dedent(inspect.getsource(cls.recompile))).body[0]
        # `recompile` may only take a lock and delegate: follow self-calls to the method that mentions the checksum
        hops = 0
        while not any(isinstance(n, ast.Attribute) and n.attr == "_checksum" for n in ast.walk(fn)) and hops < 4:
            callee = next((n.func.attr for n in ast.walk(fn) if isinstance(n, ast.Call) and isinstance(n.func, ast.Attribute)
                           and isinstance(n.func.value, ast.Name) and n.func.value.id == "self" and hasattr(cls, n.func.attr)), None)
            if callee is None:
                break
            fn = ast.parse(textwrap.dedent(inspect.getsource(getattr(cls, callee)))).body[0]
            hops += 1
        param = [a.arg for a in fn.args.args if a.arg != "self"][0]
    except Exception:  # noqa
        return None
    prefix, target = [], [None]

    def mentions(node):
        return any(isinstance(n, ast.Attribute) and n.attr == "_checksum" for n in ast.walk(node))

    def walk(body):
        for st in body:
            if isinstance(st, ast.If) and mentions(st.test):
                names = [n.id for n in ast.walk(st.test) if isinstance(n, ast.Name) and n.id != "self"]
                target[0] = names[0] if names else None
                return True
            if isinstance(st, (ast.Try, ast.With)):
                if walk(st.body):
                    return True
                continue
            if isinstance(st, (ast.Assign, ast.AnnAssign, ast.AugAssign)) and not mentions(st):
                prefix.append(st)
            elif isinstance(st, ast.Expr) and isinstance(st.value, ast.Constant):
                continue
        return False

    if not walk(fn.body) or target[0] is None:
        return None
    code = compile(ast.fix_missing_locations(ast.Module(body=prefix, type_ignores=[])), "<checksum-prefix>", "exec")
    glob = dict(vars(evmod))

    try:
        dummy = object.__new__(cls)          # `self` for a digest that goes through a helper method (no __init__: nothing is compiled)
    except Exception:  # noqa
        dummy = None

    def digest(text):
        ns = {param: text, "self": dummy}
        exec(code, glob, ns)
        return ns[target[0]]
    try:
        if digest("abc") == digest("abd") and digest("abc") == digest("xyz"):
            return None
    except Exception:  # noqa
        return None
    return digest


def birthday(ctx, n=1 << 18):
    """collisions of the implementation's own change-detection digest among n ordinary experiments (a digest narrowed to 32
    bits has dozens among 2^18 texts; MD5 has none): each colliding pair is then run through a real evaluator"""
    from pyab_experiment.experiment_evaluator import ExperimentEvaluator
    digest = checksum_function()
    if digest is None:
        ctx.count("birthday:digest-not-extractable")
        return
    seen, pairs = {}, []
    try:
        # stored pairs: ordinary experiments whose MD5 digests share their first 48 bits (found once by a 2^24 search; a digest cut to 12 hex digits / 6 bytes confuses them)
        T = 'def e { salt: "%s" splitters: uid return "a" weighted 1, "b" weighted 1, "c" weighted 1, "d" weighted 1 }'
        for a, b in [(T % "82c0c866e1a4", T % "0e6ad6cd9f67")]:
            if digest(a) == digest(b):
                pairs.append((a, b))
                ctx.count("birthday:stored-pair-collides")
        for k in range(n):
            t = 'def bd { salt: "rollout-%d" splitters: u return "a" weighted %d, "b" weighted %d }' % (k, 1 + k % 97, 1 + (k * 7) % 89)
            d = digest(t)
            if d in seen and seen[d] != t:
                pairs.append((seen[d], t))
                if len(pairs) >= 3:
                    break
            else:
                seen[d] = t
    except Exception as ex:  # noqa
        ctx.notes.append("birthday search: digest raised " + repr(ex)[:120])
        return
    ctx.count("birthday:texts", len(seen))
    ctx.count("birthday:collisions", len(pairs))
    units = ["user_%d" % i for i in range(300)]
    for t1, t2 in pairs:
        ev, _ = common.quiet(lambda: ExperimentEvaluator(t1))
        try:
            common.quiet(lambda: ev.recompile(t2))
        except Exception:  # noqa
            continue
        fresh, _ = common.quiet(lambda: ExperimentEvaluator(t2))
        field = "uid" if "splitters: uid" in t1 else "u"
        bad = [u for u in units if ev(**{field: u}) != fresh(**{field: u})]
        if bad:
            ctx.violation(f"two ordinary experiments with the same change-detection digest: after new(T1); recompile(T2) the evaluator still answers as T1 "
                          f"({len(bad)} of {len(units)} units differ from an evaluator built from T2): T1 = {t1[:70]!r}…, T2 = {t2[:70]!r}…",
                          {"history": [["new", 0, t1], ["recompile", 0, t2], ["call", 0, common.enc_env({field: bad[0]})]], "kind": "digest-collision",
                           "env": common.enc_env({field: bad[0]}), "impl": common.outcome_of(lambda: ev(**{field: bad[0]})), "fresh": common.outcome_of(lambda: fresh(**{field: bad[0]}))})
            return


def sized_twins(ctx):
    """twin texts around a big comment of n characters that are 1, 2, 3 or 4 bytes wide each (n = 300 .. 1.1 million): they differ only in a label at the
    very END of the text, or only in the salt at its very START.  A digest of the text that is fed piecewise (by blocks, by a character count where a byte
    count is meant, up to a limit) is blind to one of the two; the evaluator must answer like one built from the second text."""
    from pyab_experiment.experiment_evaluator import ExperimentEvaluator
    envs = [{"u": "unit%d" % i} for i in range(6)]
    sizes = [300, 5000, 33000, 70000, 300000] + [1100000]
    for n in sizes:
        for ch in ("x", "\u00e9", "\u4e2d", "\U0001f600"):
            pad = "/*" + ch * n + "*/"
            for where, t1, t2 in (("end", 'def e { salt: "s" splitters: u ' + pad + ' return "a" weighted 1, "b" weighted 1 }', 'def e { salt: "s" splitters: u ' + pad + ' return "c" weighted 1, "d" weighted 1 }'),
                                  ("start", 'def e { salt: "s1" splitters: u return "a" weighted 1, "b" weighted 1, "c" weighted 1, "d" weighted 1 ' + pad + ' }',
                                   'def e { salt: "s2" splitters: u return "a" weighted 1, "b" weighted 1, "c" weighted 1, "d" weighted 1 ' + pad + ' }')):
                ctx.count("twin:sized:" + where)
                ctx.case(("twin-sized", n, ch, where), True)
                try:
                    ev, _ = common.quiet(lambda: ExperimentEvaluator(t1))
                    common.quiet(lambda: ev.recompile(t2))
                except Exception as ex:  # noqa
                    ctx.violation(f"twin slice: a grammatical experiment with a comment of {n} characters {ch!r} does not compile / recompile ({common.classify_exc(ex)})",
                                  {"comment_chars": n, "char": ch, "differs_at": where, "text_head": t2[:60], "text_tail": t2[-60:]})
                    return
                after = [common.outcome_of(lambda e=e: ev(**e)) for e in envs]
                fresh = _fresh(t2, envs)
                if after != fresh:
                    ctx.violation(f"after recompile() with a text that differs from the loaded one only at its {where} (both hold a comment of {n} characters {ch!r}, {len(ch.encode('utf-8'))} "
                                  f"byte(s) each), the evaluator answers {json.dumps(after)[:120]}; an evaluator built from that text answers {json.dumps(fresh)[:120]}",
                                  {"comment_chars": n, "char": ch, "differs_at": where, "t1_head": t1[:50], "t1_tail": t1[-50:], "t2_head": t2[:50], "t2_tail": t2[-50:], "impl": after, "fresh": fresh})
                    return


def offset_twins(ctx):
    """twin texts that differ in ONE byte — the first group's one-digit weight — placed at byte offset p of the text by a leading comment, for every p next to a
    multiple of a power of two or of ten (m*2^j + d, m*10^j + d, up to 2^20): a change-detection digest that drops or repeats a byte at a block boundary does
    not see the difference.  The implementation's own digest (cut out of its source) is asked first — thousands of offsets cost seconds — and every offset at
    which it does not move is then run through a real evaluator: new(T1); recompile(T2); calls, against an evaluator built from T2."""
    import choicelib
    from pyab_experiment.experiment_evaluator import ExperimentEvaluator
    digest = checksum_function()
    if digest is None:
        ctx.count("offset-twins:digest-not-extractable")
        offsets = [2 ** j + d for j in (12, 14, 15, 16, 17) for d in (-1, 0)] + [49151, 49152, 98303, 59999, 60000]
    else:
        offsets = [n - 1 for n in choicelib.key_lengths(20) if n > 80]
    head = "/*"
    tail = ', "b" weighted 1, "c" weighted 2 }'

    def text(p, digit):
        body = 'def e { splitters: u return "a" weighted '
        pad = p - len(head) - 2 - 1 - len(body)
        return head + "x" * pad + "*/ " + body + digit + tail

    suspects = []
    for p in offsets:
        t1, t2 = text(p, "1"), text(p, "9")
        assert t1[p] == "1" and t2[p] == "9"
        ctx.count("offset-twins:offsets")
        if digest is None:
            suspects.append(p)
            continue
        try:
            if digest(t1) == digest(t2):
                suspects.append(p)
        except Exception as ex:  # noqa
            ctx.notes.append("offset twins: digest raised " + repr(ex)[:100])
            return
    ctx.case(("offset-twins", len(offsets)), True)
    units = ["user_%d" % i for i in range(200)]
    for p in suspects[:12]:
        t1, t2 = text(p, "1"), text(p, "9")
        ev, _ = common.quiet(lambda: ExperimentEvaluator(t1))
        try:
            common.quiet(lambda: ev.recompile(t2))
        except Exception:  # noqa
            continue
        fresh, _ = common.quiet(lambda: ExperimentEvaluator(t2))
        bad = [u for u in units if ev(u=u) != fresh(u=u)]
        ctx.count("offset-twins:run-through-evaluator")
        if bad:
            ctx.violation(f"two texts that differ only in the byte at offset {p} (the first group's weight, 1 -> 9): after new(T1); recompile(T2) the evaluator still answers as T1 "
                          f"({len(bad)} of {len(units)} units differ from an evaluator built from T2)",
                          {"offset": p, "t1_head": t1[:20], "t1_tail": t1[p - 45:], "t2_tail": t2[p - 45:], "rebuild": "'/*' + 'x' * (offset - 48) + '*/ ' + tail",
                           "env": common.enc_env({"u": bad[0]}), "impl": common.outcome_of(lambda: ev(u=bad[0])), "fresh": common.outcome_of(lambda: fresh(u=bad[0]))})
            return


def _fresh(text, envs):
    from pyab_experiment.experiment_evaluator import ExperimentEvaluator
    try:
        ev, _ = common.quiet(lambda: ExperimentEvaluator(text))
    except Exception as ex:  # noqa
        return {"e": common.classify_exc(ex)}
    return [common.outcome_of(lambda e=e: ev(**e)) for e in envs]


def run(ctx, focuses, n, with_model=True):
    """drive real evaluators through  new(T1) ; calls ; recompile(T2) ; calls  and compare the answers after
    the recompile with (i) the Lean model's answers for T2 and (ii) a fresh evaluator built from T2."""
    from pyab_experiment.experiment_evaluator import ExperimentEvaluator
    rng = ctx.rng
    if not with_model or "trivia" in focuses:
        # (always in C11's own run, otherwise only when the deeper search was triggered)
        birthday(ctx, (1 << 18) if (not with_model or ctx.tier == "thorough") else (1 << 17))
    sized_twins(ctx)
    if ctx.new_violations():
        return
    if "weights" in focuses or "trivia" in focuses:
        offset_twins(ctx)
        if ctx.new_violations():
            return
    plan = []
    for f in focuses:
        plan += [(f,) + p for p in pairs(rng, f, n)]
    models = [None] * len(plan)
    if with_model and ctx.driver_ok:
        try:
            def _enc(t):
                try:
                    t.encode("utf-8")
                    return t
                except UnicodeEncodeError:
                    return 'def placeholder { return "a" weighted 1 }'       # (Lean strings hold no lone surrogates)
            reqs = [{"op": "run", "text": _enc(t1 if f == "invalid" else t2), "envs": [common.enc_env(e) for e in envs]} for f, _, t1, t2, envs in plan]
            models = common.run_driver_parallel(reqs, jobs=8)
        except Exception as ex:  # noqa
            ctx.obligation_breaks.append({"what": "model-driver-run", "detail": repr(ex)[:300]})
    for (focus, kind, t1, t2, envs), m in zip(plan, models):
        ctx.count("twin:" + focus + ":" + kind.split("+")[0])
        ctx.case(("twin", t1, t2), True)
        if m is not None and common.model_has_gap(m):
            # the model has no answer (e.g. a lexer action the translator could not carry over: reported as a broken obligation, not as a behaviour)
            ctx.count("twin:model-gap")
            m = None
        _volatile(ctx, focus, kind, t1, t2, envs)
        if ctx.violations and ctx.violations[-1]["replay"].get("note"):
            continue
        try:
            ev, _ = common.quiet(lambda: ExperimentEvaluator(t1))
        except UnicodeEncodeError:
            ctx.count("twin:text-with-lone-surrogate-refused")
            continue
        except Exception as ex:  # noqa
            ctx.violation(f"twin slice: a grammatical experiment does not compile ({common.classify_exc(ex)}): {t1[:160]!r}", {"text": t1})
            continue
        before = [common.outcome_of(lambda e=e: ev(**e)) for e in envs[:4]]
        try:
            common.quiet(lambda: ev.recompile(t2))
            rec = "ok"
        except Exception as ex:  # noqa
            rec = {"e": common.classify_exc(ex)}
        after = [common.outcome_of(lambda e=e: ev(**e)) for e in envs]
        hist = {"history": [["new", 0, t1], ["recompile", 0, t2]] + [["call", 0, common.enc_env(e)] for e in envs[:3]], "kind": kind, "focus": focus}
        if focus == "invalid":
            if rec == "ok":
                ctx.violation(f"recompile() of a text that is no experiment returns silently (evaluator held a valid twin): {t2[-60:]!r}",
                              dict(hist, recompile=rec))
            elif after[:4] != before:
                ctx.violation("a rejected recompile changed what the evaluator answers", dict(hist, before=before, after=after[:4]))
            continue
        try:
            t2.encode("utf-8"), t1.encode("utf-8")
        except UnicodeEncodeError:
            m = None                      # the model has no answer for such a text
        fresh = _fresh(t2, envs)
        if isinstance(fresh, dict):
            # T2 does not compile on its own (e.g. a weight vector the code rejects): nothing to compare
            ctx.count("twin:t2-rejected")
            continue
        if rec != "ok":
            ctx.violation(f"recompile() of a valid text raises {rec} on an evaluator that held its twin", dict(hist, recompile=rec))
            continue
        for e, a, f_, mo in zip(envs, after, fresh, (m or {}).get("out") or [None] * len(envs)):
            if a != f_:
                ctx.violation(
                    f"after recompile() with a text that differs from the loaded one only by {kind} ({focus}), the evaluator answers "
                    f"{json.dumps(a)[:80]} on {json.dumps(common.enc_env(e))[:100]}; an evaluator built from that text answers {json.dumps(f_)[:80]}",
                    dict(hist, history=hist["history"][:2] + [["call", 0, common.enc_env(e)]], env=common.enc_env(e), impl=a, fresh=f_))
                break
            if mo is not None and "r" not in mo and mo != a:
                # both evaluators agree with each other but not with the model of T2: state shared across compilations
                ctx.violation(
                    f"an evaluator given a text that differs from an earlier one only by {kind} ({focus}) answers {json.dumps(a)[:80]} on "
                    f"{json.dumps(common.enc_env(e))[:100]}; the text prescribes {json.dumps(mo)[:80]}",
                    dict(hist, history=hist["history"][:2] + [["call", 0, common.enc_env(e)]], env=common.enc_env(e), impl=a, model=mo))
                break
