"""C04 — realistic id populations split in proportion, independently across salts.
Level `other`: the reduction to equidistribution of MD5 positions is proved (Properties/C04.lean),
every assignment is tied bit-exactly to the published scheme, and the residual premise is
*measured* with chi-square tests — a statistical test, labelled as such, never a theorem."""
import json
import math
import uuid

import choicelib
import common
import gen

TWINS = ['weights', 'salt']      # harness/twins.py: which part of a twin text carries the difference

LEVEL = "other"
POPS = {"quick": 8, "thorough": 100}
SIZE = {"quick": 20000, "thorough": 50000}
ALPHA = 1e-9


def gammainc_upper(a, x):
    """regularised upper incomplete gamma Q(a, x) (series / continued fraction)"""
    if x <= 0:
        return 1.0
    if x < a + 1:
        term = 1.0 / a
        s = term
        n = a
        for _ in range(10000):
            n += 1
            term *= x / n
            s += term
            if abs(term) < abs(s) * 1e-16:
                break
        return max(0.0, 1.0 - s * math.exp(-x + a * math.log(x) - math.lgamma(a)))
    b = x + 1 - a
    c = 1e300
    d = 1 / b
    h = d
    for i in range(1, 10000):
        an = -i * (i - a)
        b += 2
        d = an * d + b
        if abs(d) < 1e-300:
            d = 1e-300
        c = b + an / c
        if abs(c) < 1e-300:
            c = 1e-300
        d = 1 / d
        delta = d * c
        h *= delta
        if abs(delta - 1) < 1e-16:
            break
    return math.exp(-x + a * math.log(x) - math.lgamma(a)) * h


def chi2_sf(x, df):
    return gammainc_upper(df / 2.0, x / 2.0)


def pool_small(expected, threshold):
    """a partition of the category indices in which every class has expected count >= threshold
    (chi-square's validity condition): the smallest categories are merged, smallest first; a
    leftover that is still too small joins the next class.  Categories with expectation 0 are left
    out (they are checked exactly, not statistically)."""
    idx = sorted((i for i, e in enumerate(expected) if e > 0), key=lambda i: expected[i])
    classes, cur, acc = [], [], 0.0
    for i in idx:
        cur.append(i)
        acc += expected[i]
        if acc >= threshold:
            classes.append(cur)
            cur, acc = [], 0.0
    if cur:
        if classes:
            classes[-1].extend(cur)
        else:
            classes.append(cur)
    return classes


def population(rng, family, size):
    off = rng.randrange(10 ** 9)
    if family == "sequential":
        return [off + i for i in range(size)]
    if family == "sequential-str":
        return [str(off + i) for i in range(size)]
    if family == "zero-padded":
        return ["%012d" % (off + i) for i in range(size)]
    if family == "uuid":
        r = rng.getrandbits
        return [str(uuid.UUID(int=r(128), version=4)) for _ in range(size)]
    if family == "email":
        return ["user%d@example%d.com" % (off + i, i % 7) for i in range(size)]
    if family == "snowflake-int":
        base = rng.choice([1_500_000_000_000_000_000, 9_100_000_000_000_000_000, 2 ** 53 + 12345])
        return [base + i for i in range(size)]
    if family == "mixed-case-token":
        import base64
        return [base64.b64encode((off + i).to_bytes(6, "big")).decode("ascii") for i in range(size)]
    return [(off + i, "c%d" % (i % 50)) for i in range(size)]          # multi-field


def run(ctx):
    from pyab_experiment.experiment_evaluator import ExperimentEvaluator
    rng = ctx.rng
    size = SIZE[ctx.tier]
    families = ["sequential", "sequential-str", "zero-padded", "uuid", "email", "multi-field", "mixed-case-token", "snowflake-int"]
    ctx.extra["rule"] = ("id families (sequential ints, digit strings, zero-padded, UUID-like, e-mail-like, two-field keys) x random offsets x "
                         "salts x weight vectors; every assignment of the real evaluator must equal the published scheme exactly "
                         "(correspondence); chi-square goodness-of-fit and chi-square independence between two salts are evaluated on those "
                         "counts at significance 1e-9 — a labelled statistical measurement of the premise of C04_equidistribution_suffices")
    ctx.extra["explanation"] = ("proof of the reduction (group counts are a function of hash positions; each group is a grid interval; whole key "
                                "hashed, salt first) + exact correspondence of every assignment + chi-square measurement of MD5 equidistribution, "
                                "which no proof assistant can discharge")
    stats = []
    for k in range(POPS[ctx.tier]):
        fam = families[k % len(families)]
        ws = choicelib.weight_vector(rng, ["int-small", "decimal", "mixed", "two", "subpico", "equal", "googol" if k % 16 == 6 else "subpico" if k % 16 == 14 else "mixed", "int"][k % 8])[:8]
        if k % 8 == 1:
            ws = rng.choice([["0.5", "0.5"], ["0.25", "0.25", "0.5"], ["1.5", "2.5"], ["0.1", "0.2", "0.7"]])
        if k % 8 == 3:
            ws = rng.choice([["2", "1", "3"], ["25", "10", "15", "50"], ["1", "0.5", "1.5"], ["3", "1", "5"]])     # first weight = mean
        if sum(gen.weight_fraction(w) for w in ws) == 0:
            ws = ["1", "1"]
        salts = ["salt_%d" % rng.randrange(10 ** 6), "other_%d" % rng.randrange(10 ** 6)]
        if k % 3 == 1:
            # two salts that differ only in letter case are still two different salts
            base = "Checkout_V%d" % rng.randrange(100)
            salts = [base, base.lower()]
        two = fam == "multi-field"
        # a label may be declared more than once (its share is the sum of its entries); 1 and 1.0 are different labels
        if k % 4 == 2 and len(ws) < 3:
            ws = list(ws) + ["2", "1"]
        nlab = len(ws) if k % 4 != 2 else max(2, len(ws) // 2)
        lab = lambda i: i % nlab
        groups = ", ".join('"g%d" weighted %s' % (lab(i), w) for i, w in enumerate(ws))
        evs = [ExperimentEvaluator('def e { salt: "%s" splitters: %s return %s }' % (s, "uid, cc" if two else "uid", groups)) for s in salts]
        pop = population(rng, fam, size)
        n = len(ws)
        counts = [[0] * n for _ in salts]
        table = [[0] * n for _ in range(n)]
        fracs = [gen.weight_fraction(w) for w in ws]
        total = sum(fracs)
        if nlab != len(ws):
            ctx.count("repeated-labels")
            fracs = [sum(f for j, f in enumerate(fracs) if lab(j) == i) for i in range(nlab)] + [0] * (len(ws) - nlab)
        for uid in pop:
            env = {"uid": uid[0], "cc": uid[1]} if two else {"uid": uid}
            idx = []
            for si, (s, ev) in enumerate(zip(salts, evs)):
                g = ev(**env)
                i = int(g[1:])
                h = gen.published_position(s, ["uid", "cc"] if two else ["uid"], env)
                exact, allowed = gen.spec_indices(ws, h)
                if i not in {lab(j) for j in allowed}:
                    ctx.violation(f"assignment differs from the published scheme: unit {env} salt {s!r} weights {ws}: got g{i}, expected g{exact}",
                                  {"env": common.enc_env(env), "salt": s, "weights": ws, "got": i, "expected": exact})
                counts[si][i] += 1
                idx.append(i)
            table[idx[0]][idx[1]] += 1
        ctx.case((fam, tuple(ws), tuple(salts)), True, sample={"family": fam, "weights": ws, "salts": salts, "counts": counts})
        ctx.count("family:" + fam)
        # goodness of fit
        for si in range(len(salts)):
            exps = [size * float(fracs[i] / total) for i in range(n)]
            for i in range(n):
                if exps[i] == 0 and counts[si][i]:
                    ctx.violation(f"zero-weight group g{i} received {counts[si][i]} units", {"weights": ws, "counts": counts[si]})
            # cells with an expected count under 5 are pooled: the chi-square law does not describe them
            classes = pool_small(exps, 5.0)
            chi = sum((sum(counts[si][i] for i in c) - sum(exps[i] for i in c)) ** 2 / sum(exps[i] for i in c) for c in classes)
            df = len(classes) - 1
            p = chi2_sf(chi, df) if df > 0 else 1.0
            stats.append({"test": "gof", "family": fam, "df": df, "chi2": round(chi, 3), "p": p})
            if p < ALPHA:
                ctx.violation(f"group frequencies inconsistent with weights {ws} over {size} {fam} ids (salt {salts[si]!r}): chi2={chi:.1f} "
                              f"df={df} p={p:.2e}", {"family": fam, "weights": ws, "salt": salts[si], "counts": counts[si], "chi2": chi, "p": p})
        # independence across salts
        # groups are pooled until every cell of the pooled table has an expected count of at least 5
        classes = pool_small([size * float(f / total) for f in fracs], math.sqrt(5.0 * size))
        k = len(classes)
        tab = [[sum(table[i][j] for i in ci for j in cj) for cj in classes] for ci in classes]
        rows = [sum(r) for r in tab]
        cols = [sum(tab[i][j] for i in range(k)) for j in range(k)]
        chi, r_used, c_used = 0.0, sum(1 for r in rows if r), sum(1 for c in cols if c)
        for i in range(k):
            for j in range(k):
                exp = rows[i] * cols[j] / size
                if exp > 0:
                    chi += (tab[i][j] - exp) ** 2 / exp
        df = (r_used - 1) * (c_used - 1)
        p = chi2_sf(chi, df) if df > 0 else 1.0
        stats.append({"test": "independence", "family": fam, "df": df, "chi2": round(chi, 3), "p": p})
        if p < ALPHA:
            ctx.violation(f"assignments under salts {salts} are not independent over {size} {fam} ids: chi2={chi:.1f} df={df} p={p:.2e}",
                          {"family": fam, "weights": ws, "salts": salts, "table": table, "chi2": chi, "p": p})
    choicelib.run_half_step(ctx, 60)
    choicelib.run_key_lengths(ctx, 20 if ctx.tier == 'quick' else 24)
    ctx.extra["statistical_tests"] = stats[:40]
    ctx.extra["min_p"] = min((s["p"] for s in stats), default=1.0)
    ctx.assumptions.append("MD5 positions of realistic ids are equidistributed: measured (chi-square at 1e-9), not proved")


search = None
