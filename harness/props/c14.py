"""C14 — generated Python source is equivalent to the in-memory evaluator."""
import ast
import json

import common
import gen

TWINS = ['salt']      # harness/twins.py: which part of a twin text carries the difference

N = {"quick": 120, "thorough": 3000}
LEAN_MODULE = "Pyab.Properties.C14_full"


def exec_module(code, name):
    ns = {}
    exec(compile(code, "<generated>", "exec"), ns)
    return ns.get(name)


def run_batch(ctx, n, with_model=True):
    from pyab_experiment.utils.wraper_functions import generate_code, parse_source
    from pyab_experiment.codegen.python.python_generator import PythonCodeGen
    from pyab_experiment.experiment_evaluator import ExperimentEvaluator
    rng = ctx.rng
    cases = []
    for _ in range(n):
        prog = gen.gen_program(rng, gen.GenOpts(max_depth=rng.choice([0, 1, 2, 3]), max_nodes=10, p_shared=0.4))
        text = gen.render(prog, rng, rng.choice(["plain", "trivia"]))
        envs = [gen.gen_env(prog, rng) for _ in range(4)]
        # also: a missing field and an extra field
        if prog.fields:
            e = dict(envs[0]); e.pop(sorted(e)[0]); envs.append(e)
        envs.append(dict(envs[0], zz_extra=1))
        if prog.splitters and prog.splitters[0] not in prog.cond_fields():
            # values that compare equal in Python but print differently, one after the other on the same evaluator
            for v in (1, 1.0, True, 0, 0.0, False):
                envs.append(dict(envs[0], **{prog.splitters[0]: v}))
        if prog.splitters and prog.cond_fields():
            # a record on which BOTH routing and key building fail: which error is reported is part of the behaviour (routing comes first)
            sp = prog.splitters[0]
            for cf in [f for f in prog.cond_fields() if f != sp][:1]:
                envs.append(dict(envs[0], **{sp: 10 ** 5000, cf: object.__new__(object) if False else "\x00never-matches"}))
                envs.append(dict(envs[0], **{sp: -(10 ** 4400), cf: None}))
        cases.append((prog, text, envs))
    # corpus: literals that are not in Unicode NFC form (combining marks, compatibility characters) stay as written
    for salt, label, operand in (("cafe\u0301", "Jose\u0301", "\u212b"), ("\u2126", "e\u0301\u0323", "\u1112\u1161\u11ab"), ("ok", "\ufb01", "A\u030a")):
        p = gen.Program("nfc", gen.lit_str(salt, quote='"'), ["u"],
                        ("if", ("cmp", ("id", "x"), "==", ("lit", gen.lit_str(operand, quote='"'))),
                         ("ret", [(gen.lit_str(label, quote='"'), "1"), (gen.lit_str("b", quote='"'), "1")]),
                         ("else", ("ret", [(gen.lit_str("n", quote='"'), "1")]))), {"u": "any", "x": "str"})
        import unicodedata
        envs = [{"u": i, "x": operand} for i in range(6)] + [{"u": 1, "x": unicodedata.normalize("NFC", operand)}]
        cases.append((p, gen.render(p), envs))
    # corpus: identifiers that are names of the host language / of the library's own parameters, in every role
    L = lambda t: gen.lit_str(t, quote='"')
    for name in gen.host_names():
        ab = ("ret", [(L("a"), "1"), (L("b"), "1"), (L("c"), "2")])
        progs = [gen.Program("e", None, [name], ab, {name: "any"}),
                 gen.Program("e", L("s"), ["uid"], ("if", ("cmp", ("id", name), ">", ("lit", gen.lit_int(3))), ab, ("else", ("ret", [(L("n"), "1")]))),
                             {"uid": "any", name: "int"}),
                 gen.Program(name, None, ["uid"], ab, {"uid": "any"})]
        for p in progs:
            envs = [{f: (rng.choice([0, 5, 7]) if t == "int" else rng.choice(["u1", 0, 9, "", None])) for f, t in p.fields.items()} for _ in range(3)]
            cases.append((p, gen.render(p), envs))
    # corpus: every nesting depth up to what the host language allows, chains of every length up to 70 (both layouts indent differently)
    def nest(k):
        inner = ("ret", [(L("leaf"), "1"), (L("leaf2"), "1")])
        for i in range(k):
            inner = ("if", ("cmp", ("id", "x"), ">=", ("lit", gen.lit_int(i))), inner, ("else", ("ret", [(L("n%d" % i), "1")])))
        return gen.Program("deep", None, ["u"], inner, {"u": "any", "x": "int"})
    for k in (list(range(1, 97)) if ctx.tier == "thorough" else [1, 2, 12, 13, 30, 31, 32, 33, 47, 48, 61, 62, 63, 64, 65, 66, 79, 95, 96]):
        p = nest(k)
        cases.append((p, gen.render(p), [{"u": "u1", "x": v} for v in (0, k // 2, k, k + 1)]))
    # dimension sweeps (gen.sweep_cases): a seeded sample of every size along every dimension, through both layouts
    for c in gen.sweep_cases(rng, 0.5 if ctx.tier == "thorough" else 0.12):
        cases.append((c["prog"], c["text"], c["envs"][:4]))
    # corpus: literals that spell a piece of the generated text (banner, import line, signature, call)
    for frag in gen.generated_fragments():
        lit = gen.lit_str(frag, rng)
        p = gen.Program("frag", lit if rng.random() < 0.5 else None, ["u"],
                        ("if", ("cmp", ("id", "x"), "==", ("lit", lit)), ("ret", [(lit, "1"), (L("b"), "1")]), ("else", ("ret", [(L("n"), "1")]))), {"u": "any", "x": "str"})
        cases.append((p, gen.render(p), [{"u": i, "x": rng.choice([lit.value, "other"])} for i in range(3)]))
    models = [None] * len(cases)
    if with_model and ctx.driver_ok:
        try:
            models = common.run_driver_parallel([{"op": "run", "text": t, "envs": [common.enc_env(e) for e in envs]}
                                                 for _, t, envs in cases], jobs=12)
        except Exception as ex:  # noqa
            ctx.obligation_breaks.append({"what": "model-driver-run", "detail": repr(ex)[:400]})
    # cases outside the model's value domain (object identity, unhashable containers): generated module against evaluator only
    extra = []
    nan = float("nan")
    for op, rhs in (("in", ("tuple", [("id", "y")])), ("not in", ("tuple", [("id", "y")])), ("in", ("tuple", [("id", "y"), ("lit", gen.lit_int(1))])),
                    ("==", ("id", "y")), ("!=", ("id", "y")), ("in", ("tuple", [("tuple", [("id", "y")])]))):
        p = gen.Program("ident", None, ["u"], ("if", ("cmp", ("id", "x"), op, rhs), ("ret", [(L("T"), "1")]), ("else", ("ret", [(L("F"), "1")]))), {"u": "any", "x": "any", "y": "any"})
        shared = [1, 2]
        extra.append((p, gen.render(p), [{"u": 1, "x": nan, "y": nan}, {"u": 1, "x": float("nan"), "y": float("nan")}, {"u": 1, "x": shared, "y": shared}, {"u": 1, "x": [1, 2], "y": [1, 2]},
                                        {"u": 1, "x": (nan,), "y": (nan,)}, {"u": 1, "x": 1, "y": True}]))
    for c in gen.membership_cases(rng, 40 if ctx.tier == "quick" else 600):
        extra.append((c["prog"], c["text"], c["envs"]))
    # the same statement several times in one program, at different depths (both layouts indent differently)
    for c in gen.repeated_leaf_programs(rng, None if ctx.tier == "thorough" else [2, 21, 33, 65]):
        extra.append((c["prog"], c["text"], c["envs"][::3]))
    cases += extra
    models += [None] * len(extra)
    for (prog, text, envs), m in zip(cases, models):
        ctx.case(text, True, sample={"text": text[:300]})
        try:
            ev, _ = common.quiet(lambda: ExperimentEvaluator(text))
        except Exception as ex:  # noqa
            ctx.violation(f"grammatical experiment does not compile ({common.classify_exc(ex)}): {text[:160]}", {"text": text})
            continue
        base = [common.outcome_of(lambda: ev(**e)) for e in envs]
        for expose in (False, True):
            layout = "exposed" if expose else "nested"
            ctx.count("layout:" + layout)
            try:
                code = generate_code(text, expose)
                fn = exec_module(code, prog.name)
            except Exception as ex:  # noqa
                ctx.violation(f"generate_code({layout}) output is not valid stand-alone Python ({common.classify_exc(ex)}): {text[:160]}",
                              {"text": text, "layout": layout, "error": repr(ex)[:200]})
                continue
            if not callable(fn):
                ctx.violation(f"generate_code({layout}) does not define a function named {prog.name!r}", {"text": text, "layout": layout})
                continue
            # black must not change the program
            raw = PythonCodeGen(parse_source(text), expose_experiment_variant_function=expose).generate()
            if ast.dump(ast.parse(raw)) != ast.dump(ast.parse(code)):
                ctx.violation(f"black changes the AST of the generated module ({layout})", {"text": text, "layout": layout})
            # model text for this layout
            if m is not None:
                mt = m.get("genx" if expose else "gen")
                if mt != raw:
                    ctx.drift("gen-" + layout, {"text": text})
                    if isinstance(mt, str):
                        try:
                            if ast.dump(ast.parse(mt)) != ast.dump(ast.parse(raw)):
                                ctx.tie_break("gen-ast-" + layout, {"text": text})
                        except SyntaxError:
                            ctx.tie_break("model-text-unparsable", {"text": text})
            for env, b, i in zip(envs, base, range(len(envs))):
                out = common.outcome_of(lambda: fn(**env))
                random_prog = not prog.splitters
                if random_prog:
                    ok = ("g" in out) == ("g" in b) and (("e" in out and out == b) or "g" in out)
                else:
                    ok = out == b
                if not ok:
                    ctx.violation(f"executing generate_code({layout}) gives {json.dumps(out)[:80]}, the evaluator gives {json.dumps(b)[:80]}: "
                                  f"{text[:140]}", {"text": text, "layout": layout, "env": common.enc_env(env), "module": out, "evaluator": b})
                if m is not None and not random_prog and m["out"][i] != b:
                    ctx.tie_break("out", {"text": text, "env": common.enc_env(env), "impl": b, "model": m["out"][i]})
    # finding family K2 (decimal overflowing binary64): evaluator and generated module must still behave alike
    text = 'def e { splitters: u if x < %s.0 { return "a" weighted 1 } else { return "b" weighted 1 } }' % ("9" * 400)
    ev_out = common.outcome_of(lambda: ExperimentEvaluator(text)(u=1, x=1.0))
    for expose in (False, True):
        try:
            fn = exec_module(generate_code(text, expose), "e")
            mod_out = common.outcome_of(lambda: fn(u=1, x=1.0))
        except Exception as ex:  # noqa
            mod_out = {"e": common.classify_exc(ex)}
        ctx.count("k2-alike")
        if ("g" in mod_out) != ("g" in ev_out) or ("e" in mod_out and mod_out != ev_out):
            ctx.violation(f"overflowing decimal literal: generate_code({'exposed' if expose else 'nested'}) gives {mod_out}, the evaluator gives {ev_out}",
                          {"text": text[:80] + "…", "module": mod_out, "evaluator": ev_out})
    # finding family K1: the helper's own name as experiment name in the exposed layout
    text = 'def choose_experiment_variant { splitters: u return "a" weighted 1, "b" weighted 1 }'
    try:
        fn = exec_module(generate_code(text, True), "choose_experiment_variant")
        out = common.outcome_of(lambda: fn(u="u1"))
    except Exception as ex:  # noqa
        out = {"e": common.classify_exc(ex)}
    if "g" not in out:
        ctx.violation(f"experiment named choose_experiment_variant, exposed layout: {out}", {"text": text, "impl": out},
                      key="K1:exposed-layout:choose_experiment_variant")


def run(ctx):
    n = N[ctx.tier]
    if ctx.obligation_breaks or ctx.tie_breaks:
        n *= 3
    ctx.extra["rule"] = ("for each generated program and both layouts: generate_code(text, expose) is compiled and exec'd in a fresh "
                         "namespace (real Python, real black), the function named after the experiment is called on generated inputs "
                         "(incl. a missing and an extra field) and compared with ExperimentEvaluator(text), with the model and with the "
                         "model's text for that layout; black must not change the AST")
    ctx.assumptions.append("black.format_str preserves meaning: trusted, and checked on every case")
    run_batch(ctx, n)


def search(ctx):
    run_batch(ctx, 600, with_model=False)
