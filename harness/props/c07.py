"""C07 — every grammatical experiment compiles and evaluates."""
import gen
import progcases
import common

TWINS = ['pred']      # harness/twins.py: which part of a twin text carries the difference

N = {"quick": 600, "thorough": 15000}

PRELUDES = ['def e { return "a" weighted 1 } /* notes', 'def e { return "a" weighted }', 'def e { @ }', '/*', 'def e { salt: "unterminated }',
            'def e { splitters: class return "a" weighted 1 }', '', 'def e { return "a" weighted 1 } /* a */ /* b']


def make_cases(ctx, n, big=False):
    rng = ctx.rng
    cases = []
    for i in range(n):
        r = rng.random()
        opts = gen.GenOpts(max_depth=rng.choice([0, 1, 2, 3, 5]), max_chain=rng.choice([0, 1, 2, 5]),
                           max_pred_depth=rng.choice([0, 1, 2, 3]), p_shared=rng.choice([0.0, 0.5, 1.0]),
                           splitters=rng.random() < 0.85, max_groups=rng.choice([1, 3, 8]),
                           redundant_parens=rng.choice([0.0, 0.3]))
        if big and r < 0.02:
            opts.max_depth, opts.max_chain, opts.max_groups, opts.max_nodes = rng.choice([(12, 3, 4, 150), (2, 60, 4, 150), (1, 1, 64, 20)])
        prog = gen.gen_program(rng, opts)
        text = gen.render(prog, rng, rng.choice(["plain", "tight", "trivia"]))
        envs = [gen.gen_env(prog, rng) for _ in range(3)]
        case = {"prog": prog, "text": text, "envs": envs}
        if rng.random() < 0.25:
            # a sentence must compile whatever was submitted before it
            case["prelude"] = rng.choice(PRELUDES)
        cases.append(case)
    return cases


def corpus_cases(ctx):
    """the repository's own example programs (tests/unit/test_programs, the README's complete example)"""
    import glob
    import os
    import re
    import recogniser
    rng = ctx.rng
    texts = []
    for f in sorted(glob.glob(os.path.join(common.REPO, "tests", "unit", "test_programs", "*.pyab"))):
        texts.append(open(f, encoding="utf-8").read())
    try:
        readme = open(os.path.join(common.REPO, "src", "pyab_experiment", "language", "README.rst"), encoding="utf-8").read()
        m = re.search(r"(    def complex_experiment \{.*?\n    \})", readme, re.S)
        if m:
            texts.append("\n".join(l[4:] for l in m.group(1).splitlines()))
    except OSError:
        pass
    cases = []
    for t in texts:
        try:
            r = recogniser.recognise(t)
        except recogniser.Reject:
            continue
        names = set(r["splitters"] or [])

        def ids(node):
            if isinstance(node, tuple):
                if node and node[0] == "id":
                    names.add(node[1])
                for x in node:
                    ids(x)
            elif isinstance(node, list):
                for x in node:
                    ids(x)
        ids(r["cond"])
        envs = [{n: rng.choice([1, 5, 21, "US", "CA", "x", 2.5, "u%d" % rng.randrange(99)]) for n in names} for _ in range(4)]
        cases.append({"prog": None, "text": t, "envs": envs, "must_compile": True})
    return cases


TRICKY_VALID = [
    'def e { splitters: u return "a" weighted 0.' + "0" * 323 + '5 }', 'def e { splitters: u return "a" weighted 0.' + "0" * 320 + '1, "b" weighted 0.' + "0" * 320 + '1 }',
    'def e { splitters: u return "a" weighted 0.' + "0" * 400 + '1, "b" weighted 0.' + "0" * 315 + '3 }',
    'def e{return"a"weighted 1}', "def e{return'a'weighted 1,'b'weighted 2}", 'def e { return "a" weighted 007 }', 'def e { return "a" weighted 1.50 }',
    'def e { return - 5 weighted 1, -5 weighted 1, -0 weighted 1, -0.0 weighted 1, 0 weighted 1 }', 'def e { return "it\'s" weighted 1, \'say "hi"\' weighted 1 }',
    'def e { splitters: u if x == 1 { return "a" weighted 1 } else    if x == 2 { return "b" weighted 1 } else\tif x == 3 { return "c" weighted 1 } elseif x == 4 { return "d" weighted 1 } else\nif x == 5 { return "e" weighted 1 } }',
    'def e { splitters: u if x not in (1, 2) { return "a" weighted 1 } else if x not\tin (3) { return "b" weighted 1 } else if x not\n  in (4) { return "c" weighted 1 } }',
    'def e { splitters: u if ((x == 1)) { return "a" weighted 1 } }', 'def e { splitters: u if (((((((((( x == 1 )))))))))) { return "a" weighted 1 } }',
    'def e { splitters: u if (1, 2) == x { return "a" weighted 1 } else if (x) == (1) { return "b" weighted 1 } else if ((1, 2), (3)) == x { return "c" weighted 1 } }',
    'def e { splitters: u if not not not x == 1 { return "a" weighted 1 } }', 'def e { splitters: u if not x == 1 and not y == 2 or not z == 3 { return "a" weighted 1 } }',
    'def e { splitters: u if x == 1 or y == 2 and z == 3 { return "a" weighted 1 } else { return "b" weighted 1 } }',
    'def e { splitters: u if x == 1 and y == 2 or z == 3 { return "a" weighted 1 } else { return "b" weighted 1 } }',
    'def e { splitters: u if not (x == 1 or y == 2) and z == 3 { return "a" weighted 1 } else { return "b" weighted 1 } }',
    'def e { splitters: u if x in "abc" { return "a" weighted 1 } else { return "b" weighted 1 } }', 'def e { splitters: u if "b" in x { return "a" weighted 1 } else { return "b" weighted 1 } }',
    'def e { splitters: u if x == y { return "a" weighted 1 } else if x < y { return "b" weighted 1 } else { return "c" weighted 1 } }',
    'def e { splitters: u, u, u return "a" weighted 1, "b" weighted 1 }', 'def e { salt: "" splitters: u return "a" weighted 1, "b" weighted 1 }',
    "def e { salt: '' splitters: u return 'a' weighted 1, 'b' weighted 1 }", 'def e { salt:"s"splitters:u return"a"weighted 1 }',
    'def e {\r\n  splitters: u\r\n  return "a" weighted 1\r\n}\r\n', 'def e {\x0c splitters:\x0bu return "a" weighted 1 }', 'def\u00a0e\u2003{\u3000return "a" weighted 1 }',
    'def e { return "a" weighted \u0663 }', 'def e { return \u0661\u0662 weighted 1.\u0665 }', 'def e { return "a" weighted 1 } // no newline at end',
    'def e { return "a" weighted 1 } /* c */', '/* c */ def e { return "a" weighted 1 }', 'def e { return "a" /* x */ weighted /* y */ 1 /* z */ }',
    'def e { return "//" weighted 1, "/*" weighted 1, "*/" weighted 1 }', 'def e { // c\n return "a" weighted 1 /* /* nested open */ }',
    'def _ { return "a" weighted 1 }', 'def __x__ { return "a" weighted 1 }', 'def E1 { return "a" weighted 1 }', 'def iffy { splitters: order_id, index, not_active, android, elsewhere, inner, salty return "a" weighted 1, "b" weighted 1 }',
    'def e { splitters: u if order_id == 1 and not_active == 2 or index in (1) { return "a" weighted 1 } else { return "b" weighted 1 } }',
    'def e { return 0 weighted 0, 1 weighted 0.0, 2 weighted 1 }', 'def e { return "a" weighted 0.000000001, "b" weighted 1000000000 }',
    'def e { return 123456789012345678901234567890 weighted 1, -123456789012345678901234567890 weighted 1, 1.7976931348623157 weighted 1 }',
    'def e { splitters: u if x == 123456789012345678901234567890 { return "a" weighted 1 } else { return "b" weighted 1 } }',
    'def e { splitters: u if x > -1.5 and x <= 2.25 { return "a" weighted 1 } else { return "b" weighted 1 } }',
]


def tricky_cases(ctx):
    import recogniser
    rng = ctx.rng
    cases = []
    for t in TRICKY_VALID:
        t = t.encode("ascii", "backslashreplace").decode("unicode_escape") if "\\u" in t else t
        if not recogniser.accepts(t):
            ctx.notes.append("tricky corpus entry not accepted by the recogniser (skipped): " + t[:60])
            continue
        envs = [{"u": rng.choice(["u1", 7, "unit%d" % rng.randrange(99), rng.randrange(10 ** 6)]), "x": rng.choice([1, 2, 3, 4, 5, "abc", (1, 2), ((1, 2), (3,)), -1.5, 2.25, 123456789012345678901234567890]),
                 "y": rng.choice([1, 2, "b"]), "z": rng.choice([3, 4]), "order_id": 1, "index": 1, "not_active": 2, "android": 0, "elsewhere": 0,
                 "inner": 0, "salty": 0} for _ in range(8)]
        cases.append({"prog": None, "text": t, "envs": envs, "must_compile": True})
    return cases


def ws_class_cases(ctx):
    """texts written with one kind of white space only, control characters inside their string literals (gen.ws_class_texts); the independent
    recogniser says which of them are sentences"""
    import recogniser
    cases = []
    for sep, s, t in gen.ws_class_texts():
        if not recogniser.accepts(t):
            ctx.count("ws-class:not-a-sentence")
            continue
        ctx.count("ws-class:sentence")
        envs = [{"u": "u1", "x": s}, {"u": 7, "x": s + " "}, {"u": "u2", "x": s.replace("\r", "\n")}, {"u": "u3", "x": ""}]
        cases.append({"prog": None, "text": t, "envs": envs, "must_compile": True})
    return cases


def tower_cases(ctx):
    """chains nested in the last branch of chains and chains at every nesting level: the explored
    maxima (nesting 12, chains of 60) taken together along ONE path, which a random program never does"""
    rng = ctx.rng

    def tower(k, n, where):
        inner = 'return "leaf" weighted 1'
        for _ in range(k):
            parts = ['if x == 0 { return "a" weighted 1 }']
            for i in range(1, n + 1):
                body = inner if i == where(n) else 'return "b%d" weighted 1' % i
                parts.append('else if x == %d { %s }' % (i, body))
            inner = " ".join(parts)
        return "def e { splitters: u " + inner + " }"

    def nested(k, n):
        # k nested ifs, a chain of n else-ifs hanging off each of them
        inner = 'return "leaf" weighted 1'
        for lvl in range(k):
            chain = " ".join('else if y == %d { return "c%d" weighted 1 }' % (i, i) for i in range(1, n + 1))
            inner = 'if x == 0 { %s } %s' % (inner, chain)
        return "def e { splitters: u " + inner + " }"

    shapes = [(2, 55), (2, 60), (3, 40), (rng.choice([4, 6, 8]), 60), (12, 60)] if ctx.tier == "thorough" else [(2, 55), (2, 60), (12, 20)]
    cases = []
    for k, n in shapes:
        for where in (lambda n: n, lambda n: n // 2):
            envs = [{"u": "u%d" % rng.randrange(99), "x": where(n)}, {"u": 1, "x": 0}, {"u": 1, "x": n + 5}]
            cases.append({"prog": None, "text": tower(k, n, where), "envs": envs, "must_compile": True})
    for k, n in ([(12, 60), (12, 5), (6, 30)] if ctx.tier == "thorough" else [(12, 5), (4, 30)]):
        envs = [{"u": "u1", "x": 0, "y": 0}, {"u": "u1", "x": 1, "y": n}, {"u": "u1", "x": 0, "y": 1}]
        cases.append({"prog": None, "text": nested(k, n), "envs": envs, "must_compile": True})
    return cases


def render_canon(toks):
    """text of the model's canonical token rendering (Spec.tokensOfExperiment): every token as a lexeme,
    one blank between tokens.  None when a token has no lexeme (a string holding both quote kinds or a
    newline, a non-finite number) — such ASTs have no source text at all."""
    import decimal
    out = []
    for kind, v in toks:
        if kind in ("KW_ELIF", "KW_NOT_IN"):
            out.append({"KW_ELIF": "else if", "KW_NOT_IN": "not in"}[kind])     # the token's value is not its lexeme
        elif "r" in v:
            out.append(v["r"])
        elif "i" in v:
            out.append(v["i"])
        elif "s" in v:
            t = v["s"]
            if "\n" in t or ('"' in t and "'" in t):
                return None
            out.append(("'" + t + "'") if '"' in t else ('"' + t + '"'))
        elif "f" in v:
            f = v["f"]
            if f in ("nan", "inf", "-inf"):
                return None
            m, e = (int(x) for x in f.split())
            if m < 0:
                return None
            with decimal.localcontext() as c:
                c.prec = 2000
                d = decimal.Decimal(m) * (decimal.Decimal(2) ** e)
                t = format(d, "f")
            out.append(t if "." in t else t + ".0")
        else:
            return None
    return " ".join(out)


def canon_tie(ctx, records):
    """C07_parse_complete_canonical ties the MODEL's parser to the canonical rendering of every well-formed
    AST; this ties the real lexer+parser to the same rendering: the rendering of the AST of a compiled text
    must compile, to the same AST."""
    for rec in records:
        m, im = rec["model"], rec["impl"]
        if m is None or not m.get("canon") or im.get("compile") != "ok":
            continue
        for which, name in (("canon", "canonical (fully parenthesised)"), ("canonmin", "minimally parenthesised")):
            if not m.get(which):
                continue
            text2 = render_canon(m[which])
            if text2 is None:
                ctx.count(which + ":no-lexeme")
                continue
            ctx.count(which + ":rendered")
            im2 = common.impl_stages(text2, [])
            if im2.get("compile") != "ok":
                ctx.violation(f"the {name} rendering of a compiled experiment does not compile ({im2['compile']}): {text2[:200]}",
                              {"text": text2, "from": rec["case"]["text"], "impl_compile": im2["compile"]})
            elif im2.get("ast") != im.get("ast"):
                ctx.tie_break(which + "-rendering", {"text": text2, "from": rec["case"]["text"][:400]})


def k1_cases(ctx):
    """finding family K1: identifiers that are Python reserved words / names the generated code uses"""
    cases = []
    for name in gen.K1_NAMES + gen.host_names():
        for role in ("splitter", "condition", "experiment"):
            if role == "splitter":
                text = 'def e { splitters: %s return "a" weighted 1, "b" weighted 1 }' % name
                env = {name: "u1"}
            elif role == "condition":
                text = 'def e { splitters: uid if %s == 1 { return "a" weighted 1 } else { return "b" weighted 1 } }' % name
                env = {name: 1, "uid": "u1"}
            else:
                text = 'def %s { splitters: uid return "a" weighted 1, "b" weighted 1 }' % name
                env = {"uid": "u1"}
            cases.append((name, role, text, env))
    return cases


def run_k1(ctx):
    from pyab_experiment.experiment_evaluator import ExperimentEvaluator
    for name, role, text, env in k1_cases(ctx):
        def go():
            ev = ExperimentEvaluator(text)
            return ev(**env)
        out = common.outcome_of(go)
        out2 = common.outcome_of(go)
        ctx.case(("k1", name, role), True)
        # the group the published scheme prescribes (the splitter is `name` or uid; no salt; weights 1:1)
        sp = name if role == "splitter" else "uid"
        h = gen.published_position(None, [sp], env)
        want = {"s": "ab"[list(gen.spec_indices(["1", "1"], h)[1])[0]]} if role != "condition" else None
        if role == "condition":
            want = {"s": "a"}          # x == 1 is true: single group "a"
        ok = "g" in out and out == out2 and out["g"] == want
        if ok and role == "splitter":
            # more units: a key that silently contains something else than the field's value agrees only by chance
            from pyab_experiment.experiment_evaluator import ExperimentEvaluator as _E
            try:
                ev = _E(text)
                for k in range(16):
                    e2 = {name: "unit%d" % k}
                    hh = gen.published_position(None, [name], e2)
                    w2 = "ab"[list(gen.spec_indices(["1", "1"], hh)[1])[0]]
                    if ev(**e2) != w2:
                        ok = False
                        out = {"g": {"s": "differs from the published scheme on unit%d" % k}}
                        break
            except Exception as ex:  # noqa
                ok = False
                out = {"e": common.classify_exc(ex)}
        ctx.count("k1:" + ("ok" if ok else "fails"))
        if not ok:
            ctx.violation(f"identifier {name!r} as {role} name: {out}", {"text": text, "env": common.enc_env(env), "impl": out},
                          key=f"K1:{role}:{name}")


def run(ctx):
    n = N[ctx.tier]
    if ctx.obligation_breaks or ctx.tie_breaks:
        n *= 3
    ctx.extra["rule"] = ("sentences of the reference grammar from the typed generator (nesting up to 12, chains up to 60, "
                         "64 groups in the big slice), identifier pool with keyword-prefixed / underscore / upper-case / "
                         "single-letter names, fields shared between splitters and conditions, identifiers and tuples "
                         "inside tuples; type-compatible inputs derived from the literals; distinct = distinct source text; "
                         "non-trivial = compiled")
    corpus = corpus_cases(ctx) + tricky_cases(ctx) + tower_cases(ctx) + ws_class_cases(ctx)
    ctx.count("corpus-programs", len(corpus))
    records = progcases.run_cases(ctx, corpus + make_cases(ctx, n, big=True))
    canon_tie(ctx, records)
    # dimension sweeps: (nearly) every size along every dimension, all of them in the thorough tier, a seeded third in the quick tier
    progcases.run_cases(ctx, gen.sweep_cases(ctx.rng, 1.0 if ctx.tier == "thorough" else 0.34))
    progcases.run_cases(ctx, gen.huge_flat_cases(ctx.rng, ctx.tier == "thorough"), check_model=False, want_stages=False)
    progcases.run_cases(ctx, gen.two_word_token_cases(), want_stages=False)
    progcases.run_cases(ctx, gen.negated_comparison_cases(), check_model=False, want_stages=False)
    # the same statement several times in one program, at different depths
    progcases.run_cases(ctx, gen.repeated_leaf_programs(ctx.rng, None if ctx.tier == 'thorough' else [1, 3, 20, 21, 24, 33, 65]), want_stages=False)
    progcases.run_cases(ctx, gen.membership_cases(ctx.rng, 60 if ctx.tier == 'quick' else 1500), check_model=False, want_stages=False)
    run_k1(ctx)


def search(ctx):
    progcases.run_cases(ctx, tower_cases(ctx) + make_cases(ctx, 2000, big=True), check_model=False, want_stages=False)
