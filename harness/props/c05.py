"""C05 — literals reach run time with their exact value and type."""
import json
import math

import common
import gen
import progcases

TWINS = ['pred', 'label']      # harness/twins.py: which part of a twin text carries the difference

N = {"quick": 500, "thorough": 12000}
LEAN_MODULE = "Pyab.Properties.C05_full"


def rand_literal(rng):
    r = rng.random()
    if r < 0.45:
        k = rng.random()
        s = rng.choice(gen.STR_SPECIALS) if k < 0.5 else gen.long_string(rng) if k < 0.56 else gen.rand_string(rng, 10)
        return gen.lit_str(s, rng)
    if r < 0.7:
        k = rng.random()
        if k < 0.4:
            return gen.rand_int_lit(rng)
        if k < 0.7:
            return gen.lit_int(rng.choice([2 ** 53 - 1, 2 ** 53, 2 ** 53 + 1, 9007199254740993, -9007199254740993, 10 ** 30 + 1, 2 ** 200 + 1, 0]))
        n = rng.randrange(10 ** rng.randint(1, 100))
        return gen.lit_int(n if rng.random() < 0.7 else -n)
    t = rng.choice([gen.rand_float_text(rng), "0.0", "-0.0", "007.50", "0.1", "0.30000000000000004", "1.7976931348623157",
                    "179769313486231570000000000000000000000.0", "0.000000000000000000000000000001", "9007199254740993.0",
                    "4.35", "2.675", "1.0000000000000002", "123456789012345678.123456789"])
    return gen.lit_float(t)


def confusables(lit):
    """values equal to and minimally different from the literal, incl. other-typed look-alikes"""
    v = lit.value
    out = list(gen.neighbours(lit, None) if lit.kind != "str" else [v, v + "x", v[:-1] if v else "a", v.upper(), "", " " + v])
    if lit.kind == "str":
        for conv in (int, float):
            try:
                out.append(conv(v))
            except (ValueError, OverflowError):
                pass
        out.append(v.encode("unicode_escape").decode("ascii"))     # the escaped spelling is a different string
        try:
            out.append(v.encode("latin-1", "ignore").decode("unicode_escape", "ignore"))
        except Exception:  # noqa
            pass
    else:
        out += [str(v), lit.text, repr(v)]
        if isinstance(v, int) and abs(v) < 2 ** 1000:
            out += [float(v), v + 1, v - 1]
        if isinstance(v, float) and v == int(v) and abs(v) < 2 ** 70:
            out.append(int(v))
    return out


def make_cases(ctx, n):
    rng = ctx.rng
    cases = []
    for _ in range(n):
        lit = rand_literal(rng)
        form = rng.choice(["group", "eq", "ne", "lt", "in", "nested", "salt", "left"])
        uid = rng.choice(["u1", 7, "josé"])
        if form == "group":
            other = rand_literal(rng)
            prog = gen.Program("e", None, ["u"], ("ret", [(lit, "1"), (other, "0")]), {"u": "any"})
            envs = [{"u": uid}]
        elif form == "salt" and lit.kind == "str":
            prog = gen.Program("e", lit, ["u"], ("ret", [(gen.lit_str("a", quote='"'), "1"), (gen.lit_str("b", quote='"'), "1"),
                                                        (gen.lit_str("c", quote='"'), "2")]), {"u": "any"})
            envs = [{"u": rng.randrange(10 ** 6)} for _ in range(4)]
        else:
            op = {"eq": "==", "ne": "!=", "lt": "<", "in": "in", "nested": "in", "left": "=="}.get(form, "==")
            if form == "in":
                rhs = ("tuple", [("lit", lit), ("lit", rand_literal(rng))][: rng.randint(1, 2)])
                pred = ("cmp", ("id", "x"), op, rhs)
            elif form == "nested":
                rhs = ("tuple", [("tuple", [("lit", lit), ("lit", gen.lit_int(1))]), ("tuple", [("lit", gen.lit_int(2))])])
                pred = ("cmp", ("id", "x"), op, rhs)
            elif form == "left":
                pred = ("cmp", ("lit", lit), op, ("id", "x"))
            else:
                pred = ("cmp", ("id", "x"), op, ("lit", lit))
            cond = ("if", pred, ("ret", [(gen.lit_str("T", quote='"'), "1")]), ("else", ("ret", [(gen.lit_str("F", quote='"'), "1")])))
            prog = gen.Program("e", None, ["u"], cond, {"u": "any", "x": "any"})
            vals = confusables(lit)
            if form == "nested":
                vals = [(lit.value, 1), (2,), (lit.value, 2), (lit.value,), lit.value]
            if form == "lt":
                vals = [v for v in vals if isinstance(v, type(lit.value)) or (isinstance(v, (int, float)) and isinstance(lit.value, (int, float)))]
                vals = [v for v in vals if not isinstance(v, bool)]
            rng.shuffle(vals)
            envs = [{"u": uid, "x": v} for v in vals[:7]]
        text = gen.render(prog, rng, rng.choice(["plain", "tight"]))
        cases.append({"prog": prog, "text": text, "envs": envs, "form": form})
    return cases


UNICODE_FORMS = ["cafe\u0301", "caf\u00e9", "\u212b", "\u00c5", "A\u030a", "\u1e9b\u0323", "\u1100\u1161", "\uac00", "\ufb01n", "\u2126", "\u03a9",
                 "\u00df", "SS", "\u0130", "i\u0307", "\u01c5", "\uff21", "x\u200d", "\u0958", "\u0915\u093c"]


def corpus_cases(ctx):
    """deterministic slice: canonically / compatibly equivalent spellings and other-typed twins in every literal position"""
    import unicodedata
    rng = ctx.rng
    cases = []
    ab = [(gen.lit_str("a", quote='"'), "1"), (gen.lit_str("b", quote='"'), "1"), (gen.lit_str("c", quote='"'), "2")]
    tf = lambda pred: ("if", pred, ("ret", [(gen.lit_str("T", quote='"'), "1")]), ("else", ("ret", [(gen.lit_str("F", quote='"'), "1")])))
    for sform in UNICODE_FORMS:
        lit = gen.lit_str(sform, quote='"')
        alts = list({sform, unicodedata.normalize("NFC", sform), unicodedata.normalize("NFD", sform), unicodedata.normalize("NFKC", sform),
                     sform.casefold(), sform.lower(), sform.upper()})
        cases.append({"prog": gen.Program("e", lit, ["u"], ("ret", ab), {"u": "any"}), "envs": [{"u": "unit%d" % k} for k in range(8)], "form": "salt"})
        cases.append({"prog": gen.Program("e", None, ["u"], ("ret", ab), {"u": "any"}), "envs": [{"u": a} for a in alts], "form": "unit"})
        cases.append({"prog": gen.Program("e", None, ["u"], tf(("cmp", ("id", "x"), "==", ("lit", lit))), {"u": "any", "x": "any"}),
                      "envs": [{"u": 1, "x": a} for a in alts], "form": "eq"})
        cases.append({"prog": gen.Program("e", None, ["u"], ("ret", [(lit, "1")]), {"u": "any"}), "envs": [{"u": 1}], "form": "group"})
    # other-typed twins inside ONE membership tuple, both orders
    for a, b in [(gen.lit_str("7", quote='"'), gen.lit_int(7)), (gen.lit_float("1.5"), gen.lit_str("1.5", quote='"')), (gen.lit_int(1), gen.lit_float("1.0")),
                 (gen.lit_str("0", quote='"'), gen.lit_int(0)), (gen.lit_int(0), gen.lit_float("-0.0")), (gen.lit_str("x", quote='"'), gen.lit_str("x", quote="'")),
                 (gen.lit_int(2 ** 53), gen.lit_float("9007199254740992.0")), (gen.lit_str("(1, 2)", quote='"'), gen.lit_int(3))] + gen.hash_twin_pairs():
        for x, y in ((a, b), (b, a)):
            for op in ("in", "not in"):
                extra = [("lit", gen.lit_str("zz", quote='"'))] if rng.random() < 0.5 else []
                pred = ("cmp", ("id", "x"), op, ("tuple", [("lit", x), ("lit", y)] + extra))
                vals = [x.value, y.value, str(x.value), str(y.value), "zz", 8, (1, 2)]
                cases.append({"prog": gen.Program("e", None, ["u"], tf(pred), {"u": "any", "x": "any"}), "envs": [{"u": 1, "x": v} for v in vals], "form": "twin-tuple"})
    # values of equal hash as the groups of one return statement and as the literals of one else-if chain
    for a, b in gen.hash_twin_pairs():
        cases.append({"prog": gen.Program("e", None, ["u"], ("ret", [(a, "1"), (b, "1"), (a, "2")]), {"u": "any"}), "envs": [{"u": "unit%d" % k} for k in range(12)], "form": "hash-twin-groups"})
        one = lambda t: ("ret", [(gen.lit_str(t, quote='"'), "1")])
        chain = ("if", ("cmp", ("id", "x"), "==", ("lit", a)), one("A"), ("elif", ("cmp", ("id", "x"), "==", ("lit", b)), one("B"), ("else", one("N"))))
        cases.append({"prog": gen.Program("e", None, ["u"], chain, {"u": "any", "x": "any"}), "envs": [{"u": 1, "x": v} for v in (a.value, b.value, str(a.value), 0)], "form": "hash-twin-chain"})
    for c in cases:
        c["text"] = gen.render(c["prog"], rng, "plain")
    return cases


def k2_probes(ctx):
    """finding family K2: numeric literals beyond what the generated text can carry"""
    from pyab_experiment.experiment_evaluator import ExperimentEvaluator
    probes = [("decimal-overflows-binary64", 'def e { splitters: u if x < %s.0 { return "a" weighted 1 } else { return "b" weighted 1 } }' % ("9" * 400), {"u": 1, "x": 1.0}),
              ("weight-overflows-binary64", 'def e { splitters: u return "a" weighted %s.0, "b" weighted 1 }' % ("9" * 400), {"u": 1}),
              ("int-literal-over-4300-digits", 'def e { splitters: u if x < %s { return "a" weighted 1 } else { return "b" weighted 1 } }' % ("9" * 4400), {"u": 1, "x": 1})]
    for name, text, env in probes:
        out = common.outcome_of(lambda: ExperimentEvaluator(text)(**env))
        ok = out == {"g": {"s": "a"}}
        ctx.count("k2:" + ("ok" if ok else "fails"))
        if not ok:
            ctx.violation(f"{name}: {out}", {"text": text[:80] + "…", "env": common.enc_env(env), "impl": out}, key="K2:" + name)


def literal_twins(ctx, n):
    """a literal that differs only in white space is a different literal — also when it arrives through recompile()"""
    from pyab_experiment.experiment_evaluator import ExperimentEvaluator
    rng = ctx.rng
    for _ in range(n):
        a = rng.choice(["New York", "a b", "x  y", " lead", "trail ", "tab\there", "two  spaces  twice", "a b c"])
        b = rng.choice([a.replace(" ", "  ", 1), a.replace(" ", "\t", 1), a + " ", " " + a, a.replace("  ", " ")])
        if a == b:
            continue
        form = rng.choice(["group", "operand", "tuple", "salt"])
        def text(s):
            if form == "group":
                return 'def e { splitters: u return "%s" weighted 1 }' % s
            if form == "operand":
                return 'def e { splitters: u if x == "%s" { return "T" weighted 1 } else { return "F" weighted 1 } }' % s
            if form == "tuple":
                return 'def e { splitters: u if x in ("%s", "zz") { return "T" weighted 1 } else { return "F" weighted 1 } }' % s
            return 'def e { salt: "%s" splitters: u return "p" weighted 1, "q" weighted 1, "r" weighted 1, "s" weighted 1 }' % s
        ev = ExperimentEvaluator(text(a))
        ev.recompile(text(b))
        for u in ("u1", "u2", "u3", 4, 5):
            env = {"u": u, "x": b}
            got = common.outcome_of(lambda: ev(**env))
            want = common.outcome_of(lambda: ExperimentEvaluator(text(b))(**env))
            ctx.case(("twin", form, a, b, str(u)), True)
            ctx.count("literal-twin:" + form)
            if got != want:
                ctx.violation(f"literal {b!r} (differs from {a!r} only in white space) does not reach run time after recompile: "
                              f"got {json.dumps(got)[:60]}, a fresh evaluator gives {json.dumps(want)[:60]} ({form})",
                              {"first": text(a), "then": text(b), "env": common.enc_env(env), "got": got, "want": want})
                break


def long_decimals(ctx):
    """decimal literals on / just above / just below the midpoint of two adjacent doubles, up to 6000 digits long (gen.long_decimal_literals): returned and compared as the
    nearest double of their exact value"""
    import math
    import struct
    from pyab_experiment.experiment_evaluator import ExperimentEvaluator
    bits = lambda v: struct.unpack("<Q", struct.pack("<d", v))[0]
    for text, want, what in gen.long_decimal_literals():
        src = 'def e { splitters: u if x >= %s { return %s weighted 1 } else { return "lt" weighted 1 } }' % (text, text)
        ctx.case(("long-decimal", text[:40], len(text), what), True)
        ctx.count("long-decimals")
        try:
            ev, _ = common.quiet(lambda: ExperimentEvaluator(src))
            got = ev(u=1, x=want)
            below = ev(u=1, x=math.nextafter(want, -math.inf))
        except Exception as ex:  # noqa
            ctx.violation(f"an experiment with a decimal literal of {len(text)} characters ({what}: {text[:24]}…{text[-6:]}) does not compile / evaluate ({common.classify_exc(ex)})",
                          {"text_head": src[:120], "literal_length": len(text), "literal_head": text[:60], "literal_tail": text[-30:], "what": what})
            return
        if type(got) is not float or bits(got) != bits(want) or below != "lt":
            ctx.violation(f"the decimal literal {text[:24]}…{text[-6:]} ({len(text)} characters, {what}) denotes {want!r}; it is returned as {got!r} and `x >= literal` with x one double "
                          f"below {want!r} selects {below!r}", {"literal": text if len(text) < 1500 else text[:700] + "…" + text[-700:], "literal_length": len(text), "what": what,
                                                              "expected": repr(want), "returned": repr(got), "below": repr(below)})
            return


def run(ctx):
    n = N[ctx.tier]
    if ctx.obligation_breaks or ctx.tie_breaks:
        n *= 3
    ctx.extra["rule"] = ("one literal per program in every position a literal can occupy (group definition, predicate operand left/right, "
                         "tuple member, nested tuple member, salt) x contents from an adversarial alphabet (other quote, backslashes, digits "
                         "only, inf, nan, 1e5, 0x10, non-ASCII, combining marks, empty, 2^53+-1, 100-digit ints, 17+-digit decimals, -0.0) x "
                         "inputs equal to and minimally different from the literal incl. other-typed look-alikes; compares value AND type")
    progcases.run_cases(ctx, corpus_cases(ctx) + make_cases(ctx, n))
    literal_twins(ctx, max(20, n // 20))
    progcases.run_cases(ctx, gen.membership_cases(ctx.rng, 60 if ctx.tier == 'quick' else 1500), check_model=False, want_stages=False)
    k2_probes(ctx)
    long_decimals(ctx)
    progcases.run_cases(ctx, gen.type_twin_return_programs(), check_model=False, want_stages=False)


def search(ctx):
    progcases.run_cases(ctx, corpus_cases(ctx) + make_cases(ctx, 3000), check_model=False, want_stages=False)
