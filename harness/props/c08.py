"""C08 — comments and whitespace never change meaning."""
import json

import common
import gen
import progcases

TWINS = ['trivia']      # harness/twins.py: which part of a twin text carries the difference

N = {"quick": 250, "thorough": 6000}


def variants(ctx, prog, k):
    rng = ctx.rng
    toks = gen.program_tokens(prog)          # one fixed token sequence (canonical `else if` / `not in` spelling)
    base = gen.join_tokens(toks)
    texts = [base, gen.join_tokens(toks, lambda i, a, b, must: " " if must else "")]
    for _ in range(k):
        texts.append(gen.join_tokens(toks, gen.trivia_sep(rng)))
    return toks, texts


def huge_trivia(ctx):
    """single pieces of trivia of 70 KB .. 1.2 MB (one `//` comment, one block comment, one run of blanks, one run of line breaks)
    whose END decides what the following text means: the rest of the comment's line belongs to the comment however long the comment is"""
    from pyab_experiment.utils.wraper_functions import parse_source
    rng = ctx.rng
    base_text = 'def e { splitters: u return "a" weighted 1 }'
    base = common.canon_ast(common.quiet(lambda: parse_source(base_text))[0])
    sizes = [65535, 65536, 70000, 131072, 249990, 250000, 250010, 262144, 300000] + ([524288, 1000000, 1200000] if ctx.tier == "thorough" else [])
    for n in sizes:
        pad = rng.choice([" ", "x", "é", "*", "/", "-"]) * n
        variants = [
            ("line-comment", 'def e { splitters: u return "a" weighted 1 //' + pad + ', "b" weighted 1\n}'),
            ("block-comment", 'def e { splitters: u return "a" weighted 1 /*' + pad.replace("*/", "* ") + ' , "b" weighted 1 */ }'),
            ("block-comment-lines", 'def e { splitters: u return "a" weighted 1 /*' + ("\n" * n) + '*/ }'),
            ("blanks", 'def e { splitters: u return "a"' + " " * n + 'weighted 1 }'),
            ("line-breaks", 'def e { splitters: u' + "\n" * n + 'return "a" weighted 1 }'),
        ]
        if n in (65536, 70000, 131072, 250000):
            # MANY pieces of trivia (thousands of comment lines / of lines inside one block comment) right after a token that carries a value
            lines = {65536: 2100, 70000: 4100, 131072: 5000, 250000: 9000}[n]
            many = rng.choice(["// c%d\n", "//\n", "// x\n\n"])
            run = "".join((many % i) if "%d" in many else many for i in range(lines))
            block = "/*" + "".join("l%d\n" % i for i in range(lines)) + "*/"
            variants += [
                ("many-comment-lines-after-identifier", 'def e { splitters: u\n' + run + ' return "a" weighted 1 }'),
                ("many-comment-lines-after-string", 'def e { splitters: u return "a"\n' + run + ' weighted 1 }'),
                ("many-comment-lines-after-number", 'def e { splitters: u return "a" weighted 1\n' + run + ' }'),
                ("many-block-lines-after-identifier", 'def e { splitters: u ' + block + ' return "a" weighted 1 }'),
                ("many-block-lines-after-string", 'def e { splitters: u return "a" ' + block + ' weighted 1 }'),
                ("many-comment-lines-after-name", 'def e\n' + run + '{ splitters: u return "a" weighted 1 }'),
            ]
        for kind, text in variants:
            try:
                a = common.canon_ast(common.quiet(lambda: parse_source(text))[0])
            except Exception as ex:  # noqa
                a = {"e": common.classify_exc(ex)}
            ctx.case(("huge-trivia", kind, n), True)
            ctx.count("huge-trivia:" + kind)
            if a != base:
                ctx.violation(f"a {kind} of {n} characters changes the experiment: the text with it parses to {json.dumps(a)[:120]}, without it to {json.dumps(base)[:80]}",
                              {"kind": kind, "length": n, "text_head": text[:80], "text_tail": text[-60:], "impl": a})
                return


def exact_gaps(ctx):
    """one piece of trivia sized so that a token's start, its end, its distance from the previous token's start or its line number is EXACTLY a
    power of two (2^4 .. 2^21; 2^24 in the thorough tier): where a position packed into a bit field, a 16/20/24-bit counter or a buffer of such a size
    changes what the parser sees.  Every junction of the base text for the small sizes, the junctions after each kind of token for the large ones."""
    from pyab_experiment.utils.wraper_functions import parse_source
    toks = ["def", "e", "{", "salt", ":", '"s"', "splitters", ":", "u", ",", "v", "if", "not", "not", "x", "==", "1", "and", "y", "not in", "(", "2", ",", '"a"', ")",
            "{", "return", '"a"', "weighted", "1", ",", "-", "2.5", "weighted", "3", "}", "else if", "x", "<", "1.5", "{", "return", "7", "weighted", "1", "}", "}"]
    base_text = gen.join_tokens(toks)
    base = common.canon_ast(common.quiet(lambda: parse_source(base_text))[0])
    kmax = 24 if ctx.tier == "thorough" else 21
    key_junctions = [i for i in range(1, len(toks)) if toks[i - 1] in ("not", '"s"', "u", "1", "==", "not in", "weighted", "-", "}", "return", "{", ",")][:14]

    def gap(kind, g):
        if g < 1:
            return None
        if kind == "blanks":
            return " " * g
        if kind == "tabs":
            return "\t" * g
        if kind == "newlines":
            return "\n" * g
        if kind == "block":
            return "/*" + "x" * (g - 4) + "*/" if g >= 4 else None
        if kind == "block-lines":
            return "/*" + "\n" * (g - 4) + "*/" if g >= 4 else None
        if kind == "line":
            return "//" + "y" * (g - 3) + "\n" if g >= 3 else None
        return None

    for k in range(4, kmax + 1):
        size = 1 << k
        junctions = range(1, len(toks)) if k <= 12 else key_junctions
        for j in junctions:
            head = gen.join_tokens(toks[:j]).rstrip(" ")
            tail = gen.join_tokens(toks[j:]).lstrip(" ")
            prev_start = len(head) - len(toks[j - 1])
            for align, g in (("distance-of-starts", size - len(toks[j - 1])), ("start", size - len(head)), ("end", size - len(head) - len(toks[j])),
                             ("line-number", size - 1), ("length", size)):
                kinds = ("newlines", "block-lines") if align == "line-number" else ("blanks", "block", "line", "tabs") if k <= 16 else ("blanks", "block")
                if align == "line-number" and k > 20:
                    continue
                for kind in kinds:
                    t = gap(kind, g)
                    if t is None:
                        continue
                    text = head + t + tail
                    try:
                        a = common.canon_ast(common.quiet(lambda: parse_source(text))[0])
                    except Exception as ex:  # noqa
                        a = {"e": common.classify_exc(ex)}
                    ctx.count("exact-gap:" + align)
                    if a != base:
                        ctx.case(("exact-gap", kind, align, k, j), True)
                        ctx.violation(f"{g} characters of trivia ({kind}) between {toks[j - 1]!r} and {toks[j]!r}, placed so that the {align} of {toks[j]!r} is 2^{k}, change the "
                                      f"experiment: it parses to {json.dumps(a)[:160]}",
                                      {"kind": kind, "align": align, "power": k, "junction": j, "before": toks[j - 1], "after": toks[j], "gap_length": g,
                                       "rebuild": "head + gap + tail of the base text", "base_text": base_text, "impl": a})
                        return
        ctx.case(("exact-gap", k), True)


def one_ws_class(ctx):
    """the same token sequence written with one kind of white space throughout (gen.ws_class_texts): all spellings that the grammar's
    recogniser accepts parse, and to the same tree"""
    import recogniser
    from pyab_experiment.utils.wraper_functions import parse_source
    by_string = {}
    for sep, s, t in gen.ws_class_texts():
        if not recogniser.accepts(t):
            continue
        try:
            a = common.canon_ast(common.quiet(lambda: parse_source(t))[0])
        except Exception as ex:  # noqa
            a = {"e": common.classify_exc(ex)}
        ctx.case(("ws-class", sep, s, len(t)), True)
        ctx.count("ws-class")
        first = by_string.setdefault(s, (a, t))
        if a != first[0]:
            ctx.violation(f"the kind of white space between the tokens changes the experiment: {t[:120]!r} parses to {json.dumps(a)[:120]}, {first[1][:120]!r} to {json.dumps(first[0])[:120]}",
                          {"text": t, "other_text": first[1], "impl": a, "other": first[0]})
            return


def eof_trivia(ctx):
    """what a text may END with: runs of 1..6 `//` comment lines (starting in column 0, indented, empty) with and without a final line break, a block comment, blanks,
    CR / CRLF, and the same at the very START of the text"""
    from pyab_experiment.utils.wraper_functions import parse_source
    base_text = 'def e { splitters: u return "a" weighted 1, "b" weighted 2 }'
    base = common.canon_ast(common.quiet(lambda: parse_source(base_text))[0])
    tails = []
    for k in range(1, 7):
        for indent in ("", " ", "\t", "  "):
            for body in ("// c", "//", "// x // y", "//*", "// }"):
                run = "\n".join(indent + body for _ in range(k))
                for lead in ("\n", " ", "\n\n", "\r\n"):
                    for end in ("", "\n", "\r\n", " ", "\n\n"):
                        tails.append(lead + run + end)
    tails += ["/* c */", " /* c */", "\n/* a\nb */", "/**/", "/* c */\n// d", "// d\n/* c */", "\r", "\r\n", "\t", "\x0c", " \n ", "\n" * 50, "//", "//\n//", "\n//\n//\n//"]
    for t in tails:
        for text, where in ((base_text + t, "end"), (t.lstrip() + ("\n" if "//" in t and not t.endswith("\n") else " ") + base_text, "start")):
            try:
                a = common.canon_ast(common.quiet(lambda: parse_source(text))[0])
            except Exception as ex:  # noqa
                a = {"e": common.classify_exc(ex)}
            ctx.count("eof-trivia:" + where)
            if a != base:
                ctx.case(("eof-trivia", where, t), True)
                ctx.violation(f"trivia at the {where} of the text changes the experiment: {text[-80:] if where == 'end' else text[:80]!r} parses to {json.dumps(a)[:120]}",
                              {"text": text, "where": where, "trivia": t, "impl": a})
                return
    ctx.case(("eof-trivia", len(tails)), True)


def run_batch(ctx, n, with_model=True):
    from pyab_experiment.utils.wraper_functions import parse_source
    from pyab_experiment.experiment_evaluator import ExperimentEvaluator
    rng = ctx.rng
    # corpus: two block comments on one line; comment markers inside strings; comment at the very end without newline
    corpus = [
        'def e { splitters: u return "A" weighted 1 /* x */ , "B" weighted 1 /* y */ }',
        'def e { splitters: u return "//A" weighted 1, "/*" weighted 1, "*/" weighted 2 } // end',
        'def e { /* a */ /* b */ splitters /* c */ : /**/ u /***/ return "A" weighted 1 /* * / */ }',
        "def e { splitters: u // c1\n// c2 /* not a block\nreturn 'A' weighted 1 /* multi\nline \" quote\n*/ }",
    ]
    all_cases = []
    for _ in range(n):
        prog = gen.gen_program(rng, gen.GenOpts(max_depth=rng.choice([0, 1, 2]), max_nodes=10, ident_pool=gen.PLAIN_IDENTS + ["index", "not_active", "order_id"]))
        toks, texts = variants(ctx, prog, 4)
        envs = [gen.gen_env(prog, rng) for _ in range(3)]
        all_cases.append((prog, toks, texts, envs))
    # model: every variant, stage-wise (tokens / AST must equal across variants AND equal the real ones)
    flat = [{"prog": p, "text": t, "envs": envs} for p, toks, texts, envs in all_cases for t in texts]
    for c in flat:
        if rng.random() < 0.1:
            c["prelude"] = rng.choice(['def e { /* todo return "a" weighted 1 }', 'def e { return "a" weighted 1 } /* notes', '/*'])
    progcases.run_cases(ctx, flat, check_spec=True, check_model=with_model)
    for prog, toks, texts, envs in all_cases:
        asts, outs = [], []
        for t in texts:
            try:
                a, _ = common.quiet(lambda: parse_source(t))
                asts.append(common.canon_ast(a) if a is not None else None)
            except Exception as ex:  # noqa
                asts.append({"e": common.classify_exc(ex)})
            try:
                ev, _ = common.quiet(lambda: ExperimentEvaluator(t))
                outs.append([common.outcome_of(lambda: ev(**e)) for e in envs if prog.splitters])
            except Exception as ex:  # noqa
                outs.append({"e": common.classify_exc(ex)})
        ctx.count("variant-groups")
        for i in range(1, len(texts)):
            if asts[i] != asts[0] or outs[i] != outs[0]:
                ctx.violation(f"trivia changes meaning: variant {i} of the same token sequence gives a different "
                              f"{'AST' if asts[i] != asts[0] else 'result'}: {texts[i][:200]!r} vs {texts[0][:120]!r}",
                              {"tokens": toks, "base": texts[0], "variant": texts[i], "ast_base": asts[0], "ast_variant": asts[i]})
                break
    for t in corpus:
        a = recognise_ast(t)
        try:
            b, _ = common.quiet(lambda: parse_source(t))
            got = common.canon_ast(b)
        except Exception as ex:  # noqa
            got = {"e": common.classify_exc(ex)}
        ctx.case(("corpus", t), True)
        if a is not None and (not isinstance(got, dict) or "e" in got or groups_of(got) != a):
            ctx.violation(f"comment handling loses or alters tokens: {t!r} parses to {json.dumps(got)[:200]}",
                          {"text": t, "impl_ast": got, "expected_groups": a})


def recognise_ast(text):
    import recogniser
    try:
        r = recogniser.recognise(text)
    except recogniser.Reject:
        return None
    c = r["cond"]
    return [g[0][1] for g in c[1]] if c[0] == "ret" else None


def groups_of(ast):
    c = ast.get("cond", {})
    if "ret" in c:
        return [g["g"].get("s") for g in c["ret"]]
    return None


def run(ctx):
    n = N[ctx.tier]
    if ctx.obligation_breaks or ctx.tie_breaks:
        n *= 3
    ctx.extra["rule"] = ("for each generated program: the plain rendering, the tightest rendering and 4 random trivia-variants of ONE token "
                         "sequence (0..3 trivia items per gap: Unicode white space, // comments, /* */ comments, several per line, spanning "
                         "lines, bodies with quotes / keywords / // / * / braces); AST equality and evaluator results across variants; plus "
                         "a corpus of minimal past failures")
    ctx.notes.append("token boundaries are those of the documented token table: `else if` and `not in` are single tokens, so trivia inside them is not between tokens")
    run_batch(ctx, n)
    huge_trivia(ctx)
    exact_gaps(ctx)
    one_ws_class(ctx)
    eof_trivia(ctx)


def search(ctx):
    huge_trivia(ctx)
    run_batch(ctx, 1500, with_model=False)
