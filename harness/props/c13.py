"""C13 — source text is inert data: literals cannot inject code."""
import ast
import builtins
import copy
import json

import common
import gen
import pyreadlib

TWINS = ['label', 'pred']      # harness/twins.py: which part of a twin text carries the difference

N = {"quick": 150, "thorough": 4000}
LEAN_MODULE = "Pyab.Properties.C13_full"

PAYLOADS = [
    "a\u201d or x == \u201cb", "\u201d+str(PWNED())+\u201c", "\u2019+str(PWNED())+\u2018", "\uff02+PWNED()+\uff02", "x\ufeff", "\ufeff'+PWNED()+'", "\U0001d400\U0001f600",
    "'+str(PWNED())+'", '"+str(PWNED())+"', "\\'+str(PWNED())+\\'", "'))+str(PWNED())+str(('", "' or PWNED() or '", "')==PWNED() or ('",
    "\\", "\\\\", "\\'", "'", '"', "'''", '"""', "\\n", "\\x27+PWNED()+\\x27", "\\u0027+PWNED()+\\u0027", "\\N{APOSTROPHE}+PWNED()+\\N{APOSTROPHE}",
    "%s" , "%(x)s", "{0}", "{PWNED()}", "{{", "}}", "${PWNED()}", "`PWNED()`", "__import__('os').system('true')", "\t", "\r", "\x00", "\x1b[0m",
    "a' if PWNED() else 'b", '\\"', '\\" or PWNED()) #', 'x\\"+str(PWNED())+"', '\\\\"+str(PWNED())+"', "{PWNED()}{", "}{PWNED()}", "s1\rPWNED() #", "s1\rimport os #", 'A" weighted 1, "B', 'x" or c != "', "x' or c != '", "a'b", "#", "' #", "';PWNED();'", "\\\n", "𝔘nicode", " ", "\u0085", "' \\", "\\' \\\"", ")", "(", "[", "]", ",",
]


def reflect_plans(rng):
    """a string literal whose text is the printed form of ANOTHER term of the same program (the str()/repr() of a tuple,
    of an identifier node, of a number, of another string): a renderer that caches or looks terms up by their printed form
    confuses the two.  Base program: the same program with a harmless string in that place."""
    L = gen.lit_str
    shapes = [
        [("lit", L("FR", quote='"')), ("lit", L("DE", quote='"'))], [("lit", gen.lit_int(1)), ("lit", gen.lit_int(2))],
        [("lit", gen.lit_float("1.5")), ("lit", L("x", quote='"'))], [("tuple", [("lit", gen.lit_int(1)), ("lit", gen.lit_int(2))]), ("tuple", [("lit", gen.lit_int(3))])],
        [("id", "home"), ("lit", L("DE", quote='"'))], [("lit", L("it's", quote='"'))], [("lit", gen.lit_int(7))], [("id", "home")],
    ]

    def pyval(t):
        if t[0] == "lit":
            return t[1].value
        if t[0] == "tuple":
            return tuple(pyval(x) for x in t[1])
        return _Ident(t[1])

    class _Ident:
        def __init__(self, n):
            self.n = n

        def __repr__(self):
            return "Identifier(name=%r)" % self.n

    plans = []
    # several literals on ONE line whose contents, read together by a scanner with other rules than the lexer's (escapes, nested quotes,
    # comment markers), would pair up across the literals: a trailing backslash or quote in one, comment openers / closers in the next ones
    for first in ("a\\", "a\\\\", "a'", "it's\\", "\\"):
        for second, fourth in (("b/*", "*/d"), ("b//", "c"), ("/*", "*/"), ("#", "x"), ("b/*", "d"), ("'", "'"), ("\\", "/*")):
            def build3(vals):
                lits = [gen.lit_str(v, rng) for v in vals]
                cond = ("if", ("cmp", ("id", "note"), "in", ("tuple", [("lit", l) for l in lits])), ("ret", [(lits[0], "1"), (lits[-1], "1")]), ("else", ("ret", [(L("o", quote='"'), "1")])))
                return gen.Program("e", None, ["u"], cond, {"u": "any", "note": "any"})
            plans.append([build3(["zz", "zz", "zz", "zz"]), build3([first, second, "c", fourth])])
    # literals that spell a word of the library's own source as a placeholder ({word}, %(word)s, $word, {{word}}): whatever templating the library
    # uses internally, a literal that happens to contain one of ITS placeholders is still data
    words = gen.source_words()
    for w in words:
        for text in ("{%s}" % w, "X{%s}#" % w, "%%(%s)s" % w, "${%s}" % w):
            if '"' in text and "'" in text:
                continue
            def buildw(sval):
                lit = gen.lit_str(sval, rng)
                r = lambda n: ("ret", [(L(n, quote='"'), "1")])
                cond = ("if", ("cmp", ("id", "note"), "==", ("lit", lit)), ("ret", [(lit, "1"), (L("+str(PWNED()))#", quote='"'), "1")]), ("else", r("o")))
                return gen.Program("e", lit, ["u"], cond, {"u": "any", "note": "any"})
            braces = text.startswith("{") or text.startswith("X{")
            if (braces and "_" in w and w.replace("_", "").isalnum()) or rng.random() < (0.1 if braces else 0.03):
                plans.append([buildw("zz"), buildw(text)])
    # literals that spell a piece of the generated text itself, alone and with a call appended
    for frag in gen.generated_fragments():
        for text in (frag, frag + "PWNED()", frag + "\rPWNED() #", "x" + frag + "y = PWNED()"):
            def build2(sval, text=text):
                lit = gen.lit_str(sval, rng)
                r = lambda n: ("ret", [(L(n, quote='"'), "1")])
                cond = ("if", ("cmp", ("id", "note"), "==", ("lit", lit)), ("ret", [(lit, "1"), (L("b", quote='"'), "1")]), ("else", r("o")))
                return gen.Program("e", lit if rng.random() < 0.5 else None, ["u"], cond, {"u": "any", "note": "any"})
            if '"' in text and "'" in text:
                continue
            plans.append([build2("zz"), build2(text)])
    for members in shapes:
        tup = ("tuple", members)
        v = pyval(tup)
        printed = [str(v), repr(v), str(v).replace("Identifier(name='home')", "home"), str(list(v)), str(v[0]), repr(v[0]), "Identifier(name='home')",
                   "name='home'", str(v).replace(" ", "")]
        for text in dict.fromkeys(printed):
            for order in ("tuple-first", "string-first"):
                def build(sval):
                    lit = gen.lit_str(sval, rng)
                    p_t = ("cmp", ("id", "c"), "in", tup)
                    p_s = ("cmp", ("id", "note"), "==", ("lit", lit))
                    r = lambda n: ("ret", [(L(n, quote='"'), "1")])
                    first, second = (p_t, p_s) if order == "tuple-first" else (p_s, p_t)
                    cond = ("if", first, r("a"), ("elif", second, ("ret", [(lit, "1"), (L("b", quote='"'), "1")]), ("else", r("o"))))
                    return gen.Program("e", lit if rng.random() < 0.3 else None, ["u"], cond, {"u": "any", "c": "any", "note": "any", "home": "any"})
                plans.append([build("zz"), build(text)])
    return plans


PWN_TAILS = ["", "", '"+str(PWNED())+"', "'+str(PWNED())+'", '\rj"+PWNED())): #', "\\"]


class _Padded:
    """a program whose rendering is preceded by a long banner comment (everything else is delegated)"""

    def __init__(self, prog, pad):
        self._p, self._pad = prog, pad

    def __getattr__(self, name):
        return getattr(self._p, name)


def rtext(v):
    return (v._pad + gen.render(v._p)) if isinstance(v, _Padded) else gen.render(v)


class Sentinel:
    def __init__(self):
        self.calls = 0

    def __call__(self, *a, **k):
        self.calls += 1
        return "pwned"


def mask(tree):
    """ast.dump with every constant replaced by a placeholder; returns (dump, constants in order)"""
    consts = []

    class M(ast.NodeTransformer):
        def visit_Constant(self, node):
            consts.append(node.value)
            return ast.copy_location(ast.Constant(value=0), node)

    t = M().visit(copy.deepcopy(tree))
    return ast.dump(t), consts


def subst_program(prog, rng):
    """the same program with every string literal and the salt replaced by adversarial strings"""
    p = copy.deepcopy(prog)

    def new_str(old):
        r = rng.random()
        s = rng.choice(PAYLOADS) if r < 0.7 else gen.long_string(rng, PWN_TAILS) if r < 0.85 else gen.rand_string(rng, 8)
        return gen.lit_str(s, rng)

    def term(t):
        if t[0] == "lit" and t[1].kind == "str":
            return ("lit", new_str(t[1]))
        if t[0] == "tuple":
            return ("tuple", [term(x) for x in t[1]])
        return t

    def pred(q):
        if q[0] == "cmp":
            return ("cmp", term(q[1]), q[2], term(q[3]))
        if q[0] in ("and", "or"):
            return (q[0], pred(q[1]), pred(q[2]))
        return (q[0], pred(q[1]))

    def cond(c):
        if c[0] == "ret":
            return ("ret", [((new_str(l) if l.kind == "str" else l), w) for l, w in c[1]])
        return ("if", pred(c[1]), cond(c[2]), sub(c[3]))

    def sub(s):
        if s is None:
            return None
        if s[0] == "else":
            return ("else", cond(s[1]))
        return ("elif", pred(s[1]), cond(s[2]), sub(s[3]))

    p.cond = cond(p.cond)
    if p.salt is not None:
        p.salt = new_str(p.salt)
    return p


def expected_strings(prog):
    out = []

    def term(t):
        if t[0] == "lit" and t[1].kind == "str":
            out.append(t[1].value)
        elif t[0] == "tuple":
            for x in t[1]:
                term(x)

    def pred(q):
        if q[0] == "cmp":
            term(q[1]); term(q[3])
        elif q[0] in ("and", "or"):
            pred(q[1]); pred(q[2])
        else:
            pred(q[1])

    def cond(c):
        if c[0] == "ret":
            for l, _ in c[1]:
                if l.kind == "str":
                    out.append(l.value)
        else:
            pred(c[1]); cond(c[2]); sub(c[3])

    def sub(s):
        if s is None:
            return
        if s[0] == "else":
            cond(s[1])
        else:
            pred(s[1]); cond(s[2]); sub(s[3])

    cond(prog.cond)
    return out


def function_body(code):
    """the body text of choose_experiment_variant in the nested layout (lines indented by at least two tabs)"""
    lines = code.split("\n")
    try:
        i = next(k for k, l in enumerate(lines) if l.startswith("\tdef choose_experiment_variant("))
    except StopIteration:
        return None
    out = []
    for l in lines[i + 1:]:
        if l.startswith("\t\t") or l.strip("\t") == "":
            out.append(l)
        else:
            break
    return "\n".join(out)


def wide_plans():
    """return statements of 65 .. 257 groups a few of whose names are adversarial (the separator of a rendered list, quotes, brackets, a keyword argument):
    size and content together — a renderer that lays out or re-scans long lists meets the payload inside them"""
    L = lambda t: gen.lit_str(t, quote='"' if '"' not in t else "'")
    payloads = ["a', 'b", 'a", "b', "', '", "',", ", ", "'], weights=[", "[", "]", "('", "')", "\\', '", "x' # ", "', PWNED(), '", "{0}", "%s", "\\"]
    plans = []
    for n in (65, 72, 73, 100, 129, 257):
        base_names = ["g%d" % i for i in range(n)]
        variants = []
        for v in range(5):
            names = list(base_names)
            if v:
                for j, pos in enumerate((0, 1, n // 2, n - 2, n - 1)):
                    names[pos] = payloads[(v * 5 + j) % len(payloads)] + str(pos)
            variants.append(gen.Program("wide%d" % n, L("s"), ["u"], ("ret", [(L(x), "1") for x in names]), {"u": "any"}))
        plans.append(variants)
    return plans


def run_batch(ctx, n, with_model=True):
    from pyab_experiment.utils.wraper_functions import parse_source, generate_code
    from pyab_experiment.codegen.python.python_generator import PythonCodeGen
    from pyab_experiment.experiment_evaluator import ExperimentEvaluator
    rng = ctx.rng
    sentinel = Sentinel()
    builtins.PWNED = sentinel
    real_print = builtins.print
    printed = []
    builtins.print = lambda *a, **k: printed.append(a)
    reader_jobs = []
    try:
        plan = []
        for _ in range(n):
            prog = gen.gen_program(rng, gen.GenOpts(max_depth=rng.choice([0, 1, 2]), max_nodes=6, ident_pool=gen.PLAIN_IDENTS,
                                                    p_salt=0.9, tuples_with_idents=False))
            variants = [prog] + [subst_program(prog, rng) for _ in range(4)]
            plan.append(variants)
        plan += reflect_plans(rng)
        plan += wide_plans()
        # the same substitution games inside a source of more than 64 KiB (a pre-pass or buffer that only exists for big sources)
        pad = "/* " + "banner line\n" * 6000 + " */\n"
        big = []
        nplain = n
        for variants in plan[:8] + plan[nplain:nplain + 35]:
            big.append([_Padded(v, pad) for v in variants])
        plan += big
        reqs = [{"op": "run", "text": rtext(v), "envs": []} for vs in plan for v in vs]
        models = [None] * len(reqs)
        if with_model and ctx.driver_ok:
            try:
                models = common.run_driver_parallel(reqs, jobs=12)
            except Exception as ex:  # noqa
                ctx.obligation_breaks.append({"what": "model-driver-run", "detail": repr(ex)[:400]})
        mi = 0
        for variants in plan:
            skeletons = []
            for v in variants:
                text = rtext(v)
                m = models[mi]; mi += 1
                ctx.case(text, True, sample={"text": text[:300]})
                try:
                    a = parse_source(text)
                    code = PythonCodeGen(a, expose_experiment_variant_function=False).generate()
                    tree = ast.parse(code)
                except Exception as ex:  # noqa
                    ctx.violation(f"a substituted literal breaks the generated program ({common.classify_exc(ex)}): {text[:200]!r}",
                                  {"text": text, "error": common.classify_exc(ex)})
                    skeletons.append(None)
                    continue
                dump, consts = mask(tree)
                skeletons.append(dump)
                strs = [c for c in consts if isinstance(c, str)]
                want = expected_strings(v)
                salt = v.salt.value if v.salt is not None else ""
                # every source string appears as a constant of the generated module, unchanged
                missing = [s for s in want + ([salt] if v.splitters else []) if s not in strs]
                if missing:
                    ctx.violation(f"string literal does not reach the generated program as the same constant: {missing[0]!r} in {text[:160]!r}",
                                  {"text": text, "missing": missing[:3], "constants": strs[:10]})
                # black-formatted text has the same AST
                try:
                    pretty = generate_code(text, False)
                    if ast.dump(ast.parse(pretty)) != ast.dump(tree):
                        ctx.violation(f"generate_code (black) changes the program: {text[:160]!r}", {"text": text})
                except Exception as ex:  # noqa
                    ctx.violation(f"generate_code fails on a substituted literal ({common.classify_exc(ex)}): {text[:160]!r}", {"text": text})
                # official tie: the model's generated text parses to the same masked skeleton and constants
                if m is not None and isinstance(m.get("gen"), str):
                    try:
                        md, mc = mask(ast.parse(m["gen"]))
                        if md != dump or mc != consts:
                            ctx.tie_break("masked-skeleton", {"text": text, "impl_consts": [repr(c) for c in consts[:8]],
                                                              "model_consts": [repr(c) for c in mc[:8]]})
                    except SyntaxError:
                        ctx.tie_break("model-text-unparsable", {"text": text})
                    if m["gen"] != code:
                        ctx.drift("gen", {"text": text})
                # the model of Python's READER against CPython's own reading of the real generator's body text
                body = function_body(code)
                if body is not None:
                    reader_jobs.append((text, body))
                # compile and evaluate with the sentinel planted
                before = sentinel.calls, len(printed)
                try:
                    ev = ExperimentEvaluator(text)
                except Exception as ex:  # noqa
                    # the generator's text for this source parsed as Python just above: the evaluator has no reason to refuse it
                    ctx.violation(f"a substituted literal breaks the evaluator although the generated text is valid Python ({common.classify_exc(ex)}): {text[:200]!r}",
                                  {"text": text, "error": common.classify_exc(ex)})
                    ev = None
                try:
                    if ev is not None:
                        env = {f: rng.choice(["x", 1, "'", "\\"]) for f in set(v.cond_fields()) | set(v.splitters or [])}
                        common.outcome_of(lambda: ev(**env))
                except Exception:  # noqa
                    pass
                if (sentinel.calls, len(printed)) != before:
                    ctx.violation(f"evaluating the experiment invoked code planted in a literal: {text[:200]!r}", {"text": text})
            base = skeletons[0]
            for v, sk in zip(variants[1:], skeletons[1:]):
                ctx.count("substitutions")
                if sk is not None and base is not None and sk != base:
                    ctx.violation(f"substituting string literals changes the structure of the generated program: {rtext(v)[:200]!r}",
                                  {"base": rtext(variants[0]), "variant": rtext(v)})
        # reader tie (batched)
        if with_model and ctx.driver_ok and reader_jobs:
            try:
                answers = common.run_driver_parallel([{"op": "pyread", "text": b} for _, b in reader_jobs], jobs=12)
            except Exception as ex:  # noqa
                answers = []
                ctx.obligation_breaks.append({"what": "model-driver-run", "detail": repr(ex)[:400]})
            for (text, body), ans in zip(reader_jobs, answers):
                want = pyreadlib.py_lines(body)
                ctx.count("reader-tie")
                got = ans.get("lines")
                if want is None:
                    ctx.count("reader-tie:cpython-rejects-shape")
                    continue
                if got is None:
                    # floats such as inf / shapes outside the reader: the model does not vouch for this text
                    ctx.count("reader-tie:model-declines")
                    continue
                if got != want:
                    ctx.tie_break("python-reader", {"text": text, "body": body[:400], "model": json.dumps(got)[:300], "cpython": json.dumps(want)[:300]})
    finally:
        builtins.print = real_print
        del builtins.PWNED


def run(ctx):
    n = N[ctx.tier]
    if ctx.obligation_breaks or ctx.tie_breaks:
        n *= 3
    ctx.extra["rule"] = ("for each generated program, 4 substitutions of every string literal and the salt by strings over an adversarial "
                         "alphabet (quotes, backslashes, escape look-alikes, parentheses, +, braces, %, control characters, call payloads); "
                         "masked ast.dump of the real generator's output must be identical across substitutions and equal to the masked dump "
                         "of the model's text, every source string must be a constant of the module, black must not change the AST, and a "
                         "sentinel planted in builtins must never run")
    ctx.extra["table_obligations"] = 1
    run_batch(ctx, n)


def search(ctx):
    run_batch(ctx, 800, with_model=False)
