"""C06 — text outside the grammar is rejected, never silently repaired."""
import common
import gen
import mutate
import recogniser

TWINS = ['invalid']      # harness/twins.py: which part of a twin text carries the difference

N = {"quick": 2500, "thorough": 60000}


def make_cases(ctx, n):
    rng = ctx.rng
    out = []
    seen = set()
    while len(out) < n:
        prog = gen.gen_program(rng, gen.GenOpts(max_depth=rng.choice([0, 1, 2]), max_chain=2, max_pred_depth=2,
                                                ident_pool=gen.PLAIN_IDENTS, max_nodes=8))
        toks = gen.program_tokens(prog)
        for _ in range(6):
            kind, mt = mutate.mutate(toks, rng)
            if not mt:
                continue
            text = gen.join_tokens(mt) if rng.random() < 0.7 else gen.join_tokens(mt, lambda i, a, b, must: " " if must else "")
            if text in seen:
                continue
            seen.add(text)
            out.append((kind, text))
    return out[:n]


NEAR_MISSES = [
    # a complete definition followed by something that only LOOKS like a closed comment (or opens one that never closes)
    'def e { return "x" weighted 1 } /*/', 'def e { return "x" weighted 1 } /*/ def b { return "y" weighted 1 }', 'def e { return "x" weighted 1 } /*/ junk = ; @',
    'def e { return "x" weighted 1 } /*/*', 'def e { return "x" weighted 1 } /* / */ /*/', 'def e { return "x" weighted 1 } /**', 'def e { return "x" weighted 1 } /* *', 'def e { return "x" weighted 1 } /* * /',
    'def e { return "x" weighted 1 } /*\n*\n/', 'def e { return "x" weighted 1 } //*/ /*', 'def e { /*/ return "x" weighted 1 }', 'def e { return "x" /*/ weighted 1 }', '/*/ def e { return "x" weighted 1 }',
    'def e { return "x" weighted 1 } /* "*/" ', "def e { return 'x' weighted 1 } /*/ '*/",
    'def e { splitters: a, b, return "x" weighted 1 }',            # trailing comma in the field list
    'def e { splitters: a b return "x" weighted 1 }',              # missing comma
    'def e { splitters a return "x" weighted 1 }',                 # missing colon
    'def e { salt "s" return "x" weighted 1 }',
    'def e { salt: s return "x" weighted 1 }',                     # salt must be a string literal
    'def e { salt: "s" salt: "t" return "x" weighted 1 }',         # two salts
    'def e { splitters: a salt: "s" return "x" weighted 1 }',      # salt after splitters
    'def e { return "x" weighted 1, }',                            # trailing comma in the group list
    'def e { return "x" 1 }', 'def e { return "x" weighted }', 'def e { return weighted 1 }', 'def e { return "x" weighted -1 }',
    'def e { return "x" weighted 1 "y" weighted 1 }', 'def e { return x weighted 1 }', 'def e { return (1, 2) weighted 1 }',
    'def e { return "x" weighted "1" }', 'def e { return "x" weighted 1.}', 'def e { return "x" weighted .5 }', 'def e { return "x" weighted 1e3 }',
    'def e { }', 'def e { return }', 'def { return "x" weighted 1 }', 'def "e" { return "x" weighted 1 }', 'def 1e { return "x" weighted 1 }',
    'e { return "x" weighted 1 }', 'def e return "x" weighted 1', 'def e { return "x" weighted 1', 'def e return "x" weighted 1 }',
    'def e { return "x" weighted 1 } }', 'def e {{ return "x" weighted 1 }}', 'def e ( return "x" weighted 1 )',
    'def e { if a == 1 return "x" weighted 1 }', 'def e { if a == 1 { return "x" weighted 1 }', 'def e { if { return "x" weighted 1 } }',
    'def e { if a { return "x" weighted 1 } }', 'def e { if a == { return "x" weighted 1 } }', 'def e { if a == 1 == 2 { return "x" weighted 1 } }',
    'def e { if a = 1 { return "x" weighted 1 } }', 'def e { if a === 1 { return "x" weighted 1 } }', 'def e { if a <> 1 { return "x" weighted 1 } }',
    'def e { if a => 1 { return "x" weighted 1 } }', 'def e { if a =< 1 { return "x" weighted 1 } }', 'def e { if a ! = 1 { return "x" weighted 1 } }',
    'def e { if a > = 1 { return "x" weighted 1 } }', 'def e { if not { return "x" weighted 1 } }', 'def e { if a == 1 and { return "x" weighted 1 } }',
    'def e { if and a == 1 { return "x" weighted 1 } }', 'def e { if a == 1 or or b == 2 { return "x" weighted 1 } }',
    'def e { if a in () { return "x" weighted 1 } }', 'def e { if a in (1,) { return "x" weighted 1 } }', 'def e { if a in (1 2) { return "x" weighted 1 } }',
    'def e { if a in 1, 2 { return "x" weighted 1 } }', 'def e { if a in [1, 2] { return "x" weighted 1 } }', 'def e { if (a == 1 { return "x" weighted 1 } }',
    'def e { if a == 1) { return "x" weighted 1 } }', 'def e { if a not 1 { return "x" weighted 1 } }', 'def e { if a is 1 { return "x" weighted 1 } }',
    'def e { if a == 1 { return "x" weighted 1 } else { return "y" weighted 1 } else { return "z" weighted 1 } }',
    'def e { if a == 1 { return "x" weighted 1 } else { return "y" weighted 1 } else if a == 2 { return "z" weighted 1 } }',
    'def e { else { return "y" weighted 1 } }', 'def e { else if a == 1 { return "y" weighted 1 } }', 'def e { if a == 1 { return "x" weighted 1 } elif a == 2 { return "y" weighted 1 } }',
    'def e { if a == 1 { return "x" weighted 1 } else if { return "y" weighted 1 } }', 'def e { if a == 1 { return "x" weighted 1 } else return "y" weighted 1 }',
    'def e { if a == 1 { return "x" weighted 1 } return "y" weighted 1 }', 'def e { return "x" weighted 1 if a == 1 { return "y" weighted 1 } }',
    'def e { if a == 1 { } }', 'def e { if a == 1 { if b == 2 { } } }', 'def e { return "x" weighted 1; }', 'def e { return "x" weighted 1 };',
    'def e { return "x\n" weighted 1 }'.replace("\\n", "\n"), 'def e { return "x weighted 1 }', "def e { return 'x\" weighted 1 }", 'def e { return "x" weighted 1 } // c\n junk',
    'def e { return "x" weighted 1 } def', 'def def { return "x" weighted 1 }', 'def return { return "x" weighted 1 }', 'def e { splitters: if return "x" weighted 1 }',
    'def e { splitters: a, in return "x" weighted 1 }', 'DEF e { return "x" weighted 1 }', 'def e { RETURN "x" weighted 1 }', 'def e { return "x" WEIGHTED 1 }',
    'def e { return "x" weighted 1 } /*', 'def e { return "x" weighted 1 } */', '/* def e { return "x" weighted 1 }', '// def e { return "x" weighted 1 }', '',  ' ', '\n',
    'def e { return - "x" weighted 1 }', 'def e { return --1 weighted 1 }', 'def e { return - - 1 weighted 1 }', 'def e { return +1 weighted 1 }',
    'def e { return 1. weighted 1 }', 'def e { return .1 weighted 1 }', 'def e { return 1_000 weighted 1 }', 'def e { return 0x10 weighted 1 }', 'def e { return 1e5 weighted 1 }',
    'def e { if a == 1 { return "x" weighted 1 } else  if a == 2 { return "y" weighted 1 } else{return "z" weighted 1} }extra',
]


NUM_GLUE = ["e3", "E2", "e-3", "e+2", "E+05", "e", "L", "j", "f", "d", "_0", "_000", "x10", ".", ".5", "..", "%", "n", "px", "k", "'", "h"]
NUM_PRE = ["+", ".", "0x", "0b", "$", "#", "~", "--"]
STR_PRE = ["r", "b", "f", "u", "rb", "R", "@", "$"]
STR_POST = ["s", "x", ".x", "[0]", "%", "!"]
ID_POST = [".x", "$", "?", "!", "[0]", "()", "'", "-y", ".0", "::b", "@x"]
OP_GLUE = {"==": ["=", "!"], "!=": ["="], ">": [">", "<"], "<": ["<", ">", "-"], ">=": ["=", ">"], "<=": ["=", ">"], ":": [":", "="], ",": [","], "-": ["-", "+"]}


def glue_cases(ctx, n):
    """lexeme-level near misses: a fragment glued to a token with NO white space in between — the fragment that a
    widened token pattern would swallow (an exponent or a suffix after a number, a prefix letter before a string, a
    selector after an identifier, one more operator character)"""
    rng = ctx.rng
    out, seen = [], set()
    tries = 0
    while len(out) < n and tries < 20 * n:
        tries += 1
        prog = gen.gen_program(rng, gen.GenOpts(max_depth=rng.choice([0, 1]), max_chain=1, max_pred_depth=1, ident_pool=gen.PLAIN_IDENTS, max_nodes=5))
        toks = list(gen.program_tokens(prog))
        idx = [i for i, t in enumerate(toks) if t]
        i = rng.choice(idx)
        t = toks[i]
        if t[0].isdigit():
            new = t + rng.choice(NUM_GLUE) if rng.random() < 0.8 else rng.choice(NUM_PRE) + t
        elif t[0] in "\"'":
            new = rng.choice(STR_PRE) + t if rng.random() < 0.5 else t + rng.choice(STR_POST)
        elif t in OP_GLUE:
            new = t + rng.choice(OP_GLUE[t]) if rng.random() < 0.7 else rng.choice(OP_GLUE[t]) + t
        elif t[0].isalpha() or t[0] == "_":
            new = t + rng.choice(ID_POST)
        else:
            continue
        toks[i] = new
        text = gen.join_tokens(toks)
        if text in seen:
            continue
        seen.add(text)
        out.append(("glue", text))
    return out


def sized_cases(ctx):
    """a COMPLETE definition of exactly T tokens (T around the sizes at which a runtime might batch, buffer or wrap: powers of two and round
    decimals) followed by something that is no part of it; and a lexeme whose conversion fails (an integer literal beyond the digit limit)
    dropped between the tokens of a definition: a token that cannot be built is an error, not white space"""
    rng = ctx.rng
    out = []
    junk = [" @", " ;", " = ", ' def b { return "y" weighted 1 }', " .", ' "tail"', " 7", " }"]
    sizes = [32, 64, 128, 256, 512, 1024, 2048, 4096, 8192, 100, 1000, 10000] if ctx.tier == "thorough" else [64, 256, 1024, 4096, 8192, 1000]
    for t in sizes:
        # def e { return G , G , ... }  = 4 + 4*g - 1 + 1 tokens ( "x" weighted n , )  -> 4g + 4 ; with a salt 3 more
        for salt in (False, True):
            base = 4 + (3 if salt else 0)
            if (t - base) % 4 != 0 or t - base <= 0:
                continue
            g = (t - base) // 4
            groups = ", ".join('"g%d" weighted %d' % (i, 1 + i % 3) for i in range(g))
            text = "def e { %sreturn %s }" % ('salt: "s" ' if salt else "", groups)
            ntok = len(recogniser.tokenize(text))
            if ntok != t:
                continue
            for j in rng.sample(junk, 3):
                out.append(("exact-%d-tokens+junk" % t, text + j))
            out.append(("exact-%d-tokens+junk" % t, text[:-1] + "@ }"))
    big = "7" * 4400
    base = 'def e { splitters: u if x == 1 { return "a" weighted 1, "b" weighted 3 } else { return "c" weighted 1 } }'
    for where in ("{ ", " return", " weighted 1,", " }", "def ", "== 1", "else "):
        i = base.index(where)
        out.append(("unconvertible-lexeme", base[:i] + " " + big + " " + base[i:]))
    out.append(("unconvertible-lexeme", base + " " + big))
    out.append(("unconvertible-lexeme", big + " " + base))
    return out


def impl_compile(text):
    from pyab_experiment.experiment_evaluator import ExperimentEvaluator
    from pyab_experiment.utils.wraper_functions import parse_source
    try:
        ev, _ = common.quiet(lambda: ExperimentEvaluator(text))
        comp = "ok"
    except RecursionError:
        comp = {"e": "Other:RecursionError"}
    except Exception as ex:  # noqa
        comp = {"e": common.classify_exc(ex)}
    try:
        a, _ = common.quiet(lambda: parse_source(text))
        ast = common.canon_ast(a) if a is not None else None
    except RecursionError:
        ast = {"e": "Other:RecursionError"}
    except Exception as ex:  # noqa
        ast = {"e": common.classify_exc(ex)}
    return comp, ast


def stray_character_cases(ctx):
    """EVERY character below U+0300 (and a few others: BOM, zero-width space, line / paragraph separator, replacement character, a lone astral one) after a complete
    definition, before it and inside it — alone, as a run, after white space: whatever the recogniser of the documented grammar refuses must be refused"""
    base = 'def e { splitters: u return "x" weighted 1 }'
    out = []
    chars = [chr(c) for c in range(0x300)] + ["\ufeff", "\u200b", "\u2028", "\u2029", "\ufffd", "\U0001f600", "\u037e", "\uff5d", "\u2215"]
    for ch in chars:
        for text in (base + ch, base + " " + ch * 3, base + "\n" + ch, base + ch + "\n", ch + base, base[:-1] + ch + "}", base.replace("return", "return" + ch, 1)):
            out.append(("stray-character U+%04X" % ord(ch), text))
    return out


def run_stream(ctx, cases, with_model=True):
    models = [None] * len(cases)
    if with_model and ctx.driver_ok:
        try:
            models = common.run_driver_parallel([{"op": "run", "text": t, "envs": []} for _, t in cases], jobs=12)
        except Exception as ex:  # noqa
            ctx.obligation_breaks.append({"what": "model-driver-run", "detail": repr(ex)[:400]})
    for (kind, text), m in zip(cases, models):
        accepted = recogniser.accepts(text)
        comp, ast = impl_compile(text)
        ctx.case(text, nontrivial=True, sample={"mutation": kind, "text": text[:300], "recogniser": accepted, "impl": comp})
        ctx.count("mut:" + kind)
        ctx.count("recogniser:" + ("accept" if accepted else "reject"))
        impl_accepts = comp == "ok"
        ast_is_tree = isinstance(ast, dict) and "e" not in ast
        if not accepted:
            if impl_accepts or ast_is_tree:
                ctx.violation(f"text outside the grammar ({kind}) is compiled instead of rejected: {text[:200]!r}",
                              {"text": text, "mutation": kind, "impl_compile": comp, "impl_ast": ast})
        else:
            if not impl_accepts and not (isinstance(comp, dict) and comp.get("e") in ("PySyntaxError",)):
                # a sentence of the grammar must compile (C07's business too, reported here as well)
                ctx.violation(f"mutant that is still a sentence of the grammar is rejected ({comp}): {text[:200]!r}",
                              {"text": text, "mutation": kind, "impl_compile": comp})
        if m is not None:
            mc = m.get("compile")
            # official observable: raises vs compiles, and the AST when both accept
            if (mc == "ok") != impl_accepts:
                ctx.tie_break("compile", {"text": text, "impl": comp, "model": mc})
            elif impl_accepts and ast != m.get("ast"):
                ctx.tie_break("ast", {"text": text, "impl": ast, "model": m.get("ast")})
            elif mc != comp and not impl_accepts:
                ctx.drift("error-class", {"text": text, "impl": comp, "model": mc})


def run(ctx):
    n = N[ctx.tier]
    if ctx.obligation_breaks:
        n *= 3
    ctx.extra["rule"] = ("token-level mutants (delete, duplicate, swap, insert, replace, illegal character separate or glued, "
                         "prefix/suffix junk, concatenation, truncation, unterminated string/comment, split or transposed "
                         "operator, double mutation) of generated experiments, de-duplicated by text, classified by an "
                         "independent recogniser of the documented grammar; every mutant counts as non-trivial")
    ctx.extra["table_obligations"] = 3
    run_stream(ctx, sized_cases(ctx), with_model=False)
    run_stream(ctx, stray_character_cases(ctx), with_model=False)
    run_stream(ctx, [("near-miss", t) for t in NEAR_MISSES] + glue_cases(ctx, max(300, n // 8)) + make_cases(ctx, n))


def search(ctx):
    run_stream(ctx, glue_cases(ctx, 1500) + make_cases(ctx, 6000), with_model=False)
