"""C15 — evaluation is total over field values."""
import json

import common
import gen
import progcases

TWINS = ['label']      # harness/twins.py: which part of a twin text carries the difference

N = {"quick": 300, "thorough": 8000}

EXTREMES = ["²", "①", "12³", "٣", "0042", "007", "1_000", "+1", " 1", "１２", "",  "\x00", "'", '"', "\\", "a" * 5000, "é", "josé", "😀", " ", " ", "\t\n", "0", "1", "1.0", "True", "None",
            0, 1, -1, 2 ** 63, -(2 ** 64), 10 ** 100, 10 ** 4299, 0.0, -0.0, 1.0, 1.5, 1e300, 1e-300, 5e-324, float("inf"), float("-inf"),
            float("nan"), True, False, None]


def value(rng):
    if rng.random() < 0.6:
        return rng.choice(EXTREMES)
    return gen.rand_value("any", rng)


def make_cases(ctx, n):
    rng = ctx.rng
    cases = []
    for _ in range(n):
        salt = rng.choice([None, "", "s", "é中", "'\"\\", "salt with spaces", "😀"])
        k = rng.randint(1, 3)
        names = rng.sample(["u", "v", "w", "uid", "k"], k)
        groups = [(gen.lit_str("g%d" % i, quote='"'), str(rng.choice([1, 2, 3, 0]))) for i in range(rng.randint(1, 4))]
        if all(w == "0" for _, w in groups):
            groups[0] = (groups[0][0], "1")
        cond = ("ret", groups)
        fields = {x: "any" for x in names}
        routed = rng.random() < 0.2
        if routed:
            # behind a condition without `else`: a unit the conditions do not route ends with the unroutable error WHATEVER its splitter values are
            cond = ("if", ("cmp", ("id", "tier"), "==", ("lit", gen.lit_int(1))), ("ret", groups), ("elif", ("cmp", ("id", "tier"), "<", ("lit", gen.lit_int(0))), ("ret", groups), None))
            fields = dict(fields, tier="num")
        prog = gen.Program("e", gen.lit_str(salt, rng) if salt is not None else None, names, cond, fields)
        text = gen.render(prog)
        envs = []
        for _ in range(6):
            env = {x: value(rng) for x in names}
            if routed:
                env["tier"] = rng.choice([1, 1, -5, 7, 0, "x", None])
                if rng.random() < 0.4:
                    env[names[0]] = rng.choice([10 ** 5000, -(10 ** 4400)])      # a value str()/UTF-8 refuses, on a unit that may not be routed at all
            if rng.random() < 0.4:
                # unrelated extra fields: never printed, never hashed — any value at all, also ones str() itself refuses
                env["extra_%d" % rng.randrange(3)] = value(rng) if rng.random() < 0.8 else rng.choice([10 ** 5000, -(10 ** 4400), "x" * 100000])
            envs.append(env)
        cases.append({"prog": prog, "text": text, "envs": envs})
    return cases


def same_print_pairs(ctx, n):
    from pyab_experiment.experiment_evaluator import ExperimentEvaluator
    rng = ctx.rng
    ev = ExperimentEvaluator('def e { salt: "p" splitters: u return "a" weighted 1, "b" weighted 1, "c" weighted 1 }')
    pairs = [(1, "1"), (True, "True"), (None, "None"), (1.5, "1.5"), (-0.0, "-0.0"), (10 ** 30, str(10 ** 30)), (float("nan"), "nan"),
             (float("inf"), "inf"), (0, "0"), (1e22, "1e+22")]
    for _ in range(n):
        k = rng.randrange(10 ** 9)
        pairs.append((k, str(k)))
    for a, b in pairs:
        oa, ob = common.outcome_of(lambda: ev(u=a)), common.outcome_of(lambda: ev(u=b))
        ctx.case(("print", repr(a)), True)
        ctx.count("same-print-pair")
        if oa != ob or "g" not in oa:
            ctx.violation(f"values printing identically are bucketed differently: {a!r} -> {oa}, {b!r} -> {ob}", {"a": repr(a), "b": repr(b)})


def equal_values_in_sequence(ctx):
    """values that compare (and hash) equal but print differently, one after the other on ONE evaluator, in both orders:
    each must land where its own printed form lands — whatever was asked before"""
    from pyab_experiment.experiment_evaluator import ExperimentEvaluator
    seqs = [(0.0, -0.0), (-0.0, 0.0), (0, 0.0, False, -0.0), (1, 1.0, True), (True, 1, 1.0), (2 ** 53, 2.0 ** 53), (1e16, 10 ** 16), (-1, -1.0),
            ("1", 1), (float("nan"), float("nan")), (10 ** 22, 1e22), (0.1 + 0.2, 0.3), (255, 255.0, 0xff)]
    for salt in ("p", "q", "é", "", "zero", "s5", "s6"):
        ev = ExperimentEvaluator('def e { salt: "%s" splitters: u, v return "a" weighted 1, "b" weighted 1, "c" weighted 1, "d" weighted 1 }' % salt)
        for seq in seqs:
            for x in seq:
                got = common.outcome_of(lambda: ev(u=x, v="k"))
                env = {"u": x, "v": "k"}
                h = gen.published_position(salt, ["u", "v"], env)
                want = {"g": {"s": "abcd"[gen.spec_indices(["1", "1", "1", "1"], h)[0]]}}
                ctx.case(("eqseq", salt, repr(seq), repr(x)), True)
                ctx.count("equal-values-in-sequence")
                if got != want:
                    ctx.violation(f"splitter value {x!r} as call {list(map(repr, seq))} in turn on one evaluator (salt {salt!r}) gets {json.dumps(got)}; "
                                  f"its printed form {str(x)!r} lands in {json.dumps(want)}", {"salt": salt, "sequence": [repr(y) for y in seq], "value": repr(x), "impl": got, "spec": want})
                    break


def long_keys(ctx):
    """very long ids: lengths around 2^16 and 2^20 characters (and bytes), pairs that differ only in their LAST character — every
    character of the key reaches the hash"""
    from pyab_experiment.experiment_evaluator import ExperimentEvaluator
    ev = ExperimentEvaluator('def e { splitters: u return "a" weighted 1, "b" weighted 1, "c" weighted 1, "d" weighted 1, "e" weighted 1, "f" weighted 1, "g" weighted 1, "h" weighted 1 }')
    ws = ["1"] * 8
    for base in (2 ** 16, 2 ** 20):
        for d in (-1, 0, 1, 2):
            for body in ("k", "é"):
                for last in ("Y", "Z"):
                    u = body * (base + d - 1) + last
                    got = common.outcome_of(lambda: ev(u=u))
                    h = gen.published_position(None, ["u"], {"u": u})
                    want = {"g": {"s": "abcdefgh"[gen.spec_indices(ws, h)[0]]}}
                    ctx.case(("long-key", base + d, body, last), True)
                    ctx.count("long-keys")
                    if got != want:
                        ctx.violation(f"id of {base + d} characters ({body!r} repeated, ending in {last!r}) gets {json.dumps(got)}; md5 of the whole key selects {json.dumps(want)}",
                                      {"length": base + d, "body": body, "last": last, "impl": got, "spec": want})
                        return


def control_salts(ctx):
    import choicelib
    choicelib.run_salt_alphabet(ctx)


def proba_range(ctx):
    """deterministic_proba(str) is in [0,1) and is the first 32 bits of MD5 / 2^32 — also at the top of the range"""
    import hashlib
    from pyab_experiment.binning import binning
    for k in ["user_4928520601", "", "a", "josé", "\x00", "x" * 1000]:
        want = int.from_bytes(hashlib.md5(k.encode("utf-8")).digest()[:4], "big") / 2 ** 32
        got = common.outcome_of(lambda: binning.deterministic_proba(k))
        ctx.count("proba-range")
        if got != {"g": common.enc_val(want)} or not (0 <= want < 1):
            ctx.violation(f"deterministic_proba({k[:20]!r}) = {got}, expected {want!r} in [0,1)", {"key": k, "impl": got, "expected": want})
    from pyab_experiment.experiment_evaluator import ExperimentEvaluator
    ev = ExperimentEvaluator('def e { salt: "user_" splitters: uid return "a" weighted 1, "b" weighted 1, "c" weighted 2 }')
    for uid in (4928520601, "4928520601"):
        out = common.outcome_of(lambda: ev(uid=uid))
        if out != {"g": {"s": "c"}}:
            ctx.violation(f"the unit at the very top of the hash range (salt 'user_', uid {uid!r}, position (2^32-1)/2^32) gets {out}, expected the last group",
                          {"salt": "user_", "uid": repr(uid), "impl": out})


def known_family(ctx):
    """finding family K3: values the str()/UTF-8 pipeline itself rejects"""
    from pyab_experiment.experiment_evaluator import ExperimentEvaluator
    ev = ExperimentEvaluator('def e { splitters: u return "a" weighted 1, "b" weighted 1 }')
    for name, v in (("lone-surrogate-str", "\ud800"), ("int-over-4300-digits", 10 ** 4300)):
        out = common.outcome_of(lambda: ev(u=v))
        ctx.count("k3:" + ("ok" if "g" in out else "fails"))
        if "g" not in out:
            ctx.violation(f"splitter value {name}: {out}", {"value": name, "impl": out}, key="K3:" + name)


def run(ctx):
    n = N[ctx.tier]
    if ctx.obligation_breaks or ctx.tie_breaks:
        n *= 3
    ctx.extra["rule"] = ("str (non-ASCII, empty, 5000 chars, NUL, quotes), int up to 4299 digits, float incl. nan/inf/-0.0/subnormal, bool, None "
                         "as splitter fields and as unrelated extra fields, under absent / empty / ASCII / non-ASCII / quote-laden salts; "
                         "pairs of values that print identically")
    progcases.run_cases(ctx, make_cases(ctx, n), want_stages=False)
    same_print_pairs(ctx, 50)
    equal_values_in_sequence(ctx)
    long_keys(ctx)
    proba_range(ctx)
    known_family(ctx)
    control_salts(ctx)
    import choicelib
    choicelib.run_key_lengths(ctx, 17 if ctx.tier == 'quick' else 22)
    # values of every kind asked against membership tables of every size, also ones that nest an identifier
    progcases.run_cases(ctx, gen.nested_identifier_tuples(), check_model=False, want_stages=False)


def many_keys_under_threads(ctx, nkeys, nthreads=8):
    """every legal value gets a group — also the (nkeys+1)-th distinct one, also while other threads ask for the same ones: several threads walk
    the same long sequence of distinct ids (int and str forms mixed), far more of them than any bounded memo would hold"""
    import sys
    import threading
    from pyab_experiment.experiment_evaluator import ExperimentEvaluator
    ev = ExperimentEvaluator('def e { salt: "m" splitters: u return "a" weighted 1, "b" weighted 1, "c" weighted 2 }')
    errors = []

    def worker(tid):
        try:
            for k in range(nkeys):
                if errors:
                    return
                v = k if (k + tid) % 2 else str(k)
                g = ev(u=v)
                if g not in ("a", "b", "c"):
                    errors.append({"unit": repr(v), "got": repr(g)})
        except Exception as ex:  # noqa
            errors.append({"thread": tid, "error": repr(ex)[:200], "after_keys": k})
    old = sys.getswitchinterval()
    sys.setswitchinterval(1e-6)
    try:
        ths = [threading.Thread(target=worker, args=(i,)) for i in range(nthreads)]
        for t in ths:
            t.start()
        for t in ths:
            t.join()
    finally:
        sys.setswitchinterval(old)
    ctx.count("many-keys-under-threads", nkeys * nthreads)
    for e in errors[:1]:
        ctx.violation(f"{nthreads} threads asking one evaluator for {nkeys} distinct legal ids each: {json.dumps(e)[:200]}", e)


def search(ctx):
    many_keys_under_threads(ctx, 160000)
    if ctx.new_violations():
        return
    progcases.run_cases(ctx, make_cases(ctx, 2000), check_model=False, want_stages=False)
