"""C16 — the choice function honours its random.choices-style contract."""
import copy
import itertools
import json
import math
import random as pyrandom

import choicelib
import common
import gen

N = {"quick": 400, "thorough": 10000}

VALUES = ["A", "B", "", 0, 1, -1, 2.5, None, True, ("t", 1), "é", 10 ** 30, float("inf"), "x" * 50]


def population(rng):
    n = rng.choice([1, 2, 3, 5, 8, 20, 64, 64, 100, 127, 128, 129, 255, 256, 257, 1000]) if rng.random() < 0.995 else rng.choice([4097, 10007])
    pop = [rng.choice(VALUES) for _ in range(n)]
    return tuple(pop) if rng.random() < 0.3 else pop


def weights_for(rng, n):
    kind = rng.choice(["int", "float", "mixed", "zeros", "big", "subnormal"])
    ws = []
    for _ in range(n):
        if kind == "int":
            ws.append(rng.randint(0, 20))
        elif kind == "float":
            ws.append(round(rng.random() * 10, rng.randint(0, 6)))
        elif kind == "mixed":
            ws.append(rng.choice([rng.randint(0, 5), rng.random()]))
        elif kind == "zeros":
            ws.append(rng.choice([0, 0, 0.0, 1, 2.5]))
        elif kind == "subnormal":
            ws.append(rng.choice([5e-324, 1e-323, 2.2250738585072014e-308, 1e-310]))
        else:
            ws.append(rng.choice([10 ** 9, 1e9, 1e-9, 123456789.123456789, 2 ** 53]))
    if sum(ws) <= 0:
        ws[rng.randrange(n)] = 1
    return ws if rng.random() < 0.8 else tuple(ws)


def canon(out):
    return json.dumps(out, sort_keys=True)


def run_contract(ctx, n, with_model=True):
    from pyab_experiment.binning import binning
    rng = ctx.rng
    reqs, plan = [], []
    # fixed slice: totals of one, two and three ulps of the smallest subnormal at positions where `position * total` rounds up to the total itself
    fixed = [(["A"], [5e-324], h) for h in (0, 2 ** 31 - 1, 2 ** 31, 3 * 2 ** 30, 2 ** 32 - 1)]
    fixed += [(["A", "B"], [5e-324, 5e-324], h) for h in (2 ** 30, 2 ** 31, 3 * 2 ** 30, 3 * 2 ** 30 + 1, 2 ** 32 - 1)]
    fixed += [(("A", "B", "C"), (5e-324, 5e-324, 5e-324), h) for h in (2 ** 31, 5 * 2 ** 29, 7 * 2 ** 29, 2 ** 32 - 1)]
    fixed += [(["A", "B"], [2.2250738585072014e-308, 5e-324], 2 ** 32 - 1), (["A", "B"], [1e-310, 1e-310], 2 ** 32 - 1)]
    for k in range(n + len(fixed)):
        if k < len(fixed):
            pop, ws, h = fixed[k]
            npop = len(pop)
            cum = list(itertools.accumulate(ws))
        else:
            pop = population(rng)
            npop = len(pop)
            ws = weights_for(rng, npop)
            cum = list(itertools.accumulate(ws))
            h = rng.choice([0, 1, 2 ** 32 - 1, rng.randrange(2 ** 32), rng.randrange(2 ** 32)])
            if rng.random() < 0.4 and npop > 1:
                # positions on and next to the equal-share boundaries k/n (where the unweighted form and equal weights must agree exactly)
                kq = rng.randrange(1, npop)
                h = max(0, min(2 ** 32 - 1, (kq * 2 ** 32) // npop + rng.choice([-1, 0, 0, 1]))) if rng.random() < 0.6 else rng.randrange(1, 8) * 2 ** 29
        variants = [
            ("weights", dict(weights=ws), "ok"),
            ("cum", dict(cum_weights=cum), "ok"),
            ("unweighted", dict(), "ok"),
            ("equal-ints", dict(weights=[1] * npop), "ok"),
        ]
        # malformed combinations
        bad = rng.choice(["both", "len-short", "len-long", "zero-total", "neg-total", "inf", "nan", "cum-len"])
        if bad == "both":
            variants.append((bad, dict(weights=ws, cum_weights=cum), "TypeError"))
        elif bad == "len-short":
            variants.append((bad, dict(weights=list(ws)[:-1] if npop > 1 else list(ws) + [1]), "ValueError:len"))
        elif bad == "len-long":
            variants.append((bad, dict(weights=list(ws) + [1]), "ValueError:len"))
        elif bad == "cum-len":
            variants.append((bad, dict(cum_weights=cum + [cum[-1] + 1]), "ValueError:len"))
        elif bad == "zero-total":
            variants.append((bad, dict(weights=[0] * npop), "ValueError:nonpositive"))
        elif bad == "neg-total":
            variants.append((bad, dict(weights=[-1] * npop), "ValueError:nonpositive"))
        elif bad == "inf":
            variants.append((bad, dict(weights=[1] * (npop - 1) + [float("inf")]), "ValueError:nonfinite"))
        else:
            variants.append((bad, dict(weights=[1] * (npop - 1) + [float("nan")]), "ValueError:nonfinite"))
        for name, kw, expect in variants:
            plan.append((pop, h, name, kw, expect))
            reqs.append(choicelib.model_choice_req(h, npop, kw.get("weights"), kw.get("cum_weights")))
    answers = [None] * len(reqs)
    if with_model and ctx.driver_ok:
        try:
            answers = common.run_driver_parallel(reqs, jobs=12)
        except Exception as ex:  # noqa
            ctx.obligation_breaks.append({"what": "model-driver-run", "detail": repr(ex)[:400]})
    results = {}
    with choicelib.SubstitutedPosition():
        for (pop, h, name, kw, expect), ans in zip(plan, answers):
            before = copy.deepcopy((pop, kw))
            out = common.outcome_of(lambda: binning.deterministic_choice(str(h), pop, **kw))
            after = (pop, kw)
            ctx.case((repr(pop), h, name, repr(kw)), True, sample={"pop": repr(pop)[:80], "h": h, "variant": name, "impl": out})
            ctx.count("variant:" + name)
            key = (id(pop), h)
            results.setdefault(key, {})[name] = out
            if repr(before) != repr(after):
                ctx.violation(f"arguments modified by deterministic_choice ({name})", {"before": repr(before)[:300], "after": repr(after)[:300]})
            if expect == "ok":
                if "g" not in out or not any(out["g"] == common.enc_val(v) for v in pop):
                    ctx.violation(f"result {json.dumps(out)[:80]} is not an element of the population ({name})",
                                  {"pop": repr(pop)[:300], "h": h, "kw": repr(kw)[:300], "impl": out})
            elif not common.same_outcome(out, {"e": expect}):
                ctx.violation(f"malformed arguments ({name}) give {json.dumps(out)[:80]}, documented error is {expect}",
                              {"pop": repr(pop)[:300], "h": h, "kw": repr(kw)[:300], "impl": out})
            if ans is not None:
                mo = choicelib.model_to_outcome(ans, list(pop))
                if not common.same_outcome(mo, out):
                    ctx.tie_break("choice", {"pop": repr(pop)[:200], "h": h, "kw": repr(kw)[:200], "impl": out, "model": mo})
    for key, r in results.items():
        if "weights" in r and "cum" in r and r["weights"] != r["cum"]:
            ctx.violation("weights and their running totals give different results", {"results": r})
        if "unweighted" in r and "equal-ints" in r and r["unweighted"] != r["equal-ints"]:
            ctx.violation("no weights and equal integer weights give different results", {"results": r})


def run_random_branch(ctx, n, with_model=True):
    """input_id=None: random.choices; with random._inst.random substituted the index is the model's"""
    from pyab_experiment.binning import binning
    rng = ctx.rng
    reqs, plan = [], []
    for _ in range(n):
        npop = rng.choice([1, 2, 3, 8, 20])
        pop = list(range(npop))
        ws = weights_for(rng, npop)
        cum = list(itertools.accumulate(ws))
        total = cum[-1] + 0.0
        rs = [0.0, 1 - 2 ** -53, rng.random(), rng.random()]
        for c in cum[:-1]:
            b = c / total
            rs += [b, math.nextafter(b, 0.0), math.nextafter(b, 1.0)]
        for r in rs:
            if 0.0 <= r < 1.0:
                plan.append((pop, ws, cum, r))
                reqs.append({"op": "ridx", "cw": [common.enc_num(x) for x in cum], "n": npop, "r": common.dbl_str(r)})
    answers = [None] * len(reqs)
    if with_model and ctx.driver_ok:
        try:
            answers = common.run_driver_parallel(reqs, jobs=12)
        except Exception as ex:  # noqa
            ctx.obligation_breaks.append({"what": "model-driver-run", "detail": repr(ex)[:400]})
    inst = pyrandom._inst
    orig = inst.random
    try:
        for (pop, ws, cum, r), ans in zip(plan, answers):
            inst.random = lambda r=r: r
            out = common.outcome_of(lambda: binning.deterministic_choice(None, pop, weights=ws))
            out_c = common.outcome_of(lambda: binning.deterministic_choice(None, pop, cum_weights=cum))
            ctx.count("variant:random-substituted-cum")
            if out_c != out:
                ctx.violation(f"random branch (no id): weights {ws} give {json.dumps(out)[:60]} but their running totals give {json.dumps(out_c)[:60]} "
                              f"for the same draw {r!r}", {"weights": repr(ws), "cum_weights": repr(cum), "r": r, "impl_weights": out, "impl_cum": out_c})
            ctx.case(("rand", tuple(ws), r), True)
            ctx.count("variant:random-substituted")
            if "g" not in out:
                ctx.violation(f"random branch raised {out}", {"weights": repr(ws), "r": r, "impl": out})
                continue
            i = int(out["g"]["i"])
            if ws[i] == 0:
                ctx.violation(f"random branch selected zero-weight item {i} (weights {ws}, draw {r!r})", {"weights": repr(ws), "r": r})
            if ans is not None and ans.get("idx") != i:
                ctx.tie_break("ridx", {"weights": repr(ws), "r": common.dbl_str(r), "impl": i, "model": ans})
    finally:
        inst.random = orig
    # the documented errors do not depend on whether an id was given
    for _ in range(max(10, n // 4)):
        npop = rng.choice([1, 2, 3, 8])
        pop = list(range(npop))
        ws = weights_for(rng, npop)
        cum = list(itertools.accumulate(ws))
        for name, kw, expect in (("both", dict(weights=ws, cum_weights=cum), "TypeError"), ("len-long", dict(weights=list(ws) + [1]), "ValueError:len"),
                                 ("cum-len", dict(cum_weights=cum + [cum[-1] + 1]), "ValueError:len"), ("zero-total", dict(weights=[0] * npop), "ValueError:nonpositive"),
                                 ("cum-zero-total", dict(cum_weights=[0] * npop), "ValueError:nonpositive"),
                                 ("cum-inf", dict(cum_weights=[1] * (npop - 1) + [float("inf")]), "ValueError:nonfinite")):
            out = common.outcome_of(lambda: binning.deterministic_choice(None, pop, **kw))
            ctx.case(("rand-bad", name, repr(kw)), True)
            ctx.count("variant:random-malformed")
            if not common.same_outcome(out, {"e": expect}):
                ctx.violation(f"no id, malformed arguments ({name}) give {json.dumps(out)[:80]}, documented error is {expect}",
                              {"pop": repr(pop), "kw": repr(kw)[:300], "impl": out})
    # unpatched draws: membership and never zero weight
    for _ in range(n):
        npop = rng.choice([2, 3, 8])
        ws = [rng.choice([0, 0, 1, 3]) for _ in range(npop)]
        if sum(ws) == 0:
            ws[0] = 1
        for _ in range(5):
            out = common.outcome_of(lambda: binning.deterministic_choice(None, list(range(npop)), weights=ws))
            ctx.count("variant:random-unpatched")
            if "g" not in out or ws[int(out["g"]["i"])] == 0:
                ctx.violation(f"random branch: {out} with weights {ws}", {"weights": ws, "impl": out})


def run_real_ids(ctx, n, with_model=True):
    """ids as callers pass them (no substitution): every str is an id — the empty one too"""
    import hashlib
    from pyab_experiment.binning import binning
    rng = ctx.rng
    ids = ["", " ", "0", "a", "None", "é", "\x00", "user_1", "x" * 200] + [gen.rand_string(rng, 6) for _ in range(n)]
    reqs, plan = [], []
    for ident in ids:
        npop = rng.choice([1, 2, 3, 8])
        pop = ["p%d" % i for i in range(npop)]
        ws = weights_for(rng, npop)
        h = int.from_bytes(hashlib.md5(ident.encode("utf-8")).digest()[:4], "big")
        for name, kw in (("weights", dict(weights=list(ws))), ("cum", dict(cum_weights=list(itertools.accumulate(ws)))), ("unweighted", {})):
            plan.append((ident, pop, name, kw))
            reqs.append(choicelib.model_choice_req(h, npop, kw.get("weights"), kw.get("cum_weights")))
    answers = [None] * len(reqs)
    if with_model and ctx.driver_ok:
        try:
            answers = common.run_driver_parallel(reqs, jobs=12)
        except Exception as ex:  # noqa
            ctx.obligation_breaks.append({"what": "model-driver-run", "detail": repr(ex)[:400]})
    seen = {}
    for (ident, pop, name, kw), ans in zip(plan, answers):
        outs = [common.outcome_of(lambda: binning.deterministic_choice(ident, pop, **kw)) for _ in range(3)]
        ctx.case(("realid", ident, name), True)
        ctx.count("variant:real-id-" + name)
        if outs[0] != outs[1] or outs[1] != outs[2]:
            ctx.violation(f"the same id {ident!r} gives different results on repeated calls ({name}): {outs}", {"id": ident, "kw": repr(kw)[:200]})
        if "g" not in outs[0] or outs[0]["g"].get("s") not in pop:
            ctx.violation(f"id {ident!r}: result {outs[0]} is not an element of the population", {"id": ident})
        seen.setdefault(ident, {})[name] = outs[0]
        if ans is not None and choicelib.model_to_outcome(ans, pop) != outs[0]:
            ctx.tie_break("choice-real-id", {"id": ident, "kw": repr(kw)[:200], "impl": outs[0], "model": choicelib.model_to_outcome(ans, pop)})
    for ident, r in seen.items():
        if r.get("weights") != r.get("cum"):
            ctx.violation(f"id {ident!r}: weights and their running totals give different results", {"id": ident, "results": r})


def big_int_boundaries(ctx, n):
    """integer weights far above 2^53 whose first running total is odd (not a binary64 value) and exactly one above the unit's scaled
    position: Python compares the float position with the int total exactly, so the unit is in the FIRST group — in the weights form and
    in the running-totals form alike (converting the totals to float first would round the boundary onto the position)"""
    import hashlib
    from pyab_experiment.binning import binning
    rng = ctx.rng
    pending = []
    for k in range(n):
        ident = "unit-%d" % rng.randrange(10 ** 9)
        h = int.from_bytes(hashlib.md5(ident.encode("utf-8")).digest()[:4], "big")
        s_ = rng.choice([22, 23, 25, 30, 40, 60])
        if h == 0:
            continue
        a = h * 2 ** s_ + 1
        ws = [a, 2 ** (32 + s_) - a]
        pop = ["first", "second"]
        outs = {"weights": common.outcome_of(lambda: binning.deterministic_choice(ident, pop, weights=ws)),
                "cum_weights": common.outcome_of(lambda: binning.deterministic_choice(ident, pop, cum_weights=[a, 2 ** (32 + s_)])),
                "weights-tuple": common.outcome_of(lambda: binning.deterministic_choice(ident, tuple(pop), weights=tuple(ws)))}
        ctx.case(("bigint", ident, s_), True)
        ctx.count("variant:big-int-boundary")
        pending.append((ident, h, s_, a, ws, outs))
        for form, out in outs.items():
            if out != {"g": {"s": "first"}}:
                ctx.violation(f"id {ident!r} has position {h}/2^32; with integer weights [{h}*2^{s_}+1, 2^{32 + s_}-({h}*2^{s_}+1)] ({form}) the scaled position {h}*2^{s_} is below "
                              f"the first running total, so the first item is due: got {json.dumps(out)}", {"id": ident, "h": h, "shift": s_, "form": form, "impl": out})
                break
    if ctx.driver_ok and pending:
        try:
            reqs = []
            for ident, h, s_, a, ws, outs in pending:
                reqs += [choicelib.model_choice_req(h, 2, weights=ws), choicelib.model_choice_req(h, 2, cum_weights=[a, 2 ** (32 + s_)])]
            ans = common.run_driver(reqs)
            for i, (ident, h, s_, a, ws, outs) in enumerate(pending):
                for form, an in zip(("weights", "cum_weights"), ans[2 * i: 2 * i + 2]):
                    if choicelib.model_to_outcome(an, ["first", "second"]) != outs[form]:
                        ctx.tie_break("choice-big-int", {"id": ident, "h": h, "shift": s_, "form": form, "impl": outs[form], "model": an})
        except Exception as ex:  # noqa
            ctx.obligation_breaks.append({"what": "model-driver-run", "detail": repr(ex)[:300]})


def double_faults(ctx):
    """two things wrong at once: giving both kinds of weights is refused as such (TypeError, as random.choices does) whatever else is wrong with
    either list — its length, its total; with and without an id"""
    from pyab_experiment.binning import binning
    for npop in (1, 2, 3, 8):
        pop = ["p%d" % i for i in range(npop)]
        ws = [1 + i for i in range(npop)]
        cum = list(itertools.accumulate(ws))
        faults = {"cum-short": dict(weights=ws, cum_weights=cum[:-1]), "cum-long": dict(weights=ws, cum_weights=cum + [cum[-1] + 1]), "weights-short": dict(weights=ws[:-1], cum_weights=cum),
                  "weights-long": dict(weights=ws + [1], cum_weights=cum), "both-long": dict(weights=ws + [1], cum_weights=cum + [cum[-1] + 1]), "cum-zero": dict(weights=ws, cum_weights=[0] * npop),
                  "weights-zero": dict(weights=[0] * npop, cum_weights=cum), "cum-inf": dict(weights=ws, cum_weights=cum[:-1] + [float("inf")]), "cum-empty": dict(weights=ws, cum_weights=[]),
                  "weights-empty": dict(weights=[], cum_weights=cum), "cum-negative": dict(weights=ws, cum_weights=[-1] * npop)}
        for name, kw in faults.items():
            for uid in ("unit7", "", None):
                out = common.outcome_of(lambda: binning.deterministic_choice(uid, pop, **kw))
                ctx.case(("double-fault", npop, name, uid), True)
                ctx.count("variant:double-fault")
                if not common.same_outcome(out, {"e": "TypeError"}):
                    ctx.violation(f"both weights and cum_weights given ({name}, id {uid!r}): {json.dumps(out)[:80]}, documented error is TypeError",
                                  {"pop": repr(pop), "kw": repr(kw)[:300], "id": uid, "impl": out})
                    return


def run(ctx):
    n = N[ctx.tier]
    if ctx.obligation_breaks or ctx.tie_breaks:
        n *= 3
    ctx.extra["rule"] = ("ids x populations (lists/tuples of mixed values, length 1..64) x weight vectors and their cumulative forms x "
                         "unweighted / equal ints x one malformed combination each (both kinds, wrong length, zero/negative/inf/nan total); "
                         "arguments deep-copied before and compared after; random branch with random._inst.random substituted at "
                         "0, boundaries +-1ulp, 1-2^-53, and unpatched draws")
    ctx.assumptions.append("purity ('arguments are never modified') cannot be expressed in the functional model: checked by the tie only")
    run_contract(ctx, n)
    run_real_ids(ctx, max(30, n // 8))
    run_random_branch(ctx, max(20, n // 8))
    big_int_boundaries(ctx, max(60, n // 10))
    choicelib.run_stateful(ctx, 40 if ctx.tier == 'quick' else 600)
    choicelib.run_scaling(ctx, 25 if ctx.tier == 'quick' else 400)
    choicelib.run_rounded_totals(ctx)
    choicelib.run_key_lengths(ctx, 17 if ctx.tier == 'quick' else 22)      # ids of every length reach the digest whole
    choicelib.run_numeric_twin_sequences(ctx)
    choicelib.run_ulp_boundaries(ctx)
    double_faults(ctx)


def search(ctx):
    run_contract(ctx, 2500, with_model=False)
    run_real_ids(ctx, 300, with_model=False)
    run_random_branch(ctx, 300, with_model=False)
    choicelib.run_stateful(ctx, 300)
