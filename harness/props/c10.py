"""C10 — one hash position per unit: weight changes move only units at the boundary."""
import json
from fractions import Fraction

import choicelib
import common
import gen
import progcases

TWINS = ['weights']      # harness/twins.py: which part of a twin text carries the difference

N = {"quick": 300, "thorough": 8000}


def prefix_shares(ws_text):
    ws = [gen.weight_fraction(w) for w in ws_text]
    t = sum(ws)
    acc, out = Fraction(0), []
    for w in ws:
        acc += w
        out.append(acc / t)
    return out


def ordered_pair(rng):
    """two weight vectors of the same length with S_i/T <= S'_i/T' for all i"""
    r = rng.random()
    if r < 0.4:
        # two-group ramp a% -> b%
        a = rng.randint(0, 99)
        b = rng.randint(a, 100)
        if b == 0:
            b = 1
        if rng.random() < 0.5:
            return [str(a), str(100 - a)], [str(b), str(100 - b)]
        return [f"{a / 100:.2f}", f"{(100 - a) / 100:.2f}"], [f"{b / 100:.2f}", f"{(100 - b) / 100:.2f}"]
    n = rng.choice([2, 3, 4, 8])
    for _ in range(50):
        w = choicelib.weight_vector(rng, rng.choice(["int-small", "int", "mixed"]))[:n]
        w2 = choicelib.weight_vector(rng, rng.choice(["int-small", "int", "mixed"]))[:n]
        if len(w) != len(w2) or sum(map(gen.weight_fraction, w)) == 0 or sum(map(gen.weight_fraction, w2)) == 0:
            continue
        p, p2 = prefix_shares(w), prefix_shares(w2)
        if all(x <= y for x, y in zip(p, p2)):
            return w, w2
        if all(y <= x for x, y in zip(p, p2)):
            return w2, w
    return ["1", "9"], ["2", "8"]


def near_boundary(ws_text, h):
    ws = [gen.weight_fraction(w) for w in ws_text]
    t = sum(ws)
    acc = Fraction(0)
    for w in ws[:-1]:
        acc += w
        if abs(Fraction(h) * t - acc * 2 ** 32) <= t:
            return True
    return False


def run_pairs(ctx, n, with_model=True):
    rng = ctx.rng
    pairs = [ordered_pair(rng) for _ in range(n)]
    pairs[:0] = [(["1", "9"], ["2", "8"]), (["10", "90"], ["20", "80"]), (["1", "7"], ["0.1", "0.7"])]
    reqs, index = [], []
    for pi, (w, w2) in enumerate(pairs):
        hs = sorted(set(choicelib.boundary_positions(w, rng, 3)) | set(choicelib.boundary_positions(w2, rng, 3)))
        for h in hs:
            index.append((pi, h))
            reqs.append(choicelib.model_choice_req(h, len(w), weights=[choicelib.to_num(x) for x in w]))
            reqs.append(choicelib.model_choice_req(h, len(w2), weights=[choicelib.to_num(x) for x in w2]))
    answers = [None] * len(reqs)
    if with_model and ctx.driver_ok:
        try:
            answers = common.run_driver_parallel(reqs, jobs=12)
        except Exception as ex:  # noqa
            ctx.obligation_breaks.append({"what": "model-driver-run", "detail": repr(ex)[:400]})
    with choicelib.SubstitutedPosition():
        for k, (pi, h) in enumerate(index):
            w, w2 = pairs[pi]
            pop = list(range(len(w)))
            o1 = choicelib.impl_choice(h, pop, weights=[choicelib.to_num(x) for x in w])
            o2 = choicelib.impl_choice(h, pop, weights=[choicelib.to_num(x) for x in w2])
            ctx.case((tuple(w), tuple(w2), h), True, sample={"old": w, "new": w2, "h": h, "impl": [o1, o2]})
            for o, a, ww in ((o1, answers[2 * k], w), (o2, answers[2 * k + 1], w2)):
                if a is not None and choicelib.model_to_outcome(a, pop) != o:
                    ctx.tie_break("choice", {"weights": ww, "h": h, "impl": o, "model": choicelib.model_to_outcome(a, pop)})
            if "g" not in o1 or "g" not in o2:
                ctx.violation(f"ramp pair {w}->{w2} at {h}: error {o1} {o2}", {"old": w, "new": w2, "h": h, "impl": [o1, o2]})
                continue
            i, j = int(o1["g"]["i"]), int(o2["g"]["i"])
            all_int = all("." not in x for x in w + w2)
            if j > i:
                if not all_int and (near_boundary(w, h) or near_boundary(w2, h)):
                    ctx.count("moved-later-at-boundary(decimal)")
                else:
                    ctx.violation(f"unit at position {h}/2^32 moves from group {i} to later group {j} when weights change {w} -> {w2} "
                                  f"although no leading cumulative share decreases",
                                  {"old": w, "new": w2, "h": h, "old_group": i, "new_group": j})
            ctx.count("moved-earlier" if j < i else "stayed" if j == i else "moved-later")


def run_units(ctx, n):
    """real unit ids through compiled experiments that differ only in weights / labels / branch:
    one position per unit must be consistent with every result"""
    from pyab_experiment.experiment_evaluator import ExperimentEvaluator
    rng = ctx.rng
    for _ in range(n):
        salt = rng.choice(["", "s1", "ramp", None])
        vectors = [choicelib.weight_vector(rng, rng.choice(["int-small", "two", "mixed", "equal"])) for _ in range(5)]
        n0 = rng.choice([2, 3, 4])
        vectors.append(["1"] * n0)          # an even split next to uneven ones
        vectors.append(["2"] + ["3"] * (n0 - 1))
        evs = []
        repeat = rng.random() < 0.4          # hold-out layouts repeat a label: "control" 45, "treatment" 10, "control" 45
        for ws in vectors:
            lab = (lambda i: i % 2) if repeat else (lambda i: i)
            groups = ", ".join('"g%d" weighted %s' % (lab(i), w) for i, w in enumerate(ws))
            # the same weights on two branches with different labels: the branch must not matter
            text = ('def e { %s splitters: uid if tier == 1 { return %s } else { return %s } }'
                    % ('salt: "%s"' % salt if salt is not None else "", groups, groups.replace('"g', '"h')))
            evs.append((ws, ExperimentEvaluator(text)))
        for uid in [rng.choice([rng.randrange(10 ** 9), "user_%d" % rng.randrange(10 ** 6)]) for _ in range(6)] + ["", 0, None, False, " ", "0"]:
            # (falsy and empty ids are ids: with no salt and uid "" the key is the empty string, position md5("")[:8]/2^32)
            h = gen.published_position(salt, ["uid"], {"uid": uid})
            ctx.case(("unit", salt, str(uid), tuple(map(tuple, vectors))), True)
            for ws, ev in evs:
                exact, allowed = gen.spec_indices(ws, h)
                for tier, prefix in ((1, "g"), (2, "h")):
                    out = common.outcome_of(lambda: ev(uid=uid, tier=tier))
                    want = {prefix + str(lab(i)) for i in allowed}
                    if "g" not in out or out["g"].get("s") not in want:
                        ctx.violation(f"unit {uid!r} (position {h}) with weights {ws} on branch tier={tier}: got {json.dumps(out)}, "
                                      f"one position per unit requires {sorted(want)}",
                                      {"salt": salt, "uid": common.enc_val(uid), "weights": ws, "tier": tier, "impl": out, "h": h})


def run_compiled_pairs(ctx, n):
    """ordered pairs through COMPILED experiments with the position substituted (no salt, uid = h: key = str(h))"""
    from pyab_experiment.experiment_evaluator import ExperimentEvaluator
    rng = ctx.rng
    pairs = [ordered_pair(rng) for _ in range(n)]
    pairs[:0] = [(["1", "1", "1"], ["33334", "33338", "33328"]), (["1", "9"], ["2", "8"]), (["10", "45", "45"], ["20", "40", "40"])]
    with choicelib.SubstitutedPosition():
        for w, w2 in pairs:
            evs = []
            for ws in (w, w2):
                groups = ", ".join('"g%d" weighted %s' % (i, x) for i, x in enumerate(ws))
                evs.append(ExperimentEvaluator("def e { splitters: uid return %s }" % groups))
            hs = sorted(set(choicelib.boundary_positions(w, rng, 2)) | set(choicelib.boundary_positions(w2, rng, 2)))
            for h in hs:
                outs = [common.outcome_of(lambda: ev(uid=h)) for ev in evs]
                ctx.case(("compiled-pair", tuple(w), tuple(w2), h), True)
                ctx.count("compiled-pair")
                idx = []
                for ws, o in zip((w, w2), outs):
                    exact, allowed = gen.spec_indices(ws, h)
                    if "g" not in o or o["g"].get("s") not in {"g%d" % i for i in allowed}:
                        ctx.violation(f"compiled experiment with weights {ws} at position {h}/2^32 returns {json.dumps(o)}, expected g{exact}",
                                      {"weights": ws, "h": h, "impl": o, "expected": exact})
                        idx = None
                        break
                    idx.append(int(o["g"]["s"][1:]))
                if idx and idx[1] > idx[0] and all("." not in x for x in w + w2):
                    ctx.violation(f"compiled: unit at position {h}/2^32 moves from group {idx[0]} to later group {idx[1]} when weights change {w} -> {w2}",
                                  {"old": w, "new": w2, "h": h})


def run(ctx):
    n = N[ctx.tier]
    if ctx.obligation_breaks or ctx.tie_breaks:
        n *= 3
    ctx.extra["rule"] = ("pairs of weight vectors ordered by prefix shares (two-group ramps a%->b% as ints and decimals, multi-group) x "
                         "positions at and around every boundary of both vectors plus random, position substituted; and real unit ids "
                         "through compiled experiments differing only in weights / labels / branch")
    run_pairs(ctx, n)
    run_compiled_pairs(ctx, max(20, n // 10))
    run_units(ctx, max(10, n // 15))
    choicelib.run_stateful(ctx, 40 if ctx.tier == 'quick' else 600)
    choicelib.run_half_step(ctx, 60 if ctx.tier == 'quick' else 600)
    choicelib.run_scaling(ctx, 25 if ctx.tier == 'quick' else 400)
    choicelib.run_rounded_totals(ctx)
    choicelib.run_key_lengths(ctx, 17 if ctx.tier == 'quick' else 21)
    choicelib.run_numeric_twin_sequences(ctx)
    choicelib.run_ulp_boundaries(ctx)


def search(ctx):
    run_pairs(ctx, 2000, with_model=False)
    choicelib.run_stateful(ctx, 300)
