"""C09 — assignment depends only on salt, splitter values and the routed branch."""
import copy
import json

import common
import gen
import progcases

TWINS = ['salt']      # harness/twins.py: which part of a twin text carries the difference

N = {"quick": 250, "thorough": 6000}


def evaluator(text):
    from pyab_experiment.experiment_evaluator import ExperimentEvaluator
    ev, _ = common.quiet(lambda: ExperimentEvaluator(text))
    return ev


def run_batch(ctx, n, with_model=True):
    rng = ctx.rng
    base_cases = []
    seen_groups = {"salt": set(), "value": set()}
    for _ in range(n):
        prog = gen.gen_program(rng, gen.GenOpts(max_depth=rng.choice([0, 1, 2]), max_nodes=8, ident_pool=gen.PLAIN_IDENTS, p_shared=0.3,
                                                max_groups=4))
        text = gen.render(prog)
        envs = [gen.gen_env(prog, rng) for _ in range(3)]
        if prog.salt is None or prog.salt.value == "":
            e = dict(envs[0])
            for sp in prog.splitters:
                if sp not in prog.cond_fields():
                    e[sp] = ""                      # every splitter prints as the empty string: the key is ""
            envs.append(e)
        base_cases.append({"prog": prog, "text": text, "envs": envs})
    progcases.run_cases(ctx, base_cases, check_model=with_model, want_stages=False)
    for c in base_cases:
        prog, text, envs = c["prog"], c["text"], c["envs"]
        try:
            ev = evaluator(text)
        except Exception:  # noqa
            continue
        declared = set(prog.cond_fields()) | set(prog.splitters or [])
        # program-level transformations
        renamed = copy.copy(prog)
        renamed.name = rng.choice(["other_name_" + prog.name, "partial", "deterministic_choice", "str", "map", "recompile", "run_experiment", "_checksum"])
        permuted = copy.copy(prog); permuted.splitters = list(reversed(prog.splitters)) + [prog.splitters[0]]
        try:
            ev_renamed, ev_permuted = evaluator(gen.render(renamed)), evaluator(gen.render(permuted))
        except Exception as ex:  # noqa
            ctx.violation(f"renaming the experiment or permuting / repeating its splitters makes it fail to compile "
                          f"({common.classify_exc(ex)}): {gen.render(permuted)[:160]}",
                          {"text": text, "renamed": gen.render(renamed), "permuted": gen.render(permuted), "error": repr(ex)[:200]})
            continue
        for env in envs:
            base = common.outcome_of(lambda: ev(**env))
            ctx.count("base:" + ("group" if "g" in base else base.get("e", "?")))
            def expect_same(what, fn, detail):
                out = common.outcome_of(fn)
                ctx.count("transform:" + what)
                if out != base:
                    ctx.violation(f"{what} changes the result: {json.dumps(base)[:80]} -> {json.dumps(out)[:80]} for {text[:160]}",
                                  {"text": text, "env": common.enc_env(env), "transformation": what, "detail": detail, "base": base, "after": out})
            # the long-lived evaluator and a fresh one agree (no call changes a later call) — also for values that
            # compare equal in Python but print differently (1, 1.0, True)
            if prog.splitters:
                sp = prog.splitters[0]
                if sp not in prog.cond_fields():
                    for v in rng.sample([1, 1.0, True, 0, 0.0, False, -0.0, "1", 7, 7.0], 4):
                        e2 = dict(env); e2[sp] = v
                        a = common.outcome_of(lambda: ev(**e2))
                        b = common.outcome_of(lambda: evaluator(text)(**e2))
                        ctx.count("transform:fresh evaluator")
                        if a != b:
                            ctx.violation(f"the result depends on earlier calls: {sp}={v!r} gives {json.dumps(a)[:60]} on a used evaluator and "
                                          f"{json.dumps(b)[:60]} on a fresh one: {text[:140]}",
                                          {"text": text, "env": common.enc_env(e2), "used": a, "fresh": b})
            extra = {("zz_extra_%d" % i): rng.choice([1, "x", None, 2.5]) for i in range(rng.randint(1, 3))}
            expect_same("extra keyword arguments", lambda: ev(**env, **extra), list(extra))
            # extra keyword arguments named like something the library or the generated code itself uses
            for nm in rng.sample(gen.host_names(), 6):
                if nm not in env and nm != prog.name:
                    x2 = {nm: rng.choice([1, "x", None, len, 2.5])}
                    expect_same("extra keyword argument named like a name of the generated code / host language", lambda: ev(**env, **x2), nm)
            expect_same("argument order", lambda: ev(**dict(reversed(list(env.items())))), None)
            expect_same("experiment name", lambda: ev_renamed(**env), renamed.name)
            expect_same("splitter declaration order / repetition", lambda: ev_permuted(**env), permuted.splitters)
            # condition-field values moved inside the same branch (spec routing unchanged)
            try:
                r0 = gen.route(prog, env)
            except Exception:  # noqa
                r0 = "error"
            for _ in range(3):
                env2 = dict(env)
                movable = [f for f in prog.cond_fields() if f not in (prog.splitters or [])]
                if not movable or r0 == "error":
                    break
                f = rng.choice(movable)
                env2[f] = gen.gen_env(prog, rng)[f]
                try:
                    same = gen.route(prog, env2) is r0
                except Exception:  # noqa
                    same = False
                if same:
                    expect_same("condition value moved within the routed branch", lambda: ev(**env2), {f: repr(env2[f])})
            # missing declared field
            if declared:
                f = rng.choice(sorted(declared))
                env3 = {k: v for k, v in env.items() if k != f}
                out = common.outcome_of(lambda: ev(**env3))
                ctx.count("transform:missing field")
                if out != {"e": "MissingField"}:
                    ctx.violation(f"missing declared field {f!r} is not reported: {json.dumps(out)[:80]} for {text[:160]}",
                                  {"text": text, "env": common.enc_env(env3), "missing": f, "impl": out})
                # … also when extra keyword arguments LOOK like the missing field (other letter case, surrounding underscore,
                # a trailing digit, the name in a mapping): an extra argument never stands in for a declared one
                for alias in {f.upper(), f.capitalize(), f.swapcase(), f.lower(), "_" + f, f + "_", f + "1", " " + f} - {f} - set(env3):
                    env4 = dict(env3, **{alias: env[f]})
                    out4 = common.outcome_of(lambda: ev(**env4))
                    ctx.count("transform:missing field with look-alike extra")
                    if out4 != {"e": "MissingField"}:
                        ctx.violation(f"missing declared field {f!r} is not reported when an extra argument {alias!r} is present: {json.dumps(out4)[:80]} for {text[:140]}",
                                      {"text": text, "env": common.enc_env(env4), "missing": f, "alias": alias, "impl": out4})
                        break
        # converse: the result varies across salts and splitter values (measured over a value stream)
        if prog.splitters and len(prog.returns()[0][1]) > 1:
            vals = set()
            s = prog.splitters[0]
            for k in range(40):
                e2 = dict(envs[0]); e2[s] = "unit_%d" % k
                o = common.outcome_of(lambda: ev(**e2))
                vals.add(json.dumps(o))
            seen_groups["value"].add(len(vals) > 1)
    ctx.extra["varies_with_splitter_value"] = {"programs_where_result_varied": sum(1 for x in seen_groups["value"] if x)}
    # salts: same program, 30 salts, one unit: more than one group must be observed overall
    from pyab_experiment.experiment_evaluator import ExperimentEvaluator
    outs = set()
    for k in range(30):
        ev = ExperimentEvaluator('def e { salt: "s%d" splitters: u return "a" weighted 1, "b" weighted 1 }' % k)
        outs.add(ev(u="unit"))
    if len(outs) < 2:
        ctx.violation("the result does not vary across salts (30 salts, one unit, two equal groups)", {"observed": sorted(outs)})


def run(ctx):
    n = N[ctx.tier]
    if ctx.obligation_breaks or ctx.tie_breaks:
        n *= 3
    ctx.extra["rule"] = ("pairs of calls / pairs of programs related by one transformation: extra kwargs, kwargs order, experiment renamed, "
                         "splitters permuted and repeated, condition values moved within the routed branch, a declared field removed; "
                         "converse measured over value and salt streams")
    run_batch(ctx, n)
    # "the values of condition fields do not matter as long as the same return statement is selected" — also values of kinds the literals are not
    progcases.run_cases(ctx, gen.membership_cases(ctx.rng, 60 if ctx.tier == "quick" else 1500), check_model=False, want_stages=False)
    # sibling field names (digit runs, leading zeros): the key order is the code-point order of the names
    rng = ctx.rng
    cases = []
    for names in (["f2", "f10"], ["f10", "f2", "f1"], ["bucket_1", "bucket_01"], ["bucket_01", "bucket_1", "bucket_001"], ["a9", "a10", "a09", "A10"]):
        for decl in (names, list(reversed(names))):
            prog = gen.Program("e", gen.lit_str("s", quote='"'), decl, ("ret", [(gen.lit_str("a", quote='"'), "1"), (gen.lit_str("b", quote='"'), "2"), (gen.lit_str("c", quote='"'), "1")]),
                               {x: "any" for x in names})
            cases.append({"prog": prog, "text": gen.render(prog, rng, "plain"), "envs": [{x: "v%d%s" % (k, x[-1]) for x in names} for k in range(6)]})
    progcases.run_cases(ctx, cases, want_stages=False)
    # every one of very many splitter fields reaches the key
    import random
    progcases.run_cases(ctx, gen.many_splitter_cases(random.Random(ctx.seed), None if ctx.tier == 'thorough' else [129, 130, 258, 388, 513]), check_model=False, want_stages=False)


def search(ctx):
    run_batch(ctx, 1200, with_model=False)
