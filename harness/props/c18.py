"""C18 — confidence-interval helpers are well-formed, conservative and as documented."""
import json
import math
import struct
from decimal import Decimal, getcontext
from statistics import NormalDist

import common

N = {"quick": 1, "thorough": 6}
METHODS = ["agresti-coull", "wald"]


def bits(x):
    return str(struct.unpack("<Q", struct.pack("<d", x))[0])


def mant_exp(x):
    n, d = float(x).as_integer_ratio()
    return [n, -(d.bit_length() - 1)]


def grids(ctx, scale):
    rng = ctx.rng
    ns = sorted({1, 2, 3, 5, 10, 30, 100, 1000, 10 ** 4, 10 ** 5, 10 ** 6, 10 ** 7, 10 ** 8, 10 ** 9}
                | {int(10 ** (rng.random() * 9)) or 1 for _ in range(6 * scale)})
    ps = sorted({0.0, 1.0, 0.5, 0.01, 0.99, 0.1, 0.9, 1e-9, 1 - 1e-9, 0.25, 1 / 3} | {rng.random() for _ in range(4 * scale)})
    cs = sorted({0.5, 0.8, 0.9, 0.95, 0.99, 0.999, 1e-12, 1 - 1e-12, 0.01, 0.3} | {rng.random() for _ in range(4 * scale)}
                # next to the ends of (0,1): the largest doubles below 1, the smallest above 0
                | {1 - 2.0 ** -53, 1 - 3 * 2.0 ** -53, 1 - 2.0 ** -52, 1 - 1e-13, 1 - 1e-15, 1 - 1e-9, 1e-15, 1e-100, 5e-324, 2.0 ** -53}
                # small confidence levels: alpha/2 next to the median
                | {1e-3, 1.9e-4, 1e-4, 3e-5, 1e-5, 1e-6, 1e-8})
    alphas = sorted({k / 1024 for k in range(1, 1024)} | {1e-12, 1e-9, 1e-6, 1 - 1e-6, 1 - 1e-12} | {rng.random() for _ in range(200 * scale)}
                    # the far tails: every binade boundary region down to the smallest positive float, and next to 1
                    | {10.0 ** -k for k in (13, 14, 15, 16, 17, 18, 20, 25, 30, 50, 80, 100, 113, 120, 150, 200, 250, 300, 307, 308, 310, 320)}
                    | {2.0 ** -k for k in (40, 50, 51, 52, 53, 54, 60, 64, 100, 500, 1000, 1022, 1023, 1050, 1074)}
                    | {2.220446049250313e-16, 1.1102230246251565e-16, 5e-324, 1 - 2.0 ** -53, 1 - 2.0 ** -52, 1 - 2.0 ** -51, 1 - 2.0 ** -40, 1 - 1e-15}
                    | {10.0 ** -(rng.random() * 320) for _ in range(20 * scale)}
                    # next to the median, on both sides, at every scale down to one ulp: where a series, a shortcut or a table replaces the formula
                    | {0.5 + sg * 2.0 ** -k for k in range(2, 54) for sg in (-1, 1)} | {0.5 + sg * 10.0 ** -k for k in range(1, 17) for sg in (-1, 1)}
                    | {0.5 + sg * m * 10.0 ** -k for k in range(2, 8) for m in (2, 3, 5, 9, 9.9) for sg in (-1, 1)}
                    | {0.5 + rng.choice((-1, 1)) * 10.0 ** -(0.31 + rng.random() * 15.7) for _ in range(40 * scale)}
                    # and next to every other point where a piecewise approximation could switch: 0.1, 0.25, 0.025, 0.05, 0.01, 0.001 ...
                    | {c * (1 + sg * 2.0 ** -k) for c in (0.25, 0.1, 0.05, 0.025, 0.02425, 0.01, 0.005, 0.001, 0.75, 0.9, 0.975) for k in (10, 20, 30, 40, 52) for sg in (-1, 1)})
    alphas = [a for a in alphas if 0.0 < a < 1.0]          # the documented domain
    return ns, ps, cs, alphas


def upper_quantile(a):
    """x with P(Z > x) = a for the standard normal, by bisection on erfc (valid down to a ~ 1e-300)"""
    lo, hi = 0.0, 40.0
    for _ in range(200):
        mid = (lo + hi) / 2
        if 0.5 * math.erfc(mid / math.sqrt(2)) > a:
            lo = mid
        else:
            hi = mid
    return lo


def high_precision_interval(n, p, z, method):
    getcontext().prec = 60
    n, p, z = Decimal(n), Decimal(p), Decimal(z)
    if method == "wald":
        w = z * (p * (1 - p) / n).sqrt()
        return p - w, p + w
    nt = n + z * z
    pt = (n * p + z * z / 2) / nt
    w = z * (pt * (1 - pt) / nt).sqrt()
    return pt - w, pt + w


def ulps(a_bits, x):
    """distance in units in the last place between the model's bits and the implementation's float"""
    try:
        a = struct.unpack("<d", struct.pack("<Q", int(a_bits)))[0]
    except Exception:  # noqa
        return 1 << 62
    if a == x:
        return 0
    if math.isnan(a) or math.isnan(x) or math.isinf(a) or math.isinf(x):
        return 1 << 62
    ia, ix = (struct.unpack("<q", struct.pack("<d", v))[0] for v in (a, x))
    if (ia < 0) != (ix < 0):
        return 1 << 62 if abs(a - x) > 1e-300 else 1
    return abs(ia - ix)


ULP_TOL = 16     # a re-association of the same formula moves results by a few ulp: advisory drift, not a broken tie


def close(a, b, rel=1e-12, abs_=1e-15):
    return abs(a - b) <= max(rel * max(abs(a), abs(b)), abs_)


def thread_stress(ctx, duration):
    """several threads ask for intervals at different confidence levels at the same time; each answer must be the sequential one"""
    import sys
    import threading
    import time
    from pyab_experiment.utils import stats
    levels = [0.5, 0.999, 0.9, 0.95, 0.99]
    want = {(c, m): stats.confidence_interval(n=40, p=0.3, confidence=c, method=m) for c in levels for m in METHODS}
    wantz = {a: stats.probit(a) for a in (0.25, 0.0005, 0.05)}
    errors = []
    stop = time.time() + duration
    calls = [0]

    def worker(tid):
        k = tid
        while time.time() < stop and not errors:
            c, m = levels[k % len(levels)], METHODS[(k // 3) % 2]
            got = stats.confidence_interval(n=40, p=0.3, confidence=c, method=m)
            if got != want[(c, m)]:
                errors.append({"confidence": c, "method": m, "concurrent": list(got), "sequential": list(want[(c, m)]), "thread": tid})
            a = (0.25, 0.0005, 0.05)[k % 3]
            if stats.probit(a) != wantz[a]:
                errors.append({"alpha": a, "thread": tid})
            k += 1 if tid % 2 else 2
            calls[0] += 1
    old = sys.getswitchinterval()
    sys.setswitchinterval(1e-6)
    try:
        ths = [threading.Thread(target=worker, args=(i,)) for i in range(4)]
        for t in ths:
            t.start()
        for t in ths:
            t.join()
    finally:
        sys.setswitchinterval(old)
    ctx.count("ci:threaded-calls", calls[0])
    for e in errors[:2]:
        ctx.violation(f"confidence_interval / probit called from several threads at once returns something else than sequentially: {json.dumps(e)[:240]}", e)


def run(ctx, with_model=True):
    from pyab_experiment.utils import stats
    scale = N[ctx.tier]
    ns, ps, cs, alphas = grids(ctx, scale)
    ctx.extra["rule"] = ("n on a log grid 1..1e9, p on a grid of [0,1] incl. endpoints, confidence on a grid of (0,1) incl. 1e-12 and "
                         "1-1e-12, both methods, method-name case variants and unknown names; alpha on a dense grid of (0,1); returned "
                         "floats compared bit-for-bit with the Lean Float instance of the same generic definition that the real-valued "
                         "theorems are about; order properties asserted on the real code's floats")
    ctx.assumptions += ["real-valued theorems; binary64 behaviour tied by bit-exact correspondence on the grid and by order checks, not proved",
                        "Lean's Float.log / Float.pow call the same libm as CPython (checked bit-for-bit on every grid point)"]
    reqs, plan = [], []
    for a in alphas:
        reqs.append({"op": "stats", "kind": "probit", "alpha": mant_exp(a)})
        plan.append(("probit", a))
    for n in ns:
        for p in ps:
            for c in cs:
                for m in METHODS:
                    reqs.append({"op": "stats", "kind": "ci", "n": mant_exp(float(n)), "p": mant_exp(p), "confidence": mant_exp(c), "method": m})
                    plan.append(("ci", n, p, c, m))
    for m in ["Wald", "WALD", "Agresti-Coull", "AGRESTI-COULL", "wilson", "", "wald ", "agresti_coull", "exact", "clopper-pearson",
              # names that only LOOK like (or fold to) a known one: long s, st ligatures, fullwidth, Kelvin / dotted-I style case pairs, zero-width characters
              "agre\u017fti-coull", "agre\ufb06i-coull", "agre\ufb05i-coull", "\uff57ald", "wald\u200b", "\u200bwald", "w\u0430ld", "WA\u212aLD".replace("\u212a", "") + "\u212a"[:0],
              "agresti\u2010coull", "agresti\u2013coull", "Agresti\u00adCoull", "wa\u0131d", "WALD\u0307", "ＷＡＬＤ", "agresti-coull\n", " wald", "Wald\x00"]:
        reqs.append({"op": "stats", "kind": "ci", "n": mant_exp(10.0), "p": mant_exp(0.5), "confidence": mant_exp(0.95), "method": m})
        plan.append(("ci", 10, 0.5, 0.95, m))
    answers = [None] * len(reqs)
    if with_model and ctx.driver_ok:
        try:
            answers = common.run_driver_parallel(reqs, jobs=12)
        except Exception as ex:  # noqa
            ctx.obligation_breaks.append({"what": "model-driver-run", "detail": repr(ex)[:400]})
    nd = NormalDist()
    widths = {}
    for item, ans in zip(plan, answers):
        if item[0] == "probit":
            a = item[1]
            z = stats.probit(a)
            ctx.case(("probit", a), True, sample={"alpha": a, "probit": z})
            ctx.count("probit")
            if ans is not None and ans.get("bits") != bits(z):
                if "bits" in ans and ulps(ans["bits"], z) <= ULP_TOL:
                    ctx.drift("probit-last-bits", {"alpha": a, "impl": z, "model_bits": ans})
                else:
                    ctx.tie_break("probit-bits", {"alpha": a, "impl": z, "model_bits": ans})
            if not (z >= 0):
                ctx.violation(f"probit({a!r}) = {z!r} is negative", {"alpha": a, "z": z})
            q = nd.inv_cdf(1 - a) if 0 < 1 - a < 1 and a > 1e-10 else upper_quantile(a) if 1e-300 <= a <= 1e-10 else None
            if a <= 0.5 and q is not None and z < q - 1e-12 * max(1, abs(q)):
                ctx.violation(f"probit({a!r}) = {z!r} is smaller than the normal quantile {q!r}", {"alpha": a, "z": z, "quantile": q})
            # symmetry where 1-a is exact
            b = 1 - a
            if 1 - b == a:
                zb = stats.probit(b)
                if not close(z, zb, rel=1e-9, abs_=1e-9):
                    ctx.violation(f"probit not symmetric: probit({a!r})={z!r}, probit({b!r})={zb!r}", {"alpha": a})
            continue
        _, n, p, c, m = item
        out = common.outcome_of(lambda: stats.confidence_interval(n=n, p=p, confidence=c, method=m))
        ctx.case(("ci", n, p, c, m), True, sample={"n": n, "p": p, "confidence": c, "method": m, "impl": str(out)[:80]})
        known = m.lower() in ("agresti-coull", "wald")
        ctx.count("ci:" + (m.lower() if known else "unknown-method"))
        if not known:
            if out != {"e": "Other:NotImplementedError"}:
                ctx.violation(f"unknown method {m!r} not refused: {out}", {"method": m, "impl": str(out)})
            if ans is not None and ans.get("e") != "NotImplemented":
                ctx.tie_break("ci-method", {"method": m, "model": ans})
            continue
        if "g" not in out:
            ctx.violation(f"confidence_interval({n},{p},{c},{m!r}) raised {out}", {"n": n, "p": p, "c": c, "m": m, "impl": out})
            continue
        lo, hi = stats.confidence_interval(n=n, p=p, confidence=c, method=m)
        if ans is not None and (ans.get("lo") != bits(lo) or ans.get("hi") != bits(hi)):
            # near-cancellation (lower bound close to 0) amplifies ulps: compare on the scale of the interval
            scale_ok = "lo" in ans and "hi" in ans and all(
                ulps(ans[k], v) <= ULP_TOL or abs(struct.unpack("<d", struct.pack("<Q", int(ans[k])))[0] - v) <= 1e-15 * max(1.0, abs(hi))
                for k, v in (("lo", lo), ("hi", hi)))
            if scale_ok:
                ctx.drift("ci-last-bits", {"n": n, "p": p, "c": c, "m": m})
            else:
                ctx.tie_break("ci-bits", {"n": n, "p": p, "c": c, "m": m, "impl": [lo, hi], "model_bits": ans})
        if not (lo <= hi):
            ctx.violation(f"lower > upper: {lo!r} > {hi!r} for n={n} p={p!r} confidence={c!r} {m}", {"n": n, "p": p, "c": c, "m": m})
        z = stats.probit((1 - c) / 2)
        elo, ehi = high_precision_interval(n, p, z, m.lower())
        if not (close(lo, float(elo), 1e-9, 1e-12) and close(hi, float(ehi), 1e-9, 1e-12)):
            ctx.violation(f"result differs from the textbook {m} formula: got ({lo!r},{hi!r}) expected ({float(elo)!r},{float(ehi)!r}) "
                          f"n={n} p={p!r} confidence={c!r}", {"n": n, "p": p, "c": c, "m": m, "impl": [lo, hi], "formula": [str(elo), str(ehi)]})
        widths[(m.lower(), n, p, c)] = hi - lo
    # the numeric TYPE of an argument is not part of its value: p = 1 is the proportion 1.0, n = 10.0 is n = 10
    for m in METHODS:
        for n in (1, 2, 10, 1000):
            for c in (0.5, 0.95, 0.999):
                for a, b in ((dict(n=n, p=1), dict(n=n, p=1.0)), (dict(n=n, p=0), dict(n=n, p=0.0)), (dict(n=n, p=True), dict(n=n, p=1.0)),
                             (dict(n=float(n), p=0.5), dict(n=n, p=0.5)), (dict(n=n, p=False), dict(n=n, p=0.0))):
                    oa = common.outcome_of(lambda: stats.confidence_interval(confidence=c, method=m, **a))
                    ob = common.outcome_of(lambda: stats.confidence_interval(confidence=c, method=m, **b))
                    ctx.case(("ci-type", m, n, c, repr(a)), True)
                    ctx.count("ci:argument-type-pairs")
                    if oa != ob:
                        ctx.violation(f"confidence_interval({a}, confidence={c}, {m!r}) = {json.dumps(oa)[:90]} but with the same values as floats/ints {b}: {json.dumps(ob)[:90]}",
                                      {"a": repr(a), "b": repr(b), "c": c, "m": m, "impl_a": oa, "impl_b": ob})
    thread_stress(ctx, 1.5 if ctx.tier == "quick" else 20.0)
    schedules(ctx, 30 if ctx.tier == "quick" else 400)
    # narrowing with n, widening with confidence (tolerance: a few ulp of the width scale)
    for m in METHODS:
        for p in ps:
            for c in cs:
                prev = None
                for n in ns:
                    w = widths.get((m, n, p, c))
                    if w is None:
                        continue
                    if prev is not None and w > prev[1] * (1 + 1e-9) + 1e-15:
                        ctx.violation(f"{m} interval does not narrow as n grows: width({prev[0]})={prev[1]!r} < width({n})={w!r} "
                                      f"p={p!r} confidence={c!r}", {"m": m, "p": p, "c": c, "n": [prev[0], n]})
                    prev = (n, w)
            for n in ns:
                prev = None
                for c in cs:
                    w = widths.get((m, n, p, c))
                    if w is None:
                        continue
                    if prev is not None and w < prev[1] * (1 - 1e-9) - 1e-15:
                        ctx.violation(f"{m} interval does not widen as confidence grows: width({prev[0]!r})={prev[1]!r} > width({c!r})={w!r} "
                                      f"n={n} p={p!r}", {"m": m, "p": p, "n": n, "c": [prev[0], c]})
                    prev = (c, w)


def schedules(ctx, budget):
    """systematic one-preemption schedules (harness/sched.py) over two calls at different confidence levels"""
    import sched

    def make_ops():
        from pyab_experiment.utils import stats
        ci = lambda c, m="agresti-coull": (lambda: list(stats.confidence_interval(n=40, p=0.3, confidence=c, method=m)))
        return ci(0.999), ci(0.5), [ci(0.999), ci(0.9, "wald"), lambda: stats.probit(0.01)]
    findings, tried = sched.explore(make_ops, budget, ctx.rng)
    ctx.count("schedules:two confidence levels", tried)
    for f in findings[:1]:
        ctx.violation(f"one-preemption schedule: a call at confidence 0.999 suspended at its line event {f.get('k')} while a call at 0.5 runs — the results are those of "
                      f"neither serial order: {json.dumps(f)[:300]}", f)


def search(ctx):
    schedules(ctx, 400)
    if not ctx.violations:
        run(ctx, with_model=False)
