"""C02 — compiled routing = nested if / else-if / else with the usual operator meaning."""
import gen
import progcases

TWINS = ['pred']      # harness/twins.py: which part of a twin text carries the difference

N = {"quick": 700, "thorough": 20000}
LEAN_MODULE = "Pyab.Properties.C02_full"


def make_cases(ctx, n):
    rng = ctx.rng
    cases = []
    for i in range(n):
        opts = gen.GenOpts(single_group_labels=True, max_depth=rng.choice([1, 2, 3, 4]), max_chain=rng.choice([0, 1, 3, 6]),
                           max_pred_depth=rng.choice([0, 1, 2, 4]), redundant_parens=rng.choice([0.0, 0.2, 0.5]),
                           p_else=rng.choice([0.2, 0.6, 0.9]), p_shared=0.0, ascii_only=rng.random() < 0.7, p_cond=1.0,
                           tuples_with_idents=False, ident_pool=gen.PLAIN_IDENTS)
        prog = gen.gen_program(rng, opts)
        text = gen.render(prog, rng, rng.choice(["plain", "plain", "tight"]))
        envs = [gen.gen_env(prog, rng) for _ in range(6)]
        # unordered / extreme numeric values are floats too: nan compares false with everything
        num = [f for f, t in prog.fields.items() if t in ("int", "float", "num") and f in prog.cond_fields()]
        if num:
            e = dict(envs[0])
            e[rng.choice(num)] = rng.choice([float("nan"), float("inf"), float("-inf")])
            envs.append(e)
        cases.append({"prog": prog, "text": text, "envs": envs})
    return cases


def name_cases(ctx):
    """condition fields named like identifiers of the generated code / the host language: routing is on the caller's value of the
    field, whatever the generated function calls its own locals"""
    rng = ctx.rng
    L = lambda t: gen.lit_str(t, quote='"')
    one = lambda t: ("ret", [(L(t), "1")])
    cases = []
    for nm in gen.host_names():
        cond = ("if", ("cmp", ("id", nm), ">", ("lit", gen.lit_int(3))), one("hi"),
                ("elif", ("cmp", ("id", nm), "==", ("lit", gen.lit_int(3))), one("eq"), ("else", one("lo"))))
        prog = gen.Program("e", L("s"), ["uid"], cond, {"uid": "any", nm: "int"})
        cases.append({"prog": prog, "text": gen.render(prog, rng, "plain"), "envs": [{"uid": "u%d" % k, nm: v} for k, v in enumerate((5, 3, 1, 3.5))]})
    return cases


def run(ctx):
    n = N[ctx.tier]
    if ctx.obligation_breaks or ctx.tie_breaks:
        n *= 3
    ctx.extra["rule"] = ("programs from the typed grammar generator with one distinct single-group label per return "
                         "statement (the result identifies the branch); inputs derived from each literal (equal, ±1, "
                         "±1ulp, other type); distinct = distinct source text; non-trivial = compiled")
    ctx.extra["table_obligations"] = 1
    progcases.run_cases(ctx, name_cases(ctx) + make_cases(ctx, n) + gen.sweep_cases(ctx.rng, 1.0 if ctx.tier == 'thorough' else 0.2))
    progcases.run_cases(ctx, gen.membership_cases(ctx.rng, 80 if ctx.tier == 'quick' else 2000), check_model=False, want_stages=False)
    progcases.run_cases(ctx, gen.two_word_token_cases(), want_stages=False)
    progcases.run_cases(ctx, gen.negated_comparison_cases(), check_model=False, want_stages=False)
    progcases.run_cases(ctx, gen.repeated_leaf_programs(ctx.rng, None if ctx.tier == 'thorough' else [2, 8, 21, 32, 64]), check_model=False, want_stages=False)


def search(ctx):
    progcases.run_cases(ctx, name_cases(ctx) + make_cases(ctx, 2000), check_model=False, want_stages=False)
