"""C11 — evaluator lifecycle: recompile is atomic, repeatable and instance-local."""
import json

import common
import gen

TWINS = ['pred', 'weights', 'salt', 'label', 'trivia', 'invalid']      # harness/twins.py: which part of a twin text carries the difference

N = {"quick": 250, "thorough": 4000}
LEN = {"quick": 40, "thorough": 400}

INVALID = [
    'def e { return "a" weighted }',                       # syntactic
    'def e { splitters: u return "a" weighted 1 ',         # missing brace
    'def e { splitters: u return "a" weighted 1 } @',      # lexical
    'def e { splitters: u if u = 1 { return "a" weighted 1 } }',   # lone '='
    'def e { splitters: u return "a" weighted 1 } def f { return "b" weighted 1 }',   # two definitions
    '',
    'def e { splitters: class return "a" weighted 1 }',    # fails in compile() of the generated text
    'def e { splitters: u return "a" weighted 1 } /* notes',   # ends inside a block comment
    'def e { splitters: u return "a  b" weighted 1 ',          # (whitespace inside a literal, and no closing brace)
]


def texts(rng):
    valid = []
    for name in ("e", "e", "f", "exp2", rng.choice(["str", "map", "partial", "deterministic_choice", "recompile", "run_experiment", "_checksum"])):
        salt = rng.choice(["", 'salt: "s1"', 'salt: "s2"'])
        w1, w2 = rng.choice([(1, 1), (1, 9), (9, 1), (0, 1), (3, 2)])
        valid.append(f'def {name} {{ {salt} splitters: u return "A" weighted {w1}, "B" weighted {w2} }}')
        valid.append(f'def {name} {{ {salt} splitters: u if x > 5 {{ return "hi" weighted {w1}, "HI" weighted {w2} }} '
                     f'else {{ return "lo" weighted 1 }} }}')
    valid.append('def g { splitters: u, v return 1 weighted 1, 2 weighted 1, 3 weighted 1 }')
    valid.append('def w { splitters: u return "group A" weighted 1, "x" weighted 1 }')
    valid.append('def w { splitters: u return "group  A" weighted 1, "x" weighted 1 }')      # differs only in white space inside a literal
    valid.append('def w { splitters: u  return  "group A"  weighted 1,\n "x" weighted 1 } // c')  # differs only in layout
    return valid, list(INVALID)


def gen_history(rng, length):
    valid, invalid = texts(rng)
    ops = []
    live = set()
    for _ in range(length):
        r = rng.random()
        ident = rng.randrange(4)
        text = rng.choice(valid) if rng.random() < 0.6 else rng.choice(invalid)
        if r < 0.15 or not live:
            ops.append(["new", ident, text])
            live.add(ident)      # may fail; the harness tracks real liveness itself
        elif r < 0.5:
            # often: repeat the previous recompile text (the "same invalid text again" clause)
            prev = [o for o in ops if o[0] in ("new", "recompile")]
            if prev and rng.random() < 0.4:
                text = prev[-1][2]
                if rng.random() < 0.7:
                    ident = prev[-1][1]
            ops.append(["recompile", ident, text])
        else:
            env = {"u": rng.choice(["u1", "u2", 3, "user_%d" % rng.randrange(50)]), "x": rng.choice([1, 5, 6, 10]),
                   "v": rng.choice([0, "z"])}
            ops.append(["call", ident, env])
    return ops


def fresh_outcome(text, env):
    from pyab_experiment.experiment_evaluator import ExperimentEvaluator
    return common.outcome_of(lambda: ExperimentEvaluator(text)(**env))


def compiles(text):
    from pyab_experiment.experiment_evaluator import ExperimentEvaluator
    try:
        common.quiet(lambda: ExperimentEvaluator(text))
        return True
    except Exception:  # noqa
        return False


def run_history(ctx, ops, model_outs):
    """drive real evaluators op by op; compare each output with the spec (fresh evaluator of
    the last accepted text) and with the model"""
    from pyab_experiment.experiment_evaluator import ExperimentEvaluator
    objs, accepted = {}, {}
    for k, op in enumerate(ops):
        kind, ident = op[0], op[1]
        if kind == "new":
            text = op[2]
            try:
                ev, _ = common.quiet(lambda: ExperimentEvaluator(text))
                objs[ident] = ev
                out = "ok"
            except Exception as ex:  # noqa
                out = {"e": common.classify_exc(ex)}
            ok = compiles(text)
            expect_ok = ok
            if expect_ok:
                accepted[ident] = text
            spec = "ok" if expect_ok else "raise"
        elif kind == "recompile":
            text = op[2]
            if ident not in objs:
                out, spec = "no-such-evaluator", "no-such-evaluator"
            else:
                try:
                    common.quiet(lambda: objs[ident].recompile(text))
                    out = "ok"
                except Exception as ex:  # noqa
                    out = {"e": common.classify_exc(ex)}
                if text == accepted[ident] or compiles(text):
                    spec = "ok"
                    accepted[ident] = text
                else:
                    spec = "raise"
        else:
            env = op[2]
            if ident not in objs:
                out, spec = "no-such-evaluator", "no-such-evaluator"
            else:
                out = common.outcome_of(lambda: objs[ident](**env))
                spec = fresh_outcome(accepted[ident], env)
        ctx.count("op:" + kind)
        # spec comparison
        good = (spec == "raise" and isinstance(out, dict) and "e" in out) or (spec != "raise" and out == spec)
        if not good:
            ctx.violation(
                f"history step {k} ({kind} on evaluator {ident}): implementation gives {json.dumps(out)[:100]}, an evaluator "
                f"that behaves like a fresh one built from its last accepted text gives {json.dumps(spec)[:100]}",
                {"history": [[o[0], o[1], o[2] if o[0] != "call" else common.enc_env(o[2])] for o in ops[:k + 1]],
                 "step": k, "impl": out, "spec": spec})
            return
        if model_outs is not None:
            mo = model_outs[k]
            if mo != out:
                ctx.tie_break("lifecycle", {"step": k, "op": [kind, ident], "impl": out, "model": mo,
                                            "history_len": len(ops)})
                return


def run_batch(ctx, n, length, with_model=True):
    rng = ctx.rng
    hists = [gen_history(rng, rng.randint(3, length)) for _ in range(n)]
    # corpus: the shortest histories that exercise each clause
    bad, good = INVALID[0], 'def e { splitters: u return "A" weighted 1, "B" weighted 1 }'
    hists[:0] = [
        [["new", 0, good], ["recompile", 0, bad], ["recompile", 0, bad], ["call", 0, {"u": "u1"}]],
        [["new", 0, good], ["recompile", 0, INVALID[6]], ["recompile", 0, INVALID[6]], ["call", 0, {"u": "u1"}]],
        [["new", 0, bad], ["new", 0, bad], ["call", 0, {"u": "u1"}]],
        [["new", 0, good], ["new", 1, good.replace("1,", "9,")], ["recompile", 1, bad], ["call", 0, {"u": "u7"}], ["call", 1, {"u": "u7"}]],
    ]
    # near-twin texts: recompile from one to the other, then call on many units (a recompile that is
    # wrongly taken for "unchanged" shows only on the units whose group differs)
    a = 'def w { splitters: u return "group A" weighted 1, "x" weighted 1 }'
    twins = [(a, a.replace("group A", "group  A")), (a.replace("group A", "group  A"), a),
             (a, a.replace("group A", "group\tA")), (a, a.replace('"x" weighted 1', '"x" weighted 1.0')),
             (a, a.replace("weighted 1,", "weighted 1 ,").replace("group A", "Group A")),
             (a, a.replace("def w {", "def w { // c\n")), (a, a.replace("splitters: u", "splitters: u // note\n") + " "),
             (a, a.replace('return "group A"', 'return "group A" // old: "group B"\n')),
             (a, 'def w { splitters: u // return "a" weighted 1 }'), (a, a.upper().replace("DEF W", "def w").replace("SPLITTERS: U RETURN", "splitters: u return").replace("WEIGHTED", "weighted"))]
    calls = [["call", 0, {"u": u}] for u in ["u1", "u2", "u3", 3, 4, "user_7", "user_8", "zz"]]
    for t1, t2 in twins:
        hists.insert(0, [["new", 0, t1]] + calls[:3] + [["recompile", 0, t2]] + calls + [["recompile", 0, t2]] + calls[:2])
    # endurance: one evaluator taken through hundreds of distinct texts (and back to earlier ones), asked after every step
    nlong = 150 if n <= 300 else 5000
    long_hist = [["new", 0, 'def t0 { splitters: u return "a" weighted 1, "b" weighted 1 }']]
    seen_texts = []
    for k in range(nlong):
        if seen_texts and rng.random() < 0.2:
            t = rng.choice(seen_texts)
        else:
            t = 'def t%d { salt: "s%d" splitters: u return "a" weighted %d, "b" weighted %d, "c%d" weighted 1 }' % (k % 5, k, 1 + k % 7, 1 + (k * 3) % 5, k)
            seen_texts.append(t)
        long_hist.append(["recompile", 0, t])
        long_hist.append(["call", 0, {"u": "u%d" % (k % 9), "x": 1, "v": 0}])
    hists.insert(0, long_hist)
    models = [None] * len(hists)
    if with_model and ctx.driver_ok:
        reqs = [{"op": "life", "ops": [[o[0], o[1], o[2] if o[0] != "call" else common.enc_env(o[2])] for o in h]} for h in hists]
        try:
            models = [a.get("outs") for a in common.run_driver_parallel(reqs, jobs=12)]
        except Exception as ex:  # noqa
            ctx.obligation_breaks.append({"what": "model-driver-run", "detail": repr(ex)[:400]})
    for h, m in zip(hists, models):
        ctx.case(json.dumps([[o[0], o[1], str(o[2])] for o in h]), True,
                 sample=[[o[0], o[1], (o[2] if o[0] != "call" else common.enc_env(o[2]))] for o in h[:6]])
        run_history(ctx, h, m)


def transient_failures(ctx):
    """a text that is refused for a reason that has nothing to do with the text (the caller's stack was nearly exhausted; an
    interpreter limit that is lifted afterwards) is an ordinary text the next time it is submitted"""
    import sys
    from pyab_experiment.experiment_evaluator import ExperimentEvaluator
    a = 'def e { salt: "a" splitters: u return "A1" weighted 1, "A2" weighted 1 }'
    chain = " ".join('else if x == %d { return "b%d" weighted 1 }' % (k, k) for k in range(1, 40))
    b = 'def e { salt: "b" splitters: u if x == 0 { return "b0" weighted 1 } %s else { return "B" weighted 1, "B2" weighted 1 } }' % chain
    units = [{"u": "u%d" % i, "x": -1} for i in range(12)]

    def deep(n, f):
        if n <= 0:
            return f()
        return deep(n - 1, f)

    def depth_now():
        d, fr = 0, sys._getframe()
        while fr is not None:
            d, fr = d + 1, fr.f_back
        return d

    for margin in (12, 25, 40, 60, 90):
        ev, _ = common.quiet(lambda: ExperimentEvaluator(a))
        want_a = [common.outcome_of(lambda e=e: ev(**e)) for e in units]
        room = sys.getrecursionlimit() - depth_now() - margin
        try:
            common.quiet(lambda: deep(room, lambda: ev.recompile(b)))
            first = "ok"
        except RecursionError:
            first = "RecursionError"
        except Exception as ex:  # noqa
            first = common.classify_exc(ex)
        ctx.count("transient:deep-stack:" + first)
        ctx.case(("transient", "deep-stack", margin), True)
        if first == "ok":
            continue
        mid = [common.outcome_of(lambda e=e: ev(**e)) for e in units]
        if mid != want_a:
            ctx.violation(f"a recompile that raised {first} (caller's stack nearly exhausted) changed what the evaluator answers",
                          {"history": [["new", 0, a], ["recompile-from-deep-stack", 0, b]], "margin": margin, "before": want_a[:3], "after": mid[:3]})
            continue
        try:
            common.quiet(lambda: ev.recompile(b))
            second = "ok"
        except Exception as ex:  # noqa
            second = common.classify_exc(ex)
        fresh = [common.outcome_of(lambda e=e: ExperimentEvaluator(b)(**e)) for e in units]
        after = [common.outcome_of(lambda e=e: ev(**e)) for e in units]
        if second != "ok" or after != fresh:
            ctx.violation(f"a valid text that was refused once with {first} (the caller's stack was nearly exhausted) is resubmitted from a shallow stack: "
                          f"recompile gives {second}, the evaluator answers {json.dumps(after[0])[:60]}; a fresh evaluator of that text answers {json.dumps(fresh[0])[:60]}",
                          {"history": [["new", 0, a], ["recompile-from-deep-stack", 0, b], ["recompile", 0, b], ["call", 0, common.enc_env(units[0])]],
                           "first": first, "second": second, "impl": after[:3], "fresh": fresh[:3]})
    # an interpreter limit lifted between two submissions of the same text
    if hasattr(sys, "set_int_max_str_digits"):
        big = 'def e { salt: "c" splitters: u if x < %s { return "C1" weighted 1, "C2" weighted 1 } else { return "z" weighted 1 } }' % ("9" * 5000)
        ev, _ = common.quiet(lambda: ExperimentEvaluator(a))
        try:
            common.quiet(lambda: ev.recompile(big))
            first = "ok"
        except Exception as ex:  # noqa
            first = common.classify_exc(ex)
        old = sys.get_int_max_str_digits()
        try:
            sys.set_int_max_str_digits(0)
            try:
                common.quiet(lambda: ev.recompile(big))
                second = "ok"
            except Exception as ex:  # noqa
                second = common.classify_exc(ex)
            try:
                common.quiet(lambda: ExperimentEvaluator(big))
                fresh_ok = "ok"
            except Exception as ex:  # noqa
                fresh_ok = common.classify_exc(ex)
            ctx.count("transient:int-limit:" + first + "->" + second)
            ctx.case(("transient", "int-limit"), True)
            if first != "ok" and fresh_ok == "ok" and second != "ok":
                ctx.violation(f"a text refused with {first} while the interpreter's int-digit limit was in force is refused again ({second}) after the limit was lifted, "
                              "although a fresh evaluator now accepts it", {"history": [["new", 0, a], ["recompile", 0, big[:80] + "…"], ["lift-limit"], ["recompile", 0, "same"]],
                                                                            "first": first, "second": second})
        finally:
            sys.set_int_max_str_digits(old)


def exhaustive_short_histories(ctx, length):
    """EVERY history of up to `length` recompiles over three valid texts and two invalid ones on one evaluator (5^length of them: returning to an earlier text, right after
    a refusal, after two refusals, the same text twice ...): after each step the evaluator answers like a fresh evaluator of the last ACCEPTED text, and a refusal raises"""
    import itertools
    from pyab_experiment.experiment_evaluator import ExperimentEvaluator
    T = 'def e { salt: "%s" splitters: u return "%s" weighted 1 }'
    valid = {"A": T % ("s1", "a"), "B": T % ("s2", "b"), "C": 'def other { splitters: u return "c" weighted 1 }'}
    invalid = {"x": 'def e { splitters: u return "a" weighted }', "y": 'def e { return "a" weighted 1 } @'}
    want = {"A": "a", "B": "b", "C": "c"}
    for first in valid:
        for seq in itertools.product("ABCxy", repeat=length):
            ev, _ = common.quiet(lambda: ExperimentEvaluator(valid[first]))
            last = first
            for i, step in enumerate(seq):
                try:
                    common.quiet(lambda: ev.recompile(valid.get(step) or invalid[step]))
                    raised = False
                except Exception:  # noqa
                    raised = True
                if step in valid:
                    last = step
                got = common.outcome_of(lambda: ev(u="unit1"))
                ok = (raised == (step in invalid)) and got == {"g": {"s": want[last]}}
                if not ok:
                    hist = [first] + list(seq[:i + 1])
                    ctx.case(("short-history", first, seq), True)
                    ctx.violation(f"history new({first}); " + "; ".join("recompile(%s)" % h for h in hist[1:]) + f" (A, B, C valid texts, x, y invalid ones): the last step "
                                  f"{'raised' if raised else 'returned'}, the evaluator then answers {json.dumps(got)}; the last accepted text is {last} (answers {want[last]!r})",
                                  {"history": [["new", 0, valid[first]]] + [["recompile", 0, valid.get(h) or invalid[h]] for h in hist[1:]] + [["call", 0, common.enc_env({"u": "unit1"})]],
                                   "labels": hist, "impl": got, "expected": want[last], "raised": raised})
                    return
            ctx.count("short-histories")
    ctx.case(("short-histories", length), True)


def run(ctx):
    n = N[ctx.tier]
    if ctx.obligation_breaks:
        n *= 3
    ctx.extra["rule"] = ("random operation histories (new / recompile / call) over up to 4 evaluators and an alphabet of valid "
                         "texts (same and different experiment names, salts, weights) and invalid texts (lexical, syntactic, "
                         "two definitions, empty, failing in compile()); repeated-text recompiles are over-sampled; each real "
                         "output is compared with a fresh evaluator of the last accepted text and with the Lean model")
    ctx.extra["table_obligations"] = 1
    ctx.assumptions.append("CollisionFree: texts in a history have pairwise distinct MD5 (hypothesis of C11_refinement_history)")
    run_batch(ctx, n, LEN[ctx.tier])
    transient_failures(ctx)
    exhaustive_short_histories(ctx, 4 if ctx.tier == 'quick' else 5)


def search(ctx):
    run_batch(ctx, 1500, 40, with_model=False)
