"""C03 — weights partition the hash space exactly, in declared order."""
import itertools
import json
from fractions import Fraction

import choicelib
import common
import gen
import progcases

TWINS = ['weights']      # harness/twins.py: which part of a twin text carries the difference

N = {"quick": 260, "thorough": 8000}


def run_vectors(ctx, n, with_model=True):
    rng = ctx.rng
    cases = []
    for _ in range(n):
        ws_text = choicelib.weight_vector(rng)
        hs = choicelib.boundary_positions(ws_text, rng)
        cases.append((ws_text, hs))
    # corpus first
    cases[:0] = [(["1", "7"], [2 ** 29 - 1, 2 ** 29, 2 ** 29 + 1]), (["0.1", "0.7"], [2 ** 29 - 1, 2 ** 29, 2 ** 29 + 1]),
                 (["0", "1", "0"], [0, 1, 2 ** 32 - 1]), (["1", "0"], [2 ** 32 - 1]), (["0", "0", "5"], [0]),
                 (["0.000000001", "1000000000.0"], [0, 1, 2, 3, 4, 5])]
    reqs, index = [], []
    for ci, (ws_text, hs) in enumerate(cases):
        ws = [choicelib.to_num(w) for w in ws_text]
        reqs.append({"op": "cum", "w": [common.enc_num(x) for x in ws]})
        index.append((ci, "cum", None))
        for h in hs:
            reqs.append(choicelib.model_choice_req(h, len(ws), weights=ws))
            index.append((ci, "choice", h))
    answers = [None] * len(reqs)
    if with_model and ctx.driver_ok:
        try:
            answers = common.run_driver_parallel(reqs, jobs=12)
        except Exception as ex:  # noqa
            ctx.obligation_breaks.append({"what": "model-driver-run", "detail": repr(ex)[:400]})
    with choicelib.SubstitutedPosition():
        for (ci, kind, h), ans in zip(index, answers):
            ws_text, _ = cases[ci]
            ws = [choicelib.to_num(w) for w in ws_text]
            n_groups = len(ws)
            pop = list(range(n_groups))
            if kind == "cum":
                impl_cum = [common.enc_num(x) for x in itertools.accumulate(ws)]
                if ans is not None and ans.get("cum") != impl_cum:
                    ctx.drift("cum-bits", {"weights": ws_text, "impl": impl_cum[:6], "model": (ans.get("cum") or ans)[:6] if isinstance(ans.get("cum"), list) else ans})
                continue
            out = choicelib.impl_choice(h, pop, weights=ws)
            all_int = all("." not in w for w in ws_text)
            ctx.case((tuple(ws_text), h), True, sample={"weights": ws_text, "h": h, "impl": out})
            ctx.count("groups:%d" % (1 if n_groups == 1 else 2 if n_groups == 2 else 8 if n_groups <= 8 else 64))
            ctx.count("weights:" + ("int" if all_int else "decimal"))
            if ans is not None:
                mo = choicelib.model_to_outcome(ans, pop)
                if mo != out:
                    ctx.tie_break("choice", {"weights": ws_text, "h": h, "impl": out, "model": mo})
            # spec: interval rule with exact rationals; tolerance only within one grid point of a boundary
            exact, allowed = gen.spec_indices(ws_text, h)
            if "g" not in out or int(out["g"]["i"]) not in allowed:
                ctx.violation(f"weights {ws_text[:8]} position {h}/2^32: implementation selects {json.dumps(out)}, the interval rule "
                              f"selects group {exact} (allowed {sorted(allowed)})",
                              {"weights": ws_text, "h": h, "impl": out, "spec_exact": exact, "spec_allowed": sorted(allowed)})
            else:
                i = int(out["g"]["i"])
                if gen.weight_fraction(ws_text[i]) == 0:
                    ctx.violation(f"zero-weight group {i} selected: weights {ws_text[:8]} position {h}",
                                  {"weights": ws_text, "h": h, "impl": out})
                if i != exact:
                    ctx.count("boundary-tolerance-used")


def run_compiled(ctx, n):
    """single-return experiments on unit ids whose position is known from the published scheme"""
    rng = ctx.rng
    cases = []
    for _ in range(n):
        ws_text = choicelib.weight_vector(rng)
        groups = [(gen.lit_str("g%d" % i, quote='"'), w) for i, w in enumerate(ws_text)]
        salt = gen.lit_str(rng.choice(["", "s", "exp-1"]), quote='"') if rng.random() < 0.6 else None
        prog = gen.Program("e", salt, rng.choice([["uid"], ["uid"], ["uid", "uid"], ["uid", "uid", "uid"]]), ("ret", groups), {"uid": "any"})
        text = gen.render(prog)
        envs = [{"uid": rng.choice([rng.randrange(10 ** 9), "user_%d" % rng.randrange(10 ** 6), "Jos\u00e9%d" % rng.randrange(99), "\u00fcser\u00a0%d" % rng.randrange(99),
                                    "\u00ff", "\u4e2d%d" % rng.randrange(9), "\U0001d400"])} for _ in range(5)]
        envs.append({"uid": ""})          # with no salt the key is the empty string: still a key
        cases.append({"prog": prog, "text": text, "envs": envs})
    for _ in range(max(2, n // 20)):
        # equally long return statements with different weights, reached alternately in one process
        prog = gen.wide_program(rng, rng.choice([None, 64]))
        envs = [{"u": rng.randrange(10 ** 9), "tier": t} for _ in range(6) for t in ("a", "b", "c")]
        cases.append({"prog": prog, "text": gen.render(prog), "envs": envs})
    progcases.run_cases(ctx, cases, want_stages=False)


def run_compiled_at_positions(ctx, n):
    """compiled single-return experiments with the position substituted: no salt and uid = h make the key str(h)"""
    from pyab_experiment.experiment_evaluator import ExperimentEvaluator
    rng = ctx.rng
    vectors = [choicelib.weight_vector(rng) for _ in range(n)]
    vectors[:0] = [["1000000", "1", "1000000"], ["1000", "0.001"], ["0", "1"], ["123456.7", "0.5", "7654321"], ["0.0000001", "1000000"]]
    with choicelib.SubstitutedPosition():
        for ws_text in vectors:
            repeat = rng.random() < 0.3           # the same label may be declared more than once: positions still count
            lab = (lambda i: i % 2) if repeat else (lambda i: i)
            groups = ", ".join('"g%d" weighted %s' % (lab(i), w) for i, w in enumerate(ws_text))
            try:
                ev, _ = common.quiet(lambda: ExperimentEvaluator("def e { splitters: uid return %s }" % groups))
            except Exception as ex:  # noqa
                ctx.violation(f"single-return experiment with weights {ws_text[:6]} does not compile: {common.classify_exc(ex)}", {"weights": ws_text})
                continue
            for h in choicelib.boundary_positions(ws_text, rng, 2):
                out = common.outcome_of(lambda: ev(uid=h))
                exact, allowed = gen.spec_indices(ws_text, h)
                ctx.case(("compiled", tuple(ws_text), h), True)
                ctx.count("compiled-at-position")
                if "g" not in out or out["g"].get("s") not in {"g%d" % lab(i) for i in allowed}:
                    ctx.violation(f"compiled experiment with weights {ws_text[:8]} at position {h}/2^32 returns {json.dumps(out)}, the interval "
                                  f"rule selects g{exact}", {"weights": ws_text, "h": h, "impl": out, "spec_exact": exact})


def subnormal_probe(ctx):
    """finding K4 (surfaced by the hypothesis `hnorm` that the proof of C03_float_zero_never needs): with a
    subnormal total the product u*total rounds back up to the total, so a zero-weighted LAST group is selected"""
    with choicelib.SubstitutedPosition():
        out = choicelib.impl_choice(2 ** 32 - 1, ["a", "zero"], weights=[5e-324, 0.0])
    ctx.count("k4:" + ("ok" if out == {"g": {"s": "a"}} else "fails"))
    if out != {"g": {"s": "a"}}:
        ctx.violation(f"zero-weighted last group selected for a subnormal total: weights [5e-324, 0.0] at position 2^32-1: {out}",
                      {"weights": ["5e-324", "0.0"], "h": 2 ** 32 - 1, "impl": out}, key="K4:subnormal-total-zero-last")


def run(ctx):
    n = N[ctx.tier]
    if ctx.obligation_breaks or ctx.tie_breaks:
        n *= 3
    ctx.extra["rule"] = ("weight vectors of 1..64 groups (ints, decimals 1e-9..1e9 written as DSL literals, zeros anywhere) x hash "
                         "positions adjacent to every boundary computed with exact rationals (ceil(S_i*2^32/T) + {-2..2}), 0, "
                         "2^32-1 and random ones, with binning.deterministic_proba substituted; plus compiled single-return "
                         "experiments on real unit ids; distinct = (weights, position)")
    ctx.assumptions.append("the model type Dbl with its round-to-nearest-even (proved monotone, idempotent, RSpec: Proofs/DblRound.lean) IS CPython's "
                           "binary64 arithmetic: tied bit-for-bit by the cum/choice correspondence, not proved; integer weights with T < 2^21 do not need it")
    run_vectors(ctx, n)
    run_compiled(ctx, max(20, n // 4))
    run_compiled_at_positions(ctx, max(30, n // 3))
    choicelib.run_half_step(ctx, max(40, n // 4))
    choicelib.run_scaling(ctx, 25 if ctx.tier == 'quick' else 400)
    choicelib.run_rounded_totals(ctx)
    choicelib.run_salt_alphabet(ctx)      # the position is md5 of salt + ids, whatever characters the salt holds
    choicelib.run_numeric_twin_sequences(ctx)
    choicelib.run_ulp_boundaries(ctx)
    subnormal_probe(ctx)


def search(ctx):
    run_vectors(ctx, 1500, with_model=False)
    run_compiled_at_positions(ctx, 500)
    choicelib.run_half_step(ctx, 500)
