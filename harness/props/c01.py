"""C01 — assignment is a pure, process-independent function of source and inputs."""
import json
import os
import subprocess
import sys

import common
import gen

TWINS = ['salt', 'weights']      # harness/twins.py: which part of a twin text carries the difference

CHILDREN = {"quick": 8, "thorough": 56}
OPS = {"quick": 250, "thorough": 3000}


def history(ctx, nops):
    rng = ctx.rng
    progs = []
    for _ in range(8):
        p = gen.gen_program(rng, gen.GenOpts(max_depth=rng.choice([0, 1, 2]), max_nodes=5, ident_pool=gen.PLAIN_IDENTS, splitters=True))
        if len(progs) in (2, 5):
            # an experiment may be called like anything — also like a method or attribute of the evaluator
            p.name = ["recompile", "run_experiment", "_checksum", "partial", "str"][len(progs) % 5]
        progs.append((p, gen.render(p)))
    for k in (rng.choice([8, 16, 31, 32, 33, 40]), 64):
        wide = gen.wide_program(rng, k)     # equally long return statements with different weights: the same call path, other data
        progs.append((wide, gen.render(wide)))
    bad = ['def e { return "a" weighted }', 'def e { splitters: u return "a" weighted 1 } @']
    ops = []
    live = {}
    for _ in range(nops):
        r = rng.random()
        ident = rng.randrange(4)
        if r < 0.08 or ident not in live:
            k = rng.randrange(len(progs))
            ops.append(["new", ident, progs[k][1]])
            live[ident] = k
        elif r < 0.2:
            if rng.random() < 0.25:
                ops.append(["recompile", ident, rng.choice(bad)])
            else:
                k = rng.randrange(len(progs))
                ops.append(["recompile", ident, progs[k][1]])
                live[ident] = k
        else:
            prog = progs[live[ident]][0]
            env = gen.gen_env(prog, rng)
            for s in prog.splitters or []:
                # (fields that also occur in conditions keep their type-compatible value: the model's `in` has no
                # object identity, so a NaN compared with a tuple containing the same field is outside the model)
                if rng.random() < 0.5 and s not in prog.cond_fields():
                    env[s] = gen.rand_value("any", rng)
            ops.append(["call", ident, common.enc_env(env)])
            if rng.random() < 0.3:
                ops.append(["call", ident, common.enc_env(env)])      # repeated call
            if rng.random() < 0.3 and prog.splitters:
                # the same call with a splitter value that compares equal in Python but prints differently
                sp = prog.splitters[0]
                if sp not in prog.cond_fields():
                    for v in rng.sample([1, 1.0, True, 0, 0.0, False, 7, 7.0], 3):
                        e2 = dict(env); e2[sp] = v
                        ops.append(["call", ident, common.enc_env(e2)])
    # an experiment may be NAMED like anything the evaluator has: build it, replace it, come back (a recompile cycle)
    plain = progs[0]
    for nm in ("recompile", "run_experiment", "_checksum", "__call__", "__class__", "__dict__"):
        named = 'def %s { salt: "n" splitters: u return "p" weighted 1, "q" weighted 1, "r" weighted 2 }' % nm
        other = 'def other_%s { salt: "o" splitters: u return "x" weighted 3, "y" weighted 1 }' % nm.strip("_")
        ops.append(["new", 2, named])
        for text in (other, named, other):
            ops.append(["call", 2, common.enc_env({"u": "unit%d" % rng.randrange(50)})])
            ops.append(["recompile", 2, text])
            for k in range(3):
                ops.append(["call", 2, common.enc_env({"u": "unit%d" % rng.randrange(50)})])
    # falsy and empty ids are ids: with no salt (or an empty one) and every splitter value printing as "", the key is the empty string
    for text in ('def nosalt { splitters: u return "a" weighted 1, "b" weighted 1, "c" weighted 1, "d" weighted 1 }',
                 'def emptysalt { salt: "" splitters: u, v return "a" weighted 1, "b" weighted 2, "c" weighted 1, "d" weighted 3 }'):
        ops.append(["new", 0, text])
        for val in ("", "", 0, "", None, False, "", 0.0, " ", ""):
            ops.append(["call", 0, common.enc_env({"u": val, "v": ""})])
    # endurance: thousands of distinct units through one evaluator, then the first ones again (anything that remembers a
    # bounded number of recent calls, counts uses or rotates state has by then wrapped around)
    n_end = 1200 if nops <= 300 else 9000
    ops.append(["new", 1, 'def endure { salt: "e" splitters: u, v return "a" weighted 1, "b" weighted 2, "c" weighted 3, "d" weighted 0, "e" weighted 1 }'])
    for k in list(range(n_end)) + list(range(60)) + [n_end - 1, 4095, 4096, 4097, 1023, 1024, 255, 256]:
        ops.append(["call", 1, common.enc_env({"u": "unit%d" % k, "v": k % 7})])
    # the wide program on every branch in turn (same evaluator, same call path, different weight data each time)
    for wide in progs[-2:]:
        ops.append(["new", 3, wide[1]])
        for k in range(10):
            for t in ("a", "b", "c", "a"):
                ops.append(["call", 3, common.enc_env({"u": "unit%d" % (k % 5), "tier": t})])
    return ops


def spawn(ops, env_over, cwd):
    env = dict(os.environ)
    env.update(env_over)
    env["PYAB_REPO"] = common.REPO
    p = subprocess.run(["/venv/bin/python", os.path.join(common.VERIF, "harness", "child_c01.py")], input=json.dumps(ops).encode("ascii"),
                       stdout=subprocess.PIPE, stderr=subprocess.PIPE, env=env, cwd=cwd, timeout=600)
    if p.returncode != 0:
        return {"crash": p.stderr.decode("utf-8", "replace")[-400:]}
    return json.loads(p.stdout.decode("ascii"))


def run(ctx, with_model=True):
    rng = ctx.rng
    nchild = CHILDREN[ctx.tier]
    ops = history(ctx, OPS[ctx.tier])
    ctx.extra["rule"] = ("one seeded history of new / recompile (valid and invalid) / call over 4 evaluators and 8 programs with at least one "
                         "splitter, values of all five types, repeated calls; replayed in child interpreters over PYTHONHASHSEED x LANG/LC_ALL "
                         "x working directory x import order; every transcript must equal every other and the Lean model's (one pure function)")
    matrix = []
    seeds = ["0", "1", "random", str(rng.randrange(2 ** 32)), "12345", "4294967295"]
    locales = [{"LANG": "C", "LC_ALL": "C"}, {"LANG": "C.UTF-8", "LC_ALL": "C.UTF-8"}, {"LANG": "POSIX", "LC_ALL": "POSIX", "PYTHONUTF8": "0"},
               {"LANG": "en_US.ISO-8859-1", "LC_ALL": "en_US.ISO-8859-1", "PYTHONIOENCODING": "latin-1"}]
    cwds = ["/tmp", "/", common.VERIF]
    for i in range(nchild):
        e = {"PYTHONHASHSEED": seeds[i % len(seeds)], "C01_IMPORT_ORDER": "ab"[i % 2], "C01_FRESH": "1" if i == 1 else "0"}
        e.update(locales[(i // 2) % len(locales)])
        # interpreter flags, clock, time zone: none of them is an input of the assignment
        e.update([{}, {"PYTHONOPTIMIZE": "1"}, {"TZ": "Pacific/Kiritimati", "C01_FAKE_TIME": "4102444800"}, {"PYTHONOPTIMIZE": "2", "PYTHONUTF8": "1"},
                  {"TZ": "America/Adak", "C01_FAKE_TIME": "951782400", "PYTHONDEVMODE": "1"}, {"C01_RECURSION": "5000", "PYTHONDONTWRITEBYTECODE": "1", "COLUMNS": "20"},
                  {"PYTHONMALLOC": "malloc", "PYTHONNOUSERSITE": "1", "HOME": "/nonexistent", "USER": "nobody", "HOSTNAME": "h2"}][i % 7])
        matrix.append((e, cwds[i % len(cwds)]))
    # one child runs in a working directory that holds files NAMED like the source texts of the history (a text is a text,
    # whatever the file system happens to contain), each with another experiment inside, plus a few likely names
    import shutil
    import tempfile
    trap = tempfile.mkdtemp(prefix="c01cwd_")
    decoy = 'def decoy { salt: "decoy" splitters: u return "DECOY" weighted 1 }'
    try:
        for text in {o[2] for o in ops if o[0] in ("new", "recompile")} | {"e", "experiment.pyab", "source_code", "salt", "u"}:
            if 0 < len(text.encode("utf-8", "replace")) <= 255 and "/" not in text and "\x00" not in text:
                try:
                    with open(os.path.join(trap, text), "w", encoding="utf-8") as f:
                        f.write(decoy)
                except OSError:
                    pass
        ctx.count("cwd-trap-files", len(os.listdir(trap)))
        matrix.append(({"PYTHONHASHSEED": "7"}, trap))
        from concurrent.futures import ThreadPoolExecutor
        with ThreadPoolExecutor(min(12, len(matrix))) as ex:
            transcripts = list(ex.map(lambda mc: spawn(ops, mc[0], mc[1]), matrix))
    finally:
        shutil.rmtree(trap, ignore_errors=True)
    model = None
    if with_model and ctx.driver_ok:
        try:
            model = common.run_driver([{"op": "life", "ops": ops}])[0].get("outs")
        except Exception as ex_:  # noqa
            ctx.obligation_breaks.append({"what": "model-driver-run", "detail": repr(ex_)[:400]})
    for k, op in enumerate(ops):
        ctx.case((k, json.dumps(op)[:200]), op[0] == "call", sample=op if k < 3 else None)
        ctx.count("op:" + op[0])
    base = transcripts[0]
    # the child that also asked a brand-new evaluator at every call
    for k, r in enumerate(transcripts[1] if isinstance(transcripts[1], list) else []):
        if isinstance(r, dict) and "used" in r:
            ctx.violation(f"a used evaluator and a fresh evaluator of the same text disagree at step {k} ({json.dumps(ops[k])[:120]}): "
                          f"{json.dumps(r['used'])[:70]} vs {json.dumps(r['fresh'])[:70]}",
                          {"history": ops[:k + 1], "step": k, "used": r["used"], "fresh": r["fresh"]})
            transcripts[1][k] = r["used"]
    for (e, cwd), t in zip(matrix, transcripts):
        ctx.count("children")
        if isinstance(t, dict) and "crash" in t:
            ctx.violation(f"child interpreter {e} crashed: {t['crash'][-200:]}", {"env": e, "crash": t["crash"]})
            continue
        if t != base:
            k = next(i for i, (a, b) in enumerate(zip(t, base)) if a != b)
            ctx.violation(f"assignment differs between interpreter processes at step {k} ({json.dumps(ops[k])[:120]}): "
                          f"{json.dumps(base[k])[:80]} under {matrix[0][0]} vs {json.dumps(t[k])[:80]} under {e}",
                          {"history": ops[:k + 1], "step": k, "process_a": matrix[0][0], "process_b": e, "a": base[k], "b": t[k]})
    # purity within one process: identical repeated calls (adjacent duplicates in the history) must agree
    if isinstance(base, list):
        for k in range(1, len(ops)):
            if ops[k] == ops[k - 1] and ops[k][0] == "call" and base[k] != base[k - 1]:
                ctx.violation(f"the same call repeated returns a different result at step {k}", {"history": ops[:k + 1]})
        if model is not None and model != base:
            k = next((i for i, (a, b) in enumerate(zip(model, base)) if a != b), None)
            ctx.tie_break("transcript", {"step": k, "op": ops[k] if k is not None else None,
                                         "impl": base[k] if k is not None else None, "model": model[k] if k is not None else None})
    if with_model:
        overlap(ctx, 4 if ctx.tier == "quick" else 40)
        # long keys that share a long prefix, one after the other in this process: each is assigned by md5 of the whole key, whatever was hashed before
        import choicelib
        choicelib.run_key_lengths(ctx, 16 if ctx.tier == "quick" else 20)


def overlap(ctx, rounds):
    """"after any recompile cycle": also one in which a refused recompile (of a long text) overlapped a successful one from another thread"""
    from props import c17
    for e in c17.run_failing_recompile_race(ctx, rounds)[:2]:
        ctx.violation(f"after a recompile cycle in which a refused recompile overlapped a successful one, the evaluator no longer answers as its last accepted text: "
                      f"{json.dumps(e)[:240]}", e)


def search(ctx):
    run(ctx, with_model=False)
    overlap(ctx, 30)
