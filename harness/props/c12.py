"""C12 — the published bucketing scheme is pinned."""
import hashlib
import json

import choicelib
import common
import gen
import progcases

TWINS = ['salt']      # harness/twins.py: which part of a twin text carries the difference

N = {"quick": 4000, "thorough": 100000}

KNOWN = [  # (key, first 32 bits of MD5(utf-8)) — fixed vectors, computed once from RFC 1321 semantics
    ("", 0xd41d8cd9), ("a", 0x0cc175b9), ("abc", 0x90015098), ("message digest", 0xf96b697d),
    ("abcdefghijklmnopqrstuvwxyz", 0xc3fcd3d7), ("josé", 442407719), ("user_4928520601", 0xffffffff),
]


def rand_key(rng):
    r = rng.random()
    if r < 0.3:
        return "user_%d" % rng.randrange(10 ** 9)
    if r < 0.5:
        return gen.rand_string(rng, 12)
    if r < 0.6:
        return "x" * rng.choice([55, 56, 57, 63, 64, 65, 119, 120, 121, 1000])      # MD5 padding boundaries
    if r < 0.8:
        return "".join(rng.choice(["é", "ß", "中", "😀", "́", "a", "1", " ", "\x00", " "]) for _ in range(rng.randint(0, 20)))
    return str(rng.choice([rng.randrange(10 ** 12), rng.random(), None, True, -1.5]))


def run_positions(ctx, n, with_model=True):
    from pyab_experiment.binning import binning
    rng = ctx.rng
    keys = [k for k, _ in KNOWN] + [rand_key(rng) for _ in range(n)]
    # key LENGTHS around the sizes at which an implementation might start to hash piecewise or to copy (powers of two, in characters and in bytes)
    for base in (2 ** 16, 2 ** 20, 2 ** 21) if n > 1000 else (2 ** 16, 2 ** 20):
        for d in (-1, 0, 1, 2):
            keys.append("k" * (base + d - 1) + "Z")
            keys.append("é" * ((base + d) // 2) + "z")
    answers = [None] * len(keys)
    if with_model and ctx.driver_ok:
        try:
            answers = common.run_driver_parallel([{"op": "pos", "s": k} for k in keys], jobs=12)
        except Exception as ex:  # noqa
            ctx.obligation_breaks.append({"what": "model-driver-run", "detail": repr(ex)[:400]})
    known = dict(KNOWN)
    for k, ans in zip(keys, answers):
        out = common.outcome_of(lambda: binning.deterministic_proba(k))
        want = int.from_bytes(hashlib.md5(k.encode("utf-8")).digest()[:4], "big")
        if k in known and known[k] != want:
            raise AssertionError("known-answer table is wrong for %r" % k)
        ctx.case(("pos", k), True, sample={"key": k[:60], "position": want})
        ctx.count("pos:" + ("ascii" if k.isascii() else "non-ascii"))
        got = None
        if "g" in out and "f" in out["g"]:
            got = common.dbl_parse(out["g"]["f"]) * 2 ** 32
        if got is None or got != want or not (0 <= got < 2 ** 32):
            ctx.violation(f"deterministic_proba({k[:40]!r}) = {json.dumps(out)[:80]}; the published scheme gives {want}/2^32",
                          {"key": k, "impl": out, "published_numerator": want})
        if ans is not None and ans.get("h") != want:
            ctx.tie_break("pos", {"key": k, "model": ans, "hashlib": want})


def unencodable_keys(ctx):
    """a key that has no UTF-8 encoding (a str with a lone surrogate) has no position in the published scheme: `md5(key.encode("utf-8"))` raises"""
    from pyab_experiment.binning import binning
    from pyab_experiment.experiment_evaluator import ExperimentEvaluator
    for k in ("user-\ud83d-17", "caf\udce9", "\udc80", "a\udfffb"):
        out = common.outcome_of(lambda: binning.deterministic_proba(k))
        ctx.case(("unencodable", repr(k)), True)
        ctx.count("pos:unencodable")
        if out != {"e": "EncodeError"}:
            ctx.violation(f"deterministic_proba({k!r}) = {json.dumps(out)[:80]}: the key has no UTF-8 encoding, the published scheme (md5 of the UTF-8 bytes) assigns it no position",
                          {"key": repr(k), "impl": out})


def run_evaluators(ctx, n):
    rng = ctx.rng
    cases = []
    for _ in range(n):
        opts = gen.GenOpts(max_depth=rng.choice([0, 0, 1]), p_salt=0.7, max_groups=6,
                           ident_pool=gen.PLAIN_IDENTS + ["X", "USER", "Country", "_x", "_id", "Zone", "ID", "B", "Uid", "uId", "a_B", "A_b"],
                           p_shared=0.3, max_nodes=4)
        prog = gen.gen_program(rng, opts)
        text = gen.render(prog, rng, rng.choice(["plain", "plain", "trivia"]))
        envs = [gen.gen_env(prog, rng) for _ in range(5)]
        cases.append({"prog": prog, "text": text, "envs": envs})
    # salts that spell a piece of generated code (what a user may have pasted): the salt reaches the hash as written
    for frag in gen.generated_fragments():
        prog = gen.Program("e", gen.lit_str(frag, rng), ["u"], ("ret", [(gen.lit_str("a", quote='"'), "1"), (gen.lit_str("b", quote='"'), "2"), (gen.lit_str("c", quote='"'), "1")]), {"u": "any"})
        cases.append({"prog": prog, "text": gen.render(prog, rng, "plain"), "envs": [{"u": "unit%d" % k} for k in range(4)]})
    # sibling field names: digit runs of different length, leading zeros (the published order is plain code-point order of the names)
    for names in (["f2", "f10"], ["f10", "f2", "f1"], ["bucket_1", "bucket_01"], ["bucket_01", "bucket_1", "bucket_001"], ["a9", "a10", "a09", "A10"], ["x_2_b", "x_10_a"]):
        prog = gen.Program("e", gen.lit_str("s", quote='"'), names, ("ret", [(gen.lit_str("a", quote='"'), "1"), (gen.lit_str("b", quote='"'), "2"), (gen.lit_str("c", quote='"'), "1")]),
                           {x: "any" for x in names})
        cases.append({"prog": prog, "text": gen.render(prog, rng, "plain"), "envs": [{x: "v%d%s" % (k, x[-1]) for x in names} for k in range(6)]})
    # splitter fields named like the identifiers of the generated code itself (a local of the generated function must not capture them)
    for nm in gen.host_names():
        prog = gen.Program("e", gen.lit_str("s", quote='"'), [nm, "zz"], ("ret", [(gen.lit_str("a", quote='"'), "1"), (gen.lit_str("b", quote='"'), "2"), (gen.lit_str("c", quote='"'), "1")]),
                           {nm: "any", "zz": "any"})
        cases.append({"prog": prog, "text": gen.render(prog, rng, "plain"), "envs": [{nm: "unit%d" % k, "zz": k} for k in range(3)]})
    # sizes: many splitter fields (declared in a shuffled order, some declared twice), long names, long salts, long values
    for k in (7, 10, 11, 16, 17, 33, 64, 100):
        names = ["f%d" % i for i in range(k - 2)] + ["F_" + "x" * rng.choice([30, 79, 255]), "Z9"]
        decl = names + names[:2]
        rng.shuffle(decl)
        salt = gen.lit_str(rng.choice(["s", "x" * 55, "y" * 56, "é" * 64, "z" * 1000]), quote='"')
        prog = gen.Program("e", salt, decl, ("ret", [(gen.lit_str("a", quote='"'), "1"), (gen.lit_str("b", quote='"'), "2"), (gen.lit_str("c", quote='"'), "1")]),
                           {x: "any" for x in names})
        envs = []
        for _ in range(4):
            env = {x: rng.choice([rng.randrange(100), "v%d" % rng.randrange(9), 1.5, None, True, "", "w" * rng.choice([1, 64, 5000])]) for x in names}
            items = list(env.items())
            rng.shuffle(items)                   # keyword arguments in any order
            envs.append(dict(items))
        cases.append({"prog": prog, "text": gen.render(prog, rng, "plain"), "envs": envs})
    progcases.run_cases(ctx, cases, want_stages=False)


def run(ctx):
    n = N[ctx.tier]
    if ctx.obligation_breaks or ctx.tie_breaks:
        n *= 3
    ctx.extra["rule"] = ("deterministic_proba on known-answer vectors and random keys (ASCII, Latin-1, CJK, astral, combining marks, NUL, "
                         "lengths around the MD5 padding boundaries) compared three ways: real code, Lean MD5, hashlib; and whole "
                         "evaluators (salt absent / empty / any characters, 1..3 splitters in any declaration order, all value types) "
                         "against an independent implementation of the published sentence (hashlib + sorted + str + exact rationals)")
    run_positions(ctx, n)
    run_evaluators(ctx, max(40, n // 40))
    choicelib.run_half_step(ctx, 40)
    unencodable_keys(ctx)
    from props import c15
    c15.equal_values_in_sequence(ctx)       # 1 then 1.0 then True on one evaluator: each is hashed by its own printed form
    progcases.run_cases(ctx, gen.type_twin_return_programs(), check_model=False, want_stages=False)      # the published scheme returns the declared value, with its type, in every return statement
    choicelib.run_salt_alphabet(ctx)
    choicelib.run_key_lengths(ctx, 18 if ctx.tier == 'quick' else 23)      # the whole key reaches the digest, whatever its length


def search(ctx):
    run_positions(ctx, 5000, with_model=False)
