"""C17 — concurrent compilation and evaluation are thread-safe (dynamic part: a search aid and a
sanity check of the static effect classification; the decision is the table obligations +
the interleaving theorems)."""
import json
import sys
import threading
import time

import common
import gen

DUR = {"quick": 4.0, "thorough": 120.0}


def sources(rng, k):
    out = []
    for i in range(k):
        prog = gen.gen_program(rng, gen.GenOpts(max_depth=rng.choice([1, 2]), max_nodes=6, ident_pool=gen.PLAIN_IDENTS))
        text = gen.render(prog, rng, "trivia")          # exercises block-comment state changes
        envs = [gen.gen_env(prog, rng) for _ in range(4)]
        out.append((prog, text, envs))
    return out


def run_threads(ctx, duration, nthreads):
    from pyab_experiment.experiment_evaluator import ExperimentEvaluator
    from pyab_experiment.utils.wraper_functions import parse_source, generate_code
    rng = ctx.rng
    srcs = [s for s in sources(rng, 12) if s[0].splitters]
    # sequential reference
    ref = []
    usable = []
    for prog, text, envs in srcs:
        try:
            ev, _ = common.quiet(lambda: ExperimentEvaluator(text))
            ref.append((common.canon_ast(parse_source(text)), [common.outcome_of(lambda: ev(**e)) for e in envs]))
            usable.append((prog, text, envs))
        except Exception:  # noqa  (a source that does not even compile sequentially is another property's business)
            ctx.count("sequential-compile-failure")
    srcs = usable
    if not srcs:
        return [], 0
    old_text = 'def e { salt: "o" splitters: u return "old1" weighted 1, "old2" weighted 1 }'
    new_text = 'def e { salt: "n" splitters: u /* c */ return "new1" weighted 1, "new2" weighted 3 } // x'
    bad_text = 'def e { splitters: u return "a" weighted }'
    shared = ExperimentEvaluator(old_text)
    units = ["u%d" % i for i in range(12000)]
    seq_old = {u: ExperimentEvaluator(old_text)(u=u) for u in units}
    seq_new = {u: ExperimentEvaluator(new_text)(u=u) for u in units}
    errors, counts = [], {"compile": 0, "call": 0, "race-call": 0, "recompile": 0}
    stop = time.time() + duration
    lock = threading.Lock()

    def worker(tid):
        import random
        r = random.Random(ctx.seed * 1000 + tid)
        try:
            while time.time() < stop and len(errors) < 5:
                k = r.randrange(len(srcs))
                prog, text, envs = srcs[k]
                what = r.random()
                if what < 0.35:
                    ev = ExperimentEvaluator(text)
                    got = [common.outcome_of(lambda: ev(**e)) for e in envs]
                    with lock:
                        counts["compile"] += 1
                    if got != ref[k][1]:
                        errors.append({"kind": "construction-differs", "text": text[:300], "got": got, "want": ref[k][1]})
                elif what < 0.5:
                    a = common.canon_ast(parse_source(text))
                    if a != ref[k][0]:
                        errors.append({"kind": "parse-differs", "text": text[:300]})
                elif what < 0.8:
                    u = r.choice(units)
                    try:
                        g = shared(u=u)
                    except Exception as ex:  # noqa
                        errors.append({"kind": "racing-call-raised", "error": repr(ex)[:200]})
                        continue
                    with lock:
                        counts["race-call"] += 1
                    if g not in (seq_old[u], seq_new[u]):
                        errors.append({"kind": "racing-call-mixture", "unit": u, "got": g, "old": seq_old[u], "new": seq_new[u]})
                else:
                    t = r.choice([old_text, new_text, bad_text])
                    try:
                        shared.recompile(t)
                    except Exception:  # noqa
                        if t is not bad_text:
                            errors.append({"kind": "valid-recompile-raised"})
                    with lock:
                        counts["recompile"] += 1
        except Exception as ex:  # noqa
            errors.append({"kind": "worker-crashed", "error": repr(ex)[:300]})

    old = sys.getswitchinterval()
    sys.setswitchinterval(1e-6)
    try:
        ths = [threading.Thread(target=worker, args=(i,)) for i in range(nthreads)]
        with common.contextlib.redirect_stdout(common.io.StringIO()), common.contextlib.redirect_stderr(common.io.StringIO()):
            for t in ths:
                t.start()
            for t in ths:
                t.join()
    finally:
        sys.setswitchinterval(old)
    for k, v in counts.items():
        ctx.count(f"threads{nthreads}:{k}", v)
    return errors, sum(counts.values())


def run_same_text_recompiles(ctx, rounds, nthreads):
    """all threads recompile ONE evaluator to the same new text at the same moment; each thread's next call (after its own
    recompile returned) must already be served by the new experiment"""
    from pyab_experiment.experiment_evaluator import ExperimentEvaluator
    errors = []
    old_sw = sys.getswitchinterval()
    sys.setswitchinterval(1e-6)
    try:
        for r in range(rounds):
            branches = " ".join('else if x == %d { return "n%d_%d" weighted 1 /* c%d */ }' % (k, r, k, k) for k in range(1, 120))
            old = 'def e { salt: "o" splitters: u return "old" weighted 1 }'
            new = 'def e { salt: "n%d" splitters: u if x == 0 { return "n%d_0" weighted 1 } %s else { return "new%d" weighted 1 } }' % (r, r, branches, r)
            ev = ExperimentEvaluator(old)
            want = ExperimentEvaluator(new)(u="u1", x=-1)
            barrier = threading.Barrier(nthreads)

            def worker(tid):
                try:
                    try:
                        barrier.wait(timeout=120)
                    except threading.BrokenBarrierError:
                        ctx.count("barrier-timeout (machine load; round skipped)")
                        return
                    time.sleep(0.0005 * tid)              # staggered arrival: later threads find a compile in progress
                    ev.recompile(new)
                    got = ev(u="u1", x=-1)
                    if got != want:
                        errors.append({"kind": "own-recompile-not-visible", "round": r, "thread": tid, "got": got, "want": want})
                except Exception as ex:  # noqa
                    errors.append({"kind": "same-text-recompile-raised", "error": repr(ex)[:200]})

            ths = [threading.Thread(target=worker, args=(i,)) for i in range(nthreads)]
            for t in ths:
                t.start()
            for t in ths:
                t.join()
            ctx.count(f"same-text-recompile-rounds")
            if errors:
                break
    finally:
        sys.setswitchinterval(old_sw)
    return errors


def long_chain(n, groups=1, comment=""):
    parts = ['if x == 0 { return "a" weighted 1 }']
    for i in range(1, n + 1):
        g = ", ".join('"h%d_%d" weighted 1' % (i, k) for k in range(groups))
        parts.append('else if x == %d { %s return %s }' % (i, comment, g))
    return "def e { splitters: u " + " ".join(parts) + ' else { return "z" weighted 1 } }'


def run_long_sources(ctx, rounds, nthreads, children=None):
    """the long-source phase in fresh child interpreters (several independent attempts, in parallel)"""
    import os
    import subprocess
    from concurrent.futures import ThreadPoolExecutor
    children = children or (4 if ctx.tier == "quick" else 16)

    def one(k):
        env = dict(os.environ, PYAB_REPO=common.REPO)
        p = subprocess.run(["/venv/bin/python", os.path.join(common.VERIF, "harness", "child_c17.py"), str(rounds), str(nthreads), str(ctx.seed * 100 + k)],
                           stdout=subprocess.PIPE, stderr=subprocess.PIPE, env=env, timeout=900)
        if p.returncode != 0:
            return {"errors": [{"kind": "long-source-child-crashed", "stderr": p.stderr.decode("utf-8", "replace")[-300:]}], "counts": {}}
        return json.loads(p.stdout.decode("utf-8"))
    with ThreadPoolExecutor(min(8, children)) as ex:
        outs = list(ex.map(one, range(children)))
    errors = []
    for o in outs:
        errors += o["errors"]
        for k, v in o["counts"].items():
            ctx.count(k, v)
    ctx.count("long-source-children", children)
    return errors


def run_long_sources_here(ctx, rounds, nthreads, shift=0):
    """long parses: sources of 15 KB .. 300 KB (else-if chains of 300, 900 and 1400 branches, 500 branches of eight groups with
    block comments) compiled by worker threads at the same moment; every construction must end as it ends alone — with the
    evaluator it yields alone, or with the error it raises alone (the 1400 chain exceeds what the code generator's recursion allows
    on this interpreter, alone or not)"""
    from pyab_experiment.experiment_evaluator import ExperimentEvaluator
    texts = [(300, long_chain(300)), (500, long_chain(500, 8, "/* " + "c" * 400 + " */")), (900, long_chain(900)), (1400, long_chain(1400)),
             (250, long_chain(250, 2, "// c\n"))]

    def build(n, text):
        try:
            ev = ExperimentEvaluator(text)       # (stdout is redirected once, around the whole phase: redirect_stdout is not thread-safe)
            return ["ok"] + [common.outcome_of(lambda x=x: ev(u="u1", x=x)) for x in (0, n // 2, n, n + 1)]
        except RecursionError:
            return ["RecursionError"]
        except Exception as ex:  # noqa
            return [common.classify_exc(ex)]

    errors = []
    old_sw = sys.getswitchinterval()
    redirect = common.contextlib.ExitStack()
    redirect.enter_context(common.contextlib.redirect_stdout(common.io.StringIO()))
    redirect.enter_context(common.contextlib.redirect_stderr(common.io.StringIO()))
    try:
        ref = {n: build(n, t) for n, t in texts}
        sys.setswitchinterval(1e-6)
        for r in range(rounds):
            barrier = threading.Barrier(nthreads)
            results = {}

            def worker(tid):
                n, t = texts[(tid + r + shift) % len(texts)]
                try:
                    barrier.wait(timeout=120)
                except threading.BrokenBarrierError:
                    return
                results[tid] = (n, build(n, t))

            ths = [threading.Thread(target=worker, args=(i,)) for i in range(nthreads)]
            for t in ths:
                t.start()
            for t in ths:
                t.join()
            ctx.count("long-source-rounds")
            for tid, (n, got) in results.items():
                if got != ref[n]:
                    errors.append({"kind": "long-construction-differs", "branches": n, "threads": nthreads, "concurrent": got[:2], "alone": ref[n][:2]})
            # and once more alone, afterwards: a race may leave the process in another state than it found it
            for n, t in texts:
                again = build(n, t)
                if again != ref[n]:
                    errors.append({"kind": "construction-differs-after-concurrent-phase", "branches": n, "now": again[:2], "before": ref[n][:2]})
            if errors:
                break
    finally:
        sys.setswitchinterval(old_sw)
        redirect.close()
    return errors


def run_failing_recompile_race(ctx, rounds):
    """one thread's recompile of a LONG text that is refused only at its last character overlaps another thread's successful
    recompile of the same evaluator: the refusal must not undo (or half-undo) what the other thread installed"""
    from pyab_experiment.experiment_evaluator import ExperimentEvaluator
    a = 'def e { salt: "a" splitters: u return "A1" weighted 1, "A2" weighted 1 }'
    c = 'def e { salt: "c" splitters: u return "C1" weighted 1, "C2" weighted 2, "C3" weighted 1 }'
    bads = [long_chain(500, 8, "/* " + "c" * 300 + " */")[:-1] + " @", long_chain(400, 4) + " def", long_chain(500, 6, "// x\n")[:-2] + '"']
    units = [{"u": "u%d" % i, "x": 0} for i in range(40)]
    errors = []
    redirect = common.contextlib.ExitStack()
    redirect.enter_context(common.contextlib.redirect_stdout(common.io.StringIO()))
    redirect.enter_context(common.contextlib.redirect_stderr(common.io.StringIO()))
    try:
        want_a = [ExperimentEvaluator(a)(u=e["u"]) for e in units]
        want_c = [ExperimentEvaluator(c)(u=e["u"]) for e in units]
        for r in range(rounds):
            ev = ExperimentEvaluator(a)
            state = {}

            def failing():
                try:
                    ev.recompile(bads[r % len(bads)])
                    state["bad"] = "accepted"
                except Exception as ex:  # noqa
                    state["bad"] = type(ex).__name__

            def succeeding():
                time.sleep(0.01 * (1 + r % 4))
                try:
                    ev.recompile(c)
                    state["good"] = "ok"
                except Exception as ex:  # noqa
                    state["good"] = type(ex).__name__
                state["after_good"] = [ev(u=e["u"]) for e in units[:10]]

            t1, t2 = threading.Thread(target=failing), threading.Thread(target=succeeding)
            t1.start(); t2.start(); t1.join(); t2.join()
            ctx.count("failing-recompile-race-rounds")
            now = [ev(u=e["u"]) for e in units]
            if state.get("bad") == "accepted" or state.get("good") != "ok":
                errors.append({"kind": "recompile-outcome-under-overlap", "state": {k: v for k, v in state.items() if k != "after_good"}})
            elif now != want_c:
                errors.append({"kind": "refused-recompile-undid-a-concurrent-successful-one", "round": r, "now": now[:4], "installed": want_c[:4], "old": want_a[:4]})
            else:
                ev.recompile(a)
                back = [ev(u=e["u"]) for e in units]
                if back != want_a:
                    errors.append({"kind": "recompile-ignored-after-overlapping-refusal", "round": r, "now": back[:4], "wanted": want_a[:4]})
            if errors:
                break
    finally:
        redirect.close()
    return errors


def run(ctx):
    dur = DUR[ctx.tier]
    if ctx.obligation_breaks:
        dur *= 4
    ctx.extra["rule"] = ("2..16 threads at a 1 microsecond switch interval construct evaluators, parse, recompile (valid and invalid "
                         "texts) and evaluate sources with block comments and long parses; every result is compared with the sequential "
                         "reference; calls racing with recompiles of one evaluator must return the old or the new result")
    ctx.extra["table_obligations"] = 3
    ctx.assumptions += ["atomicity of a single attribute store / load and of list.append/pop under the GIL; thread-safety of re, pydantic, exec, hashlib (CPython, not modelled)",
                        "the effect extraction is a conservative syntactic analysis: aliasing through parameters is not tracked",
                        "free-threaded CPython is out of scope"]
    eff = ctx.table_summary.get("Effects", {})
    ctx.extra["effects"] = eff
    total = 0
    for n in (2, 4, 8, 16):
        errors, ops = run_threads(ctx, dur / 4, n)
        total += ops
        for e in errors[:3]:
            ctx.violation(f"threads={n}: {e['kind']}: {json.dumps(e)[:200]}", e)
    for e in run_same_text_recompiles(ctx, 4 if ctx.tier == "quick" else 40, 6)[:2]:
        ctx.violation(f"after its own recompile(new) returned, a thread's call is still served by the old experiment: {json.dumps(e)[:200]}", e)
    for e in run_failing_recompile_race(ctx, 6 if ctx.tier == "quick" else 60)[:2]:
        ctx.violation(f"a refused recompile overlapping a successful one on the same evaluator: {json.dumps(e)[:260]}", e)
    for e in run_long_sources(ctx, 3 if ctx.tier == "quick" else 30, 5)[:3]:
        ctx.violation(f"long sources compiled by several threads at once: {json.dumps(e)[:260]}", e)
    for i in range(max(2, min(total, 5000))):
        ctx.case(("thread-op", i), True)
    ctx.cov["samples"].append({"threads": [2, 4, 8, 16], "operations": total, "switch_interval": 1e-6})


def search(ctx):
    for e in run_failing_recompile_race(ctx, 40)[:2]:
        ctx.violation(f"a refused recompile overlapping a successful one on the same evaluator: {json.dumps(e)[:260]}", e)
    for e in run_long_sources(ctx, 20, 6)[:3]:
        ctx.violation(f"long sources compiled by several threads at once: {json.dumps(e)[:260]}", e)
    for n in (4, 16):
        errors, _ = run_threads(ctx, 30.0, n)
        for e in errors[:3]:
            ctx.violation(f"threads={n}: {e['kind']}: {json.dumps(e)[:200]}", e)
