"""C17 — concurrent compilation and evaluation are thread-safe (dynamic part: a search aid and a
sanity check of the static effect classification; the decision is the table obligations +
the interleaving theorems)."""
import json
import sys
import threading
import time

import common
import gen

DUR = {"quick": 4.0, "thorough": 120.0}


def sources(rng, k):
    out = []
    for i in range(k):
        prog = gen.gen_program(rng, gen.GenOpts(max_depth=rng.choice([1, 2]), max_nodes=6, ident_pool=gen.PLAIN_IDENTS))
        text = gen.render(prog, rng, "trivia")          # exercises block-comment state changes
        envs = [gen.gen_env(prog, rng) for _ in range(4)]
        out.append((prog, text, envs))
    return out


def run_threads(ctx, duration, nthreads):
    from pyab_experiment.experiment_evaluator import ExperimentEvaluator
    from pyab_experiment.utils.wraper_functions import parse_source, generate_code
    rng = ctx.rng
    srcs = [s for s in sources(rng, 12) if s[0].splitters]
    # sequential reference
    ref = []
    usable = []
    for prog, text, envs in srcs:
        try:
            ev, _ = common.quiet(lambda: ExperimentEvaluator(text))
            ref.append((common.canon_ast(parse_source(text)), [common.outcome_of(lambda: ev(**e)) for e in envs]))
            usable.append((prog, text, envs))
        except Exception:  # noqa  (a source that does not even compile sequentially is another property's business)
            ctx.count("sequential-compile-failure")
    srcs = usable
    if not srcs:
        return [], 0
    old_text = 'def e { salt: "o" splitters: u return "old1" weighted 1, "old2" weighted 1 }'
    new_text = 'def e { salt: "n" splitters: u /* c */ return "new1" weighted 1, "new2" weighted 3 } // x'
    bad_text = 'def e { splitters: u return "a" weighted }'
    shared = ExperimentEvaluator(old_text)
    units = ["u%d" % i for i in range(12000)]
    seq_old = {u: ExperimentEvaluator(old_text)(u=u) for u in units}
    seq_new = {u: ExperimentEvaluator(new_text)(u=u) for u in units}
    errors, counts = [], {"compile": 0, "call": 0, "race-call": 0, "recompile": 0}
    stop = time.time() + duration
    lock = threading.Lock()

    def worker(tid):
        import random
        r = random.Random(ctx.seed * 1000 + tid)
        try:
            while time.time() < stop and len(errors) < 5:
                k = r.randrange(len(srcs))
                prog, text, envs = srcs[k]
                what = r.random()
                if what < 0.35:
                    ev = ExperimentEvaluator(text)
                    got = [common.outcome_of(lambda: ev(**e)) for e in envs]
                    with lock:
                        counts["compile"] += 1
                    if got != ref[k][1]:
                        errors.append({"kind": "construction-differs", "text": text[:300], "got": got, "want": ref[k][1]})
                elif what < 0.5:
                    a = common.canon_ast(parse_source(text))
                    if a != ref[k][0]:
                        errors.append({"kind": "parse-differs", "text": text[:300]})
                elif what < 0.8:
                    u = r.choice(units)
                    try:
                        g = shared(u=u)
                    except Exception as ex:  # noqa
                        errors.append({"kind": "racing-call-raised", "error": repr(ex)[:200]})
                        continue
                    with lock:
                        counts["race-call"] += 1
                    if g not in (seq_old[u], seq_new[u]):
                        errors.append({"kind": "racing-call-mixture", "unit": u, "got": g, "old": seq_old[u], "new": seq_new[u]})
                else:
                    t = r.choice([old_text, new_text, bad_text])
                    try:
                        shared.recompile(t)
                    except Exception:  # noqa
                        if t is not bad_text:
                            errors.append({"kind": "valid-recompile-raised"})
                    with lock:
                        counts["recompile"] += 1
        except Exception as ex:  # noqa
            errors.append({"kind": "worker-crashed", "error": repr(ex)[:300]})

    old = sys.getswitchinterval()
    sys.setswitchinterval(1e-6)
    try:
        ths = [threading.Thread(target=worker, args=(i,)) for i in range(nthreads)]
        with common.contextlib.redirect_stdout(common.io.StringIO()), common.contextlib.redirect_stderr(common.io.StringIO()):
            for t in ths:
                t.start()
            for t in ths:
                t.join()
    finally:
        sys.setswitchinterval(old)
    for k, v in counts.items():
        ctx.count(f"threads{nthreads}:{k}", v)
    return errors, sum(counts.values())


def run_same_text_recompiles(ctx, rounds, nthreads):
    """all threads recompile ONE evaluator to the same new text at the same moment; each thread's next call (after its own
    recompile returned) must already be served by the new experiment"""
    from pyab_experiment.experiment_evaluator import ExperimentEvaluator
    errors = []
    old_sw = sys.getswitchinterval()
    sys.setswitchinterval(1e-6)
    try:
        for r in range(rounds):
            branches = " ".join('else if x == %d { return "n%d_%d" weighted 1 /* c%d */ }' % (k, r, k, k) for k in range(1, 120))
            old = 'def e { salt: "o" splitters: u return "old" weighted 1 }'
            new = 'def e { salt: "n%d" splitters: u if x == 0 { return "n%d_0" weighted 1 } %s else { return "new%d" weighted 1 } }' % (r, r, branches, r)
            ev = ExperimentEvaluator(old)
            want = ExperimentEvaluator(new)(u="u1", x=-1)
            barrier = threading.Barrier(nthreads)

            def worker(tid):
                try:
                    try:
                        barrier.wait(timeout=120)
                    except threading.BrokenBarrierError:
                        ctx.count("barrier-timeout (machine load; round skipped)")
                        return
                    time.sleep(0.0005 * tid)              # staggered arrival: later threads find a compile in progress
                    ev.recompile(new)
                    got = ev(u="u1", x=-1)
                    if got != want:
                        errors.append({"kind": "own-recompile-not-visible", "round": r, "thread": tid, "got": got, "want": want})
                except Exception as ex:  # noqa
                    errors.append({"kind": "same-text-recompile-raised", "error": repr(ex)[:200]})

            ths = [threading.Thread(target=worker, args=(i,)) for i in range(nthreads)]
            for t in ths:
                t.start()
            for t in ths:
                t.join()
            ctx.count(f"same-text-recompile-rounds")
            if errors:
                break
    finally:
        sys.setswitchinterval(old_sw)
    return errors


def long_chain(n, groups=1, comment=""):
    parts = ['if x == 0 { return "a" weighted 1 }']
    for i in range(1, n + 1):
        g = ", ".join('"h%d_%d" weighted 1' % (i, k) for k in range(groups))
        parts.append('else if x == %d { %s return %s }' % (i, comment, g))
    return "def e { splitters: u " + " ".join(parts) + ' else { return "z" weighted 1 } }'


def run_long_sources(ctx, rounds, nthreads, children=None):
    """the long-source phase in fresh child interpreters (several independent attempts, in parallel)"""
    import os
    import subprocess
    from concurrent.futures import ThreadPoolExecutor
    children = children or (4 if ctx.tier == "quick" and rounds < 10 else 16)

    env0 = dict(os.environ, PYAB_REPO=common.REPO)
    p0 = subprocess.run(["/venv/bin/python", os.path.join(common.VERIF, "harness", "child_c17.py"), "ref"], stdout=subprocess.PIPE, stderr=subprocess.PIPE, env=env0, timeout=900)
    if p0.returncode != 0:
        return [{"kind": "long-source-child-crashed", "stderr": p0.stderr.decode("utf-8", "replace")[-300:]}]
    ref_json = p0.stdout.decode("utf-8")

    def one(k):
        env = dict(os.environ, PYAB_REPO=common.REPO)
        p = subprocess.run(["/venv/bin/python", os.path.join(common.VERIF, "harness", "child_c17.py"), str(rounds), str(nthreads), str(ctx.seed * 100 + k)],
                           input=ref_json.encode("utf-8"), stdout=subprocess.PIPE, stderr=subprocess.PIPE, env=env, timeout=900)
        if p.returncode != 0:
            return {"errors": [{"kind": "long-source-child-crashed", "stderr": p.stderr.decode("utf-8", "replace")[-300:]}], "counts": {}}
        return json.loads(p.stdout.decode("utf-8"))
    with ThreadPoolExecutor(min(8, children)) as ex:
        outs = list(ex.map(one, range(children)))
    errors = []
    for o in outs:
        errors += o["errors"]
        for k, v in o["counts"].items():
            ctx.count(k, v)
    ctx.count("long-source-children", children)
    return errors


def run_long_sources_here(ctx, rounds, nthreads, shift=0, ref=None, ref_only=False):
    """long parses: sources of 15 KB .. 300 KB (else-if chains of 300, 900 and 1400 branches, 500 branches of eight groups with
    block comments) compiled by worker threads at the same moment; every construction must end as it ends alone — with the
    evaluator it yields alone, or with the error it raises alone (the 1400 chain exceeds what the code generator's recursion allows
    on this interpreter, alone or not)"""
    from pyab_experiment.experiment_evaluator import ExperimentEvaluator
    def nest(k):
        inner = 'return "leaf" weighted 1'
        for i in range(k):
            inner = 'if x >= %d { %s } else { return "n%d" weighted 1 }' % (i, inner, i)
        return "def e { splitters: u " + inner + " }"

    storm = rounds >= 10           # the deeper search: every nesting depth 13..95 is met for the first time by all threads at once
    texts = ([(-d, nest(d)) for d in range(13, 96)] if storm else []) + [(300, long_chain(300)), (500, long_chain(500, 8, "/* " + "c" * 400 + " */")), (900, long_chain(900)), (1400, long_chain(1400)),
             (250, long_chain(250, 2, "// c\n")), (-20, nest(20)), (-35, nest(35)), (-36, nest(36)), (-60, nest(60)), (-61, nest(61)), (-90, nest(90))]

    def build(n, text):
        try:
            ev = ExperimentEvaluator(text)       # (stdout is redirected once, around the whole phase: redirect_stdout is not thread-safe)
            return ["ok"] + [common.outcome_of(lambda x=x: ev(u="u1", x=x)) for x in (0, abs(n) // 2, abs(n), abs(n) + 1)]
        except RecursionError:
            return ["RecursionError"]
        except Exception as ex:  # noqa
            return [common.classify_exc(ex)]

    errors = []
    old_sw = sys.getswitchinterval()
    redirect = common.contextlib.ExitStack()
    redirect.enter_context(common.contextlib.redirect_stdout(common.io.StringIO()))
    redirect.enter_context(common.contextlib.redirect_stderr(common.io.StringIO()))
    try:
        if ref_only:
            # what every construction yields ALONE, in an interpreter that has done nothing else
            return {str(n): build(n, t) for n, t in dict([(-d, nest(d)) for d in range(13, 96)] + texts).items()}
        ref = {int(k): v for k, v in ref.items()} if ref else {n: build(n, t) for n, t in texts}
        sys.setswitchinterval(1e-6)
        if storm:
            # all threads compile the deepest source at the same moment, as the first deep compile of this interpreter: every
            # nesting depth 13..95 is met for the first time by several threads within the same few milliseconds
            for d in (95, 94, 93):
                barrier = threading.Barrier(nthreads)
                got = {}

                def first_time(tid, d=d):
                    try:
                        barrier.wait(timeout=60)
                    except threading.BrokenBarrierError:
                        return
                    got[tid] = build(-d, nest(d))
                ths = [threading.Thread(target=first_time, args=(i,)) for i in range(nthreads)]
                for t in ths:
                    t.start()
                for t in ths:
                    t.join()
                ctx.count("first-time-depth-rounds")
                bad = [g for g in got.values() if g != ref.get(-d)]
                if bad:
                    errors.append({"kind": "construction-differs-when-nesting-depths-are-first-met-by-several-threads", "depth": d, "threads": nthreads,
                                   "concurrent": bad[0][:2], "alone": (ref.get(-d) or [])[:2]})
                    break
        for r in range(0 if errors else rounds):
            barrier = threading.Barrier(nthreads)
            results = {}

            def worker(tid):
                n, t = texts[(tid + r + shift) % len(texts)]
                try:
                    barrier.wait(timeout=120)
                except threading.BrokenBarrierError:
                    return
                results[tid] = (n, build(n, t))

            ths = [threading.Thread(target=worker, args=(i,)) for i in range(nthreads)]
            for t in ths:
                t.start()
            for t in ths:
                t.join()
            ctx.count("long-source-rounds")
            for tid, (n, got) in results.items():
                if got != ref[n]:
                    errors.append({"kind": "long-construction-differs", "branches": n, "threads": nthreads, "concurrent": got[:2], "alone": ref[n][:2]})
            # and once more alone, afterwards: a race may leave the process in another state than it found it
            for n, t in texts:
                again = build(n, t)
                if again != ref[n]:
                    errors.append({"kind": "construction-differs-after-concurrent-phase", "branches": n, "now": again[:2], "before": ref[n][:2]})
            if errors:
                break
    finally:
        sys.setswitchinterval(old_sw)
        redirect.close()
    return errors


def run_failing_recompile_race(ctx, rounds):
    """one thread's recompile of a LONG text that is refused only at its last character overlaps another thread's successful
    recompile of the same evaluator: the refusal must not undo (or half-undo) what the other thread installed"""
    from pyab_experiment.experiment_evaluator import ExperimentEvaluator
    a = 'def e { salt: "a" splitters: u return "A1" weighted 1, "A2" weighted 1 }'
    c = 'def e { salt: "c" splitters: u return "C1" weighted 1, "C2" weighted 2, "C3" weighted 1 }'
    bads = [long_chain(500, 8, "/* " + "c" * 300 + " */")[:-1] + " @", long_chain(400, 4) + " def", long_chain(500, 6, "// x\n")[:-2] + '"']
    units = [{"u": "u%d" % i, "x": 0} for i in range(40)]
    errors = []
    redirect = common.contextlib.ExitStack()
    redirect.enter_context(common.contextlib.redirect_stdout(common.io.StringIO()))
    redirect.enter_context(common.contextlib.redirect_stderr(common.io.StringIO()))
    try:
        want_a = [ExperimentEvaluator(a)(u=e["u"]) for e in units]
        want_c = [ExperimentEvaluator(c)(u=e["u"]) for e in units]
        for r in range(rounds):
            ev = ExperimentEvaluator(a)
            state = {}

            def failing():
                try:
                    ev.recompile(bads[r % len(bads)])
                    state["bad"] = "accepted"
                except Exception as ex:  # noqa
                    state["bad"] = type(ex).__name__

            def succeeding():
                time.sleep(0.01 * (1 + r % 4))
                try:
                    ev.recompile(c)
                    state["good"] = "ok"
                except Exception as ex:  # noqa
                    state["good"] = type(ex).__name__
                state["after_good"] = [ev(u=e["u"]) for e in units[:10]]

            t1, t2 = threading.Thread(target=failing), threading.Thread(target=succeeding)
            t1.start(); t2.start(); t1.join(); t2.join()
            ctx.count("failing-recompile-race-rounds")
            now = [ev(u=e["u"]) for e in units]
            if state.get("bad") == "accepted" or state.get("good") != "ok":
                errors.append({"kind": "recompile-outcome-under-overlap", "state": {k: v for k, v in state.items() if k != "after_good"}})
            elif now != want_c:
                errors.append({"kind": "refused-recompile-undid-a-concurrent-successful-one", "round": r, "now": now[:4], "installed": want_c[:4], "old": want_a[:4]})
            else:
                ev.recompile(a)
                back = [ev(u=e["u"]) for e in units]
                if back != want_a:
                    errors.append({"kind": "recompile-ignored-after-overlapping-refusal", "round": r, "now": back[:4], "wanted": want_a[:4]})
            if errors:
                break
    finally:
        redirect.close()
    return errors


def schedule_scenarios():
    """(name, make_ops) pairs for harness/sched.py; every closure is built inside the forked interpreter"""
    def nest(k):
        inner = 'return "leaf" weighted 1'
        for i in range(k):
            inner = 'if x >= %d { %s } else { return "n%d" weighted 1 }' % (i, inner, i)
        return "def e { splitters: u " + inner + " }"

    def build(text, xs=(0, 5, 50)):
        from pyab_experiment.experiment_evaluator import ExperimentEvaluator
        try:
            ev = ExperimentEvaluator(text)
            return ["ok"] + [common.outcome_of(lambda x=x: ev(u="u1", x=x)) for x in xs]
        except Exception as ex:  # noqa
            return [common.classify_exc(ex)]

    old = 'def e { salt: "o" splitters: u return "old1" weighted 1, "old2" weighted 1 }'
    new = 'def e { salt: "n" splitters: u /* c */ if x == 1 { return "n1" weighted 1 } else { return "new1" weighted 1, "new2" weighted 3 } } // x'
    third = 'def e { salt: "t" splitters: u return "t1" weighted 2, "t2" weighted 1, "t3" weighted 1 }'
    bad = 'def e { salt: "b" splitters: u if x == 1 { return "b1" weighted 1 } else if x == 2 { return "b2" weighted 1 } else { return "b3" weighted 1 } } @'
    units = ["u%d" % i for i in range(12)]

    def two_constructions():
        return (lambda: build(nest(40))), (lambda: build(nest(41))), [lambda: build(nest(45)), lambda: build(long_chain(6))]

    def recompile_vs_calls():
        from pyab_experiment.experiment_evaluator import ExperimentEvaluator
        ev = ExperimentEvaluator(old)

        def a():
            ev.recompile(new)
            return "ok"
        return a, (lambda: [common.outcome_of(lambda u=u: ev(u=u, x=0)) for u in units]), [lambda: [common.outcome_of(lambda u=u: ev(u=u, x=0)) for u in units]]

    def refused_vs_accepted():
        from pyab_experiment.experiment_evaluator import ExperimentEvaluator
        ev = ExperimentEvaluator(old)

        def rec(t):
            try:
                ev.recompile(t)
                return "ok"
            except Exception as ex:  # noqa
                return common.classify_exc(ex)
        calls = lambda: [common.outcome_of(lambda u=u: ev(u=u, x=0)) for u in units]
        return (lambda: rec(bad)), (lambda: rec(third)), [calls, lambda: rec(old), calls, lambda: rec(bad), calls]

    def same_text_twice():
        from pyab_experiment.experiment_evaluator import ExperimentEvaluator
        ev = ExperimentEvaluator(old)
        calls = lambda: [common.outcome_of(lambda u=u: ev(u=u, x=0)) for u in units]

        def a():
            ev.recompile(new)
            return calls()

        def b():
            ev.recompile(new)
            return calls()
        return a, b, [calls, lambda: (ev.recompile(old), calls())[1]]

    def two_accepted_then_revisit(a_first=True):
        # two ACCEPTED recompiles of different texts overlap; afterwards each text is submitted again (sequentially) and must be what runs
        from pyab_experiment.experiment_evaluator import ExperimentEvaluator
        ev = ExperimentEvaluator(old)
        calls = lambda: [common.outcome_of(lambda u=u: ev(u=u, x=0)) for u in units]

        def rec(t):
            try:
                ev.recompile(t)
                return "ok"
            except Exception as ex:  # noqa
                return common.classify_exc(ex)
        visit = lambda t: (lambda: (rec(t), calls()))
        order = [new, third] if a_first else [third, new]
        return (lambda: rec(new)), (lambda: rec(third)), [calls, visit(order[0]), visit(order[1]), visit(old), visit(order[1]), visit(order[0])]

    def two_evaluators_same_names():
        # two different experiments with the same name and field names, built concurrently, then both asked
        return (lambda: build(new, (0, 1))), (lambda: build(third, (0, 1))), [lambda: build(old, (0, 1))]

    return [("two constructions", two_constructions), ("recompile vs calls", recompile_vs_calls), ("refused vs accepted recompile", refused_vs_accepted),
            ("same text recompiled twice", same_text_twice), ("two accepted recompiles, then each text again", two_accepted_then_revisit),
            ("two accepted recompiles, then each text again (other order)", lambda: two_accepted_then_revisit(False)),
            ("two evaluators, same experiment name", two_evaluators_same_names)]


def run_schedules(ctx, budget):
    import sched
    total = 0
    for name, make_ops in schedule_scenarios():
        findings, tried = sched.explore(make_ops, budget, ctx.rng)
        total += tried
        ctx.count("schedules:" + name, tried)
        for f in findings[:1]:
            ctx.violation(f"one-preemption schedule ({name}): thread A suspended at its line event {f.get('k')} of {f.get('events')} while thread B runs to completion — "
                          f"the outcome is that of neither serial order: {json.dumps(f)[:300]}", dict(f, scenario=name))
    return total


def run(ctx):
    dur = DUR[ctx.tier]
    if ctx.obligation_breaks:
        dur *= 4
    ctx.extra["rule"] = ("2..16 threads at a 1 microsecond switch interval construct evaluators, parse, recompile (valid and invalid "
                         "texts) and evaluate sources with block comments and long parses; every result is compared with the sequential "
                         "reference; calls racing with recompiles of one evaluator must return the old or the new result")
    ctx.extra["table_obligations"] = 3
    ctx.assumptions += ["atomicity of a single attribute store / load and of list.append/pop under the GIL; thread-safety of re, pydantic, exec, hashlib (CPython, not modelled)",
                        "the effect extraction is a conservative syntactic analysis: aliasing through parameters is not tracked",
                        "free-threaded CPython is out of scope"]
    eff = ctx.table_summary.get("Effects", {})
    ctx.extra["effects"] = eff
    total = 0
    for n in (2, 4, 8, 16):
        errors, ops = run_threads(ctx, dur / 4, n)
        total += ops
        for e in errors[:3]:
            ctx.violation(f"threads={n}: {e['kind']}: {json.dumps(e)[:200]}", e)
    for e in run_same_text_recompiles(ctx, 4 if ctx.tier == "quick" else 40, 6)[:2]:
        ctx.violation(f"after its own recompile(new) returned, a thread's call is still served by the old experiment: {json.dumps(e)[:200]}", e)
    nsched = run_schedules(ctx, 40 if ctx.tier == "quick" else 2000)
    ctx.extra["schedules_explored"] = nsched
    for e in run_failing_recompile_race(ctx, 6 if ctx.tier == "quick" else 60)[:2]:
        ctx.violation(f"a refused recompile overlapping a successful one on the same evaluator: {json.dumps(e)[:260]}", e)
    for e in run_long_sources(ctx, 3 if ctx.tier == "quick" else 30, 5)[:3]:
        ctx.violation(f"long sources compiled by several threads at once: {json.dumps(e)[:260]}", e)
    for i in range(max(2, min(total, 5000))):
        ctx.case(("thread-op", i), True)
    ctx.cov["samples"].append({"threads": [2, 4, 8, 16], "operations": total, "switch_interval": 1e-6})


def search(ctx):
    run_schedules(ctx, 1500)
    if ctx.violations:
        return
    for e in run_failing_recompile_race(ctx, 40)[:2]:
        ctx.violation(f"a refused recompile overlapping a successful one on the same evaluator: {json.dumps(e)[:260]}", e)
    for e in run_long_sources(ctx, 20, 6)[:3]:
        ctx.violation(f"long sources compiled by several threads at once: {json.dumps(e)[:260]}", e)
    for n in (4, 16):
        errors, _ = run_threads(ctx, 30.0, n)
        for e in errors[:3]:
            ctx.violation(f"threads={n}: {e['kind']}: {json.dumps(e)[:200]}", e)
