"""./check Cxx --replay <file>: re-run the concrete input / history of a violation replay on the
current /repo and say whether it still fails (exit 1) or not (exit 0)."""
import json

import common
import gen


def dec(v):
    if "n" in v:
        return None
    if "b" in v:
        return v["b"]
    if "i" in v:
        return int(v["i"])
    if "f" in v:
        x = common.dbl_parse(v["f"])
        return -0.0 if v.get("z") else x
    if "s" in v:
        return v["s"]
    if "t" in v:
        return tuple(dec(x) for x in v["t"])
    raise ValueError(v)


def run(ctx, payload):
    rep = payload.get("replay", payload)
    kind = payload.get("kind")
    print(f"replaying {kind or 'input'} of property {payload.get('property')}: {payload.get('what', '')[:200]}")
    if kind == "no-failing-input-found":
        print("this replay names broken obligations / correspondence stages, not an input: re-run the check itself")
        for b in payload.get("broken_obligations", []):
            print("  obligation:", b.get("what"), "::", b.get("detail", "")[:200].replace("\n", " | "))
        return None
    if "history" in rep:
        from props import c11
        ops = [[o[0], o[1], (o[2] if o[0] != "call" else {k: dec(v) for k, v in o[2]})] for o in rep["history"]]
        c11.run_history(ctx, ops, None)
        if not ctx.violations and "model" in rep and ops and ops[-1][0] == "call":
            # recorded against the model's answer for the last text (evaluators of one process may share the fault)
            from pyab_experiment.experiment_evaluator import ExperimentEvaluator
            objs = {}
            out = None
            for kind_, ident, arg in ops:
                try:
                    if kind_ == "new":
                        objs[ident], _ = common.quiet(lambda: ExperimentEvaluator(arg))
                    elif kind_ == "recompile":
                        common.quiet(lambda: objs[ident].recompile(arg))
                    else:
                        out = common.outcome_of(lambda: objs[ident](**arg))
                except Exception as ex:  # noqa
                    out = {"e": common.classify_exc(ex)}
            print("  implementation now:", json.dumps(out)[:200], " the text prescribes:", json.dumps(rep["model"])[:200])
            return out != rep["model"]
        return bool(ctx.violations)
    if "weights" in rep and "h" in rep:
        import choicelib
        ws = rep["weights"]
        with choicelib.SubstitutedPosition():
            out = choicelib.impl_choice(rep["h"], list(range(len(ws))), weights=[choicelib.to_num(w) for w in ws])
        exact, allowed = gen.spec_indices(ws, rep["h"])
        print("  implementation:", out, " interval rule:", exact, sorted(allowed))
        return "g" not in out or int(out["g"]["i"]) not in allowed
    if "text" in rep:
        from pyab_experiment.experiment_evaluator import ExperimentEvaluator
        env = {k: dec(v) for k, v in rep["env"]} if isinstance(rep.get("env"), list) else {}
        out = common.outcome_of(lambda: ExperimentEvaluator(rep["text"])(**env))
        print("  implementation now:", json.dumps(out)[:200])
        for k in ("impl", "spec", "impl_compile", "model"):
            if k in rep:
                print(f"  recorded {k}:", json.dumps(rep[k])[:200])
        if ctx.driver_ok:
            m = common.run_driver([{"op": "run", "text": rep["text"], "envs": [common.enc_env(env)]}])[0]
            print("  model:", json.dumps(m.get("out", m))[:200], " compile:", m.get("compile"))
        if "impl" in rep:
            return out == rep["impl"]
        if "impl_compile" in rep:
            try:
                common.quiet(lambda: ExperimentEvaluator(rep["text"]))
                now = "ok"
            except Exception as ex:  # noqa
                now = {"e": common.classify_exc(ex)}
            print("  compile now:", now)
            return now == rep["impl_compile"]
        return None
    print(json.dumps(rep)[:1000])
    return None
