#!/usr/bin/env python3
"""CPython's reading of a generated function body as canonical lines (the same JSON the Lean
reader `Pyab.PyRead.readBody` produces through the driver op `pyread`): `py_lines(text)`.
Used by the C13 check to tie the model of Python's reader to CPython's own `ast`."""
import ast, json, random, subprocess, sys, math

DRIVER = None


def norm_float(x):
    if x != x:
        return "nan"
    if x == math.inf:
        return "inf"
    if x == -math.inf:
        return "-inf"
    if x == 0:
        return "0 0"
    m, e = math.frexp(x)
    m = int(m * (1 << 53))
    e -= 53
    while m % 2 == 0:
        m //= 2
        e += 1
    return f"{m} {e}"


def val_j(v):
    if v is None:
        return {"n": None}
    if v is True or v is False:
        return {"b": v}
    if isinstance(v, int):
        return {"i": str(v)}
    if isinstance(v, float):
        if v == 0 and math.copysign(1, v) < 0:
            return {"f": "0 0", "z": True}
        return {"f": norm_float(v)}
    if isinstance(v, str):
        return {"s": v}
    raise ValueError("val")


def num_j(v):
    if isinstance(v, bool):
        raise ValueError
    if isinstance(v, int):
        return {"i": str(v)}
    if isinstance(v, float):
        return {"f": norm_float(v)}
    raise ValueError("num")


def const_of(n):
    if isinstance(n, ast.Constant) and not isinstance(n.value, (bytes, complex)) and n.value is not Ellipsis:
        return n.value
    if isinstance(n, ast.UnaryOp) and isinstance(n.op, ast.USub) and isinstance(n.operand, ast.Constant) \
            and type(n.operand.value) in (int, float):
        return -n.operand.value
    raise ValueError("const")


def term_j(n):
    if isinstance(n, ast.Name):
        return {"n": n.id}
    if isinstance(n, ast.Tuple):
        return {"t": [term_j(x) for x in n.elts]}
    return {"c": val_j(const_of(n))}


CMP = {ast.Eq: "==", ast.NotEq: "!=", ast.Lt: "<", ast.Gt: ">", ast.LtE: "<=", ast.GtE: ">=",
       ast.In: "in", ast.NotIn: "not in"}


def expr_j(n):
    if isinstance(n, ast.Compare) and len(n.ops) == 1 and type(n.ops[0]) in CMP:
        return {"cmp": [term_j(n.left), CMP[type(n.ops[0])], term_j(n.comparators[0])]}
    if isinstance(n, ast.BoolOp) and len(n.values) == 2:
        return {"bin": [expr_j(n.values[0]), "and" if isinstance(n.op, ast.And) else "or", expr_j(n.values[1])]}
    if isinstance(n, ast.UnaryOp) and isinstance(n.op, ast.Not):
        return {"un": ["not", expr_j(n.operand)]}
    raise ValueError("expr")


def flat(stmts, out):
    for st in stmts:
        d = st.col_offset
        if isinstance(st, ast.If):
            kind = "if"
            while True:
                out.append([d, {kind: expr_j(st.test)}])
                flat(st.body, out)
                if len(st.orelse) == 1 and isinstance(st.orelse[0], ast.If) and st.orelse[0].col_offset == d \
                        and st.orelse[0].lineno_is_elif:
                    st = st.orelse[0]
                    kind = "elif"
                    continue
                if st.orelse:
                    out.append([d, "else"])
                    flat(st.orelse, out)
                break
        elif isinstance(st, ast.Return):
            c = st.value
            ok = (isinstance(c, ast.Call) and isinstance(c.func, ast.Name) and c.func.id == "partial"
                  and len(c.args) == 1 and isinstance(c.args[0], ast.Name) and c.args[0].id == "deterministic_choice"
                  and [k.arg for k in c.keywords] == ["population", "weights"]
                  and all(isinstance(k.value, ast.List) for k in c.keywords))
            if not ok:
                raise ValueError("ret")
            pop = [val_j(const_of(x)) for x in c.keywords[0].value.elts]
            ws = [num_j(const_of(x)) for x in c.keywords[1].value.elts]
            out.append([d, {"ret": {"pop": pop, "w": ws}}])
        elif isinstance(st, ast.Raise):
            c = st.exc
            ok = (isinstance(c, ast.Call) and isinstance(c.func, ast.Name)
                  and c.func.id == "ExperimentConditionalFailedError" and not c.args and not c.keywords
                  and st.cause is None)
            if not ok:
                raise ValueError("raise")
            out.append([d, "raise"])
        else:
            raise ValueError("stmt")


def py_lines(text):
    """canonical lines of the text as CPython reads it, or None"""
    lines = [l for l in text.split("\n") if l.strip("\t") != ""]
    if not lines:
        return []
    d0 = len(lines[0]) - len(lines[0].lstrip("\t"))
    wrapper = "".join("\t" * k + "if 1:\n" for k in range(d0))
    try:
        tree = ast.parse(wrapper + text)
    except (SyntaxError, ValueError, RecursionError, MemoryError):
        return None
    src = (wrapper + text).split("\n")
    # mark elif: an If in orelse whose source line starts (after tabs) with 'elif'
    for n in ast.walk(tree):
        if isinstance(n, ast.If):
            n.lineno_is_elif = src[n.lineno - 1].lstrip("\t").startswith("elif")
    body = tree.body
    for _ in range(d0):
        if len(body) != 1 or not isinstance(body[0], ast.If) or body[0].orelse:
            return None
        body = body[0].body
    out = []
    try:
        flat(body, out)
    except ValueError:
        return None
    return out
