"""An independent recogniser of the documented language (language/README.rst): a
hand-written scanner for the documented token table (longest operator first, keywords
are whole words, `else\\s*if` and `not\\s+in` are single tokens, strings in either quote
on one line, `//` and `/* */` comments) and a recursive-descent / precedence-climbing
parser for the documented BNF (not > and > or, left associative).  Shares no code with
sly, the package's lexer/parser, or the Lean model's table-driven ones.

Returns a small AST so that callers can also compare *which* experiment was recognised."""
import re

KEYWORDS = {"def": "KW_DEF", "salt": "KW_SALT", "splitters": "KW_SPLITTERS", "if": "KW_IF", "else": "KW_ELSE",
            "weighted": "KW_WEIGHTED", "return": "KW_RETURN", "and": "KW_AND", "or": "KW_OR", "not": "KW_NOT", "in": "KW_IN"}
PUNCT = {"(": "LPAREN", ")": "RPAREN", "-": "MINUS", ",": "COMMA", ":": "COLON", "{": "LBRACE", "}": "RBRACE"}
OPS2 = {"==": "KW_EQ", ">=": "KW_GE", "<=": "KW_LE", "!=": "KW_NE"}
OPS1 = {">": "KW_GT", "<": "KW_LT"}

_ws = re.compile(r"\s+")
_ident = re.compile(r"[A-Za-z_][A-Za-z0-9_]*")
_num = re.compile(r"\d+(\.\d+)?")
_elif = re.compile(r"else\s*if(?![A-Za-z0-9_])")
_notin = re.compile(r"not\s+in(?![A-Za-z0-9_])")


class Reject(Exception):
    pass


def tokenize(text):
    """-> list of (kind, value); raises Reject on a character that belongs to no token,
    an unterminated string or an unterminated block comment"""
    toks = []
    i, n = 0, len(text)
    while i < n:
        c = text[i]
        m = _ws.match(text, i)
        if m:
            i = m.end()
            continue
        if text.startswith("//", i):
            j = text.find("\n", i)
            i = n if j < 0 else j
            continue
        if text.startswith("/*", i):
            j = text.find("*/", i + 2)
            if j < 0:
                raise Reject("unterminated block comment")
            i = j + 2
            continue
        if c in "\"'":
            j = i + 1
            while j < n and text[j] != c and text[j] != "\n":
                j += 1
            if j >= n or text[j] != c:
                raise Reject("unterminated string")
            toks.append(("STRING_LITERAL", text[i + 1:j]))
            i = j + 1
            continue
        if text[i:i + 2] in OPS2:
            toks.append((OPS2[text[i:i + 2]], text[i:i + 2]))
            i += 2
            continue
        if c in OPS1:
            toks.append((OPS1[c], c))
            i += 1
            continue
        if c in PUNCT:
            toks.append((PUNCT[c], c))
            i += 1
            continue
        m = _num.match(text, i)
        if m and c.isdigit():
            s = m.group()
            # a digit run glued to a following identifier character is still a number token
            # followed by an identifier in the documented token table; keep it simple: the
            # number ends where the pattern ends
            if "." in s:
                toks.append(("NON_NEG_FLOAT", s))
            else:
                toks.append(("NON_NEG_INTEGER", s))
            i = m.end()
            continue
        m2 = _elif.match(text, i) or _notin.match(text, i)
        if m2:
            # the documented two-word tokens: `else\s*if` (also written `elseif`) and `not\s+in`
            toks.append(("KW_ELIF", "else if") if text[i] == "e" else ("KW_NOT_IN", "not in"))
            i = m2.end()
            continue
        m = _ident.match(text, i)
        if m:
            w = m.group()
            i = m.end()
            if w == "else":
                m2 = re.compile(r"\s*if(?![A-Za-z0-9_])").match(text, i)
                if m2:
                    toks.append(("KW_ELIF", "else if"))
                    i = m2.end()
                    continue
            if w == "not":
                m2 = re.compile(r"\s+in(?![A-Za-z0-9_])").match(text, i)
                if m2:
                    toks.append(("KW_NOT_IN", "not in"))
                    i = m2.end()
                    continue
            if w in KEYWORDS:
                toks.append((KEYWORDS[w], w))
            else:
                toks.append(("ID", w))
            continue
        raise Reject(f"illegal character {c!r} at {i}")
    return toks


class P:
    def __init__(self, toks):
        self.t = toks
        self.i = 0

    def peek(self):
        return self.t[self.i][0] if self.i < len(self.t) else "$end"

    def eat(self, kind):
        if self.peek() != kind:
            raise Reject(f"expected {kind}, got {self.peek()} at token {self.i}")
        v = self.t[self.i][1]
        self.i += 1
        return v

    # header ::= KW_DEF ID { opt_salt opt_splitter conditional }
    def header(self):
        self.eat("KW_DEF")
        name = self.eat("ID")
        self.eat("LBRACE")
        salt = None
        if self.peek() == "KW_SALT":
            self.eat("KW_SALT"); self.eat("COLON")
            salt = self.eat("STRING_LITERAL")
        fields = None
        if self.peek() == "KW_SPLITTERS":
            self.eat("KW_SPLITTERS"); self.eat("COLON")
            fields = [self.eat("ID")]
            while self.peek() == "COMMA":
                self.eat("COMMA")
                fields.append(self.eat("ID"))
        c = self.conditional()
        self.eat("RBRACE")
        if self.peek() != "$end":
            raise Reject("text after the definition")
        return {"id": name, "salt": salt, "splitters": fields, "cond": c}

    def conditional(self):
        if self.peek() == "KW_RETURN":
            self.eat("KW_RETURN")
            groups = [self.group()]
            while self.peek() == "COMMA":
                self.eat("COMMA")
                groups.append(self.group())
            return ("ret", groups)
        self.eat("KW_IF")
        p = self.predicate(0)
        self.eat("LBRACE")
        c = self.conditional()
        self.eat("RBRACE")
        return ("if", p, c, self.sub())

    def sub(self):
        if self.peek() == "KW_ELSE":
            self.eat("KW_ELSE"); self.eat("LBRACE")
            c = self.conditional()
            self.eat("RBRACE")
            return ("else", c)
        if self.peek() == "KW_ELIF":
            self.eat("KW_ELIF")
            p = self.predicate(0)
            self.eat("LBRACE")
            c = self.conditional()
            self.eat("RBRACE")
            return ("elif", p, c, self.sub())
        return None

    def group(self):
        lit = self.literal()
        self.eat("KW_WEIGHTED")
        if self.peek() in ("NON_NEG_INTEGER", "NON_NEG_FLOAT"):
            k = self.peek()
            w = self.eat(k)
        else:
            raise Reject("weight expected")
        return (lit, w)

    def literal(self):
        k = self.peek()
        if k == "MINUS":
            self.eat("MINUS")
            k = self.peek()
            if k in ("NON_NEG_INTEGER", "NON_NEG_FLOAT"):
                return ("num", "-" + self.eat(k))
            raise Reject("number expected after -")
        if k in ("NON_NEG_INTEGER", "NON_NEG_FLOAT"):
            return ("num", self.eat(k))
        if k == "STRING_LITERAL":
            return ("str", self.eat(k))
        raise Reject("literal expected")

    # precedence climbing: or(1) < and(2) < not(3) < atom
    def predicate(self, minprec):
        left = self.unary()
        while True:
            k = self.peek()
            prec = {"KW_OR": 1, "KW_AND": 2}.get(k)
            if prec is None or prec < minprec:
                return left
            self.eat(k)
            right = self.predicate(prec + 1)
            left = ("or" if k == "KW_OR" else "and", left, right)

    def unary(self):
        if self.peek() == "KW_NOT":
            self.eat("KW_NOT")
            # `not` binds tighter than and/or: its operand is a unary-level predicate
            return ("not", self.unary())
        return self.atom()

    def atom(self):
        # "(" predicate ")"  |  term logical_op term ; a term may itself start with "("
        if self.peek() == "LPAREN":
            save = self.i
            try:
                t = self.term()
                if self.peek() in LOGICAL:
                    op = self.eat(self.peek())
                    return ("cmp", t, op, self.term())
            except Reject:
                pass
            self.i = save
            self.eat("LPAREN")
            p = self.predicate(0)
            self.eat("RPAREN")
            return p
        t = self.term()
        if self.peek() not in LOGICAL:
            raise Reject("comparison operator expected")
        op = self.eat(self.peek())
        return ("cmp", t, op, self.term())

    def term(self):
        k = self.peek()
        if k == "ID":
            return ("id", self.eat("ID"))
        if k == "LPAREN":
            self.eat("LPAREN")
            items = [self.term()]
            while self.peek() == "COMMA":
                self.eat("COMMA")
                items.append(self.term())
            self.eat("RPAREN")
            return ("tuple", items)
        return self.literal()


LOGICAL = {"KW_EQ", "KW_GT", "KW_LT", "KW_GE", "KW_LE", "KW_NE", "KW_IN", "KW_NOT_IN"}


def recognise(text):
    """the recognised experiment (small AST) or raises Reject"""
    toks = tokenize(text)
    return P(toks).header()


def accepts(text):
    try:
        recognise(text)
        return True
    except Reject:
        return False
    except RecursionError:
        return False
