"""Child interpreter for the C01 process matrix: replay a history of evaluator operations
read from stdin (JSON), print one canonical outcome per operation (ASCII JSON lines)."""
import json
import os
import sys

sys.path.insert(0, os.path.dirname(os.path.abspath(__file__)))
sys.path.insert(0, os.path.join(os.environ.get("PYAB_REPO", "/repo"), "src"))     # the tree under test, before any import of the package
if os.environ.get("C01_FAKE_TIME"):
    # another moment (and another day of the week, month, year, side of 2038) for anything that asks the clock
    import time as _time
    import datetime as _dt
    _off = float(os.environ["C01_FAKE_TIME"]) - _time.time()
    _rt, _rtn, _rm, _rmn = _time.time, _time.time_ns, _time.monotonic, _time.monotonic_ns
    _time.time = lambda: _rt() + _off
    _time.time_ns = lambda: _rtn() + int(_off * 1e9)

    class _FakeDT(_dt.datetime):
        @classmethod
        def now(cls, tz=None):
            return _dt.datetime.fromtimestamp(_rt() + _off, tz)

        @classmethod
        def utcnow(cls):
            return _dt.datetime.utcfromtimestamp(_rt() + _off)

        @classmethod
        def today(cls):
            return _dt.datetime.fromtimestamp(_rt() + _off)

    class _FakeDate(_dt.date):
        @classmethod
        def today(cls):
            return _dt.date.fromtimestamp(_rt() + _off)
    _dt.datetime, _dt.date = _FakeDT, _FakeDate
if os.environ.get("C01_RECURSION"):
    sys.setrecursionlimit(int(os.environ["C01_RECURSION"]))
order = os.environ.get("C01_IMPORT_ORDER", "a")
if order == "b":
    import pyab_experiment.binning.binning  # noqa
    import pyab_experiment.language.grammar  # noqa
import common  # noqa: E402

common.load_impl()
from pyab_experiment.experiment_evaluator import ExperimentEvaluator  # noqa: E402


def dec(v):
    if "n" in v:
        return None
    if "b" in v:
        return v["b"]
    if "i" in v:
        return int(v["i"])
    if "f" in v:
        x = common.dbl_parse(v["f"])
        return -0.0 if v.get("z") else x
    if "s" in v:
        return v["s"]
    if "t" in v:
        return tuple(dec(x) for x in v["t"])
    raise ValueError(v)


def main():
    hist = json.load(sys.stdin)
    objs = {}
    texts = {}
    fresh_check = os.environ.get("C01_FRESH") == "1"
    out = []
    for op in hist:
        kind, ident = op[0], op[1]
        if kind == "new":
            try:
                ev, _ = common.quiet(lambda: ExperimentEvaluator(op[2]))
                objs[ident] = ev
                texts[ident] = op[2]
                out.append("ok")
            except Exception as ex:  # noqa
                out.append({"e": common.classify_exc(ex)})
        elif kind == "recompile":
            if ident not in objs:
                out.append("no-such-evaluator")
                continue
            try:
                common.quiet(lambda: objs[ident].recompile(op[2]))
                texts[ident] = op[2]
                out.append("ok")
            except Exception as ex:  # noqa
                out.append({"e": common.classify_exc(ex)})
        else:
            if ident not in objs:
                out.append("no-such-evaluator")
                continue
            env = {k: dec(v) for k, v in op[2]}
            r = common.outcome_of(lambda: objs[ident](**env))
            if fresh_check:
                # "on any evaluator built from the same source text": a brand-new evaluator must agree
                f = common.outcome_of(lambda: ExperimentEvaluator(texts[ident])(**env))
                if f != r:
                    r = {"used": r, "fresh": f}
            out.append(r)
    sys.stdout.write(json.dumps(out, ensure_ascii=True) + "\n")


if __name__ == "__main__":
    main()
