"""Shared machinery of the correspondence check (C): the Lean driver client, value
canonicalisation, exception classification, the real-implementation runners."""
import contextlib
import importlib
import io
import json
import math
import os
import subprocess
import sys
import tempfile
import time

VERIF = os.path.dirname(os.path.dirname(os.path.abspath(__file__)))
REPO = os.environ.get("PYAB_REPO", "/repo")
REPO_SRC = os.path.join(REPO, "src")
LEAN_DIR = os.path.join(VERIF, "lean")
DRIVER = os.path.join(LEAN_DIR, ".lake", "build", "bin", "pyabdriver")

if REPO_SRC not in sys.path:
    sys.path.insert(0, REPO_SRC)


def load_impl():
    """Import the package from the *current working tree* of /repo and assert that is
    what we got."""
    import pyab_experiment  # noqa
    path = os.path.realpath(os.path.dirname(pyab_experiment.__file__))
    want = os.path.realpath(os.path.join(REPO_SRC, "pyab_experiment"))
    assert path == want, f"pyab_experiment imported from {path}, expected {want}"
    return pyab_experiment


# ---------------------------------------------------------------------------
# canonical values
# ---------------------------------------------------------------------------


def dbl_str(x: float) -> str:
    """binary64 as 'm e' with odd m (exact, canonical) — same as Drv.dblStr"""
    if math.isnan(x):
        return "nan"
    if math.isinf(x):
        return "inf" if x > 0 else "-inf"
    if x == 0:
        return "0 0"
    n, d = x.as_integer_ratio()
    e = -(d.bit_length() - 1)
    while n % 2 == 0:
        n //= 2
        e += 1
    return f"{n} {e}"


def dbl_parse(s: str) -> float:
    if s in ("nan", "inf", "-inf"):
        return float(s)
    m, e = s.split(" ")
    return math.ldexp(int(m), int(e)) if abs(int(m)) < 2 ** 53 else float(int(m)) * 2.0 ** int(e)


def int_str(v):
    """decimal digits of an int of any size (str() refuses more than 4300 digits; the limit is the implementation's to meet, not ours)"""
    if abs(v) < 10 ** 4000:
        return str(v)
    sign, v = ("-" if v < 0 else ""), abs(v)
    chunk = 10 ** 4000
    parts = []
    while v:
        v, r = divmod(v, chunk)
        parts.append(str(r).zfill(4000) if v else str(r))
    return sign + "".join(reversed(parts))


def enc_val(v):
    if v is None:
        return {"n": None}
    if isinstance(v, bool):
        return {"b": v}
    if isinstance(v, int):
        return {"i": int_str(v)}
    if isinstance(v, float):
        if v == 0 and math.copysign(1.0, v) < 0:
            return {"f": "0 0", "z": True}
        return {"f": dbl_str(v)}
    if isinstance(v, str):
        return {"s": v}
    if isinstance(v, tuple):
        return {"t": [enc_val(x) for x in v]}
    if isinstance(v, list):
        return {"l": [enc_val(x) for x in v]}
    return {"?": type(v).__name__ + ":" + repr(v)[:80]}


def enc_num(v):
    if isinstance(v, bool):
        return {"i": str(int(v))}
    if isinstance(v, int):
        return {"i": str(v)}
    return {"f": dbl_str(float(v))}


def enc_env(env):
    return [[k, enc_val(v)] for k, v in env.items()]


# ---------------------------------------------------------------------------
# exceptions -> small enum (same tags as Pyab.Err.tag)
# ---------------------------------------------------------------------------


def classify_exc(ex: BaseException) -> str:
    name = type(ex).__name__
    mro = [c.__name__ for c in type(ex).__mro__]
    msg = str(ex)
    if name == "ExperimentConditionalFailedError":
        return "Unroutable"
    if "LexError" in mro:
        return "LexError"
    if "YaccError" in mro or name == "ParseError":
        return "ParseError"
    if name == "ValidationError":
        return "ValidationError"
    if isinstance(ex, SyntaxError):
        return "PySyntaxError"
    if isinstance(ex, NameError):
        return "NameError"
    if isinstance(ex, TypeError):
        if "missing" in msg and "required" in msg and "argument" in msg:
            return "MissingField"
        return "TypeError"
    if isinstance(ex, UnicodeEncodeError):
        return "EncodeError"
    if isinstance(ex, ValueError):
        if "number of weights" in msg:
            return "ValueError:len"
        if "greater than zero" in msg:
            return "ValueError:nonpositive"
        if "must be finite" in msg:
            return "ValueError:nonfinite"
        if "Exceeds the limit" in msg:
            return "ValueError:digits"
        return "ValueError:" + msg[:40]
    if isinstance(ex, IndexError):
        return "IndexError"
    if isinstance(ex, RuntimeError) and "Code was not loaded" in msg:
        return "NotLoaded"
    return "Other:" + name


KNOWN_VALUE_ERRORS = {"ValueError:len", "ValueError:nonpositive", "ValueError:nonfinite", "ValueError:digits"}


def same_outcome(a, b):
    """equality of canonical outcomes; the WORDING of a ValueError message is not part of any contract — its class is: a ValueError whose
    message is none of the recognised wordings matches any expected ValueError"""
    if a == b:
        return True
    if isinstance(a, dict) and isinstance(b, dict) and isinstance(a.get("e"), str) and isinstance(b.get("e"), str):
        ea, eb = a["e"], b["e"]
        if ea.startswith("ValueError:") and eb.startswith("ValueError:") and (ea not in KNOWN_VALUE_ERRORS or eb not in KNOWN_VALUE_ERRORS):
            return True
    return False


def outcome_of(fn):
    """Run fn(); canonical outcome {"g": val} | {"e": tag}"""
    try:
        with contextlib.redirect_stdout(io.StringIO()), contextlib.redirect_stderr(io.StringIO()):
            r = fn()
        return {"g": enc_val(r)}
    except RecursionError:
        return {"e": "Other:RecursionError"}
    except Exception as ex:  # noqa
        return {"e": classify_exc(ex)}


# ---------------------------------------------------------------------------
# real implementation: stage-wise outputs in the driver's canonical form
# ---------------------------------------------------------------------------


def canon_term(t):
    from pyab_experiment.data_structures.syntax_tree import Identifier
    if isinstance(t, Identifier):
        return {"id": t.name}
    if isinstance(t, tuple):
        return {"t": [canon_term(x) for x in t]}
    if isinstance(t, list):
        return {"l": [canon_term(x) for x in t]}
    return enc_val(t)


def canon_pred(p):
    from pyab_experiment.data_structures import syntax_tree as st
    if isinstance(p, st.TerminalPredicate):
        return {"cmp": [canon_term(p.left_term), p.logical_operator.name, canon_term(p.right_term)]}
    if isinstance(p, st.RecursivePredicate):
        op = p.boolean_operator.name
        if op == "NOT":
            return {"not": canon_pred(p.left_predicate)}
        return {op.lower(): [canon_pred(p.left_predicate), canon_pred(p.right_predicate)]}
    return {"?": repr(p)[:80]}


def canon_groups(gs):
    return {"ret": [{"g": enc_val(g.group_definition), "w": enc_num(g.group_weight)} for g in gs]}


def canon_cond(c, expect="if"):
    from pyab_experiment.data_structures import syntax_tree as st
    if isinstance(c, list):
        return canon_groups(c)
    if isinstance(c, st.ExperimentConditional):
        kind = c.conditional_type.name.lower()
        if kind == "if":
            return {"if": [canon_pred(c.predicate), canon_cond(c.true_branch), canon_sub(c.false_branch)]}
        return {"?kind": kind}
    return {"?": repr(c)[:80]}


def canon_sub(c):
    from pyab_experiment.data_structures import syntax_tree as st
    if c is None:
        return None
    if isinstance(c, st.ExperimentConditional):
        kind = c.conditional_type.name.lower()
        if kind == "elif":
            return {"elif": [canon_pred(c.predicate), canon_cond(c.true_branch), canon_sub(c.false_branch)]}
        if kind == "else":
            if c.false_branch is not None or c.predicate is not None:
                return {"?else-with-extra": True}
            return {"else": canon_cond(c.true_branch)}
        return {"?kind": kind}
    return {"?": repr(c)[:80]}


def canon_ast(a):
    return {
        "id": a.id,
        "salt": a.salt,
        "splitters": list(a.splitting_fields) if a.splitting_fields is not None else None,
        "cond": canon_cond(a.conditions),
    }


def canon_tok(t):
    v = t.value
    if isinstance(v, bool):
        val = {"?": "bool"}
    elif isinstance(v, int):
        val = {"i": str(v)}
    elif isinstance(v, float):
        val = {"f": dbl_str(v)}
    elif t.type == "STRING_LITERAL":
        val = {"s": v}
    else:
        val = {"r": v}
    return [t.type, val]


def quiet(fn):
    with contextlib.redirect_stdout(io.StringIO()) as out, contextlib.redirect_stderr(io.StringIO()) as err:
        r = fn()
    return r, out.getvalue() + err.getvalue()


def impl_stages(text, envs=(), want=("toks", "ast", "gen", "genx", "compile", "out")):
    """What the real code does with `text`, stage by stage."""
    from pyab_experiment.language.lexer import ExperimentLexer
    from pyab_experiment.utils.wraper_functions import parse_source
    from pyab_experiment.codegen.python.python_generator import PythonCodeGen
    from pyab_experiment.experiment_evaluator import ExperimentEvaluator

    res = {}
    noise = ""
    if "toks" in want:
        try:
            toks, n = quiet(lambda: list(ExperimentLexer().tokenize(text)))
            noise += n
            res["toks"] = [canon_tok(t) for t in toks]
        except Exception as ex:  # noqa
            res["toks"] = {"e": classify_exc(ex)}
    ast_obj = None
    if any(w in want for w in ("ast", "gen", "genx")):
        try:
            ast_obj, n = quiet(lambda: parse_source(text))
            noise += n
            res["ast"] = canon_ast(ast_obj) if ast_obj is not None else {"e": "ParseError"}
        except RecursionError:
            res["ast"] = {"e": "Other:RecursionError"}
        except Exception as ex:  # noqa
            res["ast"] = {"e": classify_exc(ex)}
        for key, expose in (("gen", False), ("genx", True)):
            if key not in want:
                continue
            if ast_obj is None:
                res[key] = res["ast"]
                continue
            try:
                res[key] = PythonCodeGen(ast_obj, expose_experiment_variant_function=expose).generate()
            except Exception as ex:  # noqa
                res[key] = {"e": classify_exc(ex)}
    ev = None
    if "compile" in want or "out" in want:
        try:
            ev, n = quiet(lambda: ExperimentEvaluator(text))
            noise += n
            res["compile"] = "ok"
        except RecursionError:
            res["compile"] = {"e": "Other:RecursionError"}
        except Exception as ex:  # noqa
            res["compile"] = {"e": classify_exc(ex)}
        outs = []
        for env in envs:
            if ev is None:
                outs.append(res["compile"])
            else:
                outs.append(outcome_of(lambda: ev(**env)))
        res["out"] = outs
    res["_noise"] = noise[:200]
    return res


# ---------------------------------------------------------------------------
# Lean driver client (batch)
# ---------------------------------------------------------------------------


class DriverError(RuntimeError):
    pass


DRIVER_DEAD = None            # set to a reason once the model driver failed to answer in this run
_GENERATED_CHANGED = None


def generated_digests():
    import hashlib
    d = os.path.join(LEAN_DIR, "Pyab", "Generated")
    return {f: hashlib.sha256(open(os.path.join(d, f), "rb").read()).hexdigest() for f in sorted(os.listdir(d)) if f.endswith(".lean")}


def generated_changed():
    """True when the tables regenerated from the source on this run differ from the ones committed for the unchanged tree
    (harness/generated_baseline.json, written by tools/make_manifest.py): the model the driver runs is then a model of CHANGED code,
    and a driver that no longer answers is a broken correspondence rather than a failure of the infrastructure."""
    global _GENERATED_CHANGED
    if _GENERATED_CHANGED is None:
        try:
            base = json.load(open(os.path.join(VERIF, "harness", "generated_baseline.json")))
            _GENERATED_CHANGED = generated_digests() != base
        except (OSError, ValueError):
            _GENERATED_CHANGED = False
    return _GENERATED_CHANGED


def driver_available():
    return os.path.exists(DRIVER)


def run_driver(requests, timeout=600):
    """Send a batch of request dicts, get the list of answers."""
    if not requests:
        return []
    data = "".join(json.dumps(r, ensure_ascii=True) + "\n" for r in requests)
    if driver_available():
        cmd = [DRIVER]
        cwd = LEAN_DIR
    else:  # fallback: interpreter
        cmd = ["lake", "env", "lean", "--run", "Driver.lean"]
        cwd = LEAN_DIR
    global DRIVER_DEAD
    if DRIVER_DEAD:
        raise DriverError("the model driver failed earlier in this run: " + DRIVER_DEAD)
    if generated_changed():
        # a model regenerated from changed code may not terminate in reasonable time (a regular expression that backtracks
        # exponentially, a grammar table that loops): batches that take seconds on the unchanged tree get two minutes
        timeout = min(timeout, int(os.environ.get("VERIF_CHANGED_DRIVER_TIMEOUT", "120")))
    try:
        p = subprocess.run(cmd, input=data.encode("utf-8"), stdout=subprocess.PIPE, stderr=subprocess.PIPE,
                           cwd=cwd, timeout=timeout)
    except subprocess.TimeoutExpired:
        if not generated_changed():
            raise
        DRIVER_DEAD = f"no answer to a batch of {len(requests)} requests within {timeout} s"
        raise DriverError(DRIVER_DEAD)
    if p.returncode != 0:
        raise DriverError(f"driver exit {p.returncode}: {p.stderr.decode('utf-8', 'replace')[:2000]}")
    lines = p.stdout.decode("utf-8").split("\n")
    if lines and lines[-1] == "":
        lines.pop()
    if len(lines) != len(requests):
        raise DriverError(f"driver answered {len(lines)} lines for {len(requests)} requests; stderr={p.stderr[:500]!r}")
    return [json.loads(l) for l in lines]


class Infra(BaseException):
    """the check itself could not run (not a statement about the code under test): exit 2"""


def run_driver_parallel(requests, jobs=8, timeout=900):
    """Split a large batch over several driver processes."""
    try:
        return _run_driver_parallel(requests, jobs, timeout)
    except MemoryError:
        # the harness (not the implementation) ran into the address-space cap while holding a batch: infrastructure, not a finding
        raise Infra("out of memory while talking to the model driver (%d requests)" % len(requests))


def _run_driver_parallel(requests, jobs=8, timeout=900):
    if len(requests) < 64 or jobs <= 1:
        return run_driver(requests, timeout)
    from concurrent.futures import ThreadPoolExecutor
    chunk = (len(requests) + jobs - 1) // jobs
    parts = [requests[i:i + chunk] for i in range(0, len(requests), chunk)]
    with ThreadPoolExecutor(len(parts)) as ex:
        outs = list(ex.map(lambda part: run_driver(part, timeout), parts))
    return [x for part in outs for x in part]


def model_has_gap(ans):
    """Did the model answer with a 'model-gap' / internal marker rather than a behaviour?"""
    s = json.dumps(ans)
    return "model-gap" in s or "Other:fuel" in s or "unknown-action" in s or "no-action" in s
