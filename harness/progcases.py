"""Run a batch of (program, text, envs) cases through the real code, the Lean model and
the reference semantics; classify every difference (DESIGN.md §3.2: official vs advisory
stages)."""
import json

import common
import gen

ADVISORY = ("toks", "ast", "gen", "genx")


def spec_matches(spec, out):
    """does the implementation's canonical outcome satisfy the reference semantics?"""
    kind = spec[0]
    if kind == "group":
        return "g" in out and any(out["g"] == common.enc_val(v) for v in spec[1])
    if kind == "random":
        return "g" in out and any(out["g"] == common.enc_val(v) for v in spec[1])
    if kind == "unroutable":
        return out == {"e": "Unroutable"}
    if kind == "missing":
        return out == {"e": "MissingField"}
    if kind == "typeerror":
        return out == {"e": "TypeError"}
    if kind == "unprintable":
        return out == {"e": "ValueError:digits"}
    if kind == "unencodable":
        return out == {"e": "EncodeError"}
    if kind == "valueerror":
        return common.same_outcome(out, {"e": "ValueError:nonpositive"})
    return False


def model_matches(m, out):
    """model outcome vs implementation outcome on the official observable"""
    if "r" in m:          # random branch: membership among positively weighted candidates
        if "g" not in out:
            return False
        pop = m["r"]["pop"]
        cum = m["r"]["cum"]
        prev = None
        for v, c in zip(pop, cum):
            positive = prev is None and not _num_is_zero(c) or prev is not None and c != prev
            prev = c
            if positive and v == out["g"]:
                return True
        if not cum:
            return out["g"] in pop
        return False
    return common.same_outcome(m, out)


def _num_is_zero(c):
    return c in ({"i": "0"}, {"f": "0 0"})


def spec_str(spec):
    return json.dumps([spec[0]] + [common.enc_val(v) if not isinstance(v, list) else [common.enc_val(x) for x in v]
                                  for v in spec[1:]])[:300]


def run_cases(ctx, cases, official_compile=True, check_spec=True, check_model=True, want_stages=True,
              spec_fn=None):
    """cases: list of dicts {prog, text, envs, tag}.  Returns per-case records."""
    reqs = [{"op": "run", "text": c["text"], "envs": [common.enc_env(e) for e in c["envs"]]} for c in cases]
    models = [None] * len(cases)
    if check_model and ctx.driver_ok:
        try:
            models = common.run_driver_parallel(reqs, jobs=12)
        except Exception as ex:  # noqa
            ctx.obligation_breaks.append({"what": "model-driver-run", "detail": repr(ex)[:500]})
            models = [None] * len(cases)
    records = []
    for c, m in zip(cases, models):
        if c.get("prelude") is not None:
            # something else was (unsuccessfully) compiled just before in the same process
            try:
                from pyab_experiment.experiment_evaluator import ExperimentEvaluator
                common.quiet(lambda: ExperimentEvaluator(c["prelude"]))
            except Exception:  # noqa
                pass
            ctx.count("with-invalid-prelude")
        im = common.impl_stages(c["text"], c["envs"])
        prog = c.get("prog")
        rec = {"case": c, "impl": im, "model": m}
        records.append(rec)
        ident = (c["text"],)
        nontrivial = im.get("compile") == "ok"
        ctx.case(ident, nontrivial, sample={"text": c["text"][:400], "env": common.enc_env(c["envs"][0]) if c["envs"] else None,
                                            "impl_out": im["out"][:1]})
        ctx.count("compile:" + (im["compile"] if isinstance(im["compile"], str) else im["compile"]["e"]))
        if m is not None and "fatal" in m:
            ctx.tie_break("model-fatal", {"text": c["text"][:300], "model": m})
            m = None
            rec["model"] = None
        # --- advisory stages against the model
        if m is not None:
            gap = common.model_has_gap(m)
            if gap:
                ctx.count("model-gap")
            for st in ADVISORY:
                if want_stages and im.get(st) != m.get(st):
                    ctx.drift(st, {"text": c["text"], "impl": _short(im.get(st)), "model": _short(m.get(st))})
                    break
            if official_compile:
                ic = im["compile"]
                mc = m.get("compile")
                if ic != mc:
                    ctx.tie_break("compile", {"text": c["text"], "impl": ic, "model": mc})
        # --- expected compile outcome by the reference semantics: a generated sentence must compile
        if check_spec and (prog is not None or c.get("must_compile")) and c.get("expect_compile", True) and im["compile"] != "ok":
            ctx.violation(f"grammatical experiment does not compile ({im['compile']}): {c['text'][:200]}",
                          {"text": c["text"], "impl_compile": im["compile"]}, key=c.get("key"))
        for i, env in enumerate(c["envs"]):
            out = im["out"][i]
            ctx.count("out:" + ("group" if "g" in out else out.get("e", "?")))
            if c.get("must_compile") and prog is None and im["compile"] == "ok" and "g" not in out and out.get("e") not in ("Unroutable", "MissingField", "TypeError"):
                # a corpus text evaluated on type-compatible inputs ends with one of its groups or with the unroutable error — nothing else
                ctx.violation(f"evaluation ends with {json.dumps(out)[:80]} (neither a group nor the unroutable error): {c['text'][:120]}… on {json.dumps(common.enc_env(env))[:120]}",
                              {"text": c["text"], "env": common.enc_env(env), "impl": out}, key=c.get("key"))
            if m is not None and check_model:
                mo = m["out"][i]
                if not model_matches(mo, out):
                    ctx.tie_break("out", {"text": c["text"], "env": common.enc_env(env), "impl": out, "model": mo})
            if check_spec and prog is not None and im["compile"] == "ok":
                spec = (spec_fn or gen.spec_run)(prog, env)
                ctx.count("spec:" + spec[0])
                if not spec_matches(spec, out):
                    ctx.violation(
                        f"evaluator returned {json.dumps(out)[:120]} where the reference semantics gives {spec_str(spec)}: "
                        f"{c['text'][:160]} on {json.dumps(common.enc_env(env))[:160]}",
                        {"text": c["text"], "env": common.enc_env(env), "impl": out, "spec": spec_str(spec)},
                        key=c.get("key"))
    return records


def _short(x):
    s = json.dumps(x)
    return s if len(s) < 1500 else s[:1500] + "…"
