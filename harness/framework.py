"""The decision procedure shared by every check (DESIGN.md §3.3):

  regenerate tables from /repo -> lake build the property's theorems + the driver ->
  axiom audit -> correspondence (impl vs model on the official observable, impl vs
  spec oracle) -> decide -> evidence.

A concrete impl != spec input is a VIOLATION with that input as replay.  A broken proof
obligation / table obligation / correspondence with no failing input found is still a
VIOLATION, whose replay names what broke, ending in `no-failing-input-found`.
Infrastructure failures exit 2."""
import fcntl
import hashlib
import json
import os
import random
import re
import subprocess
import sys
import time
import traceback

from common import VERIF, LEAN_DIR, REPO, DRIVER

ALLOWED_AXIOMS = {"propext", "Classical.choice", "Quot.sound"}
FORBIDDEN = re.compile(r"\b(sorry|admit|native_decide|bv_decide|implemented_by|unsafe)\b|^\s*axiom\s|maxHeartbeats\s+0\b", re.M)

TRUSTED_BASE = [
    "Lean 4.33.0 kernel (leanchecker re-check in the thorough tier); axioms allowed: propext, Classical.choice, Quot.sound",
    "statements in lean/Pyab/Properties/*.lean and specs in lean/Pyab/Spec/*.lean say what properties.jsonl says",
    "tools/translate.py dumps the tables /repo really uses (lexer rules via re._parser, LR tables, operator table, behavioural probes of generator/pydantic flags)",
    "correspondence harness (generators, canonicalisation, diff); reach bounded by generator quality",
    "modelled, tied by correspondence only: CPython semantics of the generated fragment (PyExec.lean), binary64 rounding (Dbl.lean), hashlib.md5 (MD5.lean), sly runtime loops, pydantic coercions, float repr",
]


from common import Infra  # noqa: E402  (one class for "the check could not run": exit 2)


def strip_lean_comments(src):
    src = re.sub(r"/-.*?-/", "", src, flags=re.S)
    src = re.sub(r"--.*", "", src)
    return src


class Ctx:
    def __init__(self, prop, tier, seed, lean_module=None):
        self.prop = prop
        self.tier = tier
        self.seed = seed
        self.rng = random.Random(f"{prop}:{seed}")
        self.t0 = time.time()
        self.lean_module = lean_module or f"Pyab.Properties.{prop}"
        self.violations = []        # concrete failing inputs (impl != spec)
        self.tie_breaks = []        # impl != model on an official observable
        self.obligation_breaks = [] # proofs / table obligations / audit that no longer check
        self.drifts = []            # advisory internal-stage differences
        self.known = []             # known findings observed
        self.cov = {"evaluations": 0, "distinct": set(), "samples": [], "hist": {}}
        self.notes = []
        self.theorems = []
        self.axioms = {}
        self.table_summary = {}
        self.build_ok = None
        self.driver_ok = None
        self.extra = {}
        self.assumptions = []

    # ---- coverage bookkeeping -------------------------------------------------
    def count(self, key, n=1):
        self.cov["hist"][key] = self.cov["hist"].get(key, 0) + n

    def case(self, ident, nontrivial=True, sample=None):
        self.cov["evaluations"] += 1
        if nontrivial:
            self.cov["distinct"].add(hashlib.md5(repr(ident).encode("utf-8", "surrogatepass")).hexdigest())
        if sample is not None and len(self.cov["samples"]) < 5:
            self.cov["samples"].append(sample)

    # ---- steps ----------------------------------------------------------------
    def translate(self):
        os.makedirs(LEAN_DIR, exist_ok=True)
        lock = open(os.path.join(LEAN_DIR, ".build.lock"), "w")
        fcntl.flock(lock, fcntl.LOCK_EX)          # the generated tables are shared with concurrent builds
        try:
            p = subprocess.run(["/venv/bin/python", os.path.join(VERIF, "tools", "translate.py")],
                               capture_output=True, text=True, timeout=300,
                               env={**os.environ, "PYAB_SRC": os.path.join(REPO, "src")})
        finally:
            fcntl.flock(lock, fcntl.LOCK_UN)
            lock.close()
        if p.returncode != 0:
            # the translator could not even import / introspect the code: obligations over tables are broken
            self.obligation_breaks.append({"what": "translator", "detail": (p.stderr or p.stdout)[-1500:]})
            return
        try:
            self.table_summary = json.load(open(os.path.join(LEAN_DIR, "Pyab", "Generated", "summary.json")))
        except Exception:
            self.table_summary = {}

    def lake(self, targets, timeout=1800):
        lock = open(os.path.join(LEAN_DIR, ".build.lock"), "w")
        fcntl.flock(lock, fcntl.LOCK_EX)
        try:
            p = subprocess.run(["lake", "build"] + targets, cwd=LEAN_DIR, capture_output=True, text=True, timeout=timeout)
        finally:
            fcntl.flock(lock, fcntl.LOCK_UN)
            lock.close()
        return p.returncode, p.stdout + p.stderr

    def build(self):
        # 1. the driver (model + generated tables only)
        rc, out = self.lake(["pyabdriver"])
        self.driver_ok = rc == 0 and os.path.exists(DRIVER)
        if not self.driver_ok:
            self.obligation_breaks.append({"what": "model-driver-build", "detail": self._errors(out)})
        # 2. the property's theorems
        rc, out = self.lake([self.lean_module])
        self.build_ok = rc == 0
        if rc != 0:
            errs = self._errors(out)
            if "unknown module" in out or "no such file" in out.lower():
                raise Infra(f"Lean module {self.lean_module} missing: {errs}")
            self.obligation_breaks.append({"what": f"lake build {self.lean_module}", "detail": errs})

    @staticmethod
    def _errors(out):
        lines = [l for l in out.splitlines() if "error" in l.lower()]
        return "\n".join(lines[:12])[:2000] or out[-1500:]

    def property_file(self):
        return os.path.join(LEAN_DIR, *self.lean_module.split(".")) + ".lean"

    def import_closure(self):
        """project files the property module (transitively) imports"""
        seen, todo = {}, [self.lean_module]
        while todo:
            mod = todo.pop()
            path = os.path.join(LEAN_DIR, *mod.split(".")) + ".lean"
            if mod in seen or not os.path.exists(path):
                continue
            seen[mod] = path
            for m in re.findall(r"^import\s+(Pyab\.\S+)", open(path, encoding="utf-8").read(), re.M):
                todo.append(m)
        self.extra["lean_files"] = len(seen)
        return list(seen.values())

    def audit(self):
        """no sorry/axiom/native_decide anywhere in the hand-written Lean; #print axioms per theorem"""
        bad = []
        for path in self.import_closure():
            src = strip_lean_comments(open(path, encoding="utf-8").read())
            m = FORBIDDEN.search(src)
            if m:
                bad.append(f"{os.path.relpath(path, LEAN_DIR)}: {m.group(0).strip()}")
        if bad:
            self.obligation_breaks.append({"what": "audit-grep", "detail": "; ".join(bad[:10])})
        # theorems of the property file and of every Properties/* file it imports
        names = []
        for path in [self.property_file()] + [q for q in self.import_closure()
                                              if os.sep + "Properties" + os.sep in q and q != self.property_file()]:
            src = strip_lean_comments(open(path, encoding="utf-8").read())
            stack = []
            for line in src.splitlines():
                m = re.match(r"^namespace\s+(\S+)", line)
                if m:
                    stack.append(m.group(1))
                    continue
                m = re.match(r"^end\s+(\S+)", line)
                if m and stack and stack[-1] == m.group(1):
                    stack.pop()
                    continue
                m = re.match(r"^(?:protected\s+)?theorem\s+(\S+)", line)
                if m and not m.group(1).endswith("_placeholder"):
                    names.append(".".join(stack + [m.group(1)]))
        self.theorems = [n.split(".")[-1] for n in names]
        if not self.build_ok:
            return
        os.makedirs(os.path.join(LEAN_DIR, ".audit"), exist_ok=True)
        path = os.path.join(LEAN_DIR, ".audit", f"{self.prop}.lean")
        with open(path, "w") as f:
            f.write(f"import {self.lean_module}\n")
            for full in names:
                f.write(f"#print axioms {full}\n")
        p = subprocess.run(["lake", "env", "lean", path], cwd=LEAN_DIR, capture_output=True, text=True, timeout=900)
        out = p.stdout + p.stderr
        for full in names:
            t = full.split(".")[-1]
            m = re.search(r"'" + re.escape(full) + r"' depends on axioms: \[(.*?)\]", out, re.S)
            if m:
                ax = [a.strip() for a in m.group(1).replace("\n", " ").split(",") if a.strip()]
            elif re.search(r"'" + re.escape(full) + r"' does not depend on any axioms", out):
                ax = []
            else:
                ax = ["<no-output>"]
            self.axioms[t] = ax
            extra = [a for a in ax if a not in ALLOWED_AXIOMS]
            if extra:
                self.obligation_breaks.append({"what": f"axioms of {t}", "detail": ", ".join(extra)})

    def leanchecker(self):
        p = subprocess.run(["lake", "env", "leanchecker", self.lean_module], cwd=LEAN_DIR, capture_output=True,
                           text=True, timeout=3600)
        ok = p.returncode == 0
        self.extra["leanchecker"] = "ok" if ok else (p.stdout + p.stderr)[-500:]
        if not ok:
            self.obligation_breaks.append({"what": "leanchecker", "detail": (p.stdout + p.stderr)[-800:]})

    # ---- findings ---------------------------------------------------------------
    def violation(self, what, replay, key=None):
        self.violations.append({"what": what, "replay": replay, "key": key})

    def new_violations(self):
        """violations that are not listed known findings"""
        known = {(k["property"], k["key"]) for k in load_known().get("findings", [])}
        return [v for v in self.violations if not (v.get("key") and (self.prop, v["key"]) in known)]

    def tie_break(self, stage, replay):
        self.tie_breaks.append({"stage": stage, "replay": replay})

    def drift(self, stage, replay):
        if len(self.drifts) < 50:
            self.drifts.append({"stage": stage, "replay": replay})
        self.count("drift:" + stage)


def load_known():
    path = os.path.join(VERIF, "known_findings.json")
    try:
        return json.load(open(path))
    except FileNotFoundError:
        return {"findings": [], "fixed": []}


def write_replay(prop, seed, payload, suffix=""):
    d = os.path.join(VERIF, "replays")
    os.makedirs(d, exist_ok=True)
    path = os.path.join(d, f"{prop}_{seed}{suffix}.json")
    with open(path, "w") as f:
        json.dump(payload, f, indent=1, ensure_ascii=True, default=str)
    return path


def write_evidence(ctx, level, n_viol, status):
    theorems = ctx.theorems
    table_obl = ctx.extra.get("table_obligations", 0)
    obligations = len(theorems) + table_obl + 1
    broken = len({b["what"] for b in ctx.obligation_breaks}) + (1 if ctx.tie_breaks or n_viol else 0)
    discharged = max(0, obligations - broken)
    cov = {
        "obligations": obligations,
        "discharged": discharged,
        "checker_cmd": f"cd lean && lake build {ctx.lean_module} pyabdriver && lake env lean .audit/{ctx.prop}.lean  (#print axioms)"
                       + (" && lake env leanchecker " + ctx.lean_module if ctx.tier == "thorough" else ""),
        "trusted_base": TRUSTED_BASE,
        "theorems": theorems,
        "axioms": ctx.axioms,
        "evaluations": ctx.cov["evaluations"],
        "distinct_nontrivial": len(ctx.cov["distinct"]),
        "rule": ctx.extra.get("rule", "cases are generated from one PRNG seeded by VERIF_SEED; distinct = distinct canonical case text; non-trivial = reached the stage under test (see histogram)"),
        "samples": ctx.cov["samples"] or ["(no correspondence samples)"],
        "histogram": dict(sorted(ctx.cov["hist"].items())),
        "programs": ctx.extra.get("programs", ctx.cov["evaluations"]),
        "disagreements_checked": len(ctx.tie_breaks) + len(ctx.violations) + len(ctx.drifts),
        "drifts": ctx.drifts[:5],
        "known_findings_seen": ctx.known[:20],
        "tables": {k: v for k, v in ctx.table_summary.items() if k in ("LRTables", "Config")},
        "status": status,
        "explanation": ctx.extra.get("explanation", ""),
    }
    for k, v in ctx.extra.items():
        if k not in cov and k not in ("rule", "explanation", "table_obligations"):
            cov[k] = v
    ev = {
        "property_id": ctx.prop,
        "tier": ctx.tier,
        "seed": ctx.seed,
        "level": level,
        "coverage": cov,
        "assumptions": ctx.assumptions + ctx.notes,
        "wall_s": round(time.time() - ctx.t0, 2),
        "violations": n_viol,
    }
    os.makedirs(os.path.join(VERIF, "evidence"), exist_ok=True)
    with open(os.path.join(VERIF, "evidence", f"{ctx.prop}.json"), "w") as f:
        json.dump(ev, f, indent=1, ensure_ascii=True, default=str)


def decide(ctx, level="proof", search=None):
    """Apply the decision procedure; print lines; return exit code."""
    known = load_known()
    known_keys = {(k["property"], k["key"]): k for k in known.get("findings", [])}

    # intensify the failing-input search when something broke without a concrete input
    # (an advisory drift of an internal stage — the generated text, the token list, the AST — also buys a deeper search:
    #  the internals changed, so the model vouches for less)
    internal_drift = [d for d in ctx.drifts if d["stage"] not in ("error-class",)]
    if (ctx.obligation_breaks or ctx.tie_breaks or internal_drift) and not ctx.new_violations() and search is not None:
        ctx.count("deep-search-runs")
        try:
            search(ctx)
        except Exception as ex:  # noqa
            ctx.notes.append("search raised: " + repr(ex)[:200])

    reported = []
    for v in ctx.violations:
        k = known_keys.get((ctx.prop, v.get("key")))
        if k is not None:
            line = f"KNOWN-FINDING: property={ctx.prop} {k['what']}"
            if line not in ctx.known:
                ctx.known.append(line)
            continue
        reported.append(v)
    for line in ctx.known:
        print(line)

    code = 0
    n_viol = 0
    if reported:
        v = reported[0]
        path = write_replay(ctx.prop, ctx.seed, {"property": ctx.prop, "kind": "failing-input", "what": v["what"],
                                                 "replay": v["replay"], "others": [x["what"] for x in reported[1:10]],
                                                 "broken_obligations": ctx.obligation_breaks, "seed": ctx.seed})
        print(f"VIOLATION property={ctx.prop} replay={path}")
        for x in reported[:5]:
            print("  " + x["what"][:300])
        code = 1
        n_viol = len(reported)
    elif ctx.obligation_breaks or ctx.tie_breaks:
        path = write_replay(ctx.prop, ctx.seed, {
            "property": ctx.prop, "kind": "no-failing-input-found",
            "broken_obligations": ctx.obligation_breaks,
            "broken_correspondence": ctx.tie_breaks[:10],
            "note": "the property is no longer shown to hold for this code: a theorem / table obligation / "
                    "correspondence stage named here no longer checks, and the search found no input on which "
                    "the implementation contradicts the specification", "seed": ctx.seed})
        print(f"VIOLATION property={ctx.prop} replay={path} no-failing-input-found")
        for b in ctx.obligation_breaks[:5]:
            print("  broken: " + b["what"] + " :: " + b["detail"][:300].replace("\n", " | "))
        for b in ctx.tie_breaks[:3]:
            print("  correspondence: " + b["stage"] + " :: " + json.dumps(b["replay"])[:300])
        for nt in ctx.notes[:6]:
            print("  note: " + str(nt)[:300])
        code = 1
        n_viol = 1
    for d in ctx.drifts[:3]:
        print(f"DRIFT property={ctx.prop} stage={d['stage']}")
    write_evidence(ctx, level, n_viol, "violation" if code else "ok")
    return code


def flag_rerun(ctx, prop):
    """the dynamic part of the check again in child interpreters started with other flags: `-O` (asserts and `if __debug__`
    blocks are stripped) and `-OO`.  A concrete input found there is a violation here, labelled with the flag."""
    check = os.path.join(VERIF, "check")
    ambient = ("import decimal; decimal.DefaultContext.prec = 5; decimal.setcontext(decimal.Context(prec=5)); "
               "import random; random.seed(12345); import os; os.environ['TZ'] = 'Pacific/Chatham'")
    for flags, prelude in ((["-O"], ""), (["-OO", "-X", "utf8"], ambient)):
        env = dict(os.environ, VERIF_CHILD_MODE="1", VERIF_SEED=str(ctx.seed), PYAB_REPO=REPO, VERIF_CHILD_PRELUDE=prelude)
        try:
            p = subprocess.run(["/venv/bin/python"] + flags + [check, prop, "--tier", "quick"], capture_output=True, text=True, env=env, timeout=1200)
        except subprocess.TimeoutExpired:
            ctx.notes.append("flag rerun %s timed out" % flags)
            continue
        ctx.count("flag-rerun:" + " ".join(flags))
        line = next((l for l in p.stdout.splitlines() if l.startswith("CHILD-RESULT ")), None)
        if line is None:
            ctx.notes.append("flag rerun %s gave no result: %s" % (flags, (p.stderr or p.stdout)[-300:]))
            continue
        res = json.loads(line[len("CHILD-RESULT "):])
        for v in res["violations"]:
            ctx.violation("under `python %s`%s: %s" % (" ".join(flags), " with a 5-digit decimal context, a seeded global RNG and another TZ" if prelude else "", v["what"]),
                          dict(v["replay"] if isinstance(v["replay"], dict) else {"replay": v["replay"]}, interpreter_flags=flags, prelude=prelude))
        if res["violations"]:
            return


def main(prop, run, level="proof", lean_module=None, search=None, argv=None):
    import argparse
    ap = argparse.ArgumentParser()
    ap.add_argument("--tier", default=os.environ.get("VERIF_TIER", "quick"))
    ap.add_argument("--replay", default=None)
    args = ap.parse_args(argv)
    seed = int(os.environ.get("VERIF_SEED", "0"))
    ctx = Ctx(prop, args.tier, seed, lean_module)
    child = os.environ.get("VERIF_CHILD_MODE")      # a re-run of the dynamic part under other interpreter flags (see flag_rerun)
    if child and os.environ.get("VERIF_CHILD_PRELUDE"):
        exec(os.environ["VERIF_CHILD_PRELUDE"], {})    # ambient state a host application might have set before using the library
    try:
        import common
        if child:
            ctx.driver_ok = os.path.exists(DRIVER)
            ctx.build_ok = True
        else:
            ctx.translate()
            ctx.build()
            ctx.audit()
        common.load_impl()
        # a change that makes the implementation allocate without bound must end as a MemoryError inside the implementation
        # (a finding), not as the kernel killing the check: cap the address space while the implementation runs
        import resource
        soft0, hard0 = resource.getrlimit(resource.RLIMIT_AS)
        cap = int(float(os.environ.get("VERIF_MEM_GB", "10")) * 2 ** 30)
        if hard0 == resource.RLIM_INFINITY or cap < hard0:
            resource.setrlimit(resource.RLIMIT_AS, (cap, hard0))
        if args.replay:
            import replay as _replay
            still = _replay.run(ctx, json.load(open(args.replay)))
            if still is None:
                print("replay is not a single input; running the check")
            else:
                print("REPRODUCED" if still else "NOT REPRODUCED on the current tree")
                return 1 if still else 0
        try:
            run(ctx)
        except Infra:
            raise
        except Exception as ex:  # noqa
            # an exception that comes out of the implementation under test during a step the check expects to succeed is
            # a finding, not an infrastructure failure; anything else is re-raised (exit 2)
            tb = traceback.extract_tb(ex.__traceback__)
            in_impl = [f for f in tb if os.path.realpath(f.filename).startswith(os.path.realpath(os.path.join(REPO, "src")))]
            if isinstance(ex, common.DriverError) and common.generated_changed():
                # the model regenerated from CHANGED source crashes or does not answer in time: the correspondence no longer
                # checks; go on to the failing-input search (decide) instead of calling it infrastructure
                ctx.tie_breaks.append({"stage": "model-driver (regenerated tables differ from the committed baseline)",
                                       "replay": {"error": str(ex)[:400], "changed_tables": [
                                           f for f, h in common.generated_digests().items()
                                           if h != json.load(open(os.path.join(VERIF, "harness", "generated_baseline.json"))).get(f)]}})
                in_impl = None
            elif not in_impl:
                raise
            where = [f"{os.path.basename(f.filename)}:{f.lineno} {f.name}" for f in tb[-6:]]
            if in_impl is not None:
                ctx.violation(f"the implementation raised {type(ex).__name__}: {str(ex)[:160]} during a step the check expects to succeed ({where[-1]})",
                          {"exception": repr(ex)[:400], "traceback": where})
        if ctx.tier == "thorough" and not child and not ctx.new_violations():
            flag_rerun(ctx, prop)
        if ctx.tier == "thorough" and ctx.build_ok and not child:
            capped = resource.getrlimit(resource.RLIMIT_AS)
            resource.setrlimit(resource.RLIMIT_AS, (soft0, hard0))
            ctx.leanchecker()
            resource.setrlimit(resource.RLIMIT_AS, capped)
        if child:
            # report concrete inputs only; no evidence, no known-findings bookkeeping beyond suppression
            known = {(k["property"], k["key"]) for k in load_known().get("findings", [])}
            out = [v for v in ctx.violations if not (v.get("key") and (prop, v["key"]) in known)]
            print("CHILD-RESULT " + json.dumps({"violations": [{"what": v["what"], "replay": v["replay"]} for v in out[:5]],
                                                "tie_breaks": ctx.tie_breaks[:3]}, default=str))
            return 1 if out else 0
        if not child:
            _search = search

            def search(c, _s=_search):
                if _s is not None:
                    try:
                        _s(c)
                    except Infra:
                        raise
                    except Exception as ex:  # noqa  (the deeper search met an exception of the changed implementation: go on with the other searches)
                        c.notes.append("search raised: " + repr(ex)[:200])
                if not c.new_violations():
                    flag_rerun(c, prop)
        code = decide(ctx, level, search)
        print(f"{prop} tier={ctx.tier} seed={seed} cases={ctx.cov['evaluations']} distinct={len(ctx.cov['distinct'])} "
              f"theorems={len(ctx.theorems)} exit={code} wall={time.time() - ctx.t0:.1f}s")
        return code
    except Infra as ex:
        print(f"INFRA {prop}: {ex}", file=sys.stderr)
        return 2
    except subprocess.TimeoutExpired as ex:
        print(f"INFRA {prop}: timeout {ex}", file=sys.stderr)
        return 2
    except Exception:  # noqa
        traceback.print_exc()
        return 2
