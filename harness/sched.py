"""Systematic one-preemption schedules at line granularity (the dynamic counterpart of Lean's `Sched` model).

Thread A runs an operation of the library under `sys.settrace`; at its k-th line event inside the package's own code
(the vendored sly excluded: its objects are allocated per call, see the effect obligations) A is suspended, thread B runs
its whole operation, then A resumes.  Every k is tried (or a sample of them), each in a FORKED copy of a pristine
interpreter, because a race may leave process-wide state behind that hides the next one.  The outcome of A and of B — and
of the same operations once more, alone, afterwards — is compared with what they yield alone in a pristine interpreter.

This explores exactly the schedules with one context switch away from A and one back; the GIL makes line boundaries (more
precisely bytecode boundaries) the only switch points (when B blocks on a lock that A holds, A is resumed and B finishes afterwards), and a generator expression, comprehension or nested call has its own
line events, so a check-then-act that spans two lines or a line and a callee is split by some k.
"""
import json
import os
import sys
import threading
import time

import common


def _pkg_filter():
    root = os.path.realpath(os.path.join(common.REPO, "src", "pyab_experiment"))
    sly = os.path.join(root, "sly")

    def inside(filename):
        f = os.path.realpath(filename) if not filename.startswith("<") else filename
        return f.startswith(root) and not f.startswith(sly)
    cache = {}

    def cached(filename):
        r = cache.get(filename)
        if r is None:
            r = cache[filename] = inside(filename)
        return r
    return cached


def _run_with_pause(op_a, op_b, k, after):
    """run op_a in a thread, suspended at its k-th package line event while op_b runs in the calling thread; returns
    (result_a, result_b, results of `after` operations, number of events seen)"""
    inside = _pkg_filter()
    paused, resume = threading.Event(), threading.Event()
    state = {"n": 0, "a": None}

    def tracer(frame, event, arg):
        if not inside(frame.f_code.co_filename):
            return None
        return local

    def local(frame, event, arg):
        if event == "line":
            state["n"] += 1
            if state["n"] == k:
                paused.set()
                resume.wait(120)
        return local

    def run_a():
        sys.settrace(tracer)
        try:
            state["a"] = op_a()
        finally:
            sys.settrace(None)
            paused.set()

    t = threading.Thread(target=run_a)
    t.start()
    paused.wait(60)
    b = None
    if k is not None and state["n"] >= (k or 0) and t.is_alive():
        # B runs while A is suspended.  If B cannot finish because it WAITS for something A holds (a lock), a real scheduler would
        # switch back to A: A is resumed after a grace period and B is left to finish afterwards.
        box = {}

        def run_b():
            box["b"] = op_b()
        tb = threading.Thread(target=run_b)
        tb.start()
        # "blocked" = B's innermost Python frame has not moved for `still` seconds (an acquire of a held lock sits in C under one line)
        still = float(os.environ.get("VERIF_SCHED_STILL", "0.12"))
        last, since, deadline = None, time.time(), time.time() + 60
        while tb.is_alive() and time.time() < deadline:
            tb.join(0.004)
            fr = sys._current_frames().get(tb.ident)
            pos = (fr.f_code.co_filename, fr.f_lineno, fr.f_lasti) if fr is not None else None
            if pos != last:
                last, since = pos, time.time()
            elif time.time() - since > still:
                break
        resume.set()
        tb.join(120)
        b = box.get("b")
    resume.set()
    t.join(120)
    return state["a"], b, [f() for f in after], state["n"]


def _forked(fn):
    """fn() in a forked copy of this interpreter; returns its JSON-able result (or {"crash": ...})"""
    r, w = os.pipe()
    pid = os.fork()
    if pid == 0:
        code = 0
        try:
            os.close(r)
            try:
                out = fn()
            except BaseException as ex:  # noqa
                out = {"crash": repr(ex)[:300]}
            with os.fdopen(w, "w") as f:
                f.write(json.dumps(out, default=str))
        except BaseException:  # noqa
            code = 1
        finally:
            os._exit(code)
    os.close(w)
    with os.fdopen(r) as f:
        data = f.read()
    os.waitpid(pid, 0)
    try:
        return json.loads(data)
    except Exception:  # noqa
        return {"crash": "no result from forked child: " + data[:200]}


def explore(make_ops, budget, rng):
    """make_ops() -> (op_a, op_b, [after ops]) built inside the (forked) interpreter; returns a list of findings.
    Must be called from a process without other running threads (it forks)."""
    def alone():
        op_a, op_b, after = make_ops()
        ra = op_a()
        rb = op_b()
        return {"a": ra, "b": rb, "after": [f() for f in after]}

    def count():
        op_a, op_b, after = make_ops()
        return _run_with_pause(op_a, op_b, None, [])[3]

    ref_ab = _forked(alone)                      # A then B, sequentially
    if "crash" in ref_ab:
        return [{"kind": "sequential-reference-crashed", "detail": ref_ab["crash"]}], 0

    def alone_ba():
        op_a, op_b, after = make_ops()
        rb = op_b()
        ra = op_a()
        return {"a": ra, "b": rb, "after": [f() for f in after]}
    ref_ba = _forked(alone_ba)                   # B then A: the other serial order
    n = _forked(count)
    if not isinstance(n, int) or n <= 0:
        return [], 0
    ks = list(range(1, n + 1))
    if len(ks) > budget:
        ks = sorted(rng.sample(ks, budget))
    findings = []
    for k in ks:
        def one(k=k):
            op_a, op_b, after = make_ops()
            ra, rb, aft, seen = _run_with_pause(op_a, op_b, k, after)
            return {"a": ra, "b": rb, "after": aft}
        got = _forked(one)
        if "crash" in got:
            findings.append({"kind": "schedule-crashed", "k": k, "detail": got["crash"]})
            break
        # linearisable: the outcome of one of the two serial orders
        if got != ref_ab and got != ref_ba:
            findings.append({"kind": "one-preemption-schedule-differs-from-both-serial-orders", "k": k, "events": n,
                             "concurrent": got, "serial_a_then_b": ref_ab, "serial_b_then_a": ref_ba})
            break
    return findings, len(ks)
