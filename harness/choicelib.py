"""Choice-level harness (C03, C10, C16): drive `binning.deterministic_choice` with the hash
position substituted, next to the Lean model's `choice` / `cum` / `ridx` operations and
the exact-rational interval rule."""
import json
import copy
import math
import random as _random
from fractions import Fraction

import common
import gen


class SubstitutedPosition:
    """rebind binning.deterministic_proba so that the id string "<h>" has position h/2^32"""

    def __enter__(self):
        from pyab_experiment.binning import binning
        self.binning = binning
        self.orig = binning.deterministic_proba
        binning.deterministic_proba = lambda s: int(s) / 2 ** 32
        return self

    def __exit__(self, *a):
        self.binning.deterministic_proba = self.orig


def weight_vector(rng, kind=None):
    """-> list of weight literal texts as the DSL would spell them"""
    kind = kind or rng.choice(["int", "int-small", "decimal", "mixed", "tiny", "huge", "zeros", "equal", "two"])
    n = rng.choice([1, 2, 2, 3, 4, 5, 8, 16, 33, 64])
    if kind == "two":
        n = 2
    ws = []
    for i in range(n):
        if kind == "int":
            w = str(rng.choice([0, 1, 2, 3, 5, 10, 50, 100, 1000, rng.randint(0, 10 ** 6)]))
        elif kind == "int-small":
            w = str(rng.randint(0, 9))
        elif kind == "decimal":
            w = gen.rand_float_text(rng, nonneg=True)
        elif kind == "mixed":
            w = str(rng.randint(0, 100)) if rng.random() < 0.5 else gen.rand_float_text(rng, nonneg=True)
        elif kind == "tiny":
            w = rng.choice(["0.000000001", "0.000000002", "0.0000000015", "0.00000001", "0.0"])
        elif kind == "huge":
            w = rng.choice(["1000000000.0", "999999999.999", "1000000000", "123456789.123456789", "0.5"])
        elif kind == "zeros":
            w = rng.choice(["0", "0.0", "0", "1", "2.5"])
        elif kind == "equal":
            w = "1"
        else:
            w = str(rng.choice([1, 9, 10, 90, 99, 50]))
        ws.append(w)
    if all(Fraction(gen.weight_fraction(w)) == 0 for w in ws):
        ws[rng.randrange(n)] = "1"
    return ws


def boundary_positions(ws_text, rng, extra=6):
    """grid points adjacent to every boundary (exact rationals), plus 0, 2^32-1 and random ones"""
    ws = [gen.weight_fraction(w) for w in ws_text]
    total = sum(ws)
    hs = {0, 1, 2 ** 32 - 1, 2 ** 31}
    acc = Fraction(0)
    for w in ws[:-1]:
        acc += w
        g = math.ceil(acc * 2 ** 32 / total)
        for d in (-2, -1, 0, 1, 2):
            if 0 <= g + d < 2 ** 32:
                hs.add(g + d)
    for _ in range(extra):
        hs.add(rng.randrange(2 ** 32))
    return sorted(hs)


def to_num(text, as_float=True):
    """the Python number a weight literal becomes (floats, as compiled experiments pass them)"""
    if as_float or "." in text:
        return float(text)
    return int(text)


def impl_choice(h, population, weights=None, cum_weights=None):
    from pyab_experiment.binning import binning
    kw = {}
    if weights is not None:
        kw["weights"] = weights
    if cum_weights is not None:
        kw["cum_weights"] = cum_weights
    return common.outcome_of(lambda: binning.deterministic_choice(None if h is None else str(h), population, **kw))


def model_choice_req(h, n, weights=None, cum_weights=None):
    return {"op": "choice", "h": h, "n": n,
            "w": None if weights is None else [common.enc_num(x) for x in weights],
            "cw": None if cum_weights is None else [common.enc_num(x) for x in cum_weights]}


def model_to_outcome(ans, population):
    """model Pick -> canonical outcome over `population`"""
    if "idx" in ans:
        i = ans["idx"]
        if 0 <= i < len(population):
            return {"g": common.enc_val(population[i])}
        return {"e": "IndexError"}
    if "e" in ans:
        return {"e": ans["e"]}
    return ans


def run_half_step(ctx, n):
    """REAL unit ids (nothing substituted) against boundaries half a grid step away from their own position:
    unit with hash h, weights (2h+1, 2^33-2h-1) put the boundary at (h+1/2)/2^32 — the unit is in the first
    group; weights (2h-1, 2^33-2h+1) put it at (h-1/2)/2^32 — second group.  All sums are exact in binary64,
    so any position other than exactly h/2^32 (a different divisor, a float32 detour, a rounded hash) shows."""
    from pyab_experiment.experiment_evaluator import ExperimentEvaluator
    rng = ctx.rng
    for k in range(n):
        salt = rng.choice([None, "s1", "exp-%d" % rng.randrange(99)])
        uid = rng.choice(["user-%d" % rng.randrange(10 ** 6), rng.randrange(10 ** 12), "u%d" % k])
        env = {"uid": uid}
        h = gen.published_position(salt, ["uid"], env)
        for delta, want in ((1, 0), (-1, 1)):
            a = 2 * h + delta
            if a <= 0:
                continue
            ws_text = [str(a), str(2 ** 33 - a)]
            exact, allowed = gen.spec_indices(ws_text, h)
            assert exact == want, (h, ws_text, exact)
            text = 'def e { %ssplitters: uid return "g0" weighted %s, "g1" weighted %s }' % ('salt: "%s" ' % salt if salt is not None else "", *ws_text)
            out = common.outcome_of(lambda: ExperimentEvaluator(text)(**env))
            ctx.case(("half-step", salt, uid, delta), True)
            ctx.count("half-step")
            if out != {"g": {"s": "g%d" % want}}:
                ctx.violation(f"unit {uid!r} (salt {salt!r}) has position {h}/2^32; with weights {ws_text} the boundary is half a grid step "
                              f"{'above' if delta > 0 else 'below'} it, so the interval rule selects g{want}: the evaluator returns {json.dumps(out)}",
                              {"text": text, "env": common.enc_env(env), "h": h, "impl": out, "spec_exact": want})
