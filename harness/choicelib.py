"""Choice-level harness (C03, C10, C16): drive `binning.deterministic_choice` with the hash
position substituted, next to the Lean model's `choice` / `cum` / `ridx` operations and
the exact-rational interval rule."""
import itertools
import json
import copy
import math
import random as _random
from fractions import Fraction

import common
import gen


class SubstitutedPosition:
    """rebind binning.deterministic_proba so that the id string "<h>" has position h/2^32"""

    def __enter__(self):
        from pyab_experiment.binning import binning
        self.binning = binning
        self.orig = binning.deterministic_proba
        binning.deterministic_proba = lambda s: int(s) / 2 ** 32
        return self

    def __exit__(self, *a):
        self.binning.deterministic_proba = self.orig


def weight_vector(rng, kind=None):
    """-> list of weight literal texts as the DSL would spell them"""
    kind = kind or rng.choice(["int", "int-small", "decimal", "mixed", "tiny", "huge", "zeros", "equal", "two", "subpico", "googol"])
    n = rng.choice([1, 2, 2, 3, 4, 5, 8, 16, 33, 64])
    if kind == "two":
        n = 2
    ws = []
    # (one scale for the whole vector: the property is about ratios of comparable weights; magnitudes more than 2^53 apart absorb each other in binary64)
    sub_zeros = rng.choice([12, 13, 20, 60, 150, 300])
    goo_zeros = rng.choice([20, 100, 200, 298, 300]) if n <= 5 else rng.choice([20, 100, 200])
    for i in range(n):
        if kind == "int":
            w = str(rng.choice([0, 1, 2, 3, 5, 10, 50, 100, 1000, rng.randint(0, 10 ** 6)]))
        elif kind == "int-small":
            w = str(rng.randint(0, 9))
        elif kind == "decimal":
            w = gen.rand_float_text(rng, nonneg=True)
        elif kind == "mixed":
            w = str(rng.randint(0, 100)) if rng.random() < 0.5 else gen.rand_float_text(rng, nonneg=True)
        elif kind == "tiny":
            w = rng.choice(["0.000000001", "0.000000002", "0.0000000015", "0.00000001", "0.0"])
        elif kind == "subpico":
            # a whole vector written on a scale far below 1 (the split is about ratios, not magnitudes)
            w = "0." + "0" * sub_zeros + str(rng.choice([2, 6, 8, 1, 25, 14, 26])) if rng.random() < 0.9 else "0.0"
        elif kind == "googol":
            w = str(rng.randint(1, 9)) + "0" * goo_zeros
        elif kind == "huge":
            w = rng.choice(["1000000000.0", "999999999.999", "1000000000", "123456789.123456789", "0.5"])
        elif kind == "zeros":
            w = rng.choice(["0", "0.0", "0", "1", "2.5"])
        elif kind == "equal":
            w = "1"
        else:
            w = str(rng.choice([1, 9, 10, 90, 99, 50]))
        ws.append(w)
    if all(Fraction(gen.weight_fraction(w)) == 0 for w in ws):
        ws[rng.randrange(n)] = "1"
    return ws


def boundary_positions(ws_text, rng, extra=6):
    """grid points adjacent to every boundary (exact rationals), plus 0, 2^32-1 and random ones"""
    ws = [gen.weight_fraction(w) for w in ws_text]
    total = sum(ws)
    hs = {0, 1, 2 ** 32 - 1, 2 ** 31}
    acc = Fraction(0)
    for w in ws[:-1]:
        acc += w
        g = math.ceil(acc * 2 ** 32 / total)
        for d in (-2, -1, 0, 1, 2):
            if 0 <= g + d < 2 ** 32:
                hs.add(g + d)
    for _ in range(extra):
        hs.add(rng.randrange(2 ** 32))
    return sorted(hs)


def to_num(text, as_float=True):
    """the Python number a weight literal becomes (floats, as compiled experiments pass them)"""
    if as_float or "." in text:
        return float(text)
    return int(text)


def impl_choice(h, population, weights=None, cum_weights=None):
    from pyab_experiment.binning import binning
    kw = {}
    if weights is not None:
        kw["weights"] = weights
    if cum_weights is not None:
        kw["cum_weights"] = cum_weights
    return common.outcome_of(lambda: binning.deterministic_choice(None if h is None else str(h), population, **kw))


def model_choice_req(h, n, weights=None, cum_weights=None):
    return {"op": "choice", "h": h, "n": n,
            "w": None if weights is None else [common.enc_num(x) for x in weights],
            "cw": None if cum_weights is None else [common.enc_num(x) for x in cum_weights]}


def model_to_outcome(ans, population):
    """model Pick -> canonical outcome over `population`"""
    if "idx" in ans:
        i = ans["idx"]
        if 0 <= i < len(population):
            return {"g": common.enc_val(population[i])}
        return {"e": "IndexError"}
    if "e" in ans:
        return {"e": ans["e"]}
    return ans


def run_half_step(ctx, n):
    """REAL unit ids (nothing substituted) against boundaries half a grid step away from their own position:
    unit with hash h, weights (2h+1, 2^33-2h-1) put the boundary at (h+1/2)/2^32 — the unit is in the first
    group; weights (2h-1, 2^33-2h+1) put it at (h-1/2)/2^32 — second group.  All sums are exact in binary64,
    so any position other than exactly h/2^32 (a different divisor, a float32 detour, a rounded hash) shows."""
    from pyab_experiment.experiment_evaluator import ExperimentEvaluator
    rng = ctx.rng
    for k in range(n):
        salt = rng.choice([None, "s1", "exp-%d" % rng.randrange(99)])
        uid = rng.choice(["user-%d" % rng.randrange(10 ** 6), rng.randrange(10 ** 12), "u%d" % k])
        env = {"uid": uid}
        h = gen.published_position(salt, ["uid"], env)
        for delta, want in ((1, 0), (-1, 1)):
            a = 2 * h + delta
            if a <= 0:
                continue
            ws_text = [str(a), str(2 ** 33 - a)]
            if k % 3 == 2 and 2 ** 33 - a > 8:
                # the same boundary with a third group narrower than one hash step at the far end (its presence changes nothing for this unit)
                ws_text = [str(a), str(2 ** 33 - a - 4), rng.choice(["4", "1", "0.25", "3.75"])]
                if "." in ws_text[2]:
                    ws_text[1] = "%d.%s" % (2 ** 33 - a - 1, {"0.25": "75", "3.75": "25"}[ws_text[2]]) if ws_text[2] == "0.25" else "%d.25" % (2 ** 33 - a - 4)
            exact, allowed = gen.spec_indices(ws_text, h)
            if exact != want:
                continue
            groups_txt = ", ".join('"g%d" weighted %s' % (i, w) for i, w in enumerate(ws_text))
            text = 'def e { %ssplitters: uid return %s }' % ('salt: "%s" ' % salt if salt is not None else "", groups_txt)
            out = common.outcome_of(lambda: ExperimentEvaluator(text)(**env))
            ctx.case(("half-step", salt, uid, delta), True)
            ctx.count("half-step")
            if out != {"g": {"s": "g%d" % want}}:
                ctx.violation(f"unit {uid!r} (salt {salt!r}) has position {h}/2^32; with weights {ws_text} the boundary is half a grid step "
                              f"{'above' if delta > 0 else 'below'} it, so the interval rule selects g{want}: the evaluator returns {json.dumps(out)}",
                              {"text": text, "env": common.enc_env(env), "h": h, "impl": out, "spec_exact": want})


def _exact_index(ws, h):
    """the interval rule on small non-negative integer weights (everything exact in binary64)"""
    total = sum(ws)
    x = Fraction(h, 2 ** 32) * total
    acc = 0
    for i, w in enumerate(ws):
        acc += w
        if x < acc:
            return i
    return len(ws) - 1


def run_stateful(ctx, n):
    """call SEQUENCES on the choice function: the function is documented as a pure function of its arguments' VALUES at the
    time of the call, so nothing may be remembered between calls — not per list object (a caller that updates one weights
    list in place between calls), not per address (temporaries of equal length), not per value of another call."""
    from pyab_experiment.binning import binning
    rng = ctx.rng

    def call(h, pop, **kw):
        return common.outcome_of(lambda: binning.deterministic_choice(str(h), pop, **kw))

    def expect(ws, pop, h, cum=False):
        if cum:
            ws = [b - a for a, b in zip([0] + list(ws), ws)]
        if len(ws) != len(pop):
            return {"e": "ValueError:len"}
        if sum(ws) <= 0:
            return {"e": "ValueError:nonpositive"}
        return {"g": common.enc_val(pop[_exact_index(ws, h)])}

    with SubstitutedPosition():
        for _ in range(n):
            k = rng.choice([2, 3, 4, 8, 31, 32, 33, 40, 64, 100, 127, 128, 129, 255, 256, 257, 500, 1000])
            pop = ["p%d" % i for i in range(k)]
            hs = [rng.randrange(2 ** 32) for _ in range(4)] + [0, 2 ** 32 - 1]
            mode = rng.choice(["in-place", "in-place-cum", "temporaries", "equal-distinct", "grow-shrink"])
            ctx.count("stateful:" + mode)
            steps = []
            if mode in ("in-place", "in-place-cum", "grow-shrink"):
                w = [rng.randint(0, 9) for _ in range(k)]
                w[rng.randrange(k)] += 1
                cum = mode == "in-place-cum"
                live = list(itertools.accumulate(w)) if cum else w          # ONE list object for the whole sequence
                for r in range(5):
                    for h in hs[:3]:
                        got = call(h, pop, **({"cum_weights": live} if cum else {"weights": live}))
                        steps.append((mode, r, h, list(live), got, expect(list(live), pop, h, cum)))
                    # the caller updates the list in place
                    if mode == "grow-shrink" and r % 2 == 0:
                        live.append(5)
                    elif mode == "grow-shrink":
                        live.pop()
                    elif cum:
                        i = rng.randrange(k)
                        for j in range(i, k):
                            live[j] += 3
                    else:
                        i, j = rng.randrange(k), rng.randrange(k)
                        live[i], live[j] = live[j], live[i]
                        live[rng.randrange(k)] += rng.choice([1, 5])
                        if rng.random() < 0.3:
                            live[:] = [0] * (k - 1) + [1]
            elif mode == "temporaries":
                a = [rng.randint(0, 9) for _ in range(k)]; a[0] += 1
                b = [rng.randint(0, 9) for _ in range(k)]; b[-1] += 1
                for r in range(6):
                    for h in hs[:3]:
                        for ws in (a, b):
                            got = call(h, pop, weights=list(ws))       # a temporary: freed on return, its address reused
                            steps.append((mode, r, h, ws, got, expect(ws, pop, h)))
            else:
                a = [rng.randint(0, 9) for _ in range(k)]; a[0] += 1
                for r in range(3):
                    for h in hs:
                        for ws in (a, tuple(a), list(a), [float(x) for x in a]):
                            got = call(h, pop, weights=ws)
                            steps.append((mode, r, h, list(ws), got, expect([int(x) for x in ws], pop, h)))
            for i, (m, r, h, ws, got, want) in enumerate(steps):
                ctx.case(("stateful", m, k, i, h, tuple(ws)), True)
                if not common.same_outcome(got, want):
                    ctx.violation(
                        f"call {i} of a sequence ({m}, {k} items): deterministic_choice at position {h}/2^32 with weights whose values at the "
                        f"time of the call are {ws[:8]}{'…' if len(ws) > 8 else ''} returns {json.dumps(got)[:60]}; those values prescribe {json.dumps(want)[:60]}",
                        {"mode": m, "sequence": [[s[2], s[3]] for s in steps[:i + 1]][-12:], "h": h, "weights": ws, "impl": got, "spec": want})
                    break


def run_scaling(ctx, n):
    """multiplying every weight by the same power of two changes no share and — binary64 scales exactly — no rounding: every unit keeps its
    group.  Vectors with thin groups that float accumulation absorbs ([h*2^55, 1, 1, (2^32-h)*2^55]: the unit with hash h sits exactly on the
    first boundary) are compared with their copies scaled by 2^10, 2^54, 2^60, through COMPILED experiments (integer literals of any size) and
    through the direct API (float weights)."""
    from pyab_experiment.binning import binning
    from pyab_experiment.experiment_evaluator import ExperimentEvaluator
    rng = ctx.rng
    for k in range(n):
        uid = "user-%d" % rng.randrange(10 ** 9)
        env = {"uid": uid}
        h = gen.published_position(None, ["uid"], env)
        if h == 0:
            continue
        shape = rng.choice(["absorbed", "absorbed", "plain", "three"])
        if shape == "absorbed":
            base = [h * 2 ** 55, 1, 1, (2 ** 32 - h) * 2 ** 55]
        elif shape == "plain":
            base = [h, 2 ** 32 - h]
        else:
            base = [h * 2 ** 30, 3, (2 ** 32 - h) * 2 ** 30 - 3]
        results = {}
        for sh in (0, 10, 54, 60):
            ws = [w * 2 ** sh for w in base]
            text = "def e { splitters: uid return %s }" % ", ".join('"g%d" weighted %d' % (i, w) for i, w in enumerate(ws))
            results[("compiled", sh)] = common.outcome_of(lambda: ExperimentEvaluator(text)(**env))
            results[("direct", sh)] = common.outcome_of(lambda: binning.deterministic_choice(str(uid), ["g%d" % i for i in range(len(ws))], weights=[float(w) for w in ws]))
        ctx.case(("scaling", uid, shape), True)
        ctx.count("scaling:" + shape)
        first = results[("compiled", 0)]
        for key, out in results.items():
            if out != first:
                ctx.violation(f"unit {uid!r} (position {h}/2^32): with weights {base} it gets {json.dumps(first)}; with the same weights times 2^{key[1]} ({key[0]}) it gets "
                              f"{json.dumps(out)} — scaling every weight by a power of two changes no share and no rounding",
                              {"uid": uid, "h": h, "weights": [str(w) for w in base], "shift": key[1], "form": key[0], "impl_base": first, "impl_scaled": out})
                break


def _rounded_total_cases():
    """decimal weight triples whose left-to-right float sum differs from the correctly rounded sum, extended by a fourth weight that makes the
    total exactly twice the correctly rounded prefix sum: at position 1/2 the scaled position IS that prefix sum, one ulp below the running total"""
    out = []
    tenths = [x / 10 for x in range(1, 40)] + [x / 100 for x in (7, 11, 13, 29, 35, 57)]
    for a in tenths:
        for b in tenths:
            for c in tenths:
                plain = (a + b) + c
                exact = float(Fraction(a) + Fraction(b) + Fraction(c))
                if plain > exact:
                    w4 = 2 * exact - plain
                    if w4 > 0 and plain + w4 == 2 * exact and 0.5 * (plain + w4) == exact:
                        out.append([a, b, c, w4])
                        if len(out) >= 40:
                            return out
    return out


def run_rounded_totals(ctx):
    """`weights=ws` and `cum_weights=list(accumulate(ws))` are the same call: the running totals are the plain left-to-right float sums (what
    `itertools.accumulate` — and `random.choices` — compute), not a compensated or correctly rounded sum"""
    import itertools as _it
    from pyab_experiment.binning import binning
    pop = ["A", "B", "C", "D"]
    with SubstitutedPosition():
        for ws in _rounded_total_cases():
            cum = list(_it.accumulate(ws))
            for h in (2 ** 31, 2 ** 31 - 1, 2 ** 31 + 1):
                a = common.outcome_of(lambda: binning.deterministic_choice(str(h), pop, weights=list(ws)))
                b = common.outcome_of(lambda: binning.deterministic_choice(str(h), pop, cum_weights=cum))
                ctx.case(("rounded-total", tuple(ws), h), True)
                ctx.count("rounded-totals")
                if a != b:
                    ctx.violation(f"weights {ws} at position {h}/2^32 give {json.dumps(a)}, their running totals {cum} give {json.dumps(b)}: the running totals of "
                                  f"weights are the plain left-to-right sums", {"weights": [repr(w) for w in ws], "cum_weights": [repr(c) for c in cum], "h": h, "impl_weights": a, "impl_cum": b})
                    return


def key_lengths(max_pow):
    """key lengths m*2^j + d and m*10^j + d: next to every multiple of a power of two up to 2^max_pow (m odd, so 3*2^14 = 48 KiB, 5*2^12, ... are met
    as well as the powers themselves) and of a power of ten: where a digest computed block by block, slice by slice or buffer by buffer can drop or repeat a piece"""
    out = set()
    for j in range(6, max_pow + 1):
        for m in (1, 3, 5, 7):
            if m * 2 ** j <= 2 ** max_pow:
                out.update(m * 2 ** j + d for d in (-1, 0, 1, 2))
    for j in range(2, 7):
        for m in range(1, 10):
            if m * 10 ** j <= 2 ** max_pow:
                out.update(m * 10 ** j + d for d in (0, 1))
    return sorted(out)


def run_key_lengths(ctx, max_pow):
    """units whose whole hash key (salt + fields in name order) has exactly such a length and which differ only in the key's LAST character: each is assigned
    by the first 32 bits of MD5 of the whole key"""
    from pyab_experiment.experiment_evaluator import ExperimentEvaluator
    labels = "abcdefghijklmnop"
    groups = ", ".join('"%s" weighted 1' % c for c in labels)
    one = ExperimentEvaluator('def e { salt: "s" splitters: u return %s }' % groups)
    two = ExperimentEvaluator('def e { salt: "s" splitters: blob, shard return %s }' % groups)
    ws = ["1"] * len(labels)
    seen = {}
    for n in key_lengths(max_pow):
        for body in (("k", "é") if n <= 2 ** 17 else ("k",)):
            for last in ("Y", "Z"):
                envs = [("one", one, {"u": body * (n - 2) + last}, ["u"]), ("two", two, {"blob": body * (n - 2), "shard": last}, ["blob", "shard"])]
                for form, ev, env, names in envs[: 2 if n <= 2 ** 18 or last == "Y" else 1]:
                    got = common.outcome_of(lambda: ev(**env))
                    h = gen.published_position("s", names, env)
                    want = {"g": {"s": labels[gen.spec_indices(ws, h)[0]]}}
                    ctx.count("key-length:" + form)
                    if got != want:
                        ctx.case(("key-length", n, body, last, form), True)
                        ctx.violation(f"a unit whose hash key has {n} characters (salt 's', then {body!r} repeated, ending in {last!r}; {form} splitter field(s)) gets {json.dumps(got)}; "
                                      f"md5 of the whole key selects {json.dumps(want)}", {"key_length": n, "body": body, "last": last, "fields": form, "impl": got, "spec": want})
                        return
        ctx.case(("key-length", n), True)


def run_numeric_twin_sequences(ctx):
    """weight vectors that compare EQUAL element by element but are of different numeric type (floats, ints, Fractions), given one after the other in one
    process, with running totals above 2^53 where the float sums of the one round and the integer sums of the other do not: the answer for the integer
    vector is the exact one whatever was asked before (the function remembers nothing about an earlier, equal-looking call)"""
    from pyab_experiment.binning import binning
    M = 2 ** 53
    plans = [([M, 1, M - 1], 2 ** 31), ([2 ** 60, 3, 2 ** 60 - 3, 2 ** 61], 2 ** 30), ([M, 1, 1, M - 2], 2 ** 31), ([2 ** 70, 2 ** 17 - 1, 2 ** 70 - 2 ** 17 + 1], 2 ** 31),
             ([3 * 2 ** 60, 5, 2 ** 60 - 5], 3 * 2 ** 30)]
    with SubstitutedPosition():
        for v, h in plans:
            pop = list("ABCDEFG"[:len(v)])
            want = {"g": common.enc_val(pop[_exact_index(v, h)])}
            for order in (("float", "int"), ("int", "float", "int"), ("float-tuple", "int-tuple"), ("fraction", "float", "int"), ("float-cum", "int-cum")):
                seq = []
                for kind in order:
                    cum = kind.endswith("-cum")
                    vals = list(itertools.accumulate(v)) if cum else list(v)
                    conv = float if kind.startswith("float") else Fraction if kind.startswith("fraction") else int
                    ws = [conv(x) for x in vals]
                    if kind.endswith("-tuple"):
                        ws = tuple(ws)
                    got = common.outcome_of(lambda: binning.deterministic_choice(str(h), pop, **({"cum_weights": ws} if cum else {"weights": ws})))
                    seq.append([kind, got])
                    ctx.count("numeric-twins:" + kind.split("-")[0])
                    if conv is not float and not common.same_outcome(got, want):
                        ctx.case(("numeric-twins", tuple(v), order), True)
                        ctx.violation(f"deterministic_choice at position {h}/2^32 with the {kind} weights {v} returns {json.dumps(got)} after the same values were given as "
                                      f"{', '.join(k for k, _ in seq[:-1]) or 'nothing'}; exact arithmetic on these integers selects {json.dumps(want)}",
                                      {"weights": [str(x) for x in v], "h": h, "sequence_of_types": [k for k, _ in seq], "answers": seq, "spec": want})
                        return
            ctx.case(("numeric-twins", tuple(v)), True)


def run_ulp_boundaries(ctx):
    """boundaries a relative 2^-40 above, on and below a unit's scaled position (and, advisory only, one unit in the last place above / below), for totals
    next to a round number (N +- 2^-j): every quantity the function forms is exactly representable here (position m/2^16, total of at most 37 bits), so
    the answer is determined with no tolerance at all — the unit belongs to the group whose interval [lo, hi) contains position * total, computed with the
    total AS GIVEN.  (2^-40 is ten thousand times the rounding error of any re-association of the formula and a thousandth of a hash-grid step.)"""
    import math as _m
    from pyab_experiment.binning import binning
    pop = ["A", "B", "C"]
    with SubstitutedPosition():
        for N in (1, 3, 100, 1000):
            for j in (8, 12, 16, 20, 24, 28, 30, 33, 36):
                for sg in (-1, 1):
                    T = N + sg * 2.0 ** -j
                    if Fraction(T) != Fraction(N) + sg * Fraction(1, 2 ** j):
                        continue
                    for m16 in (1, 12345, 27598, 32768, 40000, 65535):
                        h = m16 << 16
                        pos_q = Fraction(h, 2 ** 32) * Fraction(T)
                        pos = float(pos_q)
                        if Fraction(pos) != pos_q:
                            continue
                        for name, c1 in (("2^-40 (relative) above", pos * (1 + 2.0 ** -40)), ("equal to", pos), ("2^-40 (relative) below", pos * (1 - 2.0 ** -40)),
                                         ("one ulp above", _m.nextafter(pos, _m.inf)), ("one ulp below", _m.nextafter(pos, 0.0))):
                            if not (0 < c1 < T):
                                continue
                            advisory = name.startswith("one ulp")      # a re-association of the same formula may move a result by an ulp: reported as drift only
                            c2 = (c1 + T) / 2
                            want_i = 0 if pos_q < Fraction(c1) else 1 if pos_q < Fraction(c2) else 2
                            want = {"g": common.enc_val(pop[want_i])}
                            forms = [("cum_weights", {"cum_weights": [c1, c2, T]})]
                            w2, w3 = c2 - c1, T - c2
                            if Fraction(c1) + Fraction(w2) == Fraction(c2) and Fraction(c2) + Fraction(w3) == Fraction(T) and c1 + w2 == c2 and c2 + w3 == T:
                                forms.append(("weights", {"weights": [c1, w2, w3]}))
                            for form, kw in forms:
                                got = common.outcome_of(lambda: binning.deterministic_choice(str(h), pop, **kw))
                                ctx.count("ulp-boundary:" + form)
                                if advisory and not common.same_outcome(got, want):
                                    ctx.drift("ulp-boundary", {"h": h, "total": repr(T), "first_boundary": repr(c1), "form": form, "impl": got, "spec": want})
                                    continue
                                if not common.same_outcome(got, want):
                                    ctx.case(("ulp-boundary", N, j, sg, m16, name, form), True)
                                    ctx.violation(f"total {T!r} (= {N} {'+' if sg > 0 else '-'} 2^-{j}), unit at position {m16}/2^16: position * total = {pos!r} exactly; with the first boundary "
                                                  f"{name} that ({c1!r}) the {form} form returns {json.dumps(got)}, the interval rule selects {json.dumps(want)}",
                                                  {"h": h, "total": repr(T), "scaled_position": repr(pos), "first_boundary": repr(c1), "form": form,
                                                   "args": {k: [repr(x) for x in v] for k, v in kw.items()}, "impl": got, "spec": want})
                                    return
                ctx.case(("ulp-boundary", N, j), True)


def run_salt_alphabet(ctx):
    """salts (and ids) holding a control or separator character — CR, TAB, VT, FF, NEL, LS, NUL, BOM, zero-width space, blanks at either end: a salt is any
    characters between its quotes (other than a line feed), taken literally"""
    from pyab_experiment.experiment_evaluator import ExperimentEvaluator
    labels = "abcdefgh"
    groups = ", ".join('"%s" weighted 1' % c for c in labels)
    ws = ["1"] * len(labels)
    for salt in ["\r", "a\rb", "\r\r", "\t", "\x0b", "\x0c", "\x85", "\u2028", "\u2029", "\x00", "\x1c", "\ufeff", "\u200b", " ", "  x ", "x\r", "\\r", "\\n", "\\", "//", "/*",
                 # what a template engine, a format call or a %-substitution would expand
                 "{{exp}}-v1", "}}", "{{", "{fields}", "{0}", "{}", "{salt}", "{key}", "%s", "%(u)s", "%%", "%d", "${u}", "$u", "{u}", "{{u}}", "\\{", "#{u}", "<%= u %>"]:
        text = 'def e { salt: "%s" splitters: u return %s }' % (salt, groups)
        try:
            ev, _ = common.quiet(lambda: ExperimentEvaluator(text))
        except Exception as ex:  # noqa
            ctx.case(("control-salt", salt), True)
            ctx.violation(f"an experiment whose salt is {salt!r} does not compile ({common.classify_exc(ex)})", {"text": text, "salt": salt})
            return
        for u in ["unit1", "", salt, "x" + salt, 7]:
            got = common.outcome_of(lambda: ev(u=u))
            h = gen.published_position(salt, ["u"], {"u": u})
            want = {"g": {"s": labels[gen.spec_indices(ws, h)[0]]}}
            ctx.case(("control-salt", salt, repr(u)), True)
            ctx.count("control-salts")
            if got != want:
                ctx.violation(f"salt {salt!r}, id {u!r}: the evaluator answers {json.dumps(got)}; md5 of salt + id selects {json.dumps(want)}",
                              {"text": text, "env": common.enc_env({"u": u}), "impl": got, "spec": want})
                return
