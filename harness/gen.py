"""Typed, size-controlled generator of experiment programs (a small Python-side AST),
their rendering to source text with controllable trivia / parentheses, inputs derived
from the program's own literals, and an *independent reference semantics* (the spec
oracle used by the failing-input search): nested if / else-if / else routing with
Python's operator meaning, the published bucketing scheme with hashlib, and the
interval rule with exact rational arithmetic."""
import hashlib
import math
import random
from decimal import Decimal
from fractions import Fraction

KEYWORDS = ["def", "salt", "splitters", "if", "else", "weighted", "return", "and", "or", "not", "in"]

# identifiers a user may reasonably write; many merely *begin* or *end* with a keyword
IDENT_POOL = [
    "x", "y", "a", "b", "u", "n", "X", "USER", "Country", "_x", "_private", "x_", "a1", "b2c",
    "order_id", "index", "not_active", "android", "iffy", "define", "returned", "inner", "salty",
    "organic", "elsewhere", "weighted_x", "definitely", "splitters_x", "ifx", "andy", "oreo", "notx",
    "in_x", "int_val", "origin", "nothing", "sandbox", "island", "oracle", "default_", "reinforce",
    "user_id", "country", "age", "device", "plan", "segment", "very_long_identifier_name_0123456789",
    "elif_", "else_", "return_", "x_in", "inx", "notin", "ornot", "android_or_ios",
]
# ordinary identifiers that happen to be names of the host language's builtins / modules, or names that the library's own
# Python code uses for parameters, locals and attributes (a wrapper, a log call or a keyword-passing layer can capture them)
HOST_NAMES = ("fields args record data params key value name id input_id population weights cum_weights source_code ast code fn func "
              "callback context ctx env result ret out cls code_holder fn_name run_experiment recompile experiment_fn hashlib input_string "
              "digest accumulate bisect choices hi total T _floor __class__ __dict__ __init__ __call__ __name__ __doc__ len sorted list "
              "tuple int float print type object input open range sum min max abs all any repr hash format exec eval compile globals locals "
              "vars dir getattr setattr isinstance Exception ValueError TypeError e E math random functools itertools pyab_experiment binning "
              "typing copy sys os re json logging logger log warnings debug msg message text source expr term predicate cond group groups "
              # soft keywords of the host language, and words other languages reserve for constants
              "match case type _ __ true false null none nil undefined nan inf NaN Infinity yes no on off this super void var let const function "
              "TRUE FALSE NULL Ellipsis NotImplemented __debug__x __name__ __file__ __builtins__").split()
_FRAG_CACHE = []


def generated_fragments():
    """lines and pieces of the text the implementation's generator emits right now (banner, import lines, signatures, calls): a
    string literal that SPELLS one of them is still just a string — whatever the library later searches, splits or replaces in its own output"""
    if _FRAG_CACHE:
        return _FRAG_CACHE[0]
    out = []
    probe = 'def probe_exp { salt: "s" splitters: fa if fc == 1 { return "a" weighted 1 } else { return "c" weighted 1 } }'
    try:
        from pyab_experiment.utils.wraper_functions import parse_source
        from pyab_experiment.codegen.python.python_generator import PythonCodeGen
        nosalt = 'def probe2 { splitters: fa, fb return "a" weighted 1, "b" weighted 2 }'
        for expose, src in ((False, probe), (True, probe), (False, nosalt), (True, nosalt)):
            code = PythonCodeGen(parse_source(src), expose_experiment_variant_function=expose).generate()
            for line in code.split("\n"):
                t = line.strip()
                if len(t) >= 6:
                    out.append(t)
                    out.append(line.rstrip())
                    if len(t) > 30:
                        out += [t[:len(t) // 2], t[len(t) // 2:]]
    except Exception:  # noqa
        pass
    # plus the fragments the generator emitted when this harness was written (text copied from generated code of an older version is
    # exactly what a user may have pasted into a salt or a label)
    try:
        import json as _json
        import os as _os
        out += _json.load(open(_os.path.join(_os.path.dirname(_os.path.abspath(__file__)), "fragments_baseline.json")))
    except Exception:  # noqa
        pass
    out = [x for x in dict.fromkeys(out) if "\n" not in x and not ('"' in x and "'" in x)]
    _FRAG_CACHE.append(out)
    return out


_WORDS_CACHE = []


def source_words():
    """every identifier, attribute name, dict key and short string constant in the package's own modules (sly excluded): candidates for
    placeholders and markers the library may use internally while building its output"""
    if _WORDS_CACHE:
        return _WORDS_CACHE[0]
    import ast as _ast
    import os
    words = set()
    try:
        import pyab_experiment
        root = os.path.dirname(pyab_experiment.__file__)
        for d, dirs, files in os.walk(root):
            dirs[:] = [x for x in dirs if x not in ("sly", "__pycache__")]
            for f in files:
                if f.endswith(".py"):
                    try:
                        tree = _ast.parse(open(os.path.join(d, f), encoding="utf-8").read())
                    except Exception:  # noqa
                        continue
                    for n in _ast.walk(tree):
                        if isinstance(n, _ast.Name):
                            words.add(n.id)
                        elif isinstance(n, _ast.Attribute):
                            words.add(n.attr)
                        elif isinstance(n, _ast.arg):
                            words.add(n.arg)
                        elif isinstance(n, _ast.keyword) and n.arg:
                            words.add(n.arg)
                        elif isinstance(n, _ast.Constant) and isinstance(n.value, str) and 1 <= len(n.value) <= 60 and "\n" not in n.value:
                            words.add(n.value)
    except Exception:  # noqa
        pass
    _WORDS_CACHE.append(sorted(w for w in words if not ('"' in w and "'" in w)))
    return _WORDS_CACHE[0]


_HOST_CACHE = []


def host_names():
    """HOST_NAMES plus every identifier that occurs in the text the implementation's OWN generator emits right now (both
    layouts) for a probe program — locals, parameters and helpers that a change to the generator introduces are thereby tried as
    field names, experiment names and extra keyword arguments on the next run.  Python reserved words are left out (finding family K1)."""
    if _HOST_CACHE:
        return _HOST_CACHE[0]
    import io
    import keyword
    import tokenize
    names = set()
    probe = ('def probe_exp { salt: "s" splitters: fa, fb if fc == 1 and fd in (fe, (1, 2)) { return "a" weighted 1, 2 weighted 1.5 } '
             'else if not fc > 2 { return "b" weighted 1 } else { return "c" weighted 1 } }')
    try:
        from pyab_experiment.utils.wraper_functions import generate_code, parse_source
        from pyab_experiment.codegen.python.python_generator import PythonCodeGen
        texts = [generate_code(probe, False), generate_code(probe, True), PythonCodeGen(parse_source(probe), expose_experiment_variant_function=False).generate()]
        for code in texts:
            for tok in tokenize.generate_tokens(io.StringIO(code).readline):
                if tok.type == tokenize.NAME:
                    names.add(tok.string)
    except Exception:  # noqa
        pass
    names -= {"probe_exp", "fa", "fb", "fc", "fd", "fe"}
    dyn = sorted(n for n in names if not keyword.iskeyword(n) and n not in K1_NAMES and n not in DSL_WORDS)
    _HOST_CACHE.append(list(dict.fromkeys(HOST_NAMES + dyn)))
    return _HOST_CACHE[0]


DSL_WORDS = {"def", "salt", "splitters", "if", "else", "weighted", "return", "and", "or", "not", "in", "elif"}
# plain identifiers for checks that are not about identifier spelling
PLAIN_IDENTS = ["x", "y", "a", "b", "u", "n", "uid", "age", "plan", "tier", "zone", "k", "m", "p", "q", "w", "z",
                "user", "group", "country", "device", "level", "score", "bucket", "cohort", "flag"]
# finding family K1: names the generated Python itself uses / Python reserved words
K1_NAMES = ["kwargs", "partial", "str", "map", "deterministic_choice", "self", "class", "None", "lambda",
            "ExperimentConditionalFailedError", "choose_experiment_variant", "True", "import", "is", "for"]

CMP_OPS = ["==", "!=", ">", "<", ">=", "<=", "in", "not in"]

STR_ALPHABET = ["a", "b", "Z", "0", "1", "9", " ", "_", "-", ".", "'", '"', "\\", "n", "t", "x", "u", "(", ")", "+",
                "{", "}", "%", "/", "*", "#", ":", ",", "=", "é", "ß", "中", "\u0301", "😀", "\t", "\x00", "\x7f", "\u00a0",
                "\u0378", "\u2028", "\u201c", "\u201d", "\u2018", "\u2019", "\ufeff", "\u200b", "\u00ad", "\U0001d400", "\U00020000", "\uff02", "`", "\u00b4"]
STR_SPECIALS = ["\uffff", "a\uffffb", "\ufffe", "\x1a", "\x04", "\U0010ffff", "a\u201d or x == \u201cb", "\u2018q\u2019", "x\ufeffy", "\ufeff", "\U0001d400", "a\U0001f600b", "\uffff", "\U00010000", "", "02134", "inf", "nan", "1e5", "0x10", "-1", "1.0", "True", "None", "it's", 'say "hi"', "C:\\temp",
                "a\\nb", "\\", "\\\\", "'+str(print('PWNED'))+'", "%s", "{0}", "//c", "/*", "*/", "def", "return",
                "josé", "jose\u0301", "😀", " ", "\\x41", "\\u0041", "\\N{BULLET}", "'''", '"""', "\\'", "a'b\"c" if False else "a'b"]


def rand_string(rng, maxlen=8, alphabet=None):
    if rng.random() < 0.25:
        return rng.choice(STR_SPECIALS)
    alphabet = alphabet or STR_ALPHABET
    return "".join(rng.choice(alphabet) for _ in range(rng.randint(0, maxlen)))


# ---------------------------------------------------------------------------
# literals
# ---------------------------------------------------------------------------


class Lit:
    """a literal of the language: kind in {int, float, str}; `text` is its source spelling"""

    def __init__(self, kind, value, text):
        self.kind, self.value, self.text = kind, value, text

    def __repr__(self):
        return f"Lit({self.kind},{self.text})"


def lit_int(n):
    return Lit("int", n, str(n) if n >= 0 else "-" + str(-n))


def lit_float(text):
    """text like '12.50' or '-0.1'"""
    return Lit("float", float(text), text)


def lit_str(s, rng=None, quote=None):
    if "\n" in s:
        s = s.replace("\n", " ")
    can_dq = '"' not in s
    can_sq = "'" not in s
    if not can_dq and not can_sq:
        s = s.replace('"', "")
        can_dq = True
    if quote is None:
        opts = [q for q, ok in (('"', can_dq), ("'", can_sq)) if ok]
        quote = (rng or random).choice(opts)
    elif quote == '"' and not can_dq:
        quote = "'"
    elif quote == "'" and not can_sq:
        quote = '"'
    return Lit("str", s, quote + s + quote)


def long_string(rng, tails=("",)):
    """60..400 characters, mostly plain, with characters that need an escape in a Python literal sprinkled at random
    offsets (a renderer that wraps, chunks or truncates long literals meets an escape at every cut point sooner or later)"""
    n = rng.choice([60, 69, 70, 71, 72, 75, 79, 80, 100, 120, 140, 141, 200, 255, 256, 300, 400])
    hot = ["\\", "'", '"', "\r", "\t", "\x00", "\x1b", "\u0085", "\u2028", "é", "😀", "{", "}", "%", "\\n", "\\'"]
    out = []
    while sum(len(x) for x in out) < n:
        out.append(rng.choice(hot) if rng.random() < rng.choice([0.02, 0.1, 0.3]) else rng.choice("abcxyz0189 _-+()#:,"))
    t = "".join(out)[:n]
    tail = rng.choice(list(tails))
    return t + tail


SWEEP_P2 = [127, 128, 129, 130, 255, 256, 257, 258, 259, 387, 388, 511, 512, 513, 1000, 1023, 1024, 1025]


def sweep_cases(rng, fraction=1.0):
    """the seeded sample of sizes (below) plus, always, the sizes next to powers of two and multiples of 128 / 129 up to 1025 for the flat dimensions
    (tuple length, groups per return, splitter count) — those from a generator of their own, so that the sample's random stream does not depend on them"""
    import random as _r
    return _sweep(rng, fraction) + _sweep(_r.Random(20260930), 1.0, only=SWEEP_P2)


def _sweep(rng, fraction=1.0, only=None):
    """DIMENSION SWEEPS: one program for (nearly) every size along each dimension a renderer, a parser or the choice function could treat
    specially from some size on — tuple length 1..130, else-if chain 1..100, groups per return 1..130, splitter count 1..40, literal length
    0..320, integer literal digits 1..70, weight magnitude 1e-320..1e300, identifier length 1..300 — each asked on inputs at its edges.
    `fraction` < 1 keeps a seeded sample of the sizes (every size is met within a few runs)."""
    L = lambda t: lit_str(t, quote='"')
    one = lambda t: ("ret", [(L(t), "1")])
    keep = lambda: rng.random() < fraction
    dim = lambda default, flat=False: (list(only) if flat else []) if only is not None else list(default)
    cases = []

    def add(prog, envs):
        cases.append({"prog": prog, "text": render(prog, rng, "plain"), "envs": envs})

    for k in dim(range(1, 131), True):          # tuple length
        if not keep():
            continue
        strs = k % 2 == 0
        members = [("lit", L("m%d" % i) if strs else lit_int(3 * i)) for i in range(k)]
        val = (lambda i: "m%d" % i) if strs else (lambda i: 3 * i)
        cond = ("if", ("cmp", ("id", "x"), rng.choice(["in", "not in"]), ("tuple", members)), one("T"), ("else", one("F")))
        probes = {0, k - 1, k // 2, min(k - 1, 31), min(k - 1, 32), min(k - 1, 63), min(k - 1, 64)}
        envs = [{"u": 1, "x": val(i)} for i in sorted(probes)] + [{"u": 1, "x": val(k)}, {"u": 1, "x": (val(0) + val(k - 1)) if k > 1 else None}]
        add(Program("e", None, ["u"], cond, {"u": "any", "x": "any"}), envs)
    for k in dim(range(1, 101)):          # else-if chain
        if not keep():
            continue
        sub = ("else", one("z"))
        for i in range(k, 0, -1):
            sub = ("elif", ("cmp", ("id", "x"), "==", ("lit", lit_int(i))), one("b%d" % i), sub)
        add(Program("e", None, ["u"], ("if", ("cmp", ("id", "x"), "==", ("lit", lit_int(0))), one("b0"), sub), {"u": "any", "x": "int"}),
            [{"u": 1, "x": v} for v in (0, 1, k // 2, k, k + 1)])
    for k in dim(list(range(1, 60)) + list(range(60, 199, 3)) + [197, 198]):          # boolean operator chain, with a group of the OTHER operator at either end
        if not keep():
            continue
        inner_op, outer_op = rng.choice([("or", "and"), ("and", "or")])
        chain = ("cmp", ("id", "x"), "==", ("lit", lit_int(0)))
        for i in range(1, k):
            chain = (inner_op, chain, ("cmp", ("id", "x"), "==" if inner_op == "or" else "!=", ("lit", lit_int(i if inner_op == "or" else -i))))
        tail = ("cmp", ("id", "y"), "==", ("lit", lit_int(1)))
        pred = (outer_op, chain, tail) if rng.random() < 0.5 else (outer_op, tail, chain)
        cond = ("if", pred, one("T"), ("else", one("F")))
        add(Program("e", None, ["u"], cond, {"u": "any", "x": "int", "y": "int"}),
            [{"u": 1, "x": xv, "y": yv} for xv in (0, k - 1, k // 2, k, -1) for yv in (1, 2)])
    for k in dim(range(1, 131), True):          # groups per return
        if not keep():
            continue
        groups = [(L("g%d" % i), str(1 + (i * 7) % 5)) for i in range(k)]
        add(Program("e", L("s"), ["u"], ("ret", groups), {"u": "any"}), [{"u": "unit%d" % j} for j in range(6)])
    for k in dim(list(range(1, 41)) + [64, 100], True):          # splitter count
        if not keep():
            continue
        names = ["s%04d" % i for i in range(k)]
        add(Program("e", L("s"), names, ("ret", [(L("a"), "1"), (L("b"), "2"), (L("c"), "1")]), {x: "any" for x in names}),
            [{x: "v%d" % ((j + i) % 7) for i, x in enumerate(names)} for j in range(3)])
    for n in dim(list(range(0, 90)) + list(range(90, 321, 10)) + [255, 256, 257]):          # literal length
        if not keep():
            continue
        lit = L("".join("abcdefghij"[i % 10] for i in range(n)))
        cond = ("if", ("cmp", ("id", "x"), "==", ("lit", lit)), ("ret", [(lit, "1")]), ("else", one("F")))
        add(Program("e", lit if n % 3 == 0 else None, ["u"], cond, {"u": "any", "x": "str"}), [{"u": 1, "x": lit.value}, {"u": 1, "x": lit.value + "x"}, {"u": 1, "x": lit.value[:-1]}])
    for d in dim(list(range(1, 71)) + [100, 308, 309, 1000, 4299]):          # integer literal digits
        if not keep():
            continue
        n = int("7" * d)
        cond = ("if", ("cmp", ("id", "x"), ">=", ("lit", lit_int(n))), ("ret", [(lit_int(n), "1")]), ("else", one("F")))
        add(Program("e", None, ["u"], cond, {"u": "any", "x": "int"}), [{"u": 1, "x": n}, {"u": 1, "x": n - 1}, {"u": 1, "x": n + 1}, {"u": 1, "x": float(n) if d < 300 else n}])
    for e in dim(range(-320, 301, 5)):          # weight magnitude (one scale per vector)
        if not keep():
            continue
        def w(m):
            return ("0." + "0" * (-e - 1) + str(m)) if e < 0 else str(m) + "0" * e + (".0" if e % 2 else "")
        add(Program("e", None, ["u"], ("ret", [(L("a"), w(2)), (L("b"), w(6)), (L("c"), w(8))]), {"u": "any"}), [{"u": "unit%d" % j} for j in range(8)])
    for n in dim(list(range(1, 80, 3)) + [100, 200, 255, 256, 300]):          # identifier length
        if not keep():
            continue
        name = ("f" + "x" * n)[:n] if n > 1 else "f"
        cond = ("if", ("cmp", ("id", name), ">", ("lit", lit_int(3))), one("hi"), ("else", one("lo")))
        add(Program(name + "_e", None, [name, "u"], cond, {name: "int", "u": "any"}), [{name: 5, "u": 1}, {name: 1, "u": 1}])
    return cases


def model_shaped_tuples():
    """tuple literals shaped like the (field, value) pairs of the AST's own pydantic models (a validator that coerces such a tuple into a model
    turns data into structure): mined from the model declarations on every run"""
    out = []
    L = lambda t: lit_str(t, quote='"')
    try:
        import pydantic
        from pyab_experiment.data_structures import syntax_tree as st
        models = [m for m in vars(st).values() if isinstance(m, type) and issubclass(m, pydantic.BaseModel) and m is not pydantic.BaseModel]
    except Exception:  # noqa
        models = []
    field_sets = [list(getattr(m, "__fields__", {}).keys()) for m in models] + [["name"], ["id"], ["value"], ["name", "plan"]]
    for fields in field_sets:
        if not fields:
            continue
        pairs = ("tuple", [("tuple", [("lit", L(f)), ("lit", L("v%d" % i))]) for i, f in enumerate(fields)])
        out.append(("tuple", [pairs, ("tuple", [("tuple", [("lit", L("name")), ("lit", L("unit"))])])]))
        out.append(("tuple", [pairs]))
        out.append(("tuple", [("tuple", [("lit", L(f)) for f in fields] + [("lit", lit_int(1))])]))
    return out


def huge_flat_cases(rng, full=False):
    """flat lists far longer than anything nested: membership tuples, splitter lists and group lists of thousands of entries (a flat list is
    not deep: a parser, a generator or the host compiler that treats its length as depth gives up on it), and ordinary programs inside sources of
    more than 64 KiB / 1 MiB (a pre-pass or a buffer that only exists for big sources)"""
    L = lambda t: lit_str(t, quote='"')
    one = lambda t: ("ret", [(L(t), "1")])
    cases = []
    for k in ([5000, 6000, 20000] if full else [rng.choice([5000, 6000, 20000])]):
        members = [("lit", lit_int(7 * i)) for i in range(k)]
        cond = ("if", ("cmp", ("id", "x"), "in", ("tuple", members)), one("T"), ("else", one("F")))
        cases.append({"prog": Program("e", None, ["u"], cond, {"u": "any", "x": "int"}), "envs": [{"u": 1, "x": v} for v in (0, 7 * (k - 1), 7 * k, 3)]})
    for k in ([2600, 5200] if full else [rng.choice([2600, 5200])]):
        names = ["s%04d" % i for i in range(k)]
        cases.append({"prog": Program("e", L("s"), names, ("ret", [(L("a"), "1"), (L("b"), "1")]), {x: "any" for x in names}), "envs": [{x: 1 for x in names}]})
    for k in ([2500, 3000] if full else [rng.choice([2500, 3000])]):
        cases.append({"prog": Program("e", L("s"), ["u"], ("ret", [(L("g%d" % i), "1") for i in range(k)]), {"u": "any"}), "envs": [{"u": "unit%d" % j} for j in range(4)]})
    for c in cases:
        c["text"] = render(c["prog"], rng, "plain")
    # big sources: the same small program behind / before a banner
    small = Program("e", L("s\\"), ["u"], ("if", ("cmp", ("id", "x"), "in", ("tuple", [("lit", L("a\\")), ("lit", L("b/*")), ("lit", L("c")), ("lit", L("*/d")), ("lit", L("e//f"))])),
                                          ("ret", [(L("T\\"), "1"), (L("/*"), "1")]), ("else", one("F"))), {"u": "any", "x": "str"})
    text = render(small, rng, "plain")
    for size in ([70000, 1100000] if full else [70000]):
        pad = "/* " + ("banner line\n" * (size // 12)) + " */"
        for t in (pad + "\n" + text, text + "\n" + pad, text.replace("{", "{ " + pad + " ", 1)):
            cases.append({"prog": small, "text": t, "envs": [{"u": 1, "x": v} for v in ("a\\", "b/*", "c", "*/d", "b/**/d", "e//f", "zz")]})
    return cases


M61 = 2 ** 61 - 1      # CPython hashes ints modulo this prime


def hash_twin_pairs():
    """pairs of DIFFERENT literal values that the host language gives the same hash (ints that differ by a multiple of 2^61-1, -1 and -2,
    a float and the int its hash is): whatever a renderer, a cache or a container keys by hash confuses exactly these"""
    big = 2 ** 64 + 12345
    return [(lit_int(big), lit_int(big + 3 * M61)), (lit_int(big + M61), lit_int(big)), (lit_int(-1), lit_int(-2)), (lit_float("0.5"), lit_int(2 ** 60)),
            (lit_int(M61), lit_int(0)), (lit_int(5), lit_int(5 + M61)), (lit_int(10 ** 30), lit_int(10 ** 30 + M61)), (lit_int(-(2 ** 70)), lit_int(-(2 ** 70) - M61)),
            (lit_float("1.5"), lit_int(2 ** 60 + 1)), (lit_int(2 ** 64), lit_int(2 ** 64 + 2 * M61)), (lit_int(2 ** 200 + 1), lit_int(2 ** 200 + 1 + 7 * M61)),
            (lit_float("0.25"), lit_int(2 ** 59)), (lit_int(1), lit_int(1 + M61))]


def repeated_leaf_programs(rng, sizes=None):
    """the SAME statement (a return of n groups; a membership test of n members) written several times in one program, at different nesting
    depths, shallow occurrence first and deep occurrence first: what a renderer that remembers a piece of text by its content replays in the wrong place"""
    L = lambda t: lit_str(t, quote='"')
    cases = []
    eq = lambda name: ("cmp", ("id", name), "==", ("lit", lit_int(1)))
    envs = [{"u": "unit%d" % (7 * i + j), "a": i & 1, "b": (i >> 1) & 1, "c": (i >> 2) & 1, "x": j} for i in range(8) for j in (0, 3)]
    fields = {"u": "any", "a": "int", "b": "int", "c": "int", "x": "any"}
    for n in (sizes or [1, 2, 3, 8, 19, 20, 21, 22, 24, 32, 33, 64, 65, 100]):
        G = ("ret", [(L("g%d" % i), str(1 + i % 3)) for i in range(n)])
        G2 = ("ret", [(L("g%d" % i), str(1 + (i + 1) % 3)) for i in range(n)])
        shapes = {
            "shallow-first": ("if", eq("a"), G, ("else", ("if", eq("b"), G, ("else", ("if", eq("c"), G, ("else", G2)))))),
            "deep-first": ("if", eq("a"), ("if", eq("b"), ("if", eq("c"), G, ("else", G2)), ("else", G)), ("else", G)),
            "chain-then-nested": ("if", eq("a"), G, ("elif", eq("b"), ("if", eq("c"), G, None), ("else", ("if", eq("c"), ("if", eq("x"), G2, ("else", G)), ("else", G))))),
        }
        for name, cond in shapes.items():
            cases.append({"prog": Program("rep_%s_%d" % (name.replace("-", "_"), n), L("s"), ["u"], cond, fields), "envs": envs, "kind": "return:" + name})
        T = ("tuple", [("lit", lit_int(3 * i)) for i in range(n)])
        P = ("cmp", ("id", "x"), "in", T)
        cond = ("if", P, ("ret", [(L("T0"), "1")]), ("else", ("if", eq("a"), ("if", P, ("ret", [(L("T2"), "1")]), ("else", ("ret", [(L("F2"), "1")]))),
                                                                   ("elif", P, ("ret", [(L("T1"), "1")]), ("else", ("ret", [(L("F1"), "1")]))))))
        cases.append({"prog": Program("rep_pred_%d" % n, None, ["u"], cond, fields), "envs": envs, "kind": "predicate"})
    for c in cases:
        c["text"] = render(c["prog"], rng, "plain")
    return cases


WS_CLASSES = [" ", "\t", "\r", "\n", "\r\n", "\x0c", "\x0b", "\r\r", "\t\r", "\n\r"]
IN_STRING = ["\r", "\t", "\x0c", "\x0b", "\x85", "\u2028", "\x00", "a\rb", "\r\r", " ", "\x1c", "\x1e"]


def ws_class_texts():
    """one program whose string literals hold a control / separator character, written with ONE kind of white space throughout (only blanks, only
    tabs, only carriage returns, only line feeds, ...), between all tokens and only where a separator is needed: a text without any line feed, a
    text of one line per token"""
    out = []
    for sep in WS_CLASSES:
        for s in IN_STRING:
            toks = ["def", "e", "{", "salt", ":", '"s%s"' % s, "splitters", ":", "u", "if", "x", "==", '"%s"' % s, "{", "return", '"T%s"' % s, "weighted", "1", "}",
                    "else", "{", "return", '"F"', "weighted", "1", ",", "'%s'" % s, "weighted", "1", "}", "}"]
            out.append((sep, s, join_tokens(toks, lambda i, a, b, must: sep)))
            out.append((sep, s, join_tokens(toks, lambda i, a, b, must: sep if must else "")))
    return out


def many_splitter_cases(rng, sizes=None):
    """experiments with 127 .. 1025 splitter fields, asked on records that differ in ONE field (each position next to a multiple of 64 / 128 / 129, the first
    and the last): every declared field reaches the hash key"""
    L = lambda t: lit_str(t, quote='"')
    cases = []
    for k in (sizes or [127, 128, 129, 130, 255, 256, 257, 258, 259, 387, 388, 512, 513, 1025]):
        names = ["s%04d" % i for i in range(k)]
        rng.shuffle(names)
        base = {x: "v" for x in names}
        srt = sorted(names)
        pos = sorted({p for p in (0, 1, 62, 63, 64, 65, 126, 127, 128, 129, 130, 255, 256, 257, 258, 259, 383, 384, 385, 386, 387, 511, 512, 513, 1023, 1024, k - 2, k - 1) if 0 <= p < k})
        envs = [base] + [dict(base, **{srt[p]: "w"}) for p in pos]
        prog = Program("e", L("s"), names, ("ret", [(L("g%d" % i), "1") for i in range(16)]), {x: "any" for x in names})
        cases.append({"prog": prog, "text": render(prog, rng, "plain"), "envs": envs})
    return cases


PY_WHITESPACE = [" ", "\t", "\n", "\r", "\x0b", "\x0c", "\x1c", "\x1d", "\x1e", "\x1f", "\x85", "\xa0", "\u1680"] + [chr(c) for c in range(0x2000, 0x200b)] + ["\u2028", "\u2029", "\u202f", "\u205f", "\u3000"]


def two_word_token_cases():
    """`not in` and `else if` are single tokens whose two words may be separated by any white space the lexer's character class accepts: one program per
    white-space character (alone, doubled, beside a blank), with the reference meaning of the SAME program written with a blank"""
    L = lambda t: lit_str(t, quote='"')
    one = lambda t: ("ret", [(L(t), "1")])
    cond = ("if", ("cmp", ("id", "x"), "not in", ("tuple", [("lit", lit_int(1)), ("lit", lit_int(2))])), one("N"),
            ("elif", ("cmp", ("id", "y"), "in", ("tuple", [("lit", lit_int(5))])), one("E"), ("else", one("F"))))
    prog = Program("e", None, ["u"], cond, {"u": "any", "x": "int", "y": "int"})
    base = join_tokens(program_tokens(prog))
    assert base.count(" not in ") == 1 and base.count(" else if ") == 1
    envs = [{"u": 1, "x": xv, "y": yv} for xv in (1, 3) for yv in (5, 6)]
    cases = []
    for c in PY_WHITESPACE:
        for gap in (c, c + c, " " + c, c + " "):
            cases.append({"prog": prog, "text": base.replace(" not in ", " not" + gap + "in ").replace(" else if ", " else" + gap + "if "), "envs": envs})
    cases.append({"prog": prog, "text": base.replace(" else if ", " elseif "), "envs": envs})
    return cases


def type_twin_return_programs():
    """two (or three) return statements in ONE program whose group lists are equal element by element under == but not in type (1 / 1.0, 0 / 0.0 / -0.0,
    2^53 / 9007199254740992.0), for 1..40 groups: what a renderer that remembers a group list by value replays with the other type"""
    L = lambda t: lit_str(t, quote='"')
    eq = lambda name: ("cmp", ("id", name), "==", ("lit", lit_int(1)))
    cases = []
    for n in (1, 2, 8, 9, 10, 20, 21, 40):
        ints = ("ret", [(lit_int(i), "1") for i in range(n)])
        floats = ("ret", [(lit_float("%d.0" % i), "1") for i in range(n)])
        negz = ("ret", [(lit_float("-0.0") if i == 0 else lit_float("%d.0" % i), "1") for i in range(n)])
        big_i = ("ret", [(lit_int(2 ** 53 + i), "1") for i in range(n)])
        big_f = ("ret", [(lit_float("%d.0" % (2 ** 53 + 2 * (i // 2))), "1") for i in range(n)])
        wi = ("ret", [(L("g%d" % i), "1") for i in range(n)])
        wf = ("ret", [(L("g%d" % i), "1.0") for i in range(n)])
        for name, a, b, c in (("int-float", ints, floats, negz), ("float-int", floats, ints, negz), ("negzero-first", negz, floats, ints), ("big", big_i, big_f, big_i), ("weights", wi, wf, wi)):
            cond = ("if", eq("a"), a, ("elif", eq("b"), b, ("else", ("if", eq("c"), c, ("else", a)))))
            envs = [{"u": "unit%d" % (5 * i + j), "a": i & 1, "b": (i >> 1) & 1, "c": (i >> 2) & 1} for i in range(8) for j in range(2)]
            prog = Program("tt_%s_%d" % (name.replace("-", "_"), n), L("s"), ["u"], cond, {"u": "any", "a": "int", "b": "int", "c": "int"})
            cases.append({"prog": prog, "text": render(prog, None, "plain"), "envs": envs})
    return cases


def nested_identifier_tuples():
    """tuples of 1 .. 257 members none of which is a bare identifier, one of which is a nested tuple that holds an identifier (at the end, in the middle, at the start)"""
    L = lambda t: lit_str(t, quote='"')
    cases = []
    for k in (1, 2, 3, 12, 13, 32, 33, 63, 64, 65, 66, 100, 129, 257):
        for where in ("last", "middle", "first"):
            members = [("lit", lit_int(1000 + i)) for i in range(k)]
            nested = ("tuple", [("id", "region"), ("lit", lit_int(3))])
            members.insert({"last": k, "middle": k // 2, "first": 0}[where], nested)
            for op in ("in", "not in"):
                cond = ("if", ("cmp", ("id", "x"), op, ("tuple", members)), ("ret", [(L("T"), "1")]), ("else", ("ret", [(L("F"), "1")])))
                prog = Program("e", None, ["u"], cond, {"u": "any", "x": "any", "region": "any"})
                envs = [{"u": "u1", "x": xv, "region": rv} for xv, rv in ((("eu", 3), "eu"), (("eu", 3), "us"), (1000, "eu"), (1000 + k - 1, "eu"), (7, 7), ((7, 3), 7), ([1], [1]))]
                cases.append({"prog": prog, "text": render(prog, None, "plain"), "envs": envs})
    return cases


def long_decimal_literals():
    """decimal literals of up to several thousand digits that sit on, just above and just below the MIDPOINT of two adjacent doubles (the exact, finite decimal
    expansion of the midpoint, then a run of zeros and a final 1 — or the expansion lowered in its last digit and a run of nines): the literal denotes the double
    nearest to its exact rational value, ties to even, however long it is.  Returns (text, expected double) pairs; expectation from exact rationals."""
    from fractions import Fraction
    import math

    def expansion(q):          # exact decimal expansion of a dyadic rational 0 <= q
        n, d = q.numerator, q.denominator
        ip, rem = divmod(n, d)
        digits = []
        while rem:
            rem *= 10
            dg, rem = divmod(rem, d)
            digits.append(str(dg))
        return str(ip) + "." + ("".join(digits) or "0")

    out = []
    pairs = [(0.0, 5e-324), (5e-324, 1e-323), (1.0, math.nextafter(1.0, 2.0)), (0.1, math.nextafter(0.1, 1.0)), (2.2250738585072014e-308, math.nextafter(2.2250738585072014e-308, 1.0)),
             (1e22, math.nextafter(1e22, math.inf)), (0.3, math.nextafter(0.3, 1.0)), (123456.789, math.nextafter(123456.789, math.inf))]
    for lo, hi in pairs:
        mid = (Fraction(lo) + Fraction(hi)) / 2
        text = expansion(mid)
        import struct
        even = lo if struct.unpack("<Q", struct.pack("<d", lo))[0] % 2 == 0 else hi
        out.append((text, even, "on the midpoint"))
        for zeros in (0, 30, 400, 1100, 5000):
            out.append((text + "0" * zeros + "1", hi, "above the midpoint by one unit in digit %d" % (len(text.split(".")[1]) + zeros + 1)))
        last = text[-1]
        if last != "0":
            below = text[:-1] + str(int(last) - 1)
            for nines in (1, 30, 400, 1100, 5000):
                out.append((below + "9" * nines, lo, "below the midpoint (%d nines)" % nines))
    return out


def negated_comparison_cases():
    """`not` directly over every comparison operator (and over `and` / `or` of two), asked with values whose order is not total: NaN, infinities, sets (ordered by
    inclusion) — `not (x < 5)` is not `x >= 5` for them"""
    L = lambda t: lit_str(t, quote='"')
    one = lambda t: ("ret", [(L(t), "1")])
    nan = float("nan")
    cases = []
    for op in ("<", "<=", ">", ">=", "==", "!="):
        for rhs, envs in ((("lit", lit_float("5.0")), [{"u": 1, "x": v} for v in (nan, float("inf"), float("-inf"), 5, 5.0, 4, 6, 4.999999999999999)]),
                          (("lit", lit_int(5)), [{"u": 1, "x": v} for v in (nan, 5, 5.0, 4, 6)]),
                          (("id", "y"), [{"u": 1, "x": a, "y": b} for a, b in ((nan, nan), (nan, 1), (1, nan), ({1}, {2}), ({1}, {1, 2}), ({1, 2}, {1}), ({1}, {1}), (frozenset({1}), {3}), (1, 2), (2, 1), (2, 2))])):
            cmp_ = ("cmp", ("id", "x"), op, rhs)
            for name, pred in (("not", ("not", cmp_)), ("not-not", ("not", ("not", cmp_))), ("not-and", ("not", ("and", cmp_, ("cmp", ("id", "u"), "==", ("lit", lit_int(1)))))),
                               ("or-not", ("or", ("not", cmp_), ("cmp", ("id", "u"), "==", ("lit", lit_int(2)))))):
                prog = Program("neg", None, ["u"], ("if", pred, one("T"), ("else", one("F"))), {"u": "any", "x": "any", "y": "any"})
                cases.append({"prog": prog, "text": render(prog, None, "plain"), "envs": envs})
    return cases


def membership_cases(rng, n):
    """membership tests against literal tuples of 1..24 members (all scalar literals; with an identifier; with a nested tuple), asked
    with values of every kind a caller's record can hold — also unhashable ones (a list, a dict, a set, a composite id decoded from
    JSON): `x in (...)` is an equality scan, it never hashes.  (Reference semantics only: the model has no mutable containers.)"""
    L = lambda t: lit_str(t, quote='"')
    cases = []
    for shaped in model_shaped_tuples():
        # the value equal to the literal tuple is a member; nothing else is; no field other than x is needed
        def pyv(t):
            return t[1].value if t[0] == "lit" else tuple(pyv(x) for x in t[1])
        cond = ("if", ("cmp", ("id", "x"), "in", shaped), ("ret", [(L("T"), "1")]), ("else", ("ret", [(L("F"), "1")])))
        prog = Program("e", None, ["u"], cond, {"u": "any", "x": "any"})
        envs = [{"u": "u1", "x": v} for v in list(pyv(shaped))[:2] + ["unit", "alice", "v0", 7, ("name", "unit")]]
        cases.append({"prog": prog, "text": render(prog, rng, "plain"), "envs": envs})
    for a, b in hash_twin_pairs():
        # two different members with the same hash: membership is an equality scan over ALL members
        for op in ("in", "not in"):
            members = [("lit", a), ("lit", b), ("lit", L("zz"))]
            cond = ("if", ("cmp", ("id", "x"), op, ("tuple", members)), ("ret", [(L("T"), "1")]), ("else", ("ret", [(L("F"), "1")])))
            prog = Program("e", None, ["u"], cond, {"u": "any", "x": "any"})
            cases.append({"prog": prog, "text": render(prog, rng, "plain"), "envs": [{"u": "u1", "x": v} for v in (a.value, b.value, "zz", 0, [a.value], str(b.value))]})
    cases += nested_identifier_tuples()
    for _ in range(n):
        k = rng.choice([1, 1, 2, 3, 4, 5, 8, 11, 12, 13, 16, 24, 31, 32, 33, 34, 48, 49, 50, 63, 64, 65, 66, 100, 129])
        kind = rng.choice(["int", "str", "str", "mixed"])
        members = []
        for i in range(k):
            members.append(("lit", lit_int(i * 3) if kind == "int" or (kind == "mixed" and i % 2) else L("m%d" % i)))
        shape = rng.choice(["plain", "plain", "ident", "nested"])
        if k == 1:
            # one-member tuples whose member's own text contains a comma, a parenthesis, or is itself a tuple
            members = [rng.choice([("lit", L("basic,trial")), ("lit", L(",")), ("lit", L("(1, 2)")), ("tuple", [("lit", lit_int(1)), ("lit", lit_int(2))]),
                                   ("tuple", [("lit", lit_int(7))]), ("tuple", [("tuple", [("lit", L("a,b"))])]), ("lit", lit_int(3)), ("id", "other")])]
            shape = "one"
        if shape == "ident":
            members[rng.randrange(k)] = ("id", "other")
        elif shape == "nested":
            members[rng.randrange(k)] = ("tuple", [("lit", lit_int(1)), ("lit", lit_int(2))])
        op = rng.choice(["in", "not in"])
        cond = ("if", ("cmp", ("id", "x"), op, ("tuple", members)), ("ret", [(L("T"), "1")]), ("else", ("ret", [(L("F"), "1")])))
        prog = Program("e", None, ["u"], cond, {"u": "any", "x": "any", "other": "any"})
        vals = [[1, 2], [], {"a": 1}, {}, {1, 2}, [0], (1, 2), [1, 2], bytearray(b"m0"), 0, "m0", 3, None, 1.5, ["m0"], {"m0"}, (0,)]
        if k >= 31:
            # members on both sides of every 8th / 16th / 32nd position, their concatenations and sums (what a renderer that wraps long displays could fuse)
            for b in (8, 16, 31, 32, 33, 48, 64):
                if b < k:
                    a1, a2 = members[b - 1], members[b]
                    v1 = a1[1].value if a1[0] == "lit" else None
                    v2 = a2[1].value if a2[0] == "lit" else None
                    vals[:0] = [v1, v2] + ([v1 + v2] if type(v1) is type(v2) and v1 is not None else [])
        if k == 1:
            vals[:0] = ["basic,trial", "basic", ",", (1, 2), 1, 2, (7,), 7, (("a,b",),), ("a,b",), "a,b", "(1, 2)", 3]
        else:
            rng.shuffle(vals)
        envs = [{"u": "u1", "x": v, "other": rng.choice([7, [1], "m1"])} for v in vals[:8]]
        cases.append({"prog": prog, "text": render(prog, rng, "plain"), "envs": envs})
    return cases


def wide_program(rng, k=None, name="wide"):
    """two (or three) return statements of the SAME length k (default: around the sizes where an implementation might
    switch strategy: 31, 32, 33, 40, 64) with DIFFERENT weights, behind an if / else-if / else on `tier`"""
    k = k or rng.choice([31, 32, 33, 40, 64])
    labels = [lit_str("v%d" % i, quote='"') for i in range(k)]

    def ret():
        ws = [str(rng.choice([0, 1, 1, 2, 3, 5, 8, 13])) for _ in range(k)]
        if all(w == "0" for w in ws):
            ws[0] = "1"
        return ("ret", list(zip(labels, ws)))
    cond = ("if", ("cmp", ("id", "tier"), "==", ("lit", lit_str("a", quote='"'))), ret(),
            ("elif", ("cmp", ("id", "tier"), "==", ("lit", lit_str("b", quote='"'))), ret(), ("else", ret())))
    return Program(name, lit_str("w", quote='"') if rng.random() < 0.5 else None, ["u"], cond, {"u": "any", "tier": "str"})


def rand_int_lit(rng):
    r = rng.random()
    if r < 0.5:
        n = rng.randint(-20, 100)
    elif r < 0.7:
        n = rng.choice([0, 1, -1, 2 ** 31, 2 ** 53, 2 ** 53 + 1, 9007199254740993, 10 ** 30, -(10 ** 18), 2 ** 64])
    else:
        n = rng.randint(-10 ** 6, 10 ** 6)
    return lit_int(n)


def rand_float_text(rng, nonneg=False):
    r = rng.random()
    if r < 0.4:
        t = f"{rng.randint(0, 50)}.{rng.randint(0, 99)}"
    elif r < 0.6:
        t = rng.choice(["0.0", "0.1", "0.5", "1.0", "1.5", "2.50", "0.001", "00.10", "3.14159", "0.30000000000000004",
                        "9007199254740993.0", "123456789.123456789", "0.000000001", "1000000000.0", "1.7976931348623157",
                        "0.1234567890123456789", "4.35", "2.675", "1.005"])
    else:
        t = f"{rng.randint(0, 10 ** rng.randint(1, 12))}.{rng.randint(0, 10 ** rng.randint(1, 12))}"
    if not nonneg and rng.random() < 0.25:
        t = "-" + t
    return t


# ---------------------------------------------------------------------------
# program AST (Python side) and generation
# ---------------------------------------------------------------------------
# term: ('id', name) | ('lit', Lit) | ('tuple', [term])
# pred: ('cmp', term, op, term) | ('and', p, q) | ('or', p, q) | ('not', p) | ('paren', p)
# cond: ('ret', [(Lit, weight_text)]) | ('if', pred, cond, sub)
# sub : None | ('else', cond) | ('elif', pred, cond, sub)


class Program:
    def __init__(self, name, salt, splitters, cond, fields):
        self.name, self.salt, self.splitters, self.cond, self.fields = name, salt, splitters, cond, fields
        # fields: name -> type tag ('int' | 'float' | 'str' | 'num')

    def returns(self):
        out = []

        def walk_c(c):
            if c[0] == "ret":
                out.append(c)
            else:
                walk_c(c[2])
                walk_s(c[3])

        def walk_s(s):
            if s is None:
                return
            if s[0] == "else":
                walk_c(s[1])
            else:
                walk_c(s[2])
                walk_s(s[3])

        walk_c(self.cond)
        return out

    def cond_fields(self):
        names = []

        def walk_t(t):
            if t[0] == "id":
                names.append(t[1])
            elif t[0] == "tuple":
                for x in t[1]:
                    walk_t(x)

        def walk_p(p):
            if p[0] == "cmp":
                walk_t(p[1]); walk_t(p[3])
            elif p[0] in ("and", "or"):
                walk_p(p[1]); walk_p(p[2])
            else:
                walk_p(p[1])

        def walk_c(c):
            if c[0] == "if":
                walk_p(c[1]); walk_c(c[2]); walk_s(c[3])

        def walk_s(s):
            if s is None:
                return
            if s[0] == "else":
                walk_c(s[1])
            else:
                walk_p(s[1]); walk_c(s[2]); walk_s(s[3])

        walk_c(self.cond)
        return sorted(set(names))

    def literals_for(self, field):
        """literals compared against `field` somewhere (for input derivation)"""
        out = []

        def lits(t):
            if t[0] == "lit":
                return [t[1]]
            if t[0] == "tuple":
                return [l for x in t[1] for l in lits(x)]
            return []

        def mentions(t):
            if t[0] == "id":
                return t[1] == field
            if t[0] == "tuple":
                return any(mentions(x) for x in t[1])
            return False

        def walk_p(p):
            if p[0] == "cmp":
                if mentions(p[1]) or mentions(p[3]):
                    out.extend(lits(p[1]) + lits(p[3]))
            elif p[0] in ("and", "or"):
                walk_p(p[1]); walk_p(p[2])
            else:
                walk_p(p[1])

        def walk_c(c):
            if c[0] == "if":
                walk_p(c[1]); walk_c(c[2]); walk_s(c[3])

        def walk_s(s):
            if s is None:
                return
            if s[0] == "else":
                walk_c(s[1])
            else:
                walk_p(s[1]); walk_c(s[2]); walk_s(s[3])

        walk_c(self.cond)
        return out


class GenOpts:
    def __init__(self, **kw):
        self.max_depth = 3          # nesting of conditionals
        self.max_chain = 3          # else-if chain length
        self.max_groups = 4
        self.max_pred_depth = 3
        self.p_else = 0.6
        self.p_cond = 0.8           # probability the top level is a conditional
        self.splitters = True       # at least one splitter
        self.p_shared = 0.3         # a condition field is also a splitter
        self.p_salt = 0.6
        self.single_group_labels = False   # one distinct single-group label per return statement
        self.str_alphabet = None
        self.ascii_only = False
        self.weights = "mixed"      # 'int' | 'mixed'
        self.tuples_with_idents = True
        self.literal_comparisons = True
        self.redundant_parens = 0.15
        self.ident_pool = IDENT_POOL
        self.max_nodes = 40         # budget of conditional nodes per program
        self.__dict__.update(kw)


def gen_program(rng, opts=None):
    opts = opts or GenOpts()
    pool = list(opts.ident_pool)
    rng.shuffle(pool)
    name = pool.pop()
    nfields = rng.randint(1, 4)
    fields = {}
    for _ in range(nfields):
        fields[pool.pop()] = rng.choice(["int", "int", "float", "str", "str", "num"])
    label_counter = [0]

    def rand_str(maxlen=8):
        alpha = opts.str_alphabet
        if opts.ascii_only:
            alpha = [c for c in (alpha or STR_ALPHABET) if ord(c) < 128]
            s = "".join(rng.choice(alpha) for _ in range(rng.randint(0, maxlen)))
            return s
        return rand_string(rng, maxlen, alpha)

    def gen_lit(tp):
        if tp == "int":
            return rand_int_lit(rng)
        if tp == "float":
            return lit_float(rand_float_text(rng))
        if tp == "num":
            return rand_int_lit(rng) if rng.random() < 0.5 else lit_float(rand_float_text(rng))
        return lit_str(rand_str(), rng)

    def compatible(tp):
        """fields whose values can be ordered against type tp"""
        if tp == "str":
            return [f for f, t in fields.items() if t == "str"]
        return [f for f, t in fields.items() if t != "str"]

    def gen_term_for(tp, allow_id=True):
        if allow_id and rng.random() < 0.2:
            c = compatible(tp)
            if c:
                return ("id", rng.choice(c))
        return ("lit", gen_lit(tp))

    def shaped_members(tp):
        """membership tuples with structure that an "optimised" rendering could exploit: runs of consecutive
        integers (ascending, descending, shuffled), arithmetic progressions, repeated members, members that
        are each other's spelling in another type (7 and "7", 1.5 and "1.5", 1 and 1.0)"""
        r = rng.random()
        if tp == "str":
            base = [rand_str(4) for _ in range(rng.randint(1, 3))]
            if r < 0.4:
                n = rng.choice([7, 0, 15, 100])
                return [("lit", lit_str(str(n), rng)), ("lit", lit_int(n))] + [("lit", lit_str(b, rng)) for b in base[:1]]
            if r < 0.7:
                return [("lit", lit_str(b, rng)) for b in base + base[:1]]
            return [("lit", lit_str(b, rng)) for b in sorted(base)] + [("lit", lit_str(base[0].upper(), rng))]
        start = rng.choice([0, 1, 2, -2, 8, rng.randint(-50, 50)])
        k = rng.randint(3, 6)
        run = list(range(start, start + k))
        if r < 0.35:
            pass
        elif r < 0.45:
            run.reverse()
        elif r < 0.55:
            rng.shuffle(run)
        elif r < 0.65:
            run = [start + 2 * i for i in range(k)]
        elif r < 0.75:
            run = run + run[:1]
        elif r < 0.9:
            n = rng.choice(run)
            twin = [("lit", lit_str(str(n), rng)), ("lit", lit_int(n))]
            rng.shuffle(twin)
            return twin + [("lit", lit_int(x)) for x in run[:2] if x != n]
        else:
            x = rng.choice([1.5, 2.0, 0.5, 7.0])
            twin = [("lit", lit_float(repr(x))), ("lit", lit_str(repr(x), rng)), ("lit", lit_int(int(x)))]
            rng.shuffle(twin)
            return twin
        return [("lit", lit_int(x)) for x in run]

    def gen_cmp():
        f = rng.choice(list(fields))
        tp = fields[f]
        op = rng.choice(CMP_OPS)
        if op in ("in", "not in"):
            if tp == "str" and rng.random() < 0.3:
                # substring test
                rhs = ("lit", lit_str(rand_str(10), rng))
            elif rng.random() < 0.25:
                rhs = ("tuple", shaped_members(tp))
            else:
                k = rng.randint(1, 4)
                members = []
                for _ in range(k):
                    r = rng.random()
                    if opts.tuples_with_idents and r < 0.15:
                        c = compatible(tp)
                        members.append(("id", rng.choice(c)) if c else ("lit", gen_lit(tp)))
                    elif opts.tuples_with_idents and r < 0.22:
                        members.append(("tuple", [("lit", gen_lit(tp)) for _ in range(rng.randint(1, 2))]))
                    else:
                        members.append(("lit", gen_lit(tp)))
                rhs = ("tuple", members)
            return ("cmp", ("id", f), op, rhs)
        other = gen_term_for(tp)
        if rng.random() < 0.15:
            return ("cmp", other, op, ("id", f))
        return ("cmp", ("id", f), op, other)

    def lit_lit():
        """a comparison between two literals (no field involved): well typed, or ill typed (it would raise if it were ever evaluated)"""
        well = rng.random() < 0.6
        a, b = rng.choice([(lit_int(1), lit_int(2)), (lit_int(3), lit_float("3.0")), (lit_str("a", rng), lit_str("b", rng)), (lit_int(0), lit_int(0))])
        if well:
            return ("cmp", ("lit", a), rng.choice(["==", "!=", "<", ">=", ">", "<="]), ("lit", b))
        return rng.choice([("cmp", ("lit", lit_str("beta", rng)), "<", ("lit", lit_int(3))), ("cmp", ("lit", lit_int(7)), "in", ("lit", lit_int(7))),
                           ("cmp", ("lit", lit_int(1)), "in", ("lit", lit_str("abc", rng))), ("cmp", ("lit", lit_float("1.5")), ">=", ("lit", lit_str("1.5", rng))),
                           ("cmp", ("lit", lit_int(1)), "not in", ("lit", lit_float("2.5")))])

    def guarded_ill():
        """an ill-typed literal comparison where Python never evaluates it: behind a constant that short-circuits"""
        ill = None
        while ill is None or ill[1][1].kind == ill[3][1].kind and ill[2] in ("==", "!=", "<", ">=", ">", "<="):
            ill = lit_lit()
        if rng.random() < 0.5:
            return ("and", ("cmp", ("lit", lit_int(1)), "==", ("lit", lit_int(2))), ill)
        return ("or", ("cmp", ("lit", lit_int(0)), "==", ("lit", lit_int(0))), ill)

    def gen_pred(depth):
        r = rng.random()
        if opts.literal_comparisons and rng.random() < 0.08:
            p = guarded_ill() if rng.random() < 0.5 else lit_lit()
            if p[0] == "cmp" and p[1][1].kind != p[3][1].kind and not (p[1][1].kind in ("int", "float") and p[3][1].kind in ("int", "float")):
                p = guarded_ill()      # an unguarded ill-typed comparison is a TypeError by the reference semantics too; keep those rare
        elif depth <= 0 or r < 0.45:
            p = gen_cmp()
        elif r < 0.65:
            p = ("and", gen_pred(depth - 1), gen_pred(depth - 1))
        elif r < 0.85:
            p = ("or", gen_pred(depth - 1), gen_pred(depth - 1))
        else:
            p = ("not", gen_pred(depth - 1))
        if rng.random() < opts.redundant_parens:
            p = ("paren", p)
        return p

    def gen_weight():
        if opts.weights == "int" or rng.random() < 0.6:
            return str(rng.choice([0, 1, 1, 2, 3, 5, 10, 50, 100, rng.randint(0, 1000)]))
        return rand_float_text(rng, nonneg=True)

    def gen_ret():
        if opts.single_group_labels:
            label_counter[0] += 1
            return ("ret", [(lit_str(f"g{label_counter[0]}", quote='"'), "1")])
        k = rng.randint(1, opts.max_groups)
        groups = []
        for _ in range(k):
            r = rng.random()
            if r < 0.6:
                label_counter[0] += 1
                lit = lit_str(f"g{label_counter[0]}" if rng.random() < 0.7 else rand_str(), rng)
            elif r < 0.8:
                lit = rand_int_lit(rng)
            else:
                lit = lit_float(rand_float_text(rng))
            groups.append((lit, gen_weight()))
        if k > 1 and rng.random() < 0.15:
            # a label may legitimately repeat within one return statement (hold-out layouts),
            # also as values that compare equal but are different literals (1 and 1.0)
            i, j = rng.sample(range(k), 2)
            src = groups[i][0]
            if src.kind == "int" and rng.random() < 0.5 and abs(src.value) < 2 ** 40:
                dup = lit_float(("-" if src.value < 0 else "") + str(abs(src.value)) + ".0")
            else:
                dup = src
            groups[j] = (dup, groups[j][1])
        if all(Fraction(Decimal(w)) == 0 for _, w in groups):
            groups[rng.randrange(k)] = (groups[0][0], "1")
        return ("ret", groups)

    budget = [opts.max_nodes]

    def gen_cond(depth):
        if depth <= 0 or budget[0] <= 0 or rng.random() > (opts.p_cond if depth == opts.max_depth else 0.5):
            return gen_ret()
        budget[0] -= 1
        return ("if", gen_pred(rng.randint(0, opts.max_pred_depth)), gen_cond(depth - 1), gen_sub(depth, rng.randint(0, opts.max_chain)))

    def gen_sub(depth, chain):
        if budget[0] <= 0:
            return None
        if chain > 0 and rng.random() < (0.6 if opts.max_chain < 10 else 0.93):
            budget[0] -= 1
            return ("elif", gen_pred(rng.randint(0, opts.max_pred_depth)), gen_cond(depth - 1), gen_sub(depth, chain - 1))
        if rng.random() < opts.p_else:
            return ("else", gen_cond(depth - 1))
        return None

    cond = gen_cond(opts.max_depth)
    prog = Program(name, None, None, cond, fields)
    cf = prog.cond_fields()
    # splitters: fresh fields and, sometimes, fields shared with the conditions
    splitters = []
    if opts.splitters or rng.random() < 0.7:
        for _ in range(rng.randint(1, 3)):
            if cf and rng.random() < opts.p_shared:
                splitters.append(rng.choice(cf))
            else:
                s = pool.pop()
                fields[s] = rng.choice(["int", "str", "str", "float", "any"])
                splitters.append(s)
        if rng.random() < 0.1:
            splitters.append(splitters[0])        # duplicates are merged by the generator
    prog.splitters = splitters or None
    if rng.random() < opts.p_salt:
        prog.salt = lit_str(rand_str(10), rng)
    # drop fields that are not referenced anywhere
    used = set(cf) | set(splitters)
    prog.fields = {k: v for k, v in fields.items() if k in used}
    return prog


# ---------------------------------------------------------------------------
# rendering to tokens / text
# ---------------------------------------------------------------------------

PREC = {"or": 1, "and": 2, "not": 3, "cmp": 4, "paren": 4}


def term_tokens(t):
    if t[0] == "id":
        return [t[1]]
    if t[0] == "lit":
        lit = t[1]
        if lit.kind in ("int", "float") and lit.text.startswith("-"):
            return ["-", lit.text[1:]]
        return [lit.text]
    out = ["("]
    for i, x in enumerate(t[1]):
        if i:
            out.append(",")
        out.extend(term_tokens(x))
    out.append(")")
    return out


def pred_tokens(p, rng=None, ws_variants=False):
    def opspell(op):
        if op == "not in":
            return "not in" if not ws_variants or rng is None else "not" + rng.choice([" ", "  ", "\t", "\n"]) + "in"
        return op

    def go(p, parent_prec, right_side=False):
        kind = p[0]
        if kind == "cmp":
            return term_tokens(p[1]) + [opspell(p[2])] + term_tokens(p[3])
        if kind == "paren":
            return ["("] + go(p[1], 0) + [")"]
        if kind == "not":
            inner = ["not"] + go(p[1], PREC["not"])
            need = parent_prec > PREC["not"]
        else:
            pr = PREC[kind]
            inner = go(p[1], pr) + [kind] + go(p[2], pr, right_side=True)
            need = parent_prec > pr or (parent_prec == pr and right_side)
        return (["("] + inner + [")"]) if need else inner

    return go(p, 0)


def strip_parens(p):
    """the predicate tree without the redundant-paren markers (what the parser should build)"""
    if p[0] == "paren":
        return strip_parens(p[1])
    if p[0] == "cmp":
        return p
    if p[0] == "not":
        return ("not", strip_parens(p[1]))
    return (p[0], strip_parens(p[1]), strip_parens(p[2]))


def program_tokens(prog, rng=None, ws_variants=False):
    toks = ["def", prog.name, "{"]
    if prog.salt is not None:
        toks += ["salt", ":", prog.salt.text]
    if prog.splitters:
        toks += ["splitters", ":"]
        for i, s in enumerate(prog.splitters):
            if i:
                toks.append(",")
            toks.append(s)

    def elif_spell():
        if not ws_variants or rng is None:
            return "else if"
        return "else" + rng.choice(["", " ", "  ", "\t", "\n"]) + "if"

    def cond(c):
        if c[0] == "ret":
            out = ["return"]
            for i, (lit, w) in enumerate(c[1]):
                if i:
                    out.append(",")
                out += term_tokens(("lit", lit)) + ["weighted", w]
            return out
        return ["if"] + pred_tokens(c[1], rng, ws_variants) + ["{"] + cond(c[2]) + ["}"] + sub(c[3])

    def sub(s):
        if s is None:
            return []
        if s[0] == "else":
            return ["else", "{"] + cond(s[1]) + ["}"]
        return [elif_spell()] + pred_tokens(s[1], rng, ws_variants) + ["{"] + cond(s[2]) + ["}"] + sub(s[3])

    toks += cond(prog.cond) + ["}"]
    return toks


def is_wordish(ch):
    return ch.isalnum() or ch == "_"


def need_sep(a, b):
    """must something separate lexemes a and b so they do not fuse?"""
    if not a or not b:
        return False
    if is_wordish(a[-1]) and is_wordish(b[0]):
        return True
    if a[-1] in "<>=!" and b[0] == "=":
        return True
    if a[-1] == "/" and b[0] in "/*":
        return True
    if a[-1].isdigit() and b[0] == ".":
        return True
    return False


def join_tokens(toks, sep_fn=None):
    """sep_fn(i, a, b, must) -> trivia string placed between token i-1 and token i
    (i == 0: before the first; i == len: after the last)."""
    if sep_fn is None:
        sep_fn = lambda i, a, b, must: " " if (a is not None and b is not None) else ""
    out = [sep_fn(0, None, toks[0] if toks else None, False)]
    for i, t in enumerate(toks):
        if i:
            out.append(sep_fn(i, toks[i - 1], t, need_sep(toks[i - 1], t)))
        out.append(t)
    out.append(sep_fn(len(toks), toks[-1] if toks else None, None, False))
    return "".join(out)


def render(prog, rng=None, style="plain"):
    toks = program_tokens(prog, rng, ws_variants=(style != "plain"))
    if style == "plain":
        return join_tokens(toks)
    if style == "tight":
        return join_tokens(toks, lambda i, a, b, must: " " if must else "")
    return join_tokens(toks, trivia_sep(rng))


WS_CHARS = [" ", "  ", "\t", "\n", "\r\n", "\n\n", " \n ", "\u00a0", "\u2003", "\x0c", "\x0b", "\u2028", "\r"]
COMMENT_BODIES = ["\uffff note", "a\n\uffff b", "\ufffe", "\x00", "x\x00y", "\x1a", "\x04end", "\ufdd0", "\U0010ffff", "\U0001ffff z", "\x7f", "\x1b[0m", "", " c ", "x", "'", '"', "\"unterminated", "def e { }", "return", "//", "/", "*", "**", "/ *", "* /",
                  "/*", "if x == 1", "}", "{", "é中", "\\", "a*b/c", "*/*"[:0] + "nested /* open", "--", "#", "weighted 0",
                  'old arm:\x0c, "B" weighted 1', "x\x0b}", "a\x1cb", "n\x85 return", "u\u2028 def", "p\u2029q", "cr\rdef e {", "\x1d\x1e"]


def banner(rng):
    """what people draw in comment blocks: ruler lines of one repeated character starting in column 0, boxes, markers that
    other tools give a meaning to (merge-conflict markers, shebangs, pragmas, encoding cookies, here-doc and fence lines)"""
    ch = rng.choice("=<>-#*~+|!%@$_.:^&")
    n = rng.choice([3, 7, 8, 40, 79, 80])
    return rng.choice([
        "\n" + ch * n + "\n", "\n" + ch * n + " title " + ch * n + "\n", ch * n, "\n<<<<<<< HEAD\n=======\n>>>>>>> branch\n",
        "\n#!/usr/bin/env python\n", "\n# -*- coding: latin-1 -*-\n", "\n```\ncode\n```\n", "\n---\nyaml: 1\n...\n", "\n%% cell\n",
        "\n@generated\n", "\n// noqa\n", "\nTODO(" + ch * 3 + ")\n", "\n" + " " * 3 + ch * n + "\n", "\n\t" + ch * n + "\n"])


def rand_trivia(rng, must=False, allow_empty=True):
    """one trivia sequence: whitespace runs, // comments (newline-terminated), /* */ comments"""
    n = rng.choice([0, 1, 1, 2, 3]) if allow_empty and not must else rng.choice([1, 1, 2, 3])
    parts = []
    for _ in range(n):
        r = rng.random()
        if r < 0.5:
            parts.append(rng.choice(WS_CHARS))
        elif r < 0.75:
            body = rng.choice(COMMENT_BODIES).replace("\n", " ")
            parts.append("//" + body + rng.choice(["\n", "\n\n", "\n \t"]))
        else:
            body = rng.choice(COMMENT_BODIES) if rng.random() < 0.8 else banner(rng)
            if rng.random() < 0.3:
                body = body + "\n" + rng.choice(COMMENT_BODIES) + rng.choice(["", "\n"])
            body = body.replace("*/", "* /")
            parts.append("/*" + body + "*/")
    s = "".join(parts)
    if must and not s:
        s = " "
    return s


def trivia_sep(rng):
    def sep(i, a, b, must):
        t = rand_trivia(rng, must=must)
        if must and t == "":
            t = " "
        return t
    return sep


# ---------------------------------------------------------------------------
# reference semantics (spec oracle)
# ---------------------------------------------------------------------------


class Unroutable(Exception):
    pass


def term_value(t, env):
    if t[0] == "id":
        return env[t[1]]          # KeyError = missing field
    if t[0] == "lit":
        return t[1].value
    return tuple(term_value(x, env) for x in t[1])


def pred_value(p, env):
    k = p[0]
    if k == "paren":
        return pred_value(p[1], env)
    if k == "not":
        return not pred_value(p[1], env)
    if k == "and":
        return pred_value(p[1], env) and pred_value(p[2], env)
    if k == "or":
        return pred_value(p[1], env) or pred_value(p[2], env)
    a, op, b = term_value(p[1], env), p[2], term_value(p[3], env)
    if op == "==":
        return a == b
    if op == "!=":
        return a != b
    if op == ">":
        return a > b
    if op == "<":
        return a < b
    if op == ">=":
        return a >= b
    if op == "<=":
        return a <= b
    if op == "in":
        return a in b
    if op == "not in":
        return a not in b
    raise AssertionError(op)


def route(prog, env):
    """the return statement selected by reading the conditional as nested if / else if / else,
    or None (unroutable).  A nested conditional that selects nothing selects nothing."""

    def cond(c):
        if c[0] == "ret":
            return c
        if pred_value(c[1], env):
            return cond(c[2])
        return sub(c[3])

    def sub(s):
        if s is None:
            return None
        if s[0] == "else":
            return cond(s[1])
        if pred_value(s[1], env):
            return cond(s[2])
        return sub(s[3])

    return cond(prog.cond)


def published_position(salt, splitters, env):
    """first 32 bits of MD5 of UTF-8 of salt + str() of splitter values in name order"""
    names = sorted(set(splitters))
    key = (salt or "") + "".join(str(env[n]) for n in names)
    return int.from_bytes(hashlib.md5(key.encode("utf-8")).digest()[:4], "big")


def weight_fraction(wtext):
    return Fraction(Decimal(wtext))


def spec_indices(weights, h):
    """indices the interval rule allows for position h (exact rationals); more than one only
    when h is within one grid point of a boundary and the weights are not all integers below 2^53 in total"""
    ws = [weight_fraction(w) if isinstance(w, str) else Fraction(w) for w in weights]
    total = sum(ws)
    if total <= 0:
        return None
    acc = Fraction(0)
    x = Fraction(h) * total
    exact = None
    allowed = set()
    bounds = []
    for i, w in enumerate(ws):
        lo = acc
        acc += w
        bounds.append(acc)
        if lo * 2 ** 32 <= x < acc * 2 ** 32 and exact is None:
            exact = i
    if exact is None:
        exact = len(ws) - 1
    allowed.add(exact)
    # "exact in binary64": integer weights whose running totals stay below 2^53 (then every sum and product the code forms is exact)
    all_int = all(w.denominator == 1 for w in ws) and total < 2 ** 53
    if not all_int:
        # within one grid point of a boundary: the neighbouring non-empty group is tolerated
        for i, b in enumerate(bounds[:-1]):
            if abs(x - b * 2 ** 32) <= total:
                # groups adjacent to boundary i with positive weight
                j = i
                while j >= 0 and ws[j] == 0:
                    j -= 1
                k = i + 1
                while k < len(ws) and ws[k] == 0:
                    k += 1
                if j >= 0:
                    allowed.add(j)
                if k < len(ws):
                    allowed.add(k)
    return exact, allowed


def spec_run(prog, env):
    """expected outcome of ExperimentEvaluator(text)(**env) by the reference semantics:
    ('group', allowed_values) | ('unroutable',) | ('missing',) | ('typeerror',) | ('random', values) | ('valueerror',)"""
    declared = set(prog.cond_fields()) | set(prog.splitters or [])
    if any(f not in env for f in declared):
        return ("missing",)
    try:
        r = route(prog, env)
    except TypeError:
        return ("typeerror",)
    if r is None:
        return ("unroutable",)
    groups = r[1]
    values = [lit.value for lit, _ in groups]
    weights = [w for _, w in groups]
    if not prog.splitters:
        return ("random", [v for v, w in zip(values, weights) if weight_fraction(w) > 0])
    if sum(weight_fraction(w) for w in weights) <= 0:
        return ("valueerror",)
    try:
        h = published_position(prog.salt.value if prog.salt is not None else None, prog.splitters, env)
    except ValueError:
        return ("unprintable",)       # a ROUTED unit whose splitter value str() refuses (int beyond the digit limit): finding family K3
    except UnicodeEncodeError:
        return ("unencodable",)
    exact, allowed = spec_indices(weights, h)
    return ("group", [values[i] for i in sorted(allowed)], values[exact])


# ---------------------------------------------------------------------------
# inputs derived from the program
# ---------------------------------------------------------------------------


def neighbours(lit, rng):
    v = lit.value
    out = [v]
    if lit.kind == "int":
        out += [v - 1, v + 1, float(v) if abs(v) < 2 ** 53 else v, v + 0.5 if abs(v) < 2 ** 40 else v + 1]
    elif lit.kind == "float":
        out += [math.nextafter(v, math.inf), math.nextafter(v, -math.inf), v + 1.0, v - 1.0]
        if v == int(v) and abs(v) < 2 ** 60:
            out.append(int(v))
    else:
        out += [v + "x", v[:-1] if v else "a", v.upper(), "", v + "\u0301", "z" + v]
        # the number a numeric-looking string could be confused with
        try:
            out.append(float(v))
            out.append(int(float(v)))
        except (ValueError, OverflowError):
            pass
    return out


def rand_value(tp, rng):
    if tp == "int":
        return rng.choice([0, 1, -1, 7, 18, 100, rng.randint(-10 ** 6, 10 ** 6), 2 ** 53 + 1, 10 ** 30])
    if tp == "float":
        return rng.choice([0.0, -0.0, 0.5, 1.5, -2.25, 1e-9, 1e300, rng.random() * 100, float(rng.randint(-50, 50))])
    if tp == "num":
        return rng.choice([0, 1, 2.5, -1, True, False, rng.randint(-100, 100), rng.random()])
    if tp == "str":
        return rand_string(rng, 6)
    # any
    if rng.random() < 0.08:
        # composite ids: str() of a tuple is what reaches the key — a 1-tuple is not its member, any length is an id
        return rng.choice([(1,), ("u1",), (), (1, 2), ("a", 2, 3.5), ((1,), "x"), ("it's",), ('say "hi"', 1), ("a\\b",), ("é", "\x00"), (("x'",), 2.5), (None, True)])
    return rng.choice([None, True, False, 0, 1, -1, 2 ** 70, 0.1, float("nan"), float("inf"), -0.0, "", "u1", "josé",
                       "\x00", "a" * 300, rand_string(rng), rng.randint(0, 10 ** 9), str(rng.randint(0, 10 ** 9)),
                       "user_%d" % rng.randint(0, 10 ** 6)])


def gen_env(prog, rng):
    env = {}
    for f, tp in prog.fields.items():
        lits = prog.literals_for(f)
        if lits and rng.random() < 0.75:
            lit = rng.choice(lits)
            cands = neighbours(lit, rng)
            kinds = {l.kind == "str" for l in lits}
            # keep type-compatible with the field (a field compared with both strings and numbers takes both)
            if len(kinds) == 2:
                pass
            elif tp == "str":
                cands = [c for c in cands if isinstance(c, str)]
            elif tp in ("int", "float", "num"):
                cands = [c for c in cands if isinstance(c, (int, float)) and not isinstance(c, bool)]
            if cands:
                env[f] = rng.choice(cands)
                continue
        env[f] = rand_value(tp, rng)
    return env
